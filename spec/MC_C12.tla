------------------------------- MODULE MC_C12 -------------------------------
(* Bounded design model for C12: directories of 1..MaxN children in which one child        *)
(* (singles) or two children (pairs) cannot be served, at every position, for every fault   *)
(* kind, next to healthy children of every shape (regular file, directory, HTML file, a     *)
(* name with a lone backslash, a directory `x.`), listed through each handler list, from    *)
(* /d, the root and a directory whose own name poisons every child selector (/x.).          *)
(* TLC runs the pipeline of Dir child by child and checks Robust on every outcome; the      *)
(* initial states are the replay cases for the real server (binding B2).                    *)
EXTENDS Dir, MC_C07_data, TLC

CONSTANTS Scopes,       \* set of [sel, list, maxn, pairn, pairrots, sidecars]: directories, sizes, pairs up to which size
          OrderModes,   \* subset of {"sorted", "reversed"}: the OS enumeration orders driven
          Protos,       \* protocol forms the listing is requested through
          DotFaults     \* include dot-named special files (UMN link-processing path)

VARIABLES ord, proto
mcvars == <<dvars, ord, proto>>

K(n, kind, fault) == [name |-> n, kind |-> kind, fault |-> fault, errno |-> "", capx |-> FALSE, blocks |-> <<>>]
KE(n, kind, fault, en) == [K(n, kind, fault) EXCEPT !.errno = en]

Pool   == <<"b", "h", "n", "t">>                 \* base names: position i sorts i-th
Shapes == <<"txt", "dir", "html", "bs", "xdot">>
Rotations == 0..4
ShapeAt(i, r) == Shapes[((i + r) % 5) + 1]
\* name alphabet: every child name of a case (healthy AND unservable) carries the decoration of the case's rotation:
\* format metacharacters of %-formatting and str.format, so that a name is never used as a format string unnoticed
Decs == <<"", "%", "%s", "{0}", "{}">>
Base(i, r) == Pool[i] \o Decs[r + 1]
HealthyKid(i, r) ==
    LET s == ShapeAt(i, r)  b == Base(i, r) IN
    CASE s = "txt"  -> K(b \o ".txt", "file", "none")
      [] s = "dir"  -> K(b, "dir", "none")
      [] s = "html" -> K(b \o ".html", "file", "none")
      [] s = "bs"   -> K(b \o "\\x", "file", "none")          \* one backslash: accepted by the filter
      [] s = "xdot" -> K(b \o ".", "dir", "none")             \* directory `x.` seen from its parent

\* fault kinds x errno x which probe is hit: the child's own stat (broken links: ENOENT / ELOOP / ENOTDIR for real;
\* injected EACCES / EIO / ENAMETOOLONG), the open by a sniffing handler, the SECONDARY probes of paths under a
\* directory child (child/gophermap, child/new, child/cur: esub)
Faulty(i, r) ==
    LET b == Base(i, r) IN
    { K(b, "dangling", "none"), K(b, "loop", "none"), K(b, "thrufile", "none"), K(b, "fifo", "none"), K(b, "socket", "none"),
      K(b \o ".txt", "file", "vanish1"), K(b, "dir", "vanish1"), K(b \o ".html", "file", "vanish1"),
      K(b \o ".txt", "file", "vanish2"), K(b \o ".html", "file", "vanish2"),
      KE(b \o ".txt", "file", "estat", "EACCES"), KE(b, "dir", "estat", "EACCES"),
      KE(b \o ".txt", "file", "estat", "EIO"), KE(b, "dir", "estat", "ENAMETOOLONG"),
      KE(b \o ".txt", "file", "eopen", "EACCES"), KE(b \o ".html", "file", "eopen", "EACCES"),
      KE(b, "dir", "esub", "EACCES"), KE(b, "dir", "esub", "EIO"),
      K(b \o "..x", "file", "none"), K(b \o "..x", "dir", "none"),
      K(b \o ".\\x", "file", "none"), K(b \o "\\\\x", "file", "none") }
\* dot-named faulty entries: UMN's link-file probe (vfs.isfile) and read (singles only)
DotFaulty(i, r) ==
    LET b == Base(i, r) IN
    IF DotFaults THEN { K("." \o b, "dangling", "none"), K("." \o b, "loop", "none"), K("." \o b, "thrufile", "none"),
                        K("." \o b, "socket", "none"), K("." \o b, "fifo", "none"),
                        K("." \o b, "file", "vanish1"), KE("." \o b, "file", "estat", "EACCES") }
    ELSE {}

Singles(n, r) == UNION {{ {[i |-> a, k |-> ka]} : ka \in Faulty(a, r) \cup DotFaulty(a, r)} : a \in 1..n}
Pairs(n, r)   == UNION {UNION {{ {[i |-> a, k |-> ka], [i |-> b, k |-> kb]} : ka \in Faulty(a, r), kb \in Faulty(b, r)}
                               : b \in (a + 1)..n} : a \in 1..n}
FaultSets(n, r, s) == {{}} \cup Singles(n, r) \cup (IF n <= s.pairn /\ r \in s.pairrots THEN Pairs(n, r) ELSE {})

\* side-car-shaped unservable children: a child whose name is <a healthy sibling's name> + <side-car extension> and that
\* is NOT a regular file (populating the sibling's entry looks at exactly that path)
SidecarKinds == {"fifo", "dangling", "loop", "socket", "dir"}
SidecarCases == {{K("b.txt", "file", "none"), K("b.txt" \o DataEaExts[e], kd, "none")} : e \in DOMAIN DataEaExts, kd \in SidecarKinds}
                \cup {{K("b.txt", "file", "none"), K("h", "dirabs", "none")}}

\* link-file family (UMN): two or three dot link files, each DEFINING a menu item of its own; one of them cannot be
\* read although it passed the isfile() probe of the enumeration loop: removed before the open (vanish2) or the open
\* fails with EACCES / EIO - the unreadable one being the first, the middle or the last in name order
Item(t) == [merge |-> TRUE, tgt |-> "item-" \o t, title |-> "Item " \o t, num |-> 0, x |-> FALSE, host |-> ""]
LF(n, t, fault, en) == [KE(n, "file", fault, en) EXCEPT !.blocks = <<Item(t)>>]
LinkNames == {<<".alpha", ".mid", ".omega">>, <<".Links", ".names">>}
OpenFaults == {<<"vanish2", "">>, <<"eopen", "EACCES">>, <<"eopen", "EIO">>}
LinkCases ==
    UNION {{ {K("b.txt", "file", "none")} \cup {LF(ns[q], ns[q], IF q = bad THEN of[1] ELSE "none", IF q = bad THEN of[2] ELSE "") : q \in DOMAIN ns}
               : bad \in 0..Len(ns), of \in OpenFaults} : ns \in LinkNames}

KidsFor(n, r, F) ==
    {IF \E x \in F : x.i = q THEN (CHOOSE x \in F : x.i = q).k ELSE HealthyKid(q, r) : q \in 1..n}

MkDir(sel, lst, kids) ==
    [sb |-> IF sel = "/" THEN "" ELSE sel, handler |-> DataLists[lst].handler, ign |-> "shipped",
     sniff |-> [mbox |-> DataLists[lst].mbox, html |-> DataLists[lst].html], kids |-> kids]

\* a fault at the second touch only makes sense where the chain touches the child twice
ValidCase(dd) == \A k \in dd.kids : k.fault \in {"vanish2", "eopen"} => NTouches(dd, k) = 2

RECURSIVE SetAsSeq(_)
SetAsSeq(S) == IF S = {} THEN <<>> ELSE LET x == CHOOSE y \in S : TRUE IN <<x>> \o SetAsSeq(S \ {x})
SortedNames(dd) == SortStrSeq(SetAsSeq(Names(dd)))
Reverse(s) == [i \in DOMAIN s |-> s[Len(s) + 1 - i]]
OrderFor(dd, m) == IF m = "reversed" THEN Reverse(SortedNames(dd)) ELSE SortedNames(dd)

\* singles (and the fault-free controls) are driven under every enumeration order of OrderModes,
\* pairs under the sorted one
Init == \/ \E s \in Scopes : \E n \in 1..s.maxn : \E r \in Rotations : \E F \in FaultSets(n, r, s) :
            LET dd == MkDir(s.sel, s.list, KidsFor(n, r, F)) IN
            /\ ValidCase(dd) /\ DirInit(dd)
            /\ ord \in (IF Cardinality(F) >= 2 THEN {"sorted"} ELSE OrderModes)
            /\ proto = "-"
        \/ \E s \in {x \in Scopes : x.sidecars /\ DataLists[x.list].handler = "umn"} : \E ks \in LinkCases :
            /\ DirInit(MkDir(s.sel, s.list, ks)) /\ ord \in OrderModes
            /\ proto = "-"
        \/ \E s \in {x \in Scopes : x.sidecars} : \E ks \in SidecarCases :
            /\ DirInit(MkDir(s.sel, s.list, ks)) /\ ord = "sorted"
            /\ proto = "-"

Respond(pr) == pc = "done" /\ proto = "-" /\ proto' = pr /\ UNCHANGED <<dvars, ord>>

Next == \/ pc = "start" /\ ListDir(OrderFor(d, ord)) /\ UNCHANGED <<ord, proto>>
        \/ DirStep /\ UNCHANGED <<ord, proto>>
        \/ \E pr \in Protos : Respond(pr)
Spec == Init /\ [][Next]_mcvars

\* generation run: the initial states only (each one is a replay case)
GenSpec == Init /\ [][FALSE]_mcvars

\* pairn = 2: directories that consist ONLY of unservable children (one, and two of them) are part of the quick tier;
\* pairrots: the rotations (= name decorations) under which pairs are driven; sidecars: the side-car-shaped family
\* and (UMN lists) the link-file family
ScopesQuick    == {[sel |-> "/d", list |-> "default", maxn |-> 3, pairn |-> 2, pairrots |-> {1}, sidecars |-> TRUE],
                   [sel |-> "/x.", list |-> "default", maxn |-> 1, pairn |-> 0, pairrots |-> {}, sidecars |-> FALSE]}
ScopesThorough == {[sel |-> "/d", list |-> "default", maxn |-> 4, pairn |-> 4, pairrots |-> {0, 1, 3}, sidecars |-> TRUE],
                   [sel |-> "/d", list |-> "dir", maxn |-> 3, pairn |-> 3, pairrots |-> {0, 2}, sidecars |-> TRUE],
                   [sel |-> "/", list |-> "default", maxn |-> 3, pairn |-> 0, pairrots |-> {}, sidecars |-> TRUE],
                   [sel |-> "/x.", list |-> "default", maxn |-> 2, pairn |-> 0, pairrots |-> {}, sidecars |-> FALSE]}

WellFormed == WellFormedDir(d)
\* reachability witnesses (each must be VIOLATED by TLC: vacuity guard)
W_NeverOmits == ~(pc = "done" /\ p.out.kind = "ok" /\ Len(p.out.listing) < Cardinality(Visible(d)))
=============================================================================
