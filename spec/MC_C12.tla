------------------------------- MODULE MC_C12 -------------------------------
(* Bounded design model for C12: directories of 1..MaxN children in which one child        *)
(* (singles) or two children (pairs) cannot be served, at every position, for every fault   *)
(* kind, next to healthy children of every shape (regular file, directory, HTML file, a     *)
(* name with a lone backslash, a directory `x.`), listed through each handler list, from    *)
(* /d, the root and a directory whose own name poisons every child selector (/x.).          *)
(* TLC runs the pipeline of Dir child by child and checks Robust on every outcome; the      *)
(* initial states are the replay cases for the real server (binding B2).                    *)
EXTENDS Dir, MC_C07_data, TLC

CONSTANTS Scopes,       \* set of [sel, list, maxn, pairn]: which directories, sizes, pairs up to which size
          OrderModes,   \* subset of {"sorted", "reversed"}: the OS enumeration orders driven
          Protos,       \* protocol forms the listing is requested through
          DotFaults     \* include dot-named special files (UMN link-processing path)

VARIABLES ord, proto
mcvars == <<dvars, ord, proto>>

K(n, kind, fault) == [name |-> n, kind |-> kind, fault |-> fault, capx |-> FALSE, blocks |-> <<>>]

Pool   == <<"b", "h", "n", "t">>                 \* base names: position i sorts i-th
Shapes == <<"txt", "dir", "html", "bs", "xdot">>
Rotations == 0..4
ShapeAt(i, r) == Shapes[((i + r) % 5) + 1]
HealthyKid(i, r) ==
    LET s == ShapeAt(i, r)  b == Pool[i] IN
    CASE s = "txt"  -> K(b \o ".txt", "file", "none")
      [] s = "dir"  -> K(b, "dir", "none")
      [] s = "html" -> K(b \o ".html", "file", "none")
      [] s = "bs"   -> K(b \o "\\x", "file", "none")          \* one backslash: accepted by the filter
      [] s = "xdot" -> K(b \o ".", "dir", "none")             \* directory `x.` seen from its parent

Faulty(i) ==
    LET b == Pool[i] IN
    { K(b, "dangling", "none"), K(b, "fifo", "none"), K(b, "socket", "none"),
      K(b \o ".txt", "file", "vanish1"), K(b, "dir", "vanish1"), K(b \o ".html", "file", "vanish1"),
      K(b \o ".txt", "file", "vanish2"), K(b \o ".html", "file", "vanish2"),
      K(b \o ".txt", "file", "estat"), K(b, "dir", "estat"),
      K(b \o ".txt", "file", "eopen"), K(b \o ".html", "file", "eopen"),
      K(b \o "..x", "file", "none"), K(b \o "..x", "dir", "none"),
      K(b \o ".\\x", "file", "none"), K(b \o "\\\\x", "file", "none") }
\* dot-named special files: UMN's link-processing path (singles only)
DotFaulty(i) ==
    LET b == Pool[i] IN
    IF DotFaults THEN { K("." \o b, "dangling", "none"), K("." \o b, "socket", "none"),
                        K("." \o b, "fifo", "none"), K("." \o b, "file", "vanish1") }
    ELSE {}

Singles(n) == UNION {{ {[i |-> a, k |-> ka]} : ka \in Faulty(a) \cup DotFaulty(a)} : a \in 1..n}
Pairs(n)   == UNION {UNION {{ {[i |-> a, k |-> ka], [i |-> b, k |-> kb]} : ka \in Faulty(a), kb \in Faulty(b)}
                            : b \in (a + 1)..n} : a \in 1..n}
FaultSets(n, pairn) == {{}} \cup Singles(n) \cup (IF n <= pairn THEN Pairs(n) ELSE {})

KidsFor(n, r, F) ==
    {IF \E x \in F : x.i = q THEN (CHOOSE x \in F : x.i = q).k ELSE HealthyKid(q, r) : q \in 1..n}

MkDir(sel, lst, kids) ==
    [sb |-> IF sel = "/" THEN "" ELSE sel, handler |-> DataLists[lst].handler, ign |-> "shipped",
     sniff |-> [mbox |-> DataLists[lst].mbox, html |-> DataLists[lst].html], kids |-> kids]

\* a fault at the second touch only makes sense where the chain touches the child twice
ValidCase(dd) == \A k \in dd.kids : k.fault \in {"vanish2", "eopen"} => NTouches(dd, k) = 2

RECURSIVE SetAsSeq(_)
SetAsSeq(S) == IF S = {} THEN <<>> ELSE LET x == CHOOSE y \in S : TRUE IN <<x>> \o SetAsSeq(S \ {x})
SortedNames(dd) == SortStrSeq(SetAsSeq(Names(dd)))
Reverse(s) == [i \in DOMAIN s |-> s[Len(s) + 1 - i]]
OrderFor(dd, m) == IF m = "reversed" THEN Reverse(SortedNames(dd)) ELSE SortedNames(dd)

\* singles (and the fault-free controls) are driven under every enumeration order of OrderModes,
\* pairs under the sorted one
Init == \E s \in Scopes : \E n \in 1..s.maxn : \E r \in Rotations : \E F \in FaultSets(n, s.pairn) :
            LET dd == MkDir(s.sel, s.list, KidsFor(n, r, F)) IN
            /\ ValidCase(dd) /\ DirInit(dd)
            /\ ord \in (IF Cardinality(F) >= 2 THEN {"sorted"} ELSE OrderModes)
            /\ proto = "-"

Respond(pr) == pc = "done" /\ proto = "-" /\ proto' = pr /\ UNCHANGED <<dvars, ord>>

Next == \/ pc = "start" /\ ListDir(OrderFor(d, ord)) /\ UNCHANGED <<ord, proto>>
        \/ DirStep /\ UNCHANGED <<ord, proto>>
        \/ \E pr \in Protos : Respond(pr)
Spec == Init /\ [][Next]_mcvars

\* generation run: the initial states only (each one is a replay case)
GenSpec == Init /\ [][FALSE]_mcvars

\* pairn = 2: directories that consist ONLY of unservable children (one, and two of them) are part of the quick tier
ScopesQuick    == {[sel |-> "/d", list |-> "default", maxn |-> 3, pairn |-> 2],
                   [sel |-> "/x.", list |-> "default", maxn |-> 1, pairn |-> 0]}
ScopesThorough == {[sel |-> "/d", list |-> "default", maxn |-> 4, pairn |-> 4],
                   [sel |-> "/d", list |-> "dir", maxn |-> 3, pairn |-> 3],
                   [sel |-> "/", list |-> "default", maxn |-> 3, pairn |-> 0],
                   [sel |-> "/x.", list |-> "default", maxn |-> 2, pairn |-> 0]}

WellFormed == WellFormedDir(d)
\* reachability witnesses (each must be VIOLATED by TLC: vacuity guard)
W_NeverOmits == ~(pc = "done" /\ p.out.kind = "ok" /\ Len(p.out.listing) < Cardinality(Visible(d)))
=============================================================================
