--------------------------- MODULE MC_C04_overlap ---------------------------
(* C04, two transfers at once in one process (servertype = ThreadingTCPServer).                *)
(*                                                                                            *)
(* handlers/base.py VFS_Real.copyto: `data = rfile.read(4096)` binds a NEW immutable block    *)
(* per iteration; `fd.write(data)` (socket sendall) may give the processor to another handler  *)
(* thread before the block has been taken by the kernel.  A worker therefore goes              *)
(*     Read(w, k)  -> held[w] = the k positions just read (a value of its own)                *)
(*     Write(w)    -> out[w] grows by held[w]; held[w] is dropped                             *)
(* and any step of the other worker may fall between the two.  Because a block is a value     *)
(* private to the iteration that read it, every interleaving delivers every file exactly.     *)
(* The binding replays this schedule shape on the real copy loop: the in-memory connection of  *)
(* request A runs a complete request B (another file) INSIDE each of A's write() calls, before *)
(* the written object is consumed (harness/c04.py transport "overlap"); TraceC04 judges A's    *)
(* body as for any other transfer (BodyExact, LenTruthful).                                   *)
EXTENDS Naturals, Sequences, FiniteSets
CONSTANTS B, MaxN
VARIABLES n, pos, held, out, done
vars == <<n, pos, held, out, done>>
W == {1, 2}
Min(a, b) == IF a < b THEN a ELSE b
Blk(w, p, k) == [j \in 1..k |-> <<w, p + j>>]           \* content of file w at positions p+1 .. p+k

Init == /\ n \in [W -> 0..MaxN]
        /\ pos = [w \in W |-> 0] /\ held = [w \in W |-> <<>>] /\ out = [w \in W |-> <<>>] /\ done = [w \in W |-> FALSE]
Read(w, k) == /\ ~done[w] /\ held[w] = <<>> /\ pos[w] < n[w] /\ k \in 1..Min(B, n[w] - pos[w])
              /\ held' = [held EXCEPT ![w] = Blk(w, pos[w], k)] /\ pos' = [pos EXCEPT ![w] = @ + k]
              /\ UNCHANGED <<n, out, done>>
Write(w) == /\ held[w] # <<>>
            /\ out' = [out EXCEPT ![w] = @ \o held[w]] /\ held' = [held EXCEPT ![w] = <<>>]
            /\ UNCHANGED <<n, pos, done>>
EOFStep(w) == /\ ~done[w] /\ held[w] = <<>> /\ pos[w] = n[w]
              /\ done' = [done EXCEPT ![w] = TRUE] /\ UNCHANGED <<n, pos, held, out>>
Next == \E w \in W : Write(w) \/ EOFStep(w) \/ \E k \in 1..B : Read(w, k)
Spec == Init /\ [][Next]_vars

\* every interleaving delivers each file exactly, and what has been delivered so far is always a prefix of it
OverlapExact == \A w \in W : done[w] => out[w] = Blk(w, 0, n[w])
OverlapPrefix == \A w \in W : out[w] \o held[w] = Blk(w, 0, pos[w])
=============================================================================
