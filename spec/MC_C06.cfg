SPECIFICATION Spec
CONSTANTS
  ProtoOrder <- K_ProtoOrder
  WapTop = "/wap"
  QueryPrefix = "/GEMINI-QUERY"
  ServerName = "localhost"
  ServerPort = 7070
  HiCode = "FF"
  Fixes = {"wap", "gemini", "mapfile", "spartan"}
  LocalNames <- K_LocalNames
  RemoteSels <- K_RemoteSels
  Hosts <- K_Hosts
  Ports = {0, 70, 7070}
  UrlSels <- K_UrlSels
  SearchTokens <- K_SearchTokens
  MaxSearch = 2
  SearchSels <- K_SearchSels
  SearchShapes <- K_SearchShapes
  DeepNames6 <- K_DeepNames
  Views6 <- K_Views6
  Kinds6 <- K_Kinds6
  Inner6 <- K_Inner6
  HLs6 <- K_HLs
INVARIANT EntriesAgree
INVARIANT SearchesArrive
INVARIANT TreesAgree
INVARIANT OnlyKnownCaptures
CHECK_DEADLOCK FALSE
