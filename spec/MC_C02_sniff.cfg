SPECIFICATION Spec
INVARIANT SniffExact
INVARIANT SniffPure
PROPERTY PureStep
CHECK_DEADLOCK FALSE
