-------------------------------- MODULE TALVM --------------------------------
(* simpleTAL.TemplateInterpreter as a state machine: ONE ACTION PER OPCODE HANDLER (cmdXxx),  *)
(* over the interpreter's real registers and the Context's stacks.  The whole machine state  *)
(* is the record `st`:                                                                       *)
(*   pc  programCounter        ss  scopeStack            mf/mb movePCForward/Back (-1=None)  *)
(*   ot  outputTag             oa  originalAttributes    ca  currentAttributes               *)
(*   rac repeatAttributesCopy  rv  repeatVariable        tc  tagContent                      *)
(*   lvd localVarsDefined      sp  slotParameters        cs  currentSlots                    *)
(*   ps  programStack          plen programLength of the running execute()                   *)
(*   ret an inline expansion (macro, slot, template in content) has just returned and the    *)
(*       rest of cmdEndTagEndScope is pending                                                *)
(*   g l ls rs rm  Context.globals / locals / localStack / repeatStack / repeatMap           *)
(*   py  Context.allowPythonPath     out  the output file      err  exception that escaped   *)
(*   dw  (history) every write of a computed value: [w |-> "text" | "raw" | "attr", s |-> the *)
(*       characters written] - what the C18 clauses Escaped / AttrEscaped speak about         *)
(* The program (prog, sym, macros) is fixed per case; pc and symbol-table values are         *)
(* 0-based locations as in the code.                                                         *)
EXTENDS TALCompile

VARIABLES st, prog, sym, macros

NoRV == [on |-> FALSE, q |-> <<>>, pos |-> 0, it |-> FALSE]
NoTC == [on |-> FALSE, st |-> 0, v |-> None]
NoSlots == <<>>                       \* slot maps are sequences of [name, start, endsym]

VMInit(g0, py, plen) ==
    [pc |-> 0, ss |-> <<>>, mf |-> 0 - 1, mb |-> 0 - 1, ot |-> 1, oa |-> <<>>, ca |-> <<>>, rac |-> <<>>,
     rv |-> NoRV, tc |-> NoTC, lvd |-> 0, sp |-> NoSlots, cs |-> NoSlots, ps |-> <<>>, plen |-> plen, ret |-> FALSE,
     g |-> g0, l |-> EmptyF, ls |-> <<>>, rs |-> <<>>, rm |-> EmptyF, py |-> py, out |-> "", err |-> "", dw |-> <<>>]

Cx(s) == [g |-> s.g, l |-> s.l, rm |-> s.rm, at |-> s.oa, py |-> s.py]
Cur(s) == prog[s.pc + 1]
Running(s) == s.err = "" /\ ~s.ret /\ s.pc < s.plen
Halted(s) == s.err # "" \/ (~s.ret /\ s.pc >= s.plen /\ s.ps = <<>>)

PushLocals(s) == [s EXCEPT !.ls = Append(@, s.l)]                 \* locals.copy(): values are immutable
PopLocals(s) == [s EXCEPT !.l = s.ls[Len(s.ls)], !.ls = SubSeq(@, 1, Len(@) - 1)]
ScopeEntry(s) == [t |-> "scope", mf |-> s.mf, mb |-> s.mb, ot |-> s.ot, oa |-> s.oa, ca |-> s.ca, rv |-> s.rv,
                  tc |-> s.tc, lvd |-> s.lvd]
RacEntry(s) == [t |-> "rac", mf |-> 0 - 1, mb |-> 0 - 1, ot |-> 0, oa |-> <<>>, ca |-> s.rac, rv |-> NoRV,
                tc |-> NoTC, lvd |-> 0]
Top(q) == q[Len(q)]
Pop(q) == SubSeq(q, 1, Len(q) - 1)

\* ---- cmdStartScope ----------------------------------------------------------------------------
DoStartScope(s, c) ==
    [s EXCEPT !.ss = Append(@, ScopeEntry(s)), !.mf = 0 - 1, !.mb = 0 - 1, !.ot = 1, !.oa = c.oa, !.ca = c.ca,
              !.rv = NoRV, !.tc = NoTC, !.lvd = 0, !.pc = @ + 1]

\* ---- cmdDefine: left to right, the first local define pushes the locals ------------------------
RECURSIVE DefLoop(_, _, _, _)
DefLoop(s, items, i, found) ==
    IF i > Len(items) THEN [s EXCEPT !.lvd = found, !.pc = @ + 1]
    ELSE LET it == items[i]
             v  == EvalTop(it.e, Cx(s))
         IN IF it.g THEN DefLoop([s EXCEPT !.g = Put(@, it.name, v)], items, i + 1, found)
            ELSE LET s1 == IF found = 0 THEN PushLocals(s) ELSE s
                 IN DefLoop([s1 EXCEPT !.l = Put(@, it.name, v)], items, i + 1, 1)
DoDefine(s, c) == DefLoop(s, c.items, 1, 0)

\* ---- cmdCondition -----------------------------------------------------------------------------
DoCondition(s, c) ==
    IF Truthy(EvalTop(c.e, Cx(s))) THEN [s EXCEPT !.pc = @ + 1]
    ELSE [s EXCEPT !.ot = 0, !.tc = NoTC, !.pc = sym[c.sym]]

\* ---- cmdRepeat --------------------------------------------------------------------------------
CharSeq(str) == [i \in 1..Len(str) |-> Str(TX!Ch(str, i))]
SkipRepeat(s, c) == [s EXCEPT !.ot = 0, !.pc = sym[c.sym]]
DoRepeat(s, c) ==
    IF s.rv.on
    THEN \* part way through: restore the attributes, forget content and forward jump, step on
         LET s1 == [s EXCEPT !.ca = s.rac, !.ot = 1, !.tc = NoTC, !.mf = 0 - 1] IN
         IF s.rv.pos + 1 >= Len(s.rv.q)
         THEN \* finished: removeRepeat, popLocals, no more looping, skip the final tag and content
              [PopLocals(s1) EXCEPT !.rv = NoRV, !.rm = Top(s.rs), !.rs = Pop(s.rs), !.mb = 0 - 1, !.tc = NoTC,
                                    !.ot = 0, !.pc = sym[c.sym], !.rac = Top(s.ss).ca, !.ss = Pop(s.ss)]
         ELSE LET r == [s.rv EXCEPT !.pos = @ + 1] IN
              [s1 EXCEPT !.rv = r, !.rm = Put(@, c.name, RV(r.q, r.pos, r.it)),
                         !.l = Put(@, c.name, r.q[r.pos + 1]), !.pc = @ + 1]
    ELSE LET v == EvalTop(c.e, Cx(s)) IN
         IF v.k = "default" THEN [s EXCEPT !.pc = @ + 1]                       \* leave everything untouched
         ELSE IF v.k \in {"str", "seq", "map"} /\ ~Truthy(v) THEN SkipRepeat(s, c)   \* len() = 0
         ELSE IF v.k \notin {"str", "seq", "map", "iter"} THEN SkipRepeat(s, c)     \* a plain object
         \* no first value: an iterator exhausted before it started (IndexError), or a non-empty mapping, which has
         \* len() but no item 0 (KeyError; repaired in the tree: "tal:repeat over a mapping produces nothing")
         ELSE IF v.k = "map" \/ (v.k = "iter" /\ v.q = <<>>) THEN [SkipRepeat(s, c) EXCEPT !.rv = NoRV]
         ELSE LET items == IF v.k = "str" THEN CharSeq(v.s) ELSE v.q
                  r     == [on |-> TRUE, q |-> items, pos |-> 0, it |-> v.k = "iter"]
                  s1    == PushLocals([s EXCEPT !.rs = Append(@, s.rm), !.rm = Put(@, c.name, RV(items, 0, r.it))])   \* addRepeat
              IN [s1 EXCEPT !.rv = r, !.mb = s.pc, !.l = Put(@, c.name, items[1]),
                            !.ss = Append(@, RacEntry(s)), !.rac = s.ca, !.pc = @ + 1]

\* ---- cmdContent (content and replace) ------------------------------------------------------------
DoContent(s, c) ==
    LET v == EvalTop(c.e, Cx(s)) IN
    IF v.k = "none" THEN [s EXCEPT !.ot = IF c.f1 = 1 THEN 0 ELSE @, !.mf = sym[c.sym], !.pc = @ + 1]
    ELSE IF v.k # "default"
    THEN [s EXCEPT !.ot = IF c.f1 = 1 THEN 0 ELSE @, !.tc = [on |-> TRUE, st |-> c.f2, v |-> v],
                   !.mf = sym[c.sym], !.pc = @ + 1]
    ELSE [s EXCEPT !.pc = @ + 1]

\* ---- cmdAttributes ------------------------------------------------------------------------------
RECURSIVE AttLoop(_, _, _, _, _)
AttLoop(s, items, i, new, remove) ==
    IF i > Len(items)
    THEN [s EXCEPT !.ca = new \o SelectSeq(s.ca, LAMBDA a : a.n \notin remove), !.pc = @ + 1]
    ELSE LET v == EvalTop(items[i].e, Cx(s)) IN
         IF v.k = "none" THEN AttLoop(s, items, i + 1, new, remove \cup {items[i].name})
         ELSE IF v.k # "default"
         THEN AttLoop(s, items, i + 1, Append(new, At(items[i].name, PyStr(v))), remove \cup {items[i].name})
         ELSE AttLoop(s, items, i + 1, new, remove)
DoAttributes(s, c) == AttLoop(s, c.items, 1, <<>>, {})

\* ---- cmdOmitTag ---------------------------------------------------------------------------------
DoOmitTag(s, c) == [s EXCEPT !.ot = IF Truthy(EvalTop(c.e, Cx(s))) THEN 0 ELSE @, !.pc = @ + 1]

\* ---- cmdOutputStartTag / cmdOutput / cmdNoOp ------------------------------------------------------
DoStartTag(s, c) ==
    [s EXCEPT !.out = IF s.ot = 1 THEN @ \o TagText(c.tag, s.ca, c.f1 = 1 /\ ~s.tc.on) ELSE @,
              !.dw = IF s.ot = 1 THEN @ \o [i \in DOMAIN s.ca |-> [w |-> "attr", s |-> EscAttr(s.ca[i].v)]] ELSE @,
              !.pc = IF s.mf # 0 - 1 THEN s.mf ELSE @ + 1]
DoOutput(s, c) == [s EXCEPT !.out = @ \o c.text, !.pc = @ + 1]
DoNoOp(s, c) == [s EXCEPT !.pc = @ + 1]

\* ---- cmdUseMacro / cmdDefineSlot -------------------------------------------------------------------
DoUseMacro(s, c) ==
    LET v == EvalTop(c.e, Cx(s)) IN
    IF v.k = "none" THEN [s EXCEPT !.ot = 0, !.mf = sym[c.sym], !.pc = @ + 1]
    ELSE IF v.k = "macro"          \* NO other TAL/METAL command of the element is evaluated
    THEN [s EXCEPT !.ot = 0, !.sp = c.slots, !.tc = [on |-> TRUE, st |-> 1, v |-> v], !.pc = sym[c.sym]]
    ELSE [s EXCEPT !.pc = @ + 1]
SlotIdx(slots, nm) == {i \in DOMAIN slots : slots[i].name = nm}
DoDefineSlot(s, c) ==
    IF SlotIdx(s.cs, c.name) # {}
    THEN LET sl == s.cs[CHOOSE i \in SlotIdx(s.cs, c.name) : TRUE] IN
         [s EXCEPT !.ot = 0, !.tc = [on |-> TRUE, st |-> 1, v |-> TmplV(sl.name, sl.start, sl.endsym)], !.pc = sym[c.sym]]
    ELSE [s EXCEPT !.pc = @ + 1]

\* ---- cmdEndTagEndScope --------------------------------------------------------------------------
\* the part after the content has been written: end tag, loop back or leave the scope
EndTail(s, c) ==
    LET s1 == [s EXCEPT !.out = IF s.ot = 1 /\ c.f1 = 0 /\ ~(c.f2 = 1 /\ ~s.tc.on) THEN @ \o "</" \o c.tag \o ">" ELSE @,
                        !.ret = FALSE] IN
    IF s1.mb # 0 - 1 THEN [s1 EXCEPT !.pc = s1.mb]
    ELSE LET s2 == IF s1.lvd = 1 THEN PopLocals(s1) ELSE s1
             e  == Top(s2.ss)
         IN [s2 EXCEPT !.mf = e.mf, !.mb = e.mb, !.ot = e.ot, !.oa = e.oa, !.ca = e.ca, !.rv = e.rv, !.tc = e.tc,
                       !.lvd = e.lvd, !.ss = Pop(@), !.pc = @ + 1]
IsTemplate(v) == v.k \in {"macro", "tmpl"}
ExpandsInline(s) == s.tc.on /\ s.tc.st = 1 /\ IsTemplate(s.tc.v)
\* pushProgram + Template.expandInline -> execute(): cleanState and the sub-template's range
DoPush(s) ==
    LET v      == s.tc.v
        start  == IF v.k = "macro" THEN MacroByName(macros, v.s).start ELSE v.n
        endsym == IF v.k = "macro" THEN MacroByName(macros, v.s).endsym ELSE v.q[1].n
        saved  == [pc |-> s.pc, ss |-> s.ss, sp |-> s.sp, cs |-> s.cs, mf |-> s.mf, mb |-> s.mb, ot |-> s.ot, oa |-> s.oa,
                   ca |-> s.ca, rv |-> s.rv, rac |-> s.rac, tc |-> s.tc, lvd |-> s.lvd, plen |-> s.plen]
    IN [s EXCEPT !.ps = Append(@, saved), !.ss = <<>>, !.pc = start, !.mf = 0 - 1, !.mb = 0 - 1, !.ot = 1, !.oa = <<>>,
                 !.ca = <<>>, !.rac = <<>>, !.cs = s.sp, !.rv = NoRV, !.tc = NoTC, !.lvd = 0, !.plen = sym[endsym] + 1]
\* the inner execute() loop ended: popProgram, then "clear the parameters"
DoReturn(s) ==
    LET v == Top(s.ps) IN
    [s EXCEPT !.ps = Pop(@), !.pc = v.pc, !.ss = v.ss, !.sp = NoSlots, !.cs = v.cs, !.mf = v.mf, !.mb = v.mb, !.ot = v.ot,
              !.oa = v.oa, !.ca = v.ca, !.rv = v.rv, !.rac = v.rac, !.tc = v.tc, !.lvd = v.lvd, !.plen = v.plen, !.ret = TRUE]
DoEndTag(s, c) ==
    IF ExpandsInline(s)
    THEN (IF s.tc.v.k = "macro" /\ ~HasMacro(macros, s.tc.v.s) THEN [s EXCEPT !.err = "UnknownMacro"] ELSE DoPush(s))
    ELSE IF s.tc.on
    THEN LET w == IF s.tc.st = 1 THEN PyStr(s.tc.v) ELSE EscText(PyStr(s.tc.v)) IN
         EndTail([s EXCEPT !.out = @ \o w, !.dw = Append(@, [w |-> IF s.tc.st = 1 THEN "raw" ELSE "text", s |-> w])], c)
    ELSE EndTail(s, c)

\* ---- the machine: one action per handler ------------------------------------------------------------
Is(op) == Running(st) /\ Cur(st).op = op
CmdStartScope == Is(TAL_START_SCOPE) /\ st' = DoStartScope(st, Cur(st))
CmdDefine     == Is(TAL_DEFINE) /\ st' = DoDefine(st, Cur(st))
CmdCondition  == Is(TAL_CONDITION) /\ st' = DoCondition(st, Cur(st))
CmdRepeat     == Is(TAL_REPEAT) /\ st' = DoRepeat(st, Cur(st))
CmdContent    == Is(TAL_CONTENT) /\ st' = DoContent(st, Cur(st))
CmdAttributes == Is(TAL_ATTRIBUTES) /\ st' = DoAttributes(st, Cur(st))
CmdOmitTag    == Is(TAL_OMITTAG) /\ st' = DoOmitTag(st, Cur(st))
CmdStartTag   == Is(TAL_STARTTAG) /\ st' = DoStartTag(st, Cur(st))
CmdOutput     == Is(TAL_OUTPUT) /\ st' = DoOutput(st, Cur(st))
CmdNoOp       == Is(TAL_NOOP) /\ st' = DoNoOp(st, Cur(st))
CmdUseMacro   == Is(METAL_USE_MACRO) /\ st' = DoUseMacro(st, Cur(st))
CmdDefineSlot == Is(METAL_DEFINE_SLOT) /\ st' = DoDefineSlot(st, Cur(st))
CmdEndTagEndScope == Is(TAL_ENDTAG_ENDSCOPE) /\ st' = DoEndTag(st, Cur(st))
\* the inner execute() returns into the pending cmdEndTagEndScope
SubReturn     == st.err = "" /\ ~st.ret /\ st.pc >= st.plen /\ st.ps # <<>> /\ st' = DoReturn(st)
EndTagResume  == st.err = "" /\ st.ret /\ st' = EndTail(st, Cur(st))

VMStep == \/ CmdStartScope \/ CmdDefine \/ CmdCondition \/ CmdRepeat \/ CmdContent \/ CmdAttributes \/ CmdOmitTag
          \/ CmdStartTag \/ CmdOutput \/ CmdNoOp \/ CmdUseMacro \/ CmdDefineSlot \/ CmdEndTagEndScope
          \/ SubReturn \/ EndTagResume
VMNext == VMStep /\ UNCHANGED <<prog, sym, macros>>

\* the step as a function (the trace specification replays it event by event)
StepOf(s) ==
    IF s.ret THEN EndTail(s, Cur(s))
    ELSE IF s.pc >= s.plen THEN DoReturn(s)
    ELSE LET c == Cur(s) IN
         CASE c.op = TAL_START_SCOPE -> DoStartScope(s, c) [] c.op = TAL_DEFINE -> DoDefine(s, c)
           [] c.op = TAL_CONDITION -> DoCondition(s, c) [] c.op = TAL_REPEAT -> DoRepeat(s, c)
           [] c.op = TAL_CONTENT -> DoContent(s, c) [] c.op = TAL_ATTRIBUTES -> DoAttributes(s, c)
           [] c.op = TAL_OMITTAG -> DoOmitTag(s, c) [] c.op = TAL_STARTTAG -> DoStartTag(s, c)
           [] c.op = TAL_OUTPUT -> DoOutput(s, c) [] c.op = TAL_NOOP -> DoNoOp(s, c)
           [] c.op = METAL_USE_MACRO -> DoUseMacro(s, c) [] c.op = METAL_DEFINE_SLOT -> DoDefineSlot(s, c)
           [] c.op = TAL_ENDTAG_ENDSCOPE -> DoEndTag(s, c)
           [] OTHER -> [s EXCEPT !.err = "BadOpcode"]

\* Escaped / AttrEscaped (C18) on the machine: a value written as text or as an attribute value contains no
\* markup character; `&` only starts one of the references html.escape produces
Refs == {"&amp;", "&lt;", "&gt;", "&quot;", "&#x27;"}
AmpOk(t, i) == \E r \in Refs : i + Len(r) - 1 <= Len(t) /\ SubSeq(t, i, i + Len(r) - 1) = r
SafeText(t) == \A i \in 1..Len(t) : /\ TX!Ch(t, i) \notin {"<", ">"} /\ (TX!Ch(t, i) = "&" => AmpOk(t, i))
SafeAttr(t) == SafeText(t) /\ \A i \in 1..Len(t) : TX!Ch(t, i) \notin {"\"", "'"}
EscapedOn(s) == \A i \in DOMAIN s.dw : s.dw[i].w = "text" => SafeText(s.dw[i].s)
AttrEscapedOn(s) == \A i \in DOMAIN s.dw : s.dw[i].w = "attr" => SafeAttr(s.dw[i].s)

\* ContextRestored (C18) on the machine: after a completed expansion the Context is as before
Restored(s, g0) == /\ s.ss = <<>> /\ s.ls = <<>> /\ s.rs = <<>> /\ s.l = EmptyF /\ s.rm = EmptyF /\ s.ps = <<>>
                   /\ DOMAIN g0 \subseteq DOMAIN s.g
=============================================================================
