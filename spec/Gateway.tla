------------------------------- MODULE Gateway -------------------------------
(* XEXEC (growth beyond the listed properties): the SCRIPT GATEWAY of pygopherd.            *)
(*                                                                                          *)
(* Code abstracted (pinned tree 6c0fcc2..31dac09):                                                   *)
(*   handlers/virtual.py   Virtual.__init__: a selector is cut into the "real" part (the    *)
(*                         file) and the "argument" part at a `?` or a `|`, and the real    *)
(*                         part is stat()ed again                          -> Mark/Real/Args *)
(*   handlers/base.py      isrequestsecure (./ .. // .\ \\ anywhere in the WHOLE selector,  *)
(*                         arguments included)                              -> Secure        *)
(*   handlers/HandlerMultiplexer.py + conf "full" handler list: first handler that claims   *)
(*                         the request serves it                            -> Choose        *)
(*   handlers/scriptexec.py ExecHandler.canhandlerequest (REAL file system only, regular    *)
(*                         file, S_IXOTH) / write (environment, argv, subprocess.run;       *)
(*                         plaintext: the child's stdout IS the client socket; TLS: output  *)
(*                         captured, then written through the TLS stream)   -> Gate, BuildEnv,*)
(*                                                                  Spawn, ChildWrite, Reap *)
(*   handlers/pyg.py       PYGHandler.canhandlerequest (same gate + name ends in .pyg; the  *)
(*                         module is LOADED and PYGMain instantiated with this request's    *)
(*                         selector and search string), write delegated     -> PygLoad, PygWrite *)
(*   protocols/*.py        the six front ends only contribute their framing (Frame) and the *)
(*                         way the handler's write() is reached; decoding of the wire form  *)
(*                         into (selector, search) is the subject of C05/C06 and is the     *)
(*                         identity here (gamma encodes so that it decodes back).           *)
(*                                                                                          *)
(* PROMISES (source: doc/pygopherd.sgml sect1 handlers.exechandler / handlers.pyghandler,   *)
(* conf/pygopherd.conf "scriptexec and pyg can execute arbitrary code stored in your path"):*)
(*   GatedRun        "it will execute any file that is marked executable in the filesystem" *)
(*                   - and nothing else: a child process exists only for a regular file of   *)
(*                   the REAL file system with the others-executable bit (never a directory, *)
(*                   a missing file, an owner/group-only executable, a ZIP member).         *)
(*   GatedLoad       "look for files with the extension .pyg that are marked executable.    *)
(*                   If found, they will be loaded and run as PYGs" - only those are loaded. *)
(*   ServedWhenGated such a file IS run / loaded when it is requested, with or without      *)
(*                   parameters "after a |" (SELECTOR/REQUEST entries of the manual; `?` is  *)
(*                   the Bucktooth spelling the handler is "for the most part compatible"    *)
(*                   with): the base part is what precedes the FIRST `|` or `?`.            *)
(*   EnvDocumented   the eight documented variables carry the values of THIS request:       *)
(*                   SERVER_NAME, SERVER_PORT, REMOTE_ADDR, REMOTE_PORT, REMOTE_HOST (= ADDR),*)
(*                   SELECTOR (whole selector, parameters included), REQUEST (base part),   *)
(*                   SEARCHREQUEST "included only if the client specified search data".     *)
(*   ArgvVerbatim    parameters reach the program as they were sent: argv[0] is the file,   *)
(*                   the rest is the argument part cut at single blanks, nothing added,     *)
(*                   dropped or interpreted (joining argv[1..] with blanks gives it back);  *)
(*   NoShell         no shell ever sees the request (`;` `$()` backticks `*` quotes `>` are *)
(*                   data): the "arbitrary code" the manual warns about is the code STORED  *)
(*                   under the root, never code sent by a client.                           *)
(*   OutExact        "executing arbitrary programs and piping the result to the client":    *)
(*                   the client receives the protocol's framing followed by exactly what    *)
(*                   the program wrote to its standard output (not its standard error),     *)
(*                   in order, over plaintext and TLS alike and through every front end.    *)
(*   ListedAsText    "It will normally list scripts as returning plain text".               *)
(*   Reaped / NoFdLeft   when the reply is complete the child has been waited for and the   *)
(*                   server holds no descriptor it opened for it (a gateway of a long-lived *)
(*                   threading/forking server).                                             *)
(*   ServerEnvUntouched / NoStale   serving a request changes nothing in the server's own   *)
(*                   environment, so nothing of one request (SEARCHREQUEST!) shows in the   *)
(*                   next one's.                                                            *)
(*                                                                                          *)
(* NAMED DEVIATIONS of the pinned code from these promises (switches; MC_XEXEC_pinned.cfg   *)
(* shows the invariants they break, findings/XEXEC.proposed.json has the repairs):          *)
(*   SplitFirstMark = FALSE  Virtual.__init__ looks for `?` ANYWHERE before it looks for    *)
(*                   `|`: `/run|what?` is cut at the `?`, "the part leading up to the |" is  *)
(*                   not what REQUEST / the second stat get, the script is not found.       *)
(*   WapCaptures = FALSE     ExecHandler.write hands `wfile` to the child as stdout whenever*)
(*                   the connection is not TLS; behind the WAP front end `wfile` is the     *)
(*                   conversion buffer (io.BytesIO, no descriptor): fileno() fails AFTER    *)
(*                   the 200 header - no script can be used through WAP.                    *)
EXTENDS Naturals, Sequences, FiniteSets, Text, GatewayTree

CONSTANTS SplitFirstMark,      \* TRUE = documented reading, FALSE = as coded
          WapCaptures          \* TRUE = repaired, FALSE = as coded

ServerName == "localhost"
ServerPort == "70"
DocNames == {"SERVER_NAME", "SERVER_PORT", "REMOTE_ADDR", "REMOTE_HOST", "REMOTE_PORT",
             "SELECTOR", "REQUEST", "SEARCHREQUEST"}

\* the nine (front end, TLS) combinations the shipped protocol list can produce
Families == {<<"gopher", FALSE>>, <<"gopher", TRUE>>, <<"gplus", FALSE>>, <<"gplus", TRUE>>,
             <<"http", FALSE>>, <<"http", TRUE>>, <<"wap", FALSE>>, <<"gemini", TRUE>>,
             <<"spartan", FALSE>>}

--------------------------------------------------------------------------------
(* virtual.py: where the selector is cut *)
FirstOf(a, b) == IF a = 0 THEN b ELSE IF b = 0 THEN a ELSE IF a < b THEN a ELSE b
MarkBy(first, sel) == LET q == Find(sel, "?")
                          b == Find(sel, "|")
                      IN IF first THEN FirstOf(q, b) ELSE (IF q # 0 THEN q ELSE b)
Mark(sel) == MarkBy(SplitFirstMark, sel)
Real(sel) == IF Mark(sel) = 0 THEN sel ELSE SubSeq(sel, 1, Mark(sel) - 1)
Args(sel) == IF Mark(sel) = 0 THEN "" ELSE From(sel, Mark(sel) + 1)
\* the documented reading, whatever the switch says
DocBase(sel) == LET m == MarkBy(TRUE, sel) IN IF m = 0 THEN sel ELSE SubSeq(sel, 1, m - 1)
DocArgs(sel) == LET m == MarkBy(TRUE, sel) IN IF m = 0 THEN "" ELSE From(sel, m + 1)

(* base.py isrequestsecure *)
Secure(sel) == /\ ~Contains(sel, "./") /\ ~Contains(sel, "..") /\ ~Contains(sel, "//")
               /\ ~Contains(sel, ".\\") /\ ~Contains(sel, "\\\\")
               /\ ~(Len(sel) >= 2 /\ SubSeq(sel, Len(sel) - 1, Len(sel)) = "/.")

(* the gate shared by ExecHandler and PYGHandler *)
Gate(a, vfs) == vfs = "real" /\ a.fs = "real" /\ a.t = "reg" /\ a.ox
IsPygName(p) == EndsWith(p, ".pyg")

(* HandlerMultiplexer over the "full" list, restricted to the handlers that can claim a     *)
(* path of the tree: UMN (directories), PYG, Exec, ZIP (which asks the same list again with *)
(* the archive as file system), File.  Non-virtual handlers look at the stat of the WHOLE   *)
(* selector, the two gateway handlers at the stat of the real part.                         *)
Choose(sel) ==
    LET full == TreeAttr(sel)
        r    == TreeAttr(Real(sel))
    IN IF ~Secure(sel) THEN "none"
       ELSE IF full.fs = "real" /\ full.t = "dir" THEN "dir"
       ELSE IF Gate(r, "real") /\ IsPygName(Real(sel)) THEN "pyg"
       ELSE IF Gate(r, "real") THEN "exec"
       ELSE IF full.fs = "zip"                                   \* ZIPHandler: vfs = the archive
            THEN (IF full.t = "dir" THEN "dir"
                  ELSE IF Gate(full, "zip") THEN "exec"          \* never: Gate demands the real fs
                  ELSE IF full.t = "reg" THEN "file" ELSE "none")
       ELSE IF full.fs = "real" /\ full.t = "reg" THEN "file"
       ELSE "none"

FsPath(p) == "ROOT" \o (IF Len(p) > 1 /\ Last1(p) = "/" THEN DropLast(p) ELSE p)
ArgvOf(realp, argstr) == <<FsPath(realp)>> \o (IF argstr = "" THEN <<>> ELSE Split(argstr, " "))

DocEnv(r, base) ==
    {<<"SERVER_NAME", ServerName>>, <<"SERVER_PORT", ServerPort>>,
     <<"REMOTE_ADDR", r.caddr>>, <<"REMOTE_HOST", r.caddr>>, <<"REMOTE_PORT", r.cport>>,
     <<"SELECTOR", r.sel>>, <<"REQUEST", base>>}
    \cup (IF r.search # "" THEN {<<"SEARCHREQUEST", r.search>>} ELSE {})
Names(env) == {e[1] : e \in env}
\* os.environ.copy() then item assignment: the server's entries survive unless overwritten
ChildEnv(se, r, base) == {e \in se : e[1] \notin Names(DocEnv(r, base))} \cup DocEnv(r, base)

(* what a fixture program writes: <<fd, token>>; "DUMP" stands for its argv + environment   *)
O(t) == [fd |-> "out", t |-> t]
E(t) == [fd |-> "err", t |-> t]
ProgOut(prog) ==
    CASE prog = "dump"  -> <<O("B"), O("DUMP"), E("X"), O("E")>>
      [] prog = "bin"   -> <<O("B"), O("DUMP"), O("bin"), O("E")>>
      [] prog = "big"   -> <<O("B"), O("DUMP"), E("X"), O("big"), O("E")>>
      [] prog = "quiet" -> <<E("X"), E("X")>>
      [] OTHER          -> <<>>
StdoutOf(p) == SelectSeq(p, LAMBDA w : w.fd = "out")
Toks(p) == [i \in 1..Len(p) |-> p[i].t]

(* framing of a successful document / of the error reply, per front end (status class only; *)
(* the byte-level frames are C03/C04's)                                                     *)
OkMime(fe) == CASE fe \in {"gopher", "gplus"} -> ""
                [] fe = "wap" -> "text/vnd.wap.wml"
                [] OTHER -> "text/plain"
Converted(r) == r.fe = "wap"          \* text/plain goes through the WML conversion buffer
Direct(r)    == ~r.tls /\ ~Converted(r)
Captured(r)  == r.tls \/ (Converted(r) /\ WapCaptures)

--------------------------------------------------------------------------------
VARIABLES rq,        \* the request being served [fe, tls, sel, search, caddr, cport]
          pc,        \* idle split choose env spawn run wait relay pygload pygwrite serve reply after
          real, args,\* Virtual.selectorreal / selectorargs
          handler,   \* "none" "dir" "file" "exec" "pyg"
          argv,      \* argument vector handed to execve
          cenv,      \* environment handed to execve (set of <<name, value>>)
          senv,      \* the server process's own environment
          child,     \* "none" "running" "exited" "reaped"
          todo,      \* what the child still has to write
          sock,      \* document tokens that reached the client, in order
          cap,       \* captured standard output (TLS / conversion branch)
          srverr,    \* what reached the server's own standard error
          fds,       \* descriptors the server opened for this child and still holds
          st,        \* status class of the reply "" "ok" "notfound" "broken"
          loaded,    \* PYG modules loaded for this request (sequence of paths)
          pygsaw     \* what PYGMain was constructed with: <<selector, real, args, search>> or <<>>

gvars == <<rq, pc, real, args, handler, argv, cenv, senv, child, todo, sock, cap, srverr, fds, st,
           loaded, pygsaw>>

NoRq == [fe |-> "", tls |-> FALSE, sel |-> "", search |-> "", caddr |-> "", cport |-> ""]

GInit(se) == /\ rq = NoRq /\ pc = "idle" /\ real = "" /\ args = "" /\ handler = "none"
             /\ argv = <<>> /\ cenv = {} /\ senv = se /\ child = "none" /\ todo = <<>>
             /\ sock = <<>> /\ cap = <<>> /\ srverr = <<>> /\ fds = {} /\ st = ""
             /\ loaded = <<>> /\ pygsaw = <<>>

Recv(r) == /\ pc = "idle" /\ rq' = r /\ pc' = "split"
           /\ real' = "" /\ args' = "" /\ handler' = "none" /\ argv' = <<>> /\ cenv' = {}
           /\ child' = "none" /\ todo' = <<>> /\ sock' = <<>> /\ cap' = <<>> /\ srverr' = <<>>
           /\ fds' = {} /\ st' = "" /\ loaded' = <<>> /\ pygsaw' = <<>>
           /\ UNCHANGED senv

SplitSel == /\ pc = "split" /\ real' = Real(rq.sel) /\ args' = Args(rq.sel) /\ pc' = "choose"
            /\ UNCHANGED <<rq, handler, argv, cenv, senv, child, todo, sock, cap, srverr, fds, st, loaded, pygsaw>>

ChooseHandler ==
    /\ pc = "choose" /\ handler' = Choose(rq.sel)
    /\ pc' = (CASE handler' = "exec" -> "env" [] handler' = "pyg" -> "pygload" [] OTHER -> "serve")
    /\ UNCHANGED <<rq, real, args, argv, cenv, senv, child, todo, sock, cap, srverr, fds, st, loaded, pygsaw>>

\* ---- PYG: the module is loaded while the handler is being chosen, write() is delegated
PygLoad == /\ pc = "pygload" /\ loaded' = Append(loaded, real)
           /\ pygsaw' = <<rq.sel, real, args, rq.search>>
           /\ pc' = "pygwrite"
           /\ UNCHANGED <<rq, real, args, handler, argv, cenv, senv, child, todo, sock, cap, srverr, fds, st>>
PygWrite == /\ pc = "pygwrite" /\ sock' = <<"PB", "PDUMP", "PE">> /\ st' = "ok" /\ pc' = "reply"
            /\ UNCHANGED <<rq, real, args, handler, argv, cenv, senv, child, todo, cap, srverr, fds, loaded, pygsaw>>

\* ---- every other handler: only the status class matters here
Serve == /\ pc = "serve"
         /\ st' = (IF handler = "none" THEN "notfound" ELSE "ok")
         /\ sock' = (IF handler = "file" THEN <<"SRC:" \o rq.sel>> ELSE <<>>)
         /\ pc' = "reply"
         /\ UNCHANGED <<rq, real, args, handler, argv, cenv, senv, child, todo, cap, srverr, fds, loaded, pygsaw>>

\* ---- ExecHandler.write
BuildEnv == /\ pc = "env" /\ cenv' = ChildEnv(senv, rq, real) /\ argv' = ArgvOf(real, args)
            /\ pc' = "spawn"
            /\ UNCHANGED <<rq, real, args, handler, senv, child, todo, sock, cap, srverr, fds, st, loaded, pygsaw>>

Spawn ==
    /\ pc = "spawn"
    /\ IF Direct(rq) \/ Captured(rq)
       THEN /\ child' = "running" /\ todo' = ProgOut(TreeAttr(real).prog)
            /\ fds' = (IF Captured(rq) THEN {"stdout-pipe", "stderr-pipe"} ELSE {})
            /\ st' = "ok" /\ pc' = "run" /\ UNCHANGED sock
       ELSE \* as coded behind WAP: stdout = the conversion buffer, fileno() raises after the header
            /\ st' = "broken" /\ sock' = <<"ERRPAGE">> /\ pc' = "reply"
            /\ UNCHANGED <<child, todo, fds>>
    /\ UNCHANGED <<rq, real, args, handler, argv, cenv, senv, cap, srverr, loaded, pygsaw>>

ChildWrite ==
    /\ pc = "run" /\ todo # <<>>
    /\ LET w == Head(todo) IN
       /\ todo' = Tail(todo)
       /\ IF w.fd = "out"
          THEN IF Direct(rq) THEN sock' = Append(sock, w.t) /\ UNCHANGED <<cap, srverr>>
                             ELSE cap' = Append(cap, w.t) /\ UNCHANGED <<sock, srverr>>
          ELSE IF Direct(rq) THEN srverr' = Append(srverr, w.t) /\ UNCHANGED <<sock, cap>>
                             ELSE UNCHANGED <<sock, cap, srverr>>      \* captured, never sent
    /\ UNCHANGED <<rq, pc, real, args, handler, argv, cenv, senv, child, fds, st, loaded, pygsaw>>

ChildExit == /\ pc = "run" /\ todo = <<>> /\ child' = "exited" /\ pc' = "wait"
             /\ UNCHANGED <<rq, real, args, handler, argv, cenv, senv, todo, sock, cap, srverr, fds, st, loaded, pygsaw>>

Reap == /\ pc = "wait" /\ child' = "reaped" /\ fds' = {}
        /\ pc' = (IF Captured(rq) THEN "relay" ELSE "reply")
        /\ UNCHANGED <<rq, real, args, handler, argv, cenv, senv, todo, sock, cap, srverr, st, loaded, pygsaw>>

Relay == /\ pc = "relay" /\ sock' = sock \o cap /\ cap' = <<>> /\ pc' = "reply"
         /\ UNCHANGED <<rq, real, args, handler, argv, cenv, senv, child, todo, srverr, fds, st, loaded, pygsaw>>

Reply  == /\ pc = "reply" /\ pc' = "after"
          /\ UNCHANGED <<rq, real, args, handler, argv, cenv, senv, child, todo, sock, cap, srverr, fds, st, loaded, pygsaw>>
Finish == /\ pc = "after" /\ pc' = "idle"
          /\ UNCHANGED <<rq, real, args, handler, argv, cenv, senv, child, todo, sock, cap, srverr, fds, st, loaded, pygsaw>>

\* steps that leave no observation of their own in a recorded trace
Silent == SplitSel \/ ChooseHandler \/ BuildEnv \/ ChildWrite \/ ChildExit \/ Reap \/ Relay
GStep  == Silent \/ Spawn \/ PygLoad \/ PygWrite \/ Serve \/ Reply \/ Finish

--------------------------------------------------------------------------------
(* the promises as state predicates (checked by TLC on the bounded model, and clause by     *)
(* clause against recorded runs of the real code by TraceXEXEC)                             *)
Done == pc \in {"reply", "after"}

GatedRun  == child # "none" => (handler = "exec" /\ Gate(TreeAttr(real), "real"))
GatedLoad == loaded # <<>> => (Len(loaded) = 1 /\ Gate(TreeAttr(loaded[1]), "real") /\ IsPygName(loaded[1]))
ServedWhenGated ==
    (Done /\ Secure(rq.sel) /\ Gate(TreeAttr(DocBase(rq.sel)), "real")
          /\ TreeAttr(rq.sel).t # "dir")
    => (handler \in {"exec", "pyg"} /\ st = "ok" /\ real = DocBase(rq.sel) /\ args = DocArgs(rq.sel))
ArgvClause(av, base, argstr) ==
    /\ Len(av) >= 1 /\ av[1] = FsPath(base)
    /\ (argstr = "" => Len(av) = 1)
    /\ (argstr # "" => Join(Tail(av), " ") = argstr)
    /\ \A i \in 2..Len(av) : ~Contains(av[i], " ")
ArgvVerbatim == (handler = "exec" /\ argv # <<>>) => ArgvClause(argv, DocBase(rq.sel), DocArgs(rq.sel))
EnvClause(env, r) == {e \in env : e[1] \in DocNames} = DocEnv(r, DocBase(r.sel))
EnvDocumented == (handler = "exec" /\ cenv # {}) => EnvClause(cenv, rq)
NoStale == \A e \in cenv : e[1] = "SEARCHREQUEST" => (rq.search # "" /\ e[2] = rq.search)
OutExact == (Done /\ handler = "exec") =>
                (st = "ok" /\ sock = Toks(StdoutOf(ProgOut(TreeAttr(real).prog))))
PygSeesRequest == (Done /\ handler = "pyg") =>
                (st = "ok" /\ pygsaw = <<rq.sel, DocBase(rq.sel), DocArgs(rq.sel), rq.search>>)
Reaped   == Done => child \in {"none", "reaped"}
NoFdLeft == Done => fds = {}
StderrNotSent == \A i \in 1..Len(sock) : sock[i] # "X"
ServerEnvUntouched == [][senv' = senv]_gvars
=============================================================================
