----------------------------- MODULE TALCompile -----------------------------
(* The simpleTAL template compiler (TemplateCompiler.parseStartTag / addTag / popTag /       *)
(* addCommand / compileCmdXxx / compileMetalXxx, HTMLTemplateCompiler.handle_xxx) as a    *)
(* function from a template tree to (command list, symbol table, macro table), structured  *)
(* like the code: a compile state threaded through the parser events in document order.    *)
(*                                                                                          *)
(* The opcode numbers are CONSTANTS imported from the working tree at check time (binding    *)
(* B1): their numeric order IS the TAL priority mechanism (foundTALAtts.sort()).            *)
(*                                                                                          *)
(* A command is a record Cmd (uniform shape); locations are 0-based as in the code:          *)
(*   START_SCOPE oa ca | OUTPUT text | STARTTAG tag f1=singleton | ENDTAG_ENDSCOPE tag       *)
(*   f1=omitTagFlag f2=singleton | DEFINE items | CONDITION e sym | REPEAT name e sym |      *)
(*   CONTENT f1=replaceFlag f2=structureFlag e sym | ATTRIBUTES items | OMITTAG e |          *)
(*   USE_MACRO e slots sym | DEFINE_SLOT name sym                                            *)
(* Also here: WellFormedProg, the structural half of property C17.                           *)
EXTENDS TALES, TLC

CONSTANTS TAL_DEFINE, TAL_CONDITION, TAL_REPEAT, TAL_CONTENT, TAL_REPLACE, TAL_ATTRIBUTES, TAL_OMITTAG,
          TAL_START_SCOPE, TAL_OUTPUT, TAL_STARTTAG, TAL_ENDTAG_ENDSCOPE, TAL_NOOP,
          METAL_USE_MACRO, METAL_DEFINE_SLOT, METAL_FILL_SLOT, METAL_DEFINE_MACRO,
          VoidTags          \* HTML_FORBIDDEN_ENDTAG, lower-cased

NoCmd == [op |-> 0, e |-> NoE, name |-> "", items |-> <<>>, f1 |-> 0, f2 |-> 0, sym |-> 0, tag |-> "",
          oa |-> <<>>, ca |-> <<>>, text |-> "", slots |-> <<>>]
Out(t) == [NoCmd EXCEPT !.op = TAL_OUTPUT, !.text = t]
B2N(b) == IF b THEN 1 ELSE 0

\* priority of a written command = its opcode (METAL commands are sorted among themselves and
\* handled before all TAL commands)
IsMetal(c) == c.c \in {"usemacro", "defslot", "fillslot", "defmacro"}
OpOf(c) == CASE c.c = "define" -> TAL_DEFINE [] c.c = "condition" -> TAL_CONDITION
             [] c.c = "repeat" -> TAL_REPEAT [] c.c = "content" -> TAL_CONTENT
             [] c.c = "replace" -> TAL_REPLACE [] c.c = "attributes" -> TAL_ATTRIBUTES
             [] c.c = "omit" -> TAL_OMITTAG [] c.c = "usemacro" -> METAL_USE_MACRO
             [] c.c = "defslot" -> METAL_DEFINE_SLOT [] c.c = "fillslot" -> METAL_FILL_SLOT
             [] c.c = "defmacro" -> METAL_DEFINE_MACRO

RECURSIVE SortByOp(_)            \* list.sort() of the found opcodes (selection sort; stable)
SortByOp(cs) ==
    IF Len(cs) = 0 THEN <<>>
    ELSE LET i == CHOOSE i \in DOMAIN cs : \A j \in DOMAIN cs : OpOf(cs[i]) < OpOf(cs[j]) \/ (OpOf(cs[i]) = OpOf(cs[j]) /\ i <= j)
         IN <<cs[i]>> \o SortByOp(SubSeq(cs, 1, i - 1) \o SubSeq(cs, i + 1, Len(cs)))
Ordered(tal) == SortByOp(SelectSeq(tal, IsMetal)) \o SortByOp(SelectSeq(tal, LAMBDA c : ~IsMetal(c)))

\* ---- compile state: [cmds, sym, macros, next] ------------------------------------------------
\* sym: function end-tag symbol -> location; macros: <<[name, start, endsym]>>; next: endTagSymbol
CInit == [cmds |-> <<>>, sym |-> [x \in {} |-> 0], macros |-> <<>>, next |-> 1]

AddCmd(st, c) ==        \* addCommand: consecutive OUTPUT commands are merged
    IF c.op = TAL_OUTPUT /\ Len(st.cmds) > 0 /\ st.cmds[Len(st.cmds)].op = TAL_OUTPUT
    THEN [st EXCEPT !.cmds[Len(st.cmds)].text = @ \o c.text]
    ELSE [st EXCEPT !.cmds = Append(@, c)]

\* compileCmd*/compileMetal* for one written command; `symN` = this element's end-tag symbol.
\* Returns NoCmd for the two commands that only have a compile-time effect.
CompileOne(c, symN) ==
    CASE c.c = "define"     -> [NoCmd EXCEPT !.op = TAL_DEFINE, !.items = c.items]
      [] c.c = "condition"  -> [NoCmd EXCEPT !.op = TAL_CONDITION, !.e = c.e, !.sym = symN]
      [] c.c = "repeat"     -> [NoCmd EXCEPT !.op = TAL_REPEAT, !.name = c.name, !.e = c.e, !.sym = symN]
      [] c.c = "content"    -> [NoCmd EXCEPT !.op = TAL_CONTENT, !.f1 = 0, !.f2 = B2N(c.flag), !.e = c.e, !.sym = symN]
      [] c.c = "replace"    -> [NoCmd EXCEPT !.op = TAL_CONTENT, !.f1 = 1, !.f2 = B2N(c.flag), !.e = c.e, !.sym = symN]
      [] c.c = "attributes" -> [NoCmd EXCEPT !.op = TAL_ATTRIBUTES, !.items = c.items]
      [] c.c = "omit"       -> [NoCmd EXCEPT !.op = TAL_OMITTAG, !.e = IF c.e.k = "none" THEN Path("default") ELSE c.e]
      [] c.c = "usemacro"   -> [NoCmd EXCEPT !.op = METAL_USE_MACRO, !.e = c.e, !.sym = symN]
      [] c.c = "defslot"    -> [NoCmd EXCEPT !.op = METAL_DEFINE_SLOT, !.name = c.name, !.sym = symN]
      [] OTHER -> NoCmd

\* the loop `for talAtt in allCommands` of parseStartTag.  first = no command added yet (the first
\* one is preceded by START_SCOPE); um = location of the innermost enclosing USE_MACRO command
RECURSIVE ElemCmds(_, _, _, _, _, _, _)
ElemCmds(st, nd, cs, i, symN, first, um) ==
    IF i > Len(cs) THEN [st |-> st, first |-> first]
    ELSE LET c == cs[i] IN
         IF c.c = "defmacro"      \* the macro starts at the next command
         THEN ElemCmds([st EXCEPT !.macros = Append(@, [name |-> c.name, start |-> Len(st.cmds), endsym |-> symN])],
                       nd, cs, i + 1, symN, first, um)
         ELSE IF c.c = "fillslot" \* registered in the enclosing use-macro command
         THEN ElemCmds([st EXCEPT !.cmds[um + 1].slots = Append(@, [name |-> c.name, start |-> Len(st.cmds), endsym |-> symN])],
                       nd, cs, i + 1, symN, first, um)
         ELSE LET cmd == CompileOne(c, symN)
                  st1 == IF first
                         THEN AddCmd(AddCmd(st, [NoCmd EXCEPT !.op = TAL_START_SCOPE, !.oa = nd.atts, !.ca = nd.atts]), cmd)
                         ELSE AddCmd(st, cmd)
              IN ElemCmds(st1, nd, cs, i + 1, symN, FALSE, um)

RECURSIVE CNode(_, _, _), CKids(_, _, _, _)
CKids(st, kids, i, um) == IF i > Len(kids) THEN st ELSE CKids(CNode(st, kids[i], um), kids, i + 1, um)
CNode(st, nd, um) ==
    IF nd.k = "text" THEN AddCmd(st, Out(EscText(nd.text)))          \* handle_data
    ELSE IF nd.k = "raw" THEN AddCmd(st, Out(nd.text))               \* handle_comment / handle_decl
    ELSE LET void == nd.tag \in VoidTags IN
    IF Len(nd.tal) = 0
    THEN LET s1 == AddCmd(st, Out(TagText(nd.tag, nd.atts, FALSE)))
             s2 == CKids(s1, nd.kids, 1, um)
         IN IF void THEN s2 ELSE AddCmd(s2, Out("</" \o nd.tag \o ">"))
    ELSE LET symN  == st.next + 1
             start == Len(st.cmds)
             r     == ElemCmds([st EXCEPT !.next = symN], nd, Ordered(nd.tal), 1, symN, TRUE, um)
             stag  == [NoCmd EXCEPT !.op = TAL_STARTTAG, !.tag = nd.tag, !.f1 = 0]
             s1    == IF r.first
                      THEN AddCmd(AddCmd(r.st, [NoCmd EXCEPT !.op = TAL_START_SCOPE, !.oa = nd.atts, !.ca = nd.atts]), stag)
                      ELSE AddCmd(r.st, stag)
             um1   == IF HasCmd(nd, "usemacro") THEN start + 1 ELSE um
             s2    == CKids(s1, nd.kids, 1, um1)
         IN AddCmd([s2 EXCEPT !.sym = (symN :> Len(s2.cmds)) @@ @],
                   [NoCmd EXCEPT !.op = TAL_ENDTAG_ENDSCOPE, !.tag = nd.tag, !.f1 = B2N(void), !.f2 = 0])

\* a template is a sequence of top-level nodes
Compile(nodes) == LET st == CKids(CInit, nodes, 1, 0 - 1) IN [cmds |-> st.cmds, sym |-> st.sym, macros |-> st.macros]

MacroByName(macros, nm) == macros[CHOOSE i \in DOMAIN macros : macros[i].name = nm]
HasMacro(macros, nm) == \E i \in DOMAIN macros : macros[i].name = nm

\* ---- WellFormedProg -----------------------------------------------------------------------------
\* scopes balanced /\ every jump target = the end of the element that owns the command
HasTarget(c) == c.op \in {TAL_CONDITION, TAL_REPEAT, TAL_CONTENT, METAL_USE_MACRO, METAL_DEFINE_SLOT}

\* scan: stack of open START_SCOPE locations; owner[i] = location of the innermost open scope at
\* command i (0-based locations; -1 = none); endOf[s] = location of the matching end
RECURSIVE Scan(_, _, _, _, _, _)
Scan(p, i, stack, owner, endOf, ok) ==
    IF i > Len(p) THEN [ok |-> ok /\ stack = <<>>, owner |-> owner, endOf |-> endOf]
    ELSE LET c == p[i] IN
         IF c.op = TAL_START_SCOPE
         THEN Scan(p, i + 1, Append(stack, i - 1), Append(owner, i - 1), endOf, ok)
         ELSE IF c.op = TAL_ENDTAG_ENDSCOPE
         THEN IF stack = <<>> THEN [ok |-> FALSE, owner |-> owner, endOf |-> endOf]
              ELSE Scan(p, i + 1, SubSeq(stack, 1, Len(stack) - 1), Append(owner, stack[Len(stack)]),
                        (stack[Len(stack)] :> (i - 1)) @@ endOf, ok)
         ELSE Scan(p, i + 1, stack, Append(owner, IF stack = <<>> THEN 0 - 1 ELSE stack[Len(stack)]), endOf, ok)

ScanProg(p) == Scan(p, 1, <<>>, <<>>, [x \in {} |-> 0], TRUE)
Balanced(p) == ScanProg(p).ok
TargetsOk(p, sym) ==
    LET sc == ScanProg(p) IN
    \A i \in DOMAIN p :
        /\ HasTarget(p[i]) =>
              /\ sc.owner[i] >= 0 /\ p[i].sym \in DOMAIN sym /\ sc.owner[i] \in DOMAIN sc.endOf
              /\ sym[p[i].sym] = sc.endOf[sc.owner[i]]
        \* a slot filler is a complete element: it starts at a START_SCOPE and ends at its own end tag
        /\ \A k \in DOMAIN p[i].slots :
              LET sl == p[i].slots[k] IN
              /\ sl.start \in DOMAIN sc.endOf /\ sl.endsym \in DOMAIN sym /\ sym[sl.endsym] = sc.endOf[sl.start]
MacrosOk(p, sym, macros) ==
    LET sc == ScanProg(p) IN
    \A k \in DOMAIN macros : /\ macros[k].start \in DOMAIN sc.endOf /\ macros[k].endsym \in DOMAIN sym
                             /\ sym[macros[k].endsym] = sc.endOf[macros[k].start]
WellFormedProg(p, sym, macros) == Balanced(p) /\ TargetsOk(p, sym) /\ MacrosOk(p, sym, macros)
=============================================================================
