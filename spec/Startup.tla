------------------------------- MODULE Startup -------------------------------
(* Start-up of pygopherd as a state machine over an explicit OS permission model  [C19].   *)
(*                                                                                          *)
(* Code abstracted: pygopherd/initialization.py  initialize(): init_ssl_context ->          *)
(* get_server (bind) -> detach/pidfile/pgrp/signals -> init_security: chroot, chdir,        *)
(* setgroups(()), setregid, setreuid, with the configured root rewritten to "/".            *)
(*                                                                                          *)
(* The process and the OS are the state; every environment interaction of start-up is one  *)
(* action with an explicit outcome (ok / fails).  The same actions are used by the bounded *)
(* design model (MC_C19: the program as coded, every configuration, every fault point) and *)
(* by the trace specification (TraceC19: the calls the REAL initialize() made).            *)
EXTENDS Naturals, Sequences, FiniteSets

VARIABLES
    cfg,          \* [chroot, uid, gid, tls : BOOLEAN]  which options are configured
    euid,         \* "root" | "user" | "other"   effective = real uid (setreuid(u,u) sets both); "user" is the
                  \*                              configured account, "other" an unprivileged account that started us
    egid,         \* "root" | "group" | "other"
    groups,       \* "inherited" | "cleared"   supplementary groups
    rootdir,      \* "host" | "docroot"   what "/" means for the process
    cwd,          \* "elsewhere" | "lookalike" | "docroot"   host directory the process stands in ("lookalike": outside
                  \*                              the document root, but its path has the root's path as a string prefix)
    bound,        \* listening socket bound
    tlsLoaded,    \* certificate and key loaded
    cfgRoot,      \* "docroot" | "slash" | "other"   value of [pygopherd] root in the config
    phase,        \* "starting" | "serving" | "aborted"
    failed,       \* some start-up call failed
    dropped       \* set of privileged steps done so far (subset of Drops)

vars == <<cfg, euid, egid, groups, rootdir, cwd, bound, tlsLoaded, cfgRoot, phase, failed, dropped>>

Drops == {"chroot", "setgroups", "setgid", "setuid"}

\* garbled: the usechroot option holds a value that is no boolean spelling ("enabled"): nobody can say what is configured
Configs == [chroot : BOOLEAN, uid : BOOLEAN, gid : BOOLEAN, tls : BOOLEAN, garbled : BOOLEAN]
StartDirs == {"elsewhere", "lookalike", "docroot"}   \* where the daemon is started from

Starters == {"root", "other"}        \* who runs the daemon: root, or an ordinary account

InitFull(c, u, sd) ==
    /\ cfg = c /\ euid = u /\ egid = u /\ groups = "inherited"
    /\ rootdir = "host" /\ cwd = sd /\ bound = FALSE /\ tlsLoaded = FALSE
    /\ cfgRoot = "docroot" /\ phase = "starting" /\ failed = FALSE /\ dropped = {}

InitWithAs(c, u) == InitFull(c, u, "elsewhere")
InitWith(c) == InitWithAs(c, "root")

--------------------------------------------------------------------------------
(* OS permission model: would the kernel let this call succeed in the current state?      *)
OsPermits(call) ==
    CASE call = "chroot"    -> euid = "root"
      [] call = "setgroups" -> euid = "root"
      [] call = "setgid"    -> euid = "root"
      [] call = "setuid"    -> euid \in {"root", "user"}   \* as root to anybody, otherwise only to itself
      [] OTHER              -> TRUE

(* A failing call raises; nothing in initialize() catches it; start-up is over.            *)
Fail == /\ failed' = TRUE
        /\ UNCHANGED <<cfg, euid, egid, groups, rootdir, cwd, bound, tlsLoaded, cfgRoot, phase, dropped>>

LoadTLS(ok) ==
    /\ phase = "starting"
    /\ IF ok THEN /\ tlsLoaded' = TRUE
                  /\ UNCHANGED <<cfg, euid, egid, groups, rootdir, cwd, bound, cfgRoot, phase, failed, dropped>>
             ELSE Fail

\* pwd.getpwnam / grp.getgrnam of the configured account: an unknown name raises KeyError
LookupUser(ok) ==
    /\ phase = "starting"
    /\ IF ok THEN UNCHANGED vars ELSE Fail

LookupGroup(ok) ==
    /\ phase = "starting"
    /\ IF ok THEN UNCHANGED vars ELSE Fail

Bind(ok) ==
    /\ phase = "starting"
    /\ IF ok THEN /\ bound' = TRUE
                  /\ UNCHANGED <<cfg, euid, egid, groups, rootdir, cwd, tlsLoaded, cfgRoot, phase, failed, dropped>>
             ELSE Fail

\* chroot(path): toDocroot says whether path is the configured document root.
Chroot(ok, toDocroot) ==
    /\ phase = "starting"
    /\ IF ok /\ OsPermits("chroot")
       THEN /\ rootdir' = (IF toDocroot THEN "docroot" ELSE rootdir)
            /\ dropped' = dropped \cup {"chroot"}
            \* the working directory is NOT moved by chroot(2): it stays where it was
            /\ UNCHANGED <<cfg, euid, egid, groups, cwd, bound, tlsLoaded, cfgRoot, phase, failed>>
       ELSE Fail

\* chdir(path): `inside` = the target is inside the document root *as seen after the call*
\* (an absolute path after the chroot, or a path under the document root before it).
Chdir(ok, inside) ==
    /\ phase = "starting"
    /\ IF ok THEN /\ cwd' = (IF inside THEN "docroot" ELSE "elsewhere")
                  /\ UNCHANGED <<cfg, euid, egid, groups, rootdir, bound, tlsLoaded, cfgRoot, phase, failed, dropped>>
             ELSE Fail

\* the configuration's root option is rewritten (config.set)
SetCfgRoot(v) ==
    /\ phase = "starting" /\ cfgRoot' = v
    /\ UNCHANGED <<cfg, euid, egid, groups, rootdir, cwd, bound, tlsLoaded, phase, failed, dropped>>

SetGroups(ok, empty) ==
    /\ phase = "starting"
    /\ IF ok /\ OsPermits("setgroups")
       THEN /\ groups' = (IF empty THEN "cleared" ELSE groups)
            /\ dropped' = dropped \cup {"setgroups"}
            /\ UNCHANGED <<cfg, euid, egid, rootdir, cwd, bound, tlsLoaded, cfgRoot, phase, failed>>
       ELSE Fail

\* full = both real and effective id set to the configured one
SetGid(ok, full) ==
    /\ phase = "starting"
    /\ IF ok /\ OsPermits("setgid")
       THEN /\ egid' = (IF full THEN "group" ELSE egid)
            /\ dropped' = dropped \cup {"setgid"}
            /\ UNCHANGED <<cfg, euid, groups, rootdir, cwd, bound, tlsLoaded, cfgRoot, phase, failed>>
       ELSE Fail

SetUid(ok, full) ==
    /\ phase = "starting"
    /\ IF ok /\ OsPermits("setuid")
       THEN /\ euid' = (IF full THEN "user" ELSE euid)
            /\ dropped' = dropped \cup {"setuid"}
            /\ UNCHANGED <<cfg, egid, groups, rootdir, cwd, bound, tlsLoaded, cfgRoot, phase, failed>>
       ELSE Fail

\* initialize() returned a server object: the accept loop starts.
Serve ==
    /\ phase = "starting" /\ phase' = "serving"
    /\ UNCHANGED <<cfg, euid, egid, groups, rootdir, cwd, bound, tlsLoaded, cfgRoot, failed, dropped>>

\* initialize() raised.
Abort ==
    /\ phase = "starting" /\ phase' = "aborted"
    /\ UNCHANGED <<cfg, euid, egid, groups, rootdir, cwd, bound, tlsLoaded, cfgRoot, failed, dropped>>

--------------------------------------------------------------------------------
\* initialization.py initialize(): the calls it makes, in order, for a configuration
\* (the implementation-shaped program; design level, not part of the property)
Prog(c) ==
    (IF c.tls THEN <<"loadtls">> ELSE <<>>) \o <<"bind">> \o
    (IF c.uid THEN <<"lookupuser">> ELSE <<>>) \o (IF c.gid THEN <<"lookupgroup">> ELSE <<>>) \o
    (IF c.garbled THEN <<>> ELSE        \* getboolean("usechroot") raises on an unreadable value: nothing further happens
    (IF c.chroot THEN <<"chroot", "chdir", "cfgroot">> ELSE <<>>) \o
    (IF c.uid \/ c.gid THEN <<"setgroups">> ELSE <<>>) \o
    (IF c.gid THEN <<"setgid">> ELSE <<>>) \o
    (IF c.uid THEN <<"setuid">> ELSE <<>>))

--------------------------------------------------------------------------------
(* The property C19, clause by clause.  State clauses are evaluated in every state;        *)
(* the step clauses are stated over (state before, name of the privileged step taken).     *)

\* "the listening socket is bound and TLS keys are loaded before any privilege is given up"
BindFirst == dropped # {} => (bound /\ (cfg.tls => tlsLoaded))
BindFirstStep(step) == step \in Drops => (bound /\ (cfg.tls => tlsLoaded))

\* "chroot happens first"
ChrootFirstStep(step) ==
    /\ (step = "chroot") => (dropped \cap {"setgroups", "setgid", "setuid"} = {})
    /\ (step \in {"setgroups", "setgid", "setuid"} /\ cfg.chroot) => ("chroot" \in dropped)

\* "supplementary groups are cleared before the group is changed"
GroupsBeforeGidStep(step) == (step \in {"setgid", "setuid"}) => (groups = "cleared")

\* "the group is changed before the user"
GidBeforeUidStep(step) == (step = "setuid" /\ cfg.gid) => (egid = "group")

\* the kernel would have refused this call (root already given up): a wrong order that the
\* recorder stubs cannot notice but the OS model can
OsOrderStep(step) == (step \in Drops) => OsPermits(step)

StepClauses(step) ==
    IF ~BindFirstStep(step) THEN "BindFirst"
    ELSE IF ~ChrootFirstStep(step) THEN "ChrootFirst"
    ELSE IF ~GroupsBeforeGidStep(step) THEN "GroupsBeforeGid"
    ELSE IF ~GidBeforeUidStep(step) THEN "GidBeforeUid"
    ELSE IF ~OsOrderStep(step) THEN "OsWouldRefuse"
    ELSE "ok"

\* "with the document root rewritten to / and the working directory moved inside the new root"
ChrootComplete ==
    (phase = "serving" /\ cfg.chroot) => (rootdir = "docroot" /\ cfgRoot = "slash" /\ cwd = "docroot")

\* never serving with more privilege than configured
FullyDropped ==
    phase = "serving" =>
        /\ (cfg.uid => euid = "user")
        /\ (cfg.gid => egid = "group")
        /\ ((cfg.uid \/ cfg.gid) => groups = "cleared")

\* without chroot the configured root must still be the document root
RootKept == (phase = "serving" /\ ~cfg.chroot) => (cfgRoot = "docroot" /\ rootdir = "host")

\* "A failure in any of these steps aborts start-up"
FailAborts == failed => phase # "serving"

\* an option whose value cannot be understood is a failure of start-up, never "not configured"
GarbledAborts == phase = "serving" => ~cfg.garbled

\* the socket is there when serving starts
ServingIsBound == phase = "serving" => (bound /\ (cfg.tls => tlsLoaded))

StateClauses ==
    IF ~BindFirst THEN "BindFirst"
    ELSE IF ~ChrootComplete THEN "ChrootComplete"
    ELSE IF ~FullyDropped THEN "FullyDropped"
    ELSE IF ~RootKept THEN "RootKept"
    ELSE IF ~FailAborts THEN "FailAborts"
    ELSE IF ~GarbledAborts THEN "GarbledAborts"
    ELSE IF ~ServingIsBound THEN "ServingIsBound"
    ELSE "ok"
=============================================================================
