SPECIFICATION Spec
CONSTANTS
  IgnorePatterns <- DataIgnorePatterns
  EaExts <- DataEaExts
  SkipUnservable = FALSE
  SortedLinks = FALSE
  DotRuleAll = TRUE
  Scopes <- ScopesQuick
  OrderModes = {"sorted"}
  Protos = {"G"}
  DotFaults = TRUE
INVARIANT ModelRobust
CHECK_DEADLOCK FALSE
