------------------------------- MODULE MC_C04W -------------------------------
(* C04, WAP part: TLC enumerates small text files as lines over the byte classes that the   *)
(* conversion, str.rstrip and str.splitlines distinguish (ordinary, blank, lone CR, VT, FF, *)
(* U+0085, U+2028, "<", "&", quote, invalid UTF-8, NUL), with and without a final line feed. *)
(* Model level: the conversion of Deliver is invertible line by line on every such file.     *)
(* Every state is also a replay case: the file is written with real bytes and fetched        *)
(* through the real WAP protocol; TraceC04 judges the lexed reply (WmlInvertible).           *)
EXTENDS Deliver, TLC

CONSTANTS Alpha1, Len1,      \* alphabet and maximal length of a single-line file
          Alpha2, Len2       \* the same for the lines of two-line files

VARIABLES lines, lastnl, wml
vars == <<lines, lastnl, wml>>

LinesOver(A, n) == UNION {[1..k -> [c : A, n : {1}]] : k \in 0..n}
Files == {<<l1>> : l1 \in LinesOver(Alpha1, Len1)}
         \cup {<<l1, l2>> : l1 \in LinesOver(Alpha2, Len2), l2 \in LinesOver(Alpha2, Len2)}
         \cup {<<>>}

\* a file that does not end in LF cannot have an empty last line (it would not be a line)
Init == /\ lines \in Files /\ lastnl \in BOOLEAN
        /\ (IF lines = <<>> THEN ~lastnl ELSE (lastnl \/ lines[Len(lines)] # <<>>))
        /\ wml = <<>>
Convert == wml = <<>> /\ lines # <<>> /\ wml' = WmlOf(lines) /\ UNCHANGED <<lines, lastnl>>
Spec == Init /\ [][Convert]_vars

Invertible == (wml # <<>>) => (WmlInvertible(lines, wml) /\ WmlClean(wml))
=============================================================================
