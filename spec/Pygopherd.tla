------------------------------ MODULE Pygopherd ------------------------------
(* Composition: the life of one pygopherd process group (growth beyond the listed          *)
(* properties; DESIGN.md section 2).                                                        *)
(*                                                                                          *)
(*   start-up (module Startup: bind, TLS, privilege drop)  ->  serving (accept loop hands   *)
(*   connections to forked/threaded workers, module MC_C14/Cache for what a worker does)    *)
(*   ->  shutdown by signals (module Signals).                                              *)
(*                                                                                          *)
(* This module keeps only the phase structure and the facts the three parts promise each    *)
(* other; the parts themselves are checked in their own models.  It is bound to the code by *)
(* harness/xsys.py: a REAL `bin/pygopherd` process is started, sent requests and SIGTERM,   *)
(* and the log/exit-status sequence is validated against TraceSys.                          *)
EXTENDS Naturals, Sequences, FiniteSets

CONSTANTS MaxConn          \* connections offered by the environment

VARIABLES phase,      \* "init" | "bound" | "dropped" | "serving" | "stopping" | "gone"
          logged,     \* sequence of abstract log records
          conns,      \* connections accepted so far
          answered,   \* connections answered
          children,   \* live worker processes (forking server)
          exitcode    \* exit status of the master (0 while alive)

pvars == <<phase, logged, conns, answered, children, exitcode>>

Init == phase = "init" /\ logged = <<>> /\ conns = 0 /\ answered = 0 /\ children = 0 /\ exitcode = 0

Log(r) == logged' = Append(logged, r)

Bind    == phase = "init"    /\ phase' = "bound"   /\ Log("start")   /\ UNCHANGED <<conns, answered, children, exitcode>>
Drop    == phase = "bound"   /\ phase' = "dropped" /\ UNCHANGED <<logged, conns, answered, children, exitcode>>
Running == phase = "dropped" /\ phase' = "serving" /\ Log("running") /\ UNCHANGED <<conns, answered, children, exitcode>>
StartFails == phase \in {"init", "bound", "dropped"} /\ phase' = "gone" /\ exitcode' = 1
              /\ UNCHANGED <<logged, conns, answered, children>>

Accept == /\ phase = "serving" /\ conns < MaxConn
          /\ conns' = conns + 1 /\ children' = children + 1
          /\ UNCHANGED <<phase, logged, answered, exitcode>>
Answer == /\ children > 0 /\ answered < conns
          /\ answered' = answered + 1 /\ children' = children - 1 /\ Log("request")
          /\ UNCHANGED <<phase, conns, exitcode>>

\* SIGTERM to the master: Signals!Handle("master", "TERM"): HUP to the group, exit 6
Term == /\ phase = "serving" /\ phase' = "stopping" /\ Log("sigterm")
        /\ UNCHANGED <<conns, answered, children, exitcode>>
\* children die of the HUP (exit 5) without answering, or had answered already
ChildHup == phase = "stopping" /\ children > 0 /\ children' = children - 1
            /\ UNCHANGED <<phase, logged, conns, answered, exitcode>>
MasterExit == /\ phase = "stopping" /\ phase' = "gone" /\ exitcode' = 6 /\ Log("goodbye")
              /\ UNCHANGED <<conns, answered, children>>
Orphans == phase = "gone" /\ children > 0 /\ children' = children - 1
           /\ UNCHANGED <<phase, logged, conns, answered, exitcode>>

Next == Bind \/ Drop \/ Running \/ StartFails \/ Accept \/ Answer \/ Term \/ ChildHup \/ MasterExit \/ Orphans
Spec == Init /\ [][Next]_pvars
FairSpec == Spec /\ WF_pvars(ChildHup) /\ WF_pvars(MasterExit) /\ WF_pvars(Orphans) /\ WF_pvars(Answer)

\* nothing is accepted before privileges are dropped, nothing after shutdown began
AcceptOnlyWhileServing == [][conns' # conns => phase = "serving"]_pvars
NoAnswerWithoutAccept  == answered <= conns
LogOrder == \A i, j \in 1..Len(logged) :
               /\ (logged[i] = "running" /\ logged[j] = "start") => j < i
               /\ (logged[i] = "request" /\ logged[j] = "running") => j < i
               /\ (logged[i] = "goodbye" /\ logged[j] = "sigterm") => j < i
ExitStatus == exitcode \in {0, 1, 6} /\ (exitcode = 6 => phase = "gone")
EventuallyGone == (phase = "stopping") ~> (phase = "gone" /\ children = 0)
=============================================================================
