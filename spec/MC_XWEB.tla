------------------------------- MODULE MC_XWEB -------------------------------
(* Bounded model for the growth check XWEB (spec/Web.tla).  Six families of cases, all      *)
(* enumerated by TLC and all replayed on the real server through World.request (binding B2: *)
(* the state dump of this model is the list of cases, including the menu entries that are   *)
(* written into gophermap files and the request paths that are sent):                       *)
(*   "icon"    front end x method x icon name (the code's table + unknown names) x request  *)
(*             shape (plain, percent-coded, trailing slash, query, %0A, no leading slash,   *)
(*             lower-case prefix, sub-path)                                                  *)
(*   "menu"    a menu of n = 0..MaxRows rows (link rows cycle through RowTypes - every item  *)
(*             type of the shipped iconmapping and unmapped ones -, at most one info and one *)
(*             search row at every position, plus periodic patterns) rendered ROW BY ROW by  *)
(*             the three URL front ends at once: the state machine of wap.py getrenderstr    *)
(*             (accesskeyidx, postfieldidx), http.py rows with icons, gemini.py lines        *)
(*   "search"  a search item (selector with reserved characters) x a typed string or none,   *)
(*             through each front end's own dialogue (HTML form, WML go/postfield, Gemini    *)
(*             prompt -> query -> redirect)                                                  *)
(*   "wapdoc"  request paths around the waptop prefix x method                               *)
(*   "gem"     Gemini request lines for the status-code cases                                *)
(*   "sel"     selectors for url.py (URL: shapes, malformed and insecure ones; /X/path       *)
(*             rewrite shapes: one character, two, none, nested, existing /X/path, insecure) *)
(*             x front end x handler list                                                    *)
(* The invariants check the transcription (Web.tla operators) against the declarative        *)
(* statements of the properties; the same clauses judge the real server in TraceXWEB.        *)
EXTENDS WebCases, MC_XWEB_consts

VARIABLES fam, c, st, res, x
vars == <<fam, c, st, res, x>>

(* ---- the run --------------------------------------------------------------------------- *)
Init == /\ res = "new" /\ x = Idle
        /\ \/ "icon" \in Fams /\ fam = "icon" /\ c \in IconCases /\ st = Idle
           \/ "menu" \in Fams /\ fam = "menu" /\ c \in MenuCases /\ st = MenuStart(c)
           \/ "search" \in Fams /\ fam = "search" /\ c \in SearchCases /\ st = Idle
           \/ "wapdoc" \in Fams /\ fam = "wapdoc" /\ c \in WapDocCases /\ st = Idle
           \/ "gem" \in Fams /\ fam = "gem" /\ c \in GemCases /\ st = Idle
           \/ "sel" \in Fams /\ fam = "sel" /\ c \in SelCases /\ st = Idle
RenderRow == /\ fam = "menu" /\ res = "new" /\ st.k < c.n
             /\ st' = MenuStep(st) /\ UNCHANGED <<fam, c, res, x>>
Compute == /\ res = "new" /\ (fam = "menu" => st.k = c.n)
           /\ res' = CASE fam = "icon" -> IconVerdict(c)
                       [] fam = "menu" -> MenuVerdict(st)
                       [] fam = "search" -> SearchVerdict(c)
                       [] fam = "wapdoc" -> WapDocVerdict(c)
                       [] fam = "gem" -> GemVerdict(c)
                       [] fam = "sel" -> SelVerdict(c)
           /\ x' = Extra(fam, c)
           /\ UNCHANGED <<fam, c, st>>
Spec == Init /\ [][RenderRow \/ Compute]_vars

\* every state of a rendering: the counters never run ahead, keys handed out so far are right and distinct
RenderInv == fam = "menu" => /\ st.wap.pf = st.k /\ st.wap.ak <= Len(AccessKeys) /\ st.wap.ak <= st.k
                             /\ Len(st.wap.out) = st.k /\ AccessKeysOk(st.wap.out) /\ KeysDistinct(st.wap.out)
\* B1 facts as state-level formulas (a constant-level invariant that is FALSE stops TLC with an error instead of a
\* named violation): the access-key string of the tree under test is the documented one; every icon that the
\* configured iconmapping (or the default) names exists in the code's table
AccessKeysAsDocumented == (fam = fam) /\ CodeAccessKeys = AccessKeys
MappedIcons == (fam = fam) /\ MappedIconsExist
IconServedInv == res # "IconServed"
UnknownIconInv == res # "UnknownIcon"
AccessKeysInv == res # "AccessKeys"
SearchCardInv == res # "SearchCard"
WapPrefixInv == res # "WapPrefix"
GemLinkLinesInv == res # "GemLinkLines"
GemPromptInv == res # "GemPrompt"
GemSearchArrivesInv == res # "GemSearchArrives"
GemBadRequestInv == res # "GemBadRequest"
GemSuccessMimeInv == res # "GemSuccessMime"
UrlRedirectPageInv == res # "UrlRedirectPage"
UrlOnlyUrlsInv == res # "UrlOnlyUrls"
RewriteSameInv == res # "RewriteSame"
RewriteOnceInv == res # "RewriteOnce"
RewriteOffInv == res # "RewriteOff"
=============================================================================
