------------------------------- MODULE MC_C13 -------------------------------
(* Bounded design model for C13.  TLC enumerates  combo x data string  (all strings up to   *)
(* MaxLen over < > & " ' CR LF a), computes the echoes the code produces at every site the  *)
(* data reaches (transformations as coded in Render) and checks that each echo is inert in  *)
(* its context.  The sites where the code applies no escaping are the named deviations       *)
(* HrefRaw / InfoLineRaw: they are excluded from Inert here and are exactly what the replay  *)
(* on the real server reports (recorded findings).  Every done-state is one replay case     *)
(* (binding B2): the harness plants `d` in the combo's source and fetches the page, and      *)
(* the inert twin `twin`.                                                                    *)
EXTENDS Render

CONSTANTS MaxLen,       \* data strings up to this length
          MaxEnc,       \* strings of up to this many tokens over the encoded forms (and "a")
          ComboIds      \* which combos to enumerate (tier)

AllIds == {c.id : c \in AllCombos}
HttpIds == {c.id : c \in HttpCombos}

VARIABLES cb, d, st, out
mcvars == <<cb, d, st, out>>

\* strings over the encoded forms that contain at least one of them
EncStringsUpTo(n) == TX!StringsUpTo(EncAlphabet, n) \ TX!StringsUpTo({"a"}, n)
\* prefixed names, padded menus and title structures: one shorter
DataFor(c) == LET k == IF c.short THEN 1 ELSE 0
              IN TX!StringsUpTo(DataAlphabet, MaxLen - k) \cup EncStringsUpTo(MaxEnc - k)

Init == /\ cb \in ComboIds
        /\ d \in DataFor(ComboOf(cb))
        /\ st = "new"
        /\ out = [echoes |-> <<>>, twin |-> "", nseg |-> 0, twins |-> <<>>, rawsite |-> "", secure |-> TRUE]
Compute == /\ st = "new" /\ st' = "done" /\ UNCHANGED <<cb, d>>
           /\ out' = [echoes |-> ModelEchoes(ComboOf(cb), d),
                      twin |-> TwinOf(d, SepSet(ComboOf(cb).seps)),
                      nseg |-> Len(Segs(ComboOf(cb), d)),
                      twins |-> <<cb>> \o (IF ComboOf(cb).urlfilter THEN <<ComboOf(cb).rtwin>> ELSE <<>>),
                      rawsite |-> RawSiteOf(ComboOf(cb), d),
                      secure |-> UrlSecure(d)]
Next == Compute
Spec == Init /\ [][Next]_mcvars

Done == st = "done"
\* every echo at an escaping site is inert in its context, for every data string
Inert == Done => InertEchoes(out.echoes, HrefRawSites \cup InfoLineRawSites)
\* the twin carries no markup metacharacter (only the separators of a line-based source), and the code's own
\* output for it is inert at EVERY site, including the raw ones (so the twin is a sound oracle)
TwinInert == Done => /\ (TX!Chars(out.twin) \cap TwinMeta) \subseteq SepSet(ComboOf(cb).seps)
                     /\ InertEchoes(ModelEchoes(ComboOf(cb), out.twin), {})
                     /\ \/ Len(ModelEchoes(ComboOf(cb), out.twin)) = Len(out.echoes)
                        \/ /\ ComboOf(cb).urlfilter /\ ~UrlSecure(d)        \* refused URL: the not-found page is the twin
                           /\ Len(out.echoes) = Len(ComboOf(cb).refused) * out.nseg
\* Gopher+ content lines: the space is in front of whatever the line holds, so no echo can start a line
ContentPrefixed == Done => \A i \in 1..Len(out.echoes) :
                      out.echoes[i].site = "gp_content" => SiteTab[out.echoes[i].site].xf = "prefix"
\* no site writes into an HTTP header: header values are server-chosen
NoHeaderSite == \A c \in AllCombos : \A i \in 1..Len(c.sites) : SiteTab[c.sites[i]].ctx # "header"
\* the raw (literal) branch of geturl() cannot be reached by a name planted at the root, whatever its prefix: a name
\* holds no "/", so "://" never follows the prefix.  (The same directory page sites stay transformation "quote".)
LiteralUnreachable == \A c \in AllCombos : \A i \in 1..Len(c.sites) :
                          c.sites[i] \notin {"http_topper_lit", "http_gopherlink_lit"}
\* ... while the branch itself exists and is raw
ASSUME GetUrlLiteral("/URL:x://y") /\ GetUrlLiteral("URL:http://h/") /\ ~GetUrlLiteral("/URL:x:y") /\ ~GetUrlLiteral("/URL:://")
ASSUME UrlBranch("/URL:x") /\ UrlBranch("URL:") /\ ~UrlBranch("/dc/URL:x") /\ TopperSiteFor("/URL:x://y") = "http_topper_lit"
\* combos are identified by their id
IdsUnique == \A x, y \in AllCombos : x.id = y.id => x = y
\* witnesses (expected to be VIOLATED: the raw sites do let metacharacters through) - see MC_C13_witness.cfg
W_RawSitesInert == Done => InertEchoes(out.echoes, {})

ASSUME HtmlEscape("<&\"'>") = "&lt;&amp;&quot;&#x27;&gt;" /\ UrlQuote("<\"\r\n a") = "%3C%22%0D%0A%20a"
ASSUME UrlQuote("%3C&#60;") = "%253C%26%2360%3B" /\ HtmlEscape("&lt;%22") = "&amp;lt;%22" /\ TwinOf("%3C&lt;\n", {"\n"}) = "a3Calt;\n"
ASSUME WsCollapse("a\r\n\nb\n") = "a b " /\ SplitOn("a\n\nb", {"\n"}) = <<"a", "", "b">>
ASSUME EscapedOK("text", "&amp;lt;a>") /\ ~EscapedOK("text", "a&b") /\ ~EscapedOK("dqattr", "a\"") /\ EscapedOK("text", "\"'")
=============================================================================
