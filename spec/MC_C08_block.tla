---------------------------- MODULE MC_C08_block ----------------------------
(* The block parser of handlers/UMN.py (getLinkItem) as a state machine over the lines of   *)
(* ONE block: every transition is one iteration of its read loop (UMN!GLIStep).  TLC         *)
(* explores every order of every subset of the six field lines (1,957 blocks per value       *)
(* assignment), blocks with abstracts/continuations, comments, padding and ignorable fields, *)
(* and checks                                                                                *)
(*   Progress            every iteration consumes at least one line or leaves the loop       *)
(*   BlockAsDocumented   when the loop has been left at the end of the input, the fields set *)
(*                       on the entry are exactly the fields the manual's reading of the     *)
(*                       block (UMN!RefBlocks, DESIGN.md E.1) sets, with the same values     *)
(*                       (Host=+ / Port=+ = not set = this server)                           *)
(* except on blocks in the recorded deviation class "comment-after-path".                    *)
EXTENDS UMN, TLC

VARIABLES lines, st
bvars == <<lines, st>>

Dir0 == [sel |-> "/d"]

RECURSIVE Arr(_)
Arr(S) == {<<>>} \cup UNION {{<<x>> \o t : t \in Arr(S \ {x})} : x \in S}
Insert(q, i, x) == SubSeq(q, 1, i) \o <<x>> \o SubSeq(q, i + 1, Len(q))

SixOverride == {"Name=Mid", "Type=1", "Path=./a.txt", "Host=h.example", "Port=7070", "Numb=2"}
SixAdd      == {"Name=Mid", "Type=1", "Path=x/", "Host=+", "Port=+", "Numb=-1"}
SixAbs      == {"Name=b0", "Type=X", "Path=/abs/", "Abstract=one line", "Port=+", "Numb=10"}
Cont        == {<<"Path=./b", "Abstract=first\\", "second", "Name=Mid">>, <<"Abstract=first\\", "second\\", "third", "Path=URL:http://h.example/p">>,
                <<"Name=Mid", "Path=~/b/", "Abstract=last\\">>}
Decor == {<<"Path=./a.txt", "Name=Mid", "Numb=2">>, <<"Name=Mid", "Numb=2", "Path=./a.txt">>, <<"Name=Mid", "Path=/abs", "Host=+", "Port=+">>}
Decorated == UNION {{Insert(b, i, x) : i \in 0..Len(b), x \in {"# a comment", "Admin=me", "TTL=3", "URL=u"}} : b \in Decor}
Blocks == Arr(SixOverride) \cup Arr(SixAdd) \cup Arr(SixAbs) \cup Cont \cup Decorated
          \cup {[i \in 1..Len(b) |-> "  " \o b[i] \o " "] : b \in Decor} \cup {b \o <<"">> : b \in Decor}

Init == lines \in Blocks /\ st = NewItem(Dir0, NoS, 1)
Step == st.status = "run" /\ st' = GLIStep(lines, st) /\ UNCHANGED lines
Spec == Init /\ [][Step]_bvars

Progress == [][st'.pos > st.pos \/ st'.status # "run"]_bvars

SameOpt(implopt, refopt) == implopt.s = refopt.s /\ (implopt.s => implopt.v = refopt.v)
PlusIsUnset(implopt, refopt) ==          \* Host=+ / Port=+ leave the field unset: rendered as this server
    IF refopt.s /\ refopt.v = "+" THEN ~implopt.s ELSE SameOpt(implopt, refopt)
PathAgrees(e, p) ==
    IF IsDotSlash(p) THEN e.merge /\ e.sel = "/d/" \o From(p, 3)
    ELSE ~e.merge /\ e.abspath = IsRelative(p) /\ e.sel = p

AtEnd == st.status \in {"break", "stop"} /\ (st.pos > Len(lines) \/ (st.pos = Len(lines) /\ lines[Len(lines)] = ""))
BlockAsDocumented ==
    (AtEnd /\ ~("CommentEndsBlock" \in Quirks /\ CommentSplits(lines, 1, "nopath"))) =>
        LET rb == RefBlocks(lines) IN
        IF Len(rb) = 0 THEN ~st.done
        ELSE /\ Len(rb) = 1
             /\ st.done = rb[1].path.s
             /\ SameOpt(st.e.name, rb[1].name) /\ SameOpt(st.e.type, rb[1].type)
             /\ PlusIsUnset(st.e.host, rb[1].host) /\ PlusIsUnset(st.e.port, rb[1].port)
             /\ (rb[1].numb.s => st.e.num = rb[1].numb)
             /\ (~rb[1].numb.s => NumOf(st.e) = 0)
             /\ (rb[1].abs.s <=> st.e.abs.s) /\ (rb[1].abs.s => AbsLines(st.e.abs.v) = rb[1].abs.v)
             /\ (rb[1].path.s => PathAgrees(st.e, rb[1].path.v))
\* vacuity witness (must be VIOLATED when checked): some block reaches its end with a path
W_NeverDone == ~(AtEnd /\ st.done /\ st.e.abs.s)
=============================================================================
