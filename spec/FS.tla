--------------------------------- MODULE FS ---------------------------------
(* File-system model for the containment property (C01).                                   *)
(*                                                                                          *)
(* A small fixed tree with a document root two levels below "/", things OUTSIDE the root    *)
(* that an escaping request would hit (a secret beside the root, a sibling directory whose  *)
(* name has the root's name as a prefix, a parent directory that is itself a Maildir and    *)
(* holds a look-alike of every name in the root, a working directory with look-alike        *)
(* files), and INSIDE the root one node of every kind the                                   *)
(* handlers distinguish (plain file, directory, ZIP archive, mbox, executable, Maildir,     *)
(* a directory symlink and a file symlink that stay inside).  harness/c01.py builds exactly *)
(* this tree on disk (twice, with different content outside the root).                      *)
(*                                                                                          *)
(* Path resolution is POSIX: components are looked up left to right in the CURRENT          *)
(* directory, "" and "." stay, ".." goes to the parent (never above "/"), a symlink splices *)
(* its target, a lookup in a non-directory is ENOTDIR, a missing name is ENOENT.  The walk  *)
(* records whether it ever consulted a node that is not inside the root: that is the        *)
(* "taint" of the result (the answer, even "no such file", then depends on the world        *)
(* outside the root).                                                                       *)
(*                                                                                          *)
(* TEXT REPRESENTATION.  Selectors and paths are SEQUENCES OF ONE-CHARACTER STRINGS         *)
(* (<<"/", "g">>), not TLA+ strings: TLC interns every string value it creates, which made  *)
(* the string version of this model about 20 times slower (measured).  Q("...") converts a  *)
(* literal; all literals used by operators are named constants so TLC evaluates them once.  *)
EXTENDS Naturals, Sequences, TLC

Q(s) == [i \in 1..Len(s) |-> SubSeq(s, i, i)]          \* "ab" -> <<"a", "b">>

StartsWithQ(s, p) == Len(p) <= Len(s) /\ SubSeq(s, 1, Len(p)) = p
EndsWithQ(s, p)   == Len(p) <= Len(s) /\ SubSeq(s, Len(s) - Len(p) + 1, Len(s)) = p
HasQ(s, sub)      == \E i \in 1..(Len(s) - Len(sub) + 1) : SubSeq(s, i, i + Len(sub) - 1) = sub
HasChar(s, c)     == \E i \in 1..Len(s) : s[i] = c
RECURSIVE FindCharFrom(_, _, _)
FindCharFrom(s, c, i) == IF i > Len(s) THEN 0 ELSE IF s[i] = c THEN i ELSE FindCharFrom(s, c, i + 1)
FindChar(s, c) == FindCharFrom(s, c, 1)                 \* 1-based position of the first c, 0 if none
RECURSIVE LastCharFrom(_, _, _)
LastCharFrom(s, c, i) == IF i = 0 THEN 0 ELSE IF s[i] = c THEN i ELSE LastCharFrom(s, c, i - 1)
LastChar(s, c) == LastCharFrom(s, c, Len(s))
\* Python s.split(c): always at least one field
RECURSIVE SplitQ(_, _)
SplitQ(s, c) == LET i == FindChar(s, c) IN
                IF i = 0 THEN <<s>> ELSE <<SubSeq(s, 1, i - 1)>> \o SplitQ(SubSeq(s, i + 1, Len(s)), c)
LastOf(s) == IF Len(s) = 0 THEN "" ELSE s[Len(s)]

---------------------------------------------------------------------------------
(* The tree.  A canonical path is the sequence of its names: <<>> is "/", the root is <<o, r>>. *)

Canon(str) == IF str = "" THEN <<>> ELSE Tail(SplitQ(Q(str), "/"))     \* "/o/r" -> <<<<"o">>, <<"r">>>>

D(p)      == [p |-> p, k |-> "dir",  t |-> "", f |-> "plain"]
DF(p, f)  == [p |-> p, k |-> "dir",  t |-> "", f |-> f]
F(p, f)   == [p |-> p, k |-> "file", t |-> "", f |-> f]
L(p, t)   == [p |-> p, k |-> "link", t |-> t,  f |-> "plain"]

NodesS ==
  { D(""), D("/o"),
    \* ---- outside the root ----
    F("/o/secret", "plain"),
    D("/o/rg"), F("/o/rg/g", "plain"),                              \* sibling: root name + "g"
    \* the parent of the root is a look-alike of the root: whatever name a request uses inside the
    \* root also exists one level up, so that an escape by ".." lands on something of every kind
    F("/o/g", "plain"), D("/o/k"), F("/o/k/g", "plain"), F("/o/z.zip", "zip"), F("/o/m.mbox", "mbox"),
    F("/o/s.sh", "exec"), DF("/o/md", "maildir"), D("/o/md/new"), D("/o/md/cur"), D("/o/md/tmp"),
    F("/o/md/new/1", "plain"),
    D("/o/new"), D("/o/cur"), D("/o/tmp"), F("/o/new/1", "plain"),  \* parent of the root is a Maildir
    D("/o/w"), F("/o/w/g", "plain"), F("/o/w/m.mbox", "mbox"), F("/o/w/s.sh", "exec"),
    F("/o/w/i.zip", "zip"), F("/o/w/p.zip", "zip"),
    D("/o/w/k"), F("/o/w/k/g", "plain"), F("/o/w/k/s.sh", "exec"),  \* a working directory
    \* ---- the document root ----
    D("/o/r"),
    F("/o/r/g", "plain"),
    D("/o/r/k"), F("/o/r/k/g", "plain"),
    F("/o/r/z.zip", "zip"),
    F("/o/r/m.mbox", "mbox"),
    F("/o/r/s.sh", "exec"),
    DF("/o/r/md", "maildir"), D("/o/r/md/new"), D("/o/r/md/cur"), D("/o/r/md/tmp"),
    F("/o/r/md/new/1", "plain"),
    L("/o/r/lk", "k"), L("/o/r/lg", "g") }

RootS == "/o/r"
RootQ == Q(RootS)               \* as characters (prefix of every path the server builds)
RootC == Canon(RootS)           \* as canonical path

TreePaths == {Canon(n.p) : n \in NodesS}
Tree == [c \in TreePaths |-> LET n == CHOOSE n \in NodesS : Canon(n.p) = c
                             IN [k |-> n.k, t |-> Q(n.t), f |-> n.f]]

\* members of the archive /o/r/z.zip (the in-memory index of VFSZip); "exec" = archived with mode 0755
ZipDirs  == {"", "k", "md", "md/new", "md/cur"}
ZipFiles == {"g", "k/g", "k/s.sh", "m.mbox", "s.sh", "md/new/1", "i.zip", "p.zip"}
ZipMembers ==
  [ m \in {Q(p) : p \in ZipDirs \cup ZipFiles} |->
      LET p == CHOOSE p \in ZipDirs \cup ZipFiles : Q(p) = m IN
      CASE p \in ZipDirs               -> [k |-> "dir", f |-> IF p = "md" THEN "maildir" ELSE "plain"]
        [] p = "m.mbox"                -> [k |-> "file", f |-> "mbox"]
        [] p \in {"s.sh", "k/s.sh"}    -> [k |-> "file", f |-> "exec"]
        [] p = "i.zip"                 -> [k |-> "file", f |-> "zip"]      \* a member that is itself an archive
        \* ("p.zip": a member NAMED like an archive whose bytes are not one)
        [] OTHER                       -> [k |-> "file", f |-> "plain"] ]

Inside(n) == Len(n) >= Len(RootC) /\ SubSeq(n, 1, Len(RootC)) = RootC
Parent(n) == IF Len(n) = 0 THEN n ELSE SubSeq(n, 1, Len(n) - 1)

NoNode == [k |-> "none", f |-> "none"]

DotN    == <<".">>
DotDotN == <<".", ".">>

\* Walk(cur, rest, out, fuel): cur = canonical path of an existing node, rest = names still
\* to look up, out = some consulted node was not inside the root.
RECURSIVE Walk(_, _, _, _)
Walk(cur, rest, out, fuel) ==
    IF Len(rest) = 0 THEN [err |-> "ok", at |-> cur, out |-> out]
    ELSE IF Tree[cur].k # "dir" THEN [err |-> "ENOTDIR", at |-> cur, out |-> out]
    ELSE LET c == Head(rest)
             r == Tail(rest)
         IN IF c = <<>> \/ c = DotN THEN Walk(cur, r, out, fuel)
            ELSE IF c = DotDotN THEN Walk(Parent(cur), r, out \/ ~Inside(Parent(cur)), fuel)
            ELSE LET ch == Append(cur, c) IN
                 IF ch \notin TreePaths THEN [err |-> "ENOENT", at |-> ch, out |-> out \/ ~Inside(ch)]
                 ELSE IF Tree[ch].k = "link"
                 THEN IF fuel = 0 THEN [err |-> "ELOOP", at |-> ch, out |-> out \/ ~Inside(ch)]
                      ELSE LET t == Tree[ch].t IN
                           IF Len(t) > 0 /\ t[1] = "/"
                           THEN Walk(<<>>, Tail(SplitQ(t, "/")) \o r, TRUE, fuel - 1)   \* via "/": not inside
                           ELSE Walk(cur, SplitQ(t, "/") \o r, out \/ ~Inside(ch), fuel - 1)
                 ELSE Walk(ch, r, out \/ ~Inside(ch), fuel)

\* Resolve an absolute path (characters) as the kernel would.  A path below the root is walked
\* starting AT the root (the root itself is canonical), anything else from "/" - and is then
\* tainted from the first step.  A relative path depends on the working directory.
WalkPath(p) ==
    IF p = RootQ THEN [err |-> "ok", at |-> RootC, out |-> FALSE]
    ELSE IF StartsWithQ(p, RootQ) /\ p[Len(RootQ) + 1] = "/"
    THEN Walk(RootC, SplitQ(SubSeq(p, Len(RootQ) + 2, Len(p)), "/"), FALSE, 4)
    ELSE IF Len(p) > 0 /\ p[1] = "/" THEN Walk(<<>>, Tail(SplitQ(p, "/")), TRUE, 4)
    ELSE [err |-> "relative", at |-> <<>>, out |-> TRUE]

NodeAt(w)  == IF w.err = "ok" THEN [k |-> Tree[w.at].k, f |-> Tree[w.at].f] ELSE NoNode
StatP(p)   == LET w == WalkPath(p)
                  n == NodeAt(w)
              IN [k |-> n.k, f |-> n.f, out |-> w.out, err |-> w.err, at |-> w.at]
Contained(p) == ~WalkPath(p).out
\* names in a directory (canonical path), as os.listdir would return them
Children(n) == {c[Len(c)] : c \in {c \in TreePaths : Len(c) = Len(n) + 1 /\ Parent(c) = n}}

\* self-checks of the tree and of the resolver (TLC evaluates them once)
ASSUME \A c \in TreePaths : Parent(c) \in TreePaths
ASSUME Inside(Canon("/o/r/g")) /\ ~Inside(Canon("/o/rg/g")) /\ ~Inside(Canon("/o")) /\ Inside(RootC)
ASSUME StatP(Q("/o/r/lk/g")).k = "file" /\ ~StatP(Q("/o/r/lk/g")).out
ASSUME StatP(Q("/o/r/../secret")).k = "file" /\ StatP(Q("/o/r/../secret")).out
ASSUME StatP(Q("/o/r/k/../g")).k = "file" /\ ~StatP(Q("/o/r/k/../g")).out
ASSUME StatP(Q("/o/r/g/")).err = "ENOTDIR" /\ StatP(Q("/o/r//k/./g")).k = "file"
ASSUME StatP(Q("/o/rg/g")).out /\ WalkPath(Q("/o/r/../../../..")).at = <<>>
ASSUME StatP(Q("/o/r/../m.mbox")).f = "mbox" /\ StatP(Q("/o/r/../m.mbox")).out
ASSUME StatP(Q("/o/r/nothere")).err = "ENOENT" /\ ~StatP(Q("/o/r/nothere")).out
=============================================================================
