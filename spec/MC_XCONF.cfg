SPECIFICATION Spec
CONSTANT Defects = {"liveview"}
CONSTANT K = 2
CONSTANT KF = 1
CONSTANT MimeDom = {"p", "a", "u", "pa", "ap", "pp"}
CONSTANT PairInvalid = FALSE
INVARIANT StatesOk
INVARIANT FailAborts
INVARIANT InvalidRefused
INVARIANT ValidServes
INVARIANT ServingReady
PROPERTY StepsOk
CHECK_DEADLOCK FALSE
