----------------------------- MODULE TalHandler -----------------------------
(* XTALH - the server-side template handler pygopherd/handlers/tal.py (TALFileHandler, TALLoader,          *)
(* RecursiveTALLoader) as one request = Recv -> Claim -> Entry -> Prepare -> Header -> Compile ->           *)
(* Seg* (one step per TALES path segment evaluated on a macro loader) -> Finish.                            *)
(*                                                                                                          *)
(* PROMISES (what an administrator / template author relies on) and their source:                           *)
(*  ClaimRule     the handler claims exactly regular files whose selector ends in ".tal"                    *)
(*                (tal.py canhandlerequest: FileHandler.canhandlerequest and endswith(".tal"); docstring)   *)
(*  TypeOfInner   "x.html.tal" is announced with the MIME type / gopher type of "x.html" (conf: '.tal' is an *)
(*                ENCODING named tal.TALFileHandler; tal.py getentry "Remove the TAL encoding and revert";  *)
(*                tests/handlers/test_tal.py: text/html, type h) - in HTTP headers, Gopher+ !, listings.     *)
(*  Bindings      the names a template sees: selector, handler, entry, talbasename (= selector minus ".tal"),*)
(*                allowpythonpath (1 without a configuration section, else the option), protocol, root,     *)
(*                rroot, dir, rdir (loaders at "/" and at dirname(selector)); getpath/getparent/            *)
(*                getchildrennames (tal.py write + testdata/talsample.html.tal).                            *)
(*  Resolves      loader.<name> = compiled <dir>/<name>.html.tal, else a loader for the directory           *)
(*                <dir>/<name>, else missing; file before directory; RecursiveTALLoader retries at each    *)
(*                ancestor, NEAREST ancestor wins, stops at "/" ("Already at the top -- can't recurse").    *)
(*  Contained     every file a loader opens lies inside the document root (base.py isrequestsecure: "we     *)
(*                eliminate ./, ../" for selectors; the loaders take path segments of a TEMPLATE, which    *)
(*                with allowpythonpath = no is exactly the untrusted-author setting the option exists for). *)
(*  Terminates    a lookup ends after at most depth+1 probes.                                               *)
(*  Answered / ErrorReply   a request gets exactly one well-formed reply; a template that cannot be compiled *)
(*                is answered by ONE error reply, not by a success header (base.py prepare(): "used so that *)
(*                the protocols can try to detect an error before transmitting a result").                  *)
(*  LengthHonest  a Gopher+ "+<n>" announces exactly n bytes (RFC Gopher+ 2.3; file.py comment "the size   *)
(*                of the compressed file on disk is not the size of the response" - same situation).        *)
(*  ListingSurvives  a ".tal" file of any inner name does not take the listing of its directory down.       *)
(*  KeepsServing  after any of this the next request is answered normally.                                  *)
(*                                                                                                          *)
(* NAMED DEVIATIONS of the pinned code are switches (TRUE = promised, FALSE = as coded):                    *)
(*  KeyChecked        FALSE: a path segment ".." is joined like any name -> loader leaves the root           *)
(*  CompileInPrepare  FALSE: template compiled in write(), after the success header                          *)
(*  SizeUnknown       FALSE: Gopher+ length = size of the template SOURCE                                   *)
(*  InnerTypeOptional FALSE: inner name without a known MIME type -> TypeError in getentry (no reply;       *)
(*                    listing of the directory dies)                                                        *)
EXTENDS Naturals, Integers, Sequences, FiniteSets, TLC, Text

CONSTANTS KeyChecked, CompileInPrepare, SizeUnknown, InnerTypeOptional

\* ---------------------------------------------------------------- fixture tree (B1: harness/xtalh.py builds it from the case)
Root == <<>>
LocA == <<"a">>
LocB == <<"a", "b">>
Locs == {Root, LocA, LocB}
DirM == <<"a", "m">>                     \* optional DIRECTORY /a/m holding m.html.tal (file-before-directory)

PathStr(p) == IF Len(p) = 0 THEN "/" ELSE "/" \o Join(p, "/")
Front(p)   == SubSeq(p, 1, Len(p) - 1)
Parent(p)  == IF Len(p) = 0 THEN p ELSE Front(p)        \* TALLoader.getparent: lexical dirname, "/" is its own parent

Dirs(c) == Locs \cup (IF c.dirm THEN {DirM} ELSE {})
MacroDirs(c) == c.macroAt \cup (IF c.dirm THEN {DirM} ELSE {})

\* physical place of a lexical loader path: up = levels above the document root, p = path below that point
RECURSIVE NormAcc(_, _, _)
NormAcc(keys, up, p) ==
    IF Len(keys) = 0 THEN [up |-> up, p |-> p]
    ELSE IF Head(keys) = ".."
         THEN (IF Len(p) > 0 THEN NormAcc(Tail(keys), up, Front(p)) ELSE NormAcc(Tail(keys), up + 1, p))
         ELSE NormAcc(Tail(keys), up, Append(p, Head(keys)))
Norm(keys) == NormAcc(keys, 0, <<>>)

IsDirAt(c, ph)  == IF ph.up = 0 THEN ph.p \in Dirs(c) ELSE ph.p = <<>>
\* <ph>.html.tal exists: a macro file m.html.tal in the directory Front(ph.p); the bait lives one level ABOVE the root
IsTmplAt(c, ph) == /\ Len(ph.p) > 0 /\ ph.p[Len(ph.p)] = "m"
                   /\ IF ph.up = 0 THEN Front(ph.p) \in MacroDirs(c) ELSE (ph.up = 1 /\ Len(ph.p) = 1)
FileId(ph) == IF ph.up = 0 THEN "in:" \o PathStr(Front(ph.p)) ELSE "out"

\* ---------------------------------------------------------------- names and types
InnerName(n) == SubSeq(n, 1, Len(n) - 4)
InnerMime(n) == IF EndsWith(InnerName(n), ".html") THEN "text/html"
                ELSE IF EndsWith(InnerName(n), ".txt") THEN "text/plain"
                ELSE IF EndsWith(InnerName(n), ".gif") THEN "image/gif" ELSE ""
TypeOfMime(m) == IF m = "text/html" THEN "h" ELSE IF m = "text/plain" THEN "0" ELSE IF m = "image/gif" THEN "g" ELSE ""
Claims(c)  == c.kind = "file" /\ EndsWith(c.name, ".tal")
Typed(c)   == InnerMime(c.name) # ""
Selector(c) == PathStr(Append(c.loc, c.name))
IsListing(c) == c.fe \in {"ls", "lsp"}
ProtoOf(fe) == IF fe = "http" THEN "HTTPProtocol" ELSE IF fe \in {"g", "ls"} THEN "GopherProtocol" ELSE "GopherPlusProtocol"
AllowPy(c) == c.cfg # "no"
ChildNames(c, d) == (IF d = c.loc /\ c.kind # "none" THEN {c.name} ELSE {})
                    \cup (IF d = Root THEN {"a", "ok.txt"} ELSE {}) \cup (IF d = LocA THEN {"b"} ELSE {})
                    \cup (IF d = LocA /\ c.dirm THEN {"m"} ELSE {}) \cup (IF d \in MacroDirs(c) THEN {"m.html.tal"} ELSE {})

\* ---------------------------------------------------------------- the loaders: one TALES segment = one SegStep
NoVal == [val |-> "none", kind |-> "", path |-> <<>>, file |-> "", opened |-> {}, probes |-> 0]
StartLoader(c) ==
    [val |-> "loader", kind |-> (IF c.ldr \in {"rroot", "rdir"} THEN "rec" ELSE "plain"),
     path |-> (IF c.ldr \in {"dir", "rdir"} THEN c.loc ELSE Root), file |-> "", opened |-> {}, probes |-> 0]

RECURSIVE Lookup(_, _, _, _, _, _)
Lookup(c, kind, path, key, opened, probes) ==        \* TALLoader.__getattr__ / RecursiveTALLoader.__getattr__
    IF KeyChecked /\ key = ".."
    THEN [NoVal EXCEPT !.opened = opened, !.probes = probes + 1]
    ELSE LET ph == Norm(Append(path, key)) IN
         IF IsTmplAt(c, ph)
         THEN [val |-> "tmpl", kind |-> kind, path |-> path, file |-> FileId(ph), opened |-> opened \cup {FileId(ph)}, probes |-> probes + 1]
         ELSE IF IsDirAt(c, ph)
         THEN [val |-> "loader", kind |-> kind, path |-> Append(path, key), file |-> "", opened |-> opened, probes |-> probes + 1]
         ELSE IF kind = "rec" /\ Len(path) > 0
         THEN Lookup(c, kind, Parent(path), key, opened, probes + 1)
         ELSE [NoVal EXCEPT !.opened = opened, !.probes = probes + 1]

SegStep(c, ld, key) ==
    IF ld.val # "loader" THEN [NoVal EXCEPT !.opened = ld.opened, !.probes = ld.probes]      \* a template / nothing has no such attribute
    ELSE IF key = "getparent" THEN [ld EXCEPT !.path = Parent(ld.path)]
    ELSE Lookup(c, ld.kind, ld.path, key, ld.opened, 0)

RECURSIVE WalkFrom(_, _, _)
WalkFrom(c, ld, walk) == IF Len(walk) = 0 THEN ld ELSE WalkFrom(c, SegStep(c, ld, Head(walk)), Tail(walk))
WalkEnd(c)   == WalkFrom(c, StartLoader(c), c.walk)
ExpMacro(c)  == IF WalkEnd(c).val = "tmpl" THEN WalkEnd(c).file ELSE ""
ExpOpened(c) == WalkEnd(c).opened
HasDotDot(c) == \E i \in 1..Len(c.walk) : c.walk[i] = ".."

\* ---------------------------------------------------------------- expected reply (pure; the state machine below must agree)
ExpHandlerIsTal(c) == Claims(c) /\ ~IsListing(c)
ExpStatus(c) ==
    IF IsListing(c) THEN (IF Claims(c) /\ ~Typed(c) /\ ~InnerTypeOptional THEN "none" ELSE "ok")
    ELSE IF c.kind = "none" THEN "error"
    ELSE IF c.kind = "dir" THEN "ok"
    ELSE IF ~Claims(c) THEN "ok"
    ELSE IF ~Typed(c) /\ ~InnerTypeOptional THEN "none"
    ELSE IF c.fe = "gi" THEN "ok"                                   \* information only: the template is not compiled
    ELSE IF c.shape = "syntax" THEN (IF CompileInPrepare THEN "error" ELSE "broken")
    ELSE "ok"
ExpAnnounce(c) == IF c.fe # "gp" \/ ExpStatus(c) \notin {"ok", "broken"} THEN "na"
                  ELSE IF Claims(c) THEN (IF SizeUnknown THEN "unknown" ELSE "src") ELSE "exact"

\* ---------------------------------------------------------------- the request as a state machine
VARIABLES c, pc, handler, sent, status, announce, ld, rest
vars == <<c, pc, handler, sent, status, announce, ld, rest>>

InitWith(CaseSet) == /\ c \in CaseSet /\ pc = "recv" /\ handler = "" /\ sent = <<>> /\ status = "" /\ announce = "na"
                     /\ ld = NoVal /\ rest = <<>>

Done(st) == /\ pc' = "done" /\ status' = st

Claim == /\ pc = "recv"
         /\ IF IsListing(c)
            THEN /\ handler' = "UMNDirHandler"
                 /\ (IF Claims(c) /\ ~Typed(c) /\ ~InnerTypeOptional
                     THEN Done("none") /\ UNCHANGED sent              \* getentry of the listed file raises
                     ELSE Done("ok") /\ sent' = <<"ok">>)
                 /\ UNCHANGED <<announce, ld, rest>>
            ELSE IF Claims(c) THEN /\ handler' = "TALFileHandler" /\ pc' = "claimed" /\ UNCHANGED <<sent, status, announce, ld, rest>>
            ELSE /\ handler' = (IF c.kind = "none" THEN "" ELSE "other")
                 /\ sent' = <<IF c.kind = "none" THEN "err" ELSE "ok">>
                 /\ Done(IF c.kind = "none" THEN "error" ELSE "ok")
                 /\ announce' = (IF c.fe = "gp" /\ c.kind # "none" THEN "exact" ELSE "na")
                 /\ UNCHANGED <<ld, rest>>
         /\ UNCHANGED c

Entry == /\ pc = "claimed"
         /\ IF ~Typed(c) /\ ~InnerTypeOptional THEN Done("none") /\ UNCHANGED sent
            ELSE IF c.fe = "gi" THEN Done("ok") /\ sent' = <<"ok">>
            ELSE pc' = "entry" /\ UNCHANGED <<sent, status>>
         /\ UNCHANGED <<c, handler, announce, ld, rest>>

Prepare == /\ pc = "entry"
           /\ IF CompileInPrepare /\ c.shape = "syntax" THEN Done("error") /\ sent' = <<"err">>
              ELSE pc' = "prepared" /\ UNCHANGED <<sent, status>>
           /\ UNCHANGED <<c, handler, announce, ld, rest>>

Header == /\ pc = "prepared" /\ pc' = "header" /\ sent' = Append(sent, "ok")
          /\ announce' = (IF c.fe = "gp" THEN (IF SizeUnknown THEN "unknown" ELSE "src") ELSE "na")
          /\ UNCHANGED <<c, handler, status, ld, rest>>

Compile == /\ pc = "header"
           /\ IF c.shape = "syntax" THEN Done("broken") /\ UNCHANGED <<ld, rest>>
              ELSE /\ pc' = "expand" /\ UNCHANGED status
                   /\ (IF c.shape = "use" THEN ld' = StartLoader(c) /\ rest' = c.walk ELSE UNCHANGED <<ld, rest>>)
           /\ UNCHANGED <<c, handler, sent, announce>>

Seg == /\ pc = "expand" /\ Len(rest) > 0
       /\ ld' = SegStep(c, ld, Head(rest)) /\ rest' = Tail(rest)
       /\ UNCHANGED <<c, pc, handler, sent, status, announce>>

Finish == /\ pc = "expand" /\ Len(rest) = 0 /\ Done("ok")
          /\ UNCHANGED <<c, handler, sent, announce, ld, rest>>

Next == Claim \/ Entry \/ Prepare \/ Header \/ Compile \/ Seg \/ Finish
SpecWith(CaseSet) == InitWith(CaseSet) /\ [][Next]_vars

\* ---------------------------------------------------------------- invariants of the design model
AtEnd == pc = "done"
ModelClaimRule   == AtEnd => ((handler = "TALFileHandler") <=> ExpHandlerIsTal(c))
ModelContained   == "out" \notin ld.opened
ModelTerminates  == ld.probes <= Len(c.loc) + Len(c.walk) + 2
ModelOneReply    == AtEnd => (Len(sent) = 1 /\ status \in {"ok", "error"} /\ (status = "error" <=> sent = <<"err">>))
ModelLengthHonest == announce # "src"
ModelListing     == (AtEnd /\ IsListing(c)) => status = "ok"
ModelAgrees      == AtEnd => /\ status = ExpStatus(c) /\ announce = ExpAnnounce(c)
                             /\ (c.shape = "use" /\ status = "ok" /\ c.fe # "gi" /\ Claims(c) /\ ~IsListing(c))
                                    => (ExpOpened(c) = ld.opened /\ ExpMacro(c) = (IF ld.val = "tmpl" THEN ld.file ELSE ""))
\* nearest ancestor wins, stated directly on the tree: a recursive lookup of "m" from directory d (no ".." involved)
\* yields the macro file of the LONGEST prefix of d that has one
RECURSIVE NearestWith(_, _)
NearestWith(cc, d) == IF d \in MacroDirs(cc) THEN "in:" \o PathStr(d) ELSE IF Len(d) = 0 THEN "" ELSE NearestWith(cc, Front(d))
ModelNearestWins == (AtEnd /\ c.shape = "use" /\ c.walk = <<"m">> /\ c.ldr = "rdir" /\ status = "ok" /\ ~c.dirm)
                        => (IF ld.val = "tmpl" THEN ld.file ELSE "") =
                           (IF NearestWith(c, c.loc) # "" THEN NearestWith(c, c.loc) ELSE "")
=============================================================================
