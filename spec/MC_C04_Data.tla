---------------------------- MODULE MC_C04_Data ----------------------------
(* B1 data for MC_C04.  This checked-in copy is a DEFAULT; harness/c04.py regenerates the     *)
(* module at every run from the working tree: the answer of the configured MIME tables        *)
(* (mimetypes initialised as initialization.init_mimetypes does, in a process that never      *)
(* imports pygopherd) for every name of the case space, the configured decompressors of the   *)
(* "full" world, and the copy block size read from handlers/base.py.                          *)
Names == {"n_txt", "n_gz", "n_none"}
LongNames == {"n_txt"}
HistNames == {"n_txt", "n_gz"}
HistFams == {"H", "SP"}
RowShipped(n) == CASE n = "n_txt" -> [type |-> "text/plain", enc |-> "none"]
            [] n = "n_gz" -> [type |-> "text/plain", enc |-> "gzip"]
            [] n = "n_none" -> [type |-> "none", enc |-> "none"]
\* a second configuration: the `encoding` option lists only .bz2, mime.types types the suffix gz
RowAlt(n) == CASE n = "n_txt" -> [type |-> "text/plain", enc |-> "none"]
            [] n = "n_gz" -> [type |-> "application/gzip", enc |-> "none"]
            [] n = "n_none" -> [type |-> "none", enc |-> "none"]
Row(l, n) == IF l = "altenc" THEN RowAlt(n) ELSE RowShipped(n)
Decompressors == {"gzip"}
RealB == 4096
=============================================================================
