----------------------------- MODULE LinksConst -----------------------------
(* Constants of Links/Views that a TLC configuration file cannot spell: sequences, and sets *)
(* of strings containing escapes (cfg files do not process \" or \\).  This file holds the  *)
(* SHIPPED protocol order and the quick-tier alphabets; harness/c05_lib.py regenerates it   *)
(* in the scratch directory from the working tree's conf/pygopherd.conf (binding B1) and    *)
(* the tier parameters.                                                                     *)
K_ProtoOrder == <<"WAPProtocol", "GeminiProtocol", "HTTPProtocol", "HTTPSProtocol", "SpartanProtocol",
                  "GopherPlusProtocol", "SecureGopherPlusProtocol", "GopherProtocol", "SecureGopherProtocol">>
K_Tokens == {"a", " ", "%", "?", "#", "|", "+", "&", "\"", "^", ":", "..", "%41", "wap", "GEMINI-QUERY"}
K_Shapes == {"wapiti", "a b 1", "GEMINI-QUERYx", "URL:a"}
K_InnerTokens == {"a", " ", "%", "?", "|", "^", "wap", "URL:a", "a b 1", "x:y", "a\rb"}
K_Kinds2 == {"file"}
K_DeepNames == {"{{"}
K_Views == {"G", "GP", "GD", "SG", "H", "HS", "W", "M", "S"}
K_HLs == {"default", "full"}
\* MC_C06
K_LocalNames == {"a", "a b", "%", "?", "#", "|", "+", "&", "\"", "^", "%41", "a:b"}
K_RemoteSels == {"/r", "/r s", "r", ""}
K_Hosts == {"", "other.example", "localhost"}
K_UrlSels == {"URL:http://h.example/p?q=1&r", "/URL:http://h.example/"}
K_SearchTokens == {"a", " ", "1", "+", "%", "&", "=", "?", "#", "^", "%41"}
K_Kinds6 == {"file", "dir", "mbox", "maildir", "mapdir", "zip"}
K_Inner6 == {"a b", "^", "?"}
K_SearchSels == {"/echo.pyg", "/echo.pyg?arg", "/e#.pyg", "/e%41.pyg", "/e^.pyg", "/e b.pyg", "echo.pyg"}
K_SearchShapes == {"a 1", "a b 1", "/zz 0", "x HTTP/1.0", "GET /zz HTTP/1.0", "gemini://localhost/zz", "{{{{{{{{{{{{{{"}
K_Views6 == {"G", "GP", "GD", "SG", "SGP", "SGD", "H", "HS", "W", "M", "S"}
=============================================================================
