----------------------------- MODULE LinksConst -----------------------------
(* Constants of Links/Views that a TLC configuration file cannot spell (sequences).  This   *)
(* file holds the SHIPPED values; harness/c05_lib.py regenerates it in the scratch          *)
(* directory from the working tree's conf/pygopherd.conf and protocol classes (binding B1). *)
K_ProtoOrder == <<"WAPProtocol", "GeminiProtocol", "HTTPProtocol", "HTTPSProtocol", "SpartanProtocol",
                  "GopherPlusProtocol", "SecureGopherPlusProtocol", "GopherProtocol", "SecureGopherProtocol">>
=============================================================================
