------------------------------- MODULE MC_C08 -------------------------------
(* Bounded model for C08.  TLC enumerates directories (link file x .cap file x files present *)
(* x extstrip mode x sidecars), computes both readings of UMN.tla in one step per directory  *)
(* and checks AsDocumented.  Every directory TLC evaluates is also one replay case for the   *)
(* real server (binding B2): the harness reads `dir` and `res` from the state dump.          *)
EXTENDS UMN, TLC

CONSTANT Tier                      \* "quick" | "thorough"
VARIABLES dir, phase, res
mcvars == <<dir, phase, res>>

Srv == [host |-> "this.example", port |-> "7071"]
AllFiles == <<"a.txt", "b", "c.txt.gz">>
NoLF == [has |-> FALSE, lines |-> <<>>]
LF(ls) == [has |-> TRUE, lines |-> ls]
NoCap == [has |-> FALSE, f |-> "", lines |-> <<>>]
Cap(f, ls) == [has |-> TRUE, f |-> f, lines |-> ls]
Side0 == <<>>
Side(f, ext, kind, text) == [f |-> f, ext |-> ext, kind |-> kind, text |-> text]
SideAB == << Side("a.txt", ".abstract", "text", <<"side one", "side two">>), Side("b", ".abstract", "text", <<"dir abs">>) >>
D(files, mode, lf, cap, side) ==
    [sel |-> "/d", files |-> files, mode |-> mode, lf |-> lf, cap |-> cap, side |-> side, srv |-> Srv]
Std(lf) == D(AllFiles, "nonencoded", lf, NoCap, Side0)

\* all arrangements (ordered selections without repetition) of the members of S
RECURSIVE Arr(_)
Arr(S) == {<<>>} \cup UNION {{<<x>> \o t : t \in Arr(S \ {x})} : x \in S}
ArrUpTo(S, n) == {a \in Arr(S) : Len(a) <= n}
Opt(S) == {<<>>} \cup {<<x>> : x \in S}

(* Family A: every order of every subset of the six field lines (1,957 per value assignment) *)
SixOverride == {"Name=Mid", "Type=1", "Path=./a.txt", "Host=h.example", "Port=7070", "Numb=2"}
SixAdd      == {"Name=Mid", "Type=1", "Path=x/", "Host=+", "Port=+", "Numb=-1"}
SixHide     == {"Name=b0", "Type=X", "Path=~/b/", "Host=+", "Port=7070", "Numb=10"}
FamA == {Std(LF(a)) : a \in Arr(SixOverride)}
        \cup {Std(LF(a)) : a \in IF Tier = "quick" THEN ArrUpTo(SixAdd, 4) ELSE Arr(SixAdd)}
        \cup {Std(LF(a)) : a \in IF Tier = "quick" THEN ArrUpTo(SixHide, 3) ELSE Arr(SixHide)}

(* Family B: one block in canonical order, every combination of values *)
NameV == {"Name=Mid", "Name=b0"}
TypeV == IF Tier = "quick" THEN {"Type=1", "Type=X", "Type=-"} ELSE {"Type=0", "Type=1", "Type=X", "Type=-", "Type=h"}
PathV == IF Tier = "quick" THEN {"Path=./a.txt", "Path=~/b/", "Path=./zz", "Path=x", "Path=/abs/", "Path=URL:http://h.example/p"}
         ELSE {"Path=./a.txt", "Path=~/a.txt", "Path=./b/", "Path=~/b", "Path=./c.txt.gz", "Path=./zz", "Path=x", "Path=sub/x/",
               "Path=/abs", "Path=/abs/", "Path=/d/a.txt", "Path=URL:http://h.example/p", "Path=/URL:http://h.example/"}
HostV == {"Host=+", "Host=h.example"}
PortV == {"Port=+", "Port=7070"}
NumbV == IF Tier = "quick" THEN {"Numb=-1", "Numb=2"} ELSE {"Numb=-2", "Numb=-1", "Numb=0", "Numb=1", "Numb=2", "Numb=10"}
AbsV  == {<<"Abstract=one line">>, <<"Abstract=first\\", "second">>}
FamB == {Std(LF(n \o t \o p \o h \o po \o nu \o ab)) :
            n \in Opt(NameV), t \in Opt(TypeV), p \in Opt(PathV), h \in Opt(HostV), po \in Opt(PortV),
            nu \in Opt(NumbV), ab \in {<<>>} \cup (IF Tier = "quick" THEN {<<"Abstract=first\\", "second">>} ELSE AbsV)}

(* Family C: two blocks, comments, blank lines, padding, ignorable fields *)
BlkC == {<<"Path=./a.txt", "Name=Mid">>, <<"Path=./a.txt", "Numb=2">>, <<"Numb=1", "Path=./a.txt">>,
         <<"Type=X", "Path=./a.txt">>, <<"Type=-", "Path=./b">>, <<"Path=./a.txt", "Name=zed", "Numb=-1">>,
         <<"Path=./b/", "Name=Bee", "Numb=10">>, <<"Path=./c.txt.gz", "Numb=2", "Host=+">>,
         <<"Name=Mid", "Path=/abs", "Host=h.example", "Port=7070", "Type=1">>,
         <<"Name=b0", "Path=x", "Numb=1">>, <<"Name=Neg", "Path=/n", "Numb=-2">>, <<"Name=Ten", "Path=/t", "Numb=10", "Type=1">>,
         <<"Name=Dup", "Path=/d/a.txt", "Host=+", "Port=+", "Type=1">>, <<"Name=Mid", "Path=./zz">>,
         <<"Name=nopath", "Numb=1">>, <<"Path=./a.txt", "Abstract=from block">>}
         \cup (IF Tier = "quick" THEN {} ELSE
               {<<"Type=X", "Path=./b">>, <<"Path=~/a.txt", "Host=h.example">>, <<"Path=./a.txt", "Port=7070">>,
                <<"Name=a", "Path=/same">>, <<"Name=Zero", "Path=/z", "Numb=0">>, <<"Name=Two", "Path=/two", "Numb=2">>,
                <<"Path=./b", "Abstract=first\\", "second">>, <<"Name=U", "Path=URL:http://h.example/p", "Type=h">>})
Pairs == {b1 \o <<"">> \o b2 : b1 \in BlkC, b2 \in BlkC}
\* a comment / blank line / padded line / ignorable field at every position of a block
Insert(q, i, x) == SubSeq(q, 1, i) \o <<x>> \o SubSeq(q, i + 1, Len(q))
Decor == {<<"Path=./a.txt", "Name=Mid", "Numb=2">>, <<"Name=Mid", "Numb=2", "Path=./a.txt">>,
          <<"Name=Mid", "Path=/abs", "Host=+", "Port=+">>, <<"Type=X", "Path=./a.txt">>}
Decorated == UNION {{Insert(b, i, x) : i \in 0..Len(b), x \in {"# a comment", "#", "", "Admin=me", " ", "TTL=3"}} : b \in Decor}
Padded == {[i \in 1..Len(b) |-> " " \o b[i] \o " "] : b \in Decor} \cup {<<"", "">> \o b \o <<"", "">> : b \in Decor}
FamC == {Std(LF(ls)) : ls \in Pairs \cup Decorated \cup Padded \cup {<<>>}} \cup {Std(NoLF)}

(* Family D: .cap files (for a.txt or b), alone and together with a link block on the same file *)
CapLines == {"Name=Cap", "Numb=1", "Abstract=cap abs"} \cup (IF Tier = "quick" THEN {} ELSE {"Host=h.example", "Port=+"})
CapSets == ArrUpTo(CapLines, IF Tier = "quick" THEN 3 ELSE 3)
           \cup {<<"Type=X">>, <<"Type=-">>, <<"Name=Cap", "Type=-">>, <<"Type=1">>, <<"Type=1", "Name=Cap">>, <<"Numb=-1">>, <<"Numb=2">>,
                 <<"# c", "Name=Cap">>, <<"Name=Cap", "# c", "Numb=1">>, <<"Name=Cap", "# c">>, <<" Name=Cap ">>,
                 <<"Abstract=first\\", "second", "Numb=1">>}
WithCap == {<<>>, <<"Path=./a.txt", "Name=Mid">>, <<"Path=./a.txt", "Numb=2">>, <<"Path=./a.txt", "Type=1">>,
            <<"Type=X", "Path=./a.txt">>, <<"Path=./b", "Name=Mid">>, <<"Name=M", "Path=/abs", "Numb=1">>}
FamD == {D(AllFiles, "nonencoded", IF ls = <<>> THEN NoLF ELSE LF(ls), Cap(f, c), side) :
            c \in CapSets, ls \in WithCap, f \in {"a.txt", "b"}, side \in IF Tier = "quick" THEN {Side0} ELSE {Side0, SideAB}}

(* Family E: extension stripping modes x directory contents x sidecar abstracts *)
FileSets == {AllFiles, <<"a.txt">>, <<"b", "c.txt.gz">>, <<>>} \cup (IF Tier = "quick" THEN {} ELSE {<<"a.txt", "m.txt">>, <<"c.txt.gz">>})
LinksE == {<<>>, <<"Path=./a.txt", "Numb=1">>, <<"Path=./c.txt.gz", "Name=Mid">>, <<"Name=b", "Path=/abs">>, <<"Name=c", "Path=/abs">>,
           <<"Name=a", "Path=/abs", "Numb=0">>, <<"Path=./a.txt", "Abstract=from block">>, <<"Type=X", "Path=./c.txt.gz">>,
           <<"Name=m", "Path=rel">>}
FamE == {D(fs, mode, IF ls = <<>> THEN NoLF ELSE LF(ls), NoCap, side) :
            fs \in FileSets, mode \in {"none", "nonencoded", "full"}, ls \in LinksE, side \in {Side0, SideAB}}
        \cup {D(AllFiles, mode, NoLF, Cap("c.txt.gz", c), SideAB) : mode \in {"none", "nonencoded", "full"},
                                                               c \in {<<"Numb=1">>, <<"Name=Cap">>, <<"Type=X">>}}

(* Family F: side-car probes that FAIL instead of finding / not finding: a directory named like the side-car, *)
(* a side-car whose open() fails (errno injected through the substituted open), and listed files whose name     *)
(* plus extension exceeds NAME_MAX - for a file, a sub-directory and the listed directory itself, with and      *)
(* without overrides of the same entry.                                                                          *)
RECURSIVE Rep(_, _)
Rep(c, n) == IF n = 0 THEN "" ELSE IF n % 2 = 0 THEN (LET h == Rep(c, n \div 2) IN h \o h) ELSE c \o Rep(c, n - 1)
Long(n) == "l" \o Rep("o", n - 2) \o "g"                  \* a file name of n bytes (sorts after c.txt.gz)
FailKinds == {"dir", "EACCES", "EIO", "EISDIR", "ENAMETOOLONG"}
\* <<link file, .cap file>> that override entry f
OverF(f) == {<<NoLF, NoCap>>, <<NoLF, Cap(f, <<"Name=Cap", "Numb=1">>)>>,
             <<LF(<<"Path=./" \o f, "Name=Mid", "Numb=2">>), NoCap>>,
             <<LF(<<"Path=./" \o f, "Abstract=from block">>), Cap(f, <<"Numb=-1">>)>>}
FamF == UNION {{D(AllFiles, "nonencoded", o[1], o[2], <<Side(f, ext, k, <<"side one">>)>>) :
                    ext \in {".abstract", ".3d", ".ask"}, k \in FailKinds, o \in OverF(f)} : f \in {"a.txt", "b"}}
        \cup {D(AllFiles, "nonencoded", NoLF, NoCap, <<Side(".", ext, k, <<"side one">>)>>) :
                 ext \in {".abstract", ".3d"}, k \in FailKinds}
        \cup UNION {{D(<<"a.txt", Long(n)>>, mode, o[1], o[2], side) :
                        mode \in IF Tier = "quick" THEN {"nonencoded"} ELSE {"none", "nonencoded", "full"},
                        o \in OverF(Long(n)), side \in {Side0, <<Side("a.txt", ".abstract", "text", <<"side one">>)>>}} :
                     n \in {246, 247, 252, 255}}

(* Family G: Path kind x Host x Port: absent, "+", this server written out, another server *)
HostG == {<<>>, <<"Host=+">>, <<"Host=this.example">>, <<"Host=h.example">>}
PortG == {<<>>, <<"Port=+">>, <<"Port=7071">>, <<"Port=7070">>}
PathG == {"Path=a.txt", "Path=b/inner.txt", "Path=sub/x/", "Path=./a.txt", "Path=~/b/", "Path=/d/a.txt", "Path=/abs",
          "Path=URL:http://h.example/p"}
FamG == {Std(LF(<<"Name=Mid", p>> \o t \o h \o po)) : p \in PathG, h \in HostG, po \in PortG, t \in {<<>>, <<"Type=1">>}}

Cases == FamA \cup FamB \cup FamC \cup FamD \cup FamE \cup FamF \cup FamG

Init == dir \in Cases /\ phase = "case" /\ res = [judge |-> "", scope |-> FALSE, cls |-> "", kinds |-> <<>>]
Eval == /\ phase = "case"
        /\ phase' = "done" /\ UNCHANGED dir
        /\ res' = [judge |-> Judge(ImplListing(dir), RefListing(dir), RefHidden(dir)),
                   scope |-> InScope(dir), cls |-> DevClass(dir),
                   kinds |-> [i \in 1..Len(dir.files) |-> FileInfo(dir.files[i]).kind]]
Spec == Init /\ [][Eval]_mcvars

\* the transcription of the code agrees with the manual on everything in scope that is not in a
\* recorded deviation class (each class is tied to a quirk of UMN.tla that is currently in force)
AsDocumented == phase = "done" => ((res.scope /\ QuirkOfClass(res.cls) \notin Quirks) => res.judge = "ok")
\* vacuity witnesses (checked by a separate configuration: each must be VIOLATED)
W_NoScope == ~(phase = "done" /\ res.scope)
W_NoDeviation == ~(phase = "done" /\ res.scope /\ res.judge # "ok")
=============================================================================
