SPECIFICATION Spec
CONSTANTS
  IgnorePatterns <- DataIgnorePatterns
  SkipUnservable = FALSE
  SortedEnum = FALSE
  DotRuleAll = TRUE
  Suites <- SuitesQuick
INVARIANT OrderFree
CHECK_DEADLOCK FALSE
