SPECIFICATION Spec
CONSTANTS
  IgnorePatterns <- DataIgnorePatterns
  EaExts <- DataEaExts
  SkipUnservable = FALSE
  SortedLinks = FALSE
  DotRuleAll = TRUE
  Suites <- SuitesQuick
INVARIANT OrderFree
CHECK_DEADLOCK FALSE
