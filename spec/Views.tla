-------------------------------- MODULE Views --------------------------------
(* One site, many protocols (C06) - the design model.                                       *)
(*                                                                                          *)
(* A directory listing is produced once by the shared directory walk (protocols/base.py     *)
(* writedir) and rendered by a protocol-specific renderobjinfo.  This module defines the    *)
(* protocol-INDEPENDENT view a client of protocol view p obtains from a rendered listing:   *)
(*   Canon(p, t)    every link form (TAB fields, percent-quoted reference, WAP-prefixed     *)
(*                  reference, Gemini query-prefixed reference, gopher:// URL, URL:         *)
(*                  selector) mapped to (kind, host, port, selector)                        *)
(*   ViewOf(p, es)  sequence of (kind, name, host, port, selector)                          *)
(* and the clauses of the property over such views: SameLinks, SameInfo, SameObject,        *)
(* SameSearch.  Search extraction per protocol is Links!Parse(..).search applied to         *)
(* Links!Follow(p, t, base, s); Gemini's prompt -> query -> redirect dialogue is            *)
(* SearchReaches.  One deviation of the pinned code remains modelled and named:             *)
(*   PlusFlagAmbiguity  a plain Gopher search string starting with "+" or "$" (or "!") is    *)
(*                    taken for the Gopher+ flag field: the request becomes a Gopher+        *)
(*                    request without search string (inherent in the Gopher+ grammar)        *)
(* Found by this model and since repaired in the code (the model follows the repaired code, *)
(* the clauses now reject the old behaviour): DefaultPort70 (geturl(server_name, 70) vs the  *)
(* advertised port, fix e38974e), EmptySelectorHref (HTTP/WAP rendered an empty selector as *)
(* HREF="", fix 0472d31), FormDecodeReplace (parse_qs errors="replace" turned a non-UTF-8   *)
(* byte of an HTTP search string into U+FFFD, fix d7962e4).                                 *)
EXTENDS Links

UrlHost == "(url)"              \* pseudo host of targets that are plain URLs

\* gopher://host:port/Tselector  (gopherentry.geturl) -> pieces
GopherUrlParts(u) ==
    LET r    == SubSeq(u, Len("gopher://") + 1, Len(u))
        sl   == CutAt(r, {"/"})
        hp   == SubSeq(r, 1, sl - 1)
        col  == Find(hp, ":")
        path == PctUnquote(SubSeq(r, sl + 1, Len(r)))            \* type character + selector
    IN [host |-> IF col = 0 THEN hp ELSE SubSeq(hp, 1, col - 1),
        port |-> IF col = 0 THEN 70 ELSE (IF IsDigits(SubSeq(hp, col + 1, Len(hp))) THEN ParseNat(SubSeq(hp, col + 1, Len(hp))) ELSE 0),
        type |-> IF Len(path) > 0 THEN Ch(path, 1) ELSE "",
        sel  |-> SubSeq(path, 2, Len(path))]

Tgt(kind, host, port, sel) == [kind |-> kind, host |-> host, port |-> port, sel |-> sel]
\* selectors of THIS server are compared after the normalisation every protocol applies on arrival
Here(kind, sel) == Tgt(kind, ServerName, ServerPort, SlashNorm(sel))
Place(kind, host, port, sel) == IF host = ServerName /\ port = ServerPort THEN Here(kind, sel) ELSE Tgt(kind, host, port, sel)

\* an absolute reference (the URL of a URL: selector, or a rendered gopher:// URL)
CanonAbs(kind, h) ==
    IF StartsWith(h, "gopher://")
    THEN LET g == GopherUrlParts(h) IN Place(IF g.type = "7" THEN "search" ELSE kind, g.host, g.port, g.sel)
    ELSE Tgt(kind, UrlHost, 0, h)

Canon(p, t) ==
    LET kind == IF t.mark = "search" THEN "search" ELSE "link" IN
    CASE t.form = "none" -> Tgt("info", "", 0, "")
      [] t.form = "tab" ->
            IF IsUrlSel(t.sel) THEN CanonAbs(kind, UrlOf(t.sel))
            ELSE Place(kind, t.host, t.port, t.sel)
      [] t.form = "url" ->
            LET h == t.href IN
            IF HasScheme(h) \/ ~StartsWith(h, "/") THEN CanonAbs(kind, h)
            ELSE LET h1 == IF p = "W" /\ StartsWith(h, WapTop) THEN SubSeq(h, Len(WapTop) + 1, Len(h)) ELSE h
                     isq == p = "M" /\ StartsWith(h1, QueryPrefix)      \* Gemini marks a search item only by this prefix
                     h2 == IF isq THEN SubSeq(h1, Len(QueryPrefix) + 1, Len(h1)) ELSE h1
                 IN Here(IF isq THEN "search" ELSE kind, PctUnquote(h2))

\* an observed listing (entries [type, name, mt, t]) as a protocol-independent view
ViewOf(p, es) == [i \in 1..Len(es) |-> LET c == Canon(p, es[i].t) IN
                    [kind |-> c.kind, name |-> es[i].name, host |-> c.host, port |-> c.port, sel |-> c.sel]]
LinksOf(v) == SelectSeq(v, LAMBDA x : x.kind # "info")
InfoOf(v)  == SelectSeq(v, LAMBDA x : x.kind = "info")

SameLinks(v1, v2) == LinksOf(v1) = LinksOf(v2)
\* informational lines, including where they stand among the links
SameInfo(v1, v2, ae) == ae # "unsupported" => v1 = v2

\* ---- the model side: the same entry rendered for p and for plain Gopher ----------------------
CanonOfEntry(p, e) == Canon(p, Target(p, e))
EntryAgrees(p, e) == CanonOfEntry(p, e) = CanonOfEntry("G", e)

\* ---- MIME / object views -----------------------------------------------------------------------
\* a menu's MIME type is mapped to the protocol's own listing type (adjustmimetype); WAP wraps text/plain
\* documents into WML cards (wap.py handlerwrite)
MimeCanon(p, obj, mime) == IF mime = "" THEN ""
                           ELSE IF obj = "menu" THEN "menu"
                           ELSE IF p = "W" /\ mime = "text/vnd.wap.wml" THEN "text/plain"
                           ELSE mime
ObjAgree(a, b) == a.cls = b.cls /\ a.obj = b.obj /\ (a.mime = "" \/ b.mime = "" \/ a.mime = b.mime)

\* ---- search --------------------------------------------------------------------------------------
\* the string that reaches the handler when a user of p types s into search item t of listing `base`
SearchReaches(p, t, base, s) ==
    LET r1 == Parse(Follow(p, t, base, s)) IN
    IF p = "M" /\ r1.kind = "redirect"
    THEN Parse(Rq("gemini://" \o ServerName \o RefPath(RefPath(base, t.href), r1.redirect) \o cCRLF, "", TRUE)).search
    ELSE IF r1.kind = "serve" THEN r1.search ELSE "(not delivered)"
\* a plain Gopher search string that looks like a Gopher+ flag field ("+...", "$...", "!") makes the request a
\* Gopher+ request without search string (gopherp.py canhandlerequest, listed before rfc1436): inherent in Gopher+
PlusFlagAmbiguity(p, s) == p \in {"G", "SG"} /\ (Ch(s, 1) \in {"+", "$"} \/ s = "!")
\* a search request that another protocol class claims: the TAB-separated plain Gopher line "selector TAB string"
\* can have the shape of another protocol's request grammar - "/e b.pyg<TAB>a 1" and "/echo.pyg<TAB>a b 1" are
\* well-formed Spartan lines ("host path length": exactly two blanks, numeric last word; spartan.py splits at
\* blanks only), so SpartanProtocol, listed before the Gopher classes, answered and the search string was lost -
\* until fix c3ed498 (a host never starts with "/"; Links!Claims with "spartan" \in Fixes).  Same root as C05's
\* CapturedBy_SpartanProtocol for selectors.  No capture is tolerated any more (MC_C06!NoSearchCapture).  (A string like "a 1" after a blank-free selector
\* is NOT such a line: only a TAB separates selector and string.)
SearchCapturedBy(p, t, base, s) == LET cls == Parse(Follow(p, t, base, s)).cls IN IF cls = OwnClass(p) THEN "none" ELSE cls
\* (Between /repo fixes 1211cf5 and ff58814 every Gemini status line, the "30 <selector>?<query>" redirect of the search
\* dialogue included, was cut at 1024 bytes and long queries arrived truncated through Gemini; found by this check as
\* SameSearch_GeminiRedirectCut.  Since ff58814 only error replies are cut: SameSearch simply holds for view M.)
\* search strings the property quantifies over: no leading/trailing blanks (Gopher request parsing strips them), not empty
SearchInScope(s) == s # "" /\ Strip(s) = s
=============================================================================
