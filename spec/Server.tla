------------------------------- MODULE Server -------------------------------
(* One client connection of pygopherd as a state machine  [C03, C20].                       *)
(*                                                                                          *)
(* Code abstracted (pinned tree):                                                           *)
(*   server.py   GopherRequestHandler.handle: readline; ProtocolMultiplexer.getProtocol     *)
(*               OUTSIDE the try; protohandler.handle() inside try/except IOError/Exception *)
(*               (both log through GopherExceptions.log); finish() flushes and closes.      *)
(*   protocols/* canhandlerequest (detection, in configured order), handle(): selector      *)
(*               extraction (split, strip, percent-decoding, slash normalisation), then     *)
(*               gethandler / getentry / prepare / write inside `try ... except FileNotFound *)
(*               ... except IOError` (Gemini/Spartan: the writes are AFTER that try).        *)
(*   handlers/*  HandlerMultiplexer.getHandler (stat BEFORE any filter, only OSError        *)
(*               swallowed), isrequestsecure, each handler's canhandlerequest, Virtual's    *)
(*               split at ? or |, the message handlers' lookup by iterating n times.        *)
(*   GopherExceptions.py  FileNotFound logs itself when constructed; log(addr, proto, class)*)
(*                                                                                          *)
(* One action per environment interaction / critical section: ReadLine, SelectProtocol,     *)
(* Parse, Lookup, Entry, WriteOk, WriteFail, WriteDone, CatchInProtocol, CatchInServer,     *)
(* Escape, Finish.  Every response is a sequence of write() calls (`todo`), each of which   *)
(* either succeeds or - from the injected index on, the connection being dead - fails with  *)
(* the injected class.  Exceptions in flight are state (`exc`); where each class is caught  *)
(* is the control flow of the machine.                                                      *)
(*                                                                                          *)
(* Deviations of the code from the ideal are modelled and NAMED, not idealised away.  Each  *)
(* hazardous site has a name; `site` records the first one in force that a connection        *)
(* reaches (else the last repaired/benign one).  For the                                     *)
(* sites in the constant Defects (generated from known_findings.json) the machine takes the *)
(* defective step as coded on the pinned tree; for the others it takes the repaired step.   *)
(*   EmptyPlusField  gopherp.py canhandlerequest indexes an empty field: IndexError raised  *)
(*                   inside getProtocol, i.e. outside every try: escapes handle()           *)
(*   GemAuthority    urlparse raises ValueError on a malformed authority: no reply          *)
(*   NulStat         os.stat raises ValueError on NUL; only OSError is swallowed: no reply  *)
(*   MsgBeyondEnd    next() on the exhausted mailbox iterator: StopIteration: no reply      *)
(*   NoMailbox       mailbox.NoSuchMailboxError for a message selector on a missing file    *)
(*   CrlfInStatus    Gemini/Spartan status line built from the decoded selector: CR/LF in   *)
(*                   the meta (response splitting: an error status followed by a `body`)    *)
(*   CrInErrorLine   Gopher error line built from the selector: bare CR inside a field      *)
(*   HeadErrorBody   HTTP HEAD of a missing selector: 404 with an entity body               *)
(*   GzSize          Gopher+ `+N` header taken from the compressed size, body decompressed  *)
(*   ArgsIndex       error reply built from e.args[1]: a one-argument error (send timeout)  *)
(*                   turns into IndexError inside the except block                 [C20]    *)
(*   ArtefactFetchable  cache files written into the served tree are served by exact        *)
(*                   selector: the reply depends on earlier read-only requests              *)
(*   PycacheListed   PYG loading leaves __pycache__ in the served tree, later listed        *)
(* Sites that are NOT defects: NotFound (FileNotFound -> error reply), MailboxOSError       *)
(* (OSError family from the mailbox library -> logged, error reply), WapSubprocess (repaired *)
(* upstream by fe55d6b / 758309a, the step is kept but no handler takes it any more: wap.py  *)
(* converts text through an in-memory file that has no fileno() for a subprocess handler:   *)
(* io.UnsupportedOperation, an OSError, is logged and an error page follows the 200 header; *)
(* the reply stays well-formed - unless ArgsIndex turns it into IndexError).                *)
EXTENDS Naturals, Integers, Sequences, FiniteSets
LOCAL T == INSTANCE Text
G == INSTANCE Grammar

CONSTANTS
    ProtoOrder,      \* sequence of protocol class names, as configured (B1)
    HandlerLists,    \* handler-list name -> sequence of handler class names (B1)
    Tree0,           \* handler-list name -> (selector -> node kind): the content tree the harness built (B1)
    MailCount,       \* mailbox selector -> number of messages
    Defects,         \* set of site names whose defective step the code is recorded to have
    Bytecode,        \* BOOLEAN: the interpreter writes __pycache__ when it loads a PYG file
    Buffered,        \* BOOLEAN: GopherRequestHandler.wbufsize > 0 (B1, read from the class): replies go through a
                     \* write buffer, so a dead connection is only noticed when finish() flushes
    OpsBound         \* bound on environment operations per connection for this tree

VARIABLES
    rq,      \* the connection's input: [line, tls, wap, hl, tail, fk, fcls, nw, id]
    pc,      \* "read" "select" "parse" "lookup" "entry" "write" "catchP" "catchS" "escape" "finish" "closed"
    proto,   \* detected protocol class ("none" before / if none)
    sel,     \* selector as the protocol hands it to the handler chain
    hname,   \* handler class chosen ("none")
    kind,    \* response kind decided so far: "none" "doc" "menu" "info" "error" "status"
    exc,     \* exception in flight: [cls, fam, nargs, msg]
    todo,    \* writes still to be made by the current writer: Seq([r, c])
    out,     \* chunks written to the client so far
    wn,      \* write() calls made so far
    log,     \* EXCEPTION records: Seq([addr, proto, cls, fam])
    mark,    \* Len(log) when the first injected failure was raised (-1: none)
    fds,     \* descriptors opened for the request and still open
    esc,     \* class that left handle() ("none")
    ops,     \* environment operations so far (reads, stats, listings, opens, writes)
    site,    \* first hazardous site reached ("none")
    fs       \* the content tree: selector -> [k, n]  (artefacts appear here)

vars == <<rq, pc, proto, sel, hname, kind, exc, todo, out, wn, log, mark, fds, esc, ops, site, fs>>

NUL  == "~"            \* stand-in for the NUL byte (TLA+ has no escape for it); gamma maps it back
CRLF == "\r\n"
Client == "client"

--------------------------------------------------------------------------------
(* text helpers as the code uses them *)
WS == {" ", "\t", "\n", "\r", "\f"}
Strip(s) == T!StripSet(s, WS)                                   \* str.strip()
SplitStrip(s, sep) == LET f == T!Split(s, sep) IN [i \in 1..Len(f) |-> Strip(f[i])]
Fields(line) == SplitStrip(line, "\t")        \* base.py: [arg.strip() for arg in request.split("\t")]
Words(line)  == SplitStrip(line, " ")         \* http.py: [arg.strip() for arg in request.split(" ")]

RECURSIVE SplitStr(_, _)                      \* split on a multi-character separator
SplitStr(s, sep) ==
    LET i == T!Find(s, sep) IN
    IF i = 0 THEN <<s>> ELSE <<SubSeq(s, 1, i - 1)>> \o SplitStr(SubSeq(s, i + Len(sep), Len(s)), sep)

SlashNorm(s) ==                               \* base.py slashnormalize
    LET a == T!RStripSet(s, {"/"})    \* selector.rstrip("/") since fix 5eb47a4 (one slash only before)
    IN IF Len(a) = 0 \/ T!Ch(a, 1) # "/" THEN "/" \o a ELSE a

HexVal(h) ==                                  \* the escapes of the request alphabet ("" = not one of them)
    CASE h \in {"00"} -> NUL
      [] h \in {"0d", "0D"} -> "\r"
      [] h \in {"0a", "0A"} -> "\n"
      [] h = "09" -> "\t"
      [] h = "20" -> " "
      [] h = "25" -> "%"
      [] h \in {"2e", "2E"} -> "."
      [] h \in {"2f", "2F"} -> "/"
      [] h \in {"3f", "3F"} -> "?"
      [] h \in {"7c", "7C"} -> "|"
      [] OTHER -> ""
RECURSIVE Unquote(_)                          \* urllib.parse.unquote: invalid escapes stay literal
Unquote(s) ==
    LET i == T!Find(s, "%") IN
    IF i = 0 THEN s
    ELSE LET h == IF i + 2 <= Len(s) THEN SubSeq(s, i + 1, i + 2) ELSE "" IN
         IF h # "" /\ HexVal(h) # ""
         THEN SubSeq(s, 1, i - 1) \o HexVal(h) \o Unquote(SubSeq(s, i + 3, Len(s)))
         ELSE SubSeq(s, 1, i) \o Unquote(SubSeq(s, i + 1, Len(s)))

\* Stand-ins for non-ASCII characters (TLA+ sources are ASCII; gamma maps them to UTF-8 bytes), one per class
\* the code's own tests distinguish:
\*   SUP2  U+00B2 superscript two: str.isdigit() is true, but it is no decimal digit: int() and \d reject it
\*   ARD3  U+0663 Arabic-Indic digit three: a decimal digit to str.isdigit(), \d AND int() (value 3)
\*   NAL   U+00E9 a non-ASCII letter
SUP2 == "^"
ARD3 == "`"
NAL  == "*"
NonAscii == {SUP2, ARD3, NAL}
IsAscii(s) == T!Chars(s) \cap NonAscii = {}                          \* str.isascii() / .encode("ascii") succeeds
PyIsDigit(s) == Len(s) > 0 /\ T!Chars(s) \subseteq (T!Digits \cup {SUP2, ARD3})     \* str.isdigit()
ReDigits(s)  == Len(s) > 0 /\ T!Chars(s) \subseteq (T!Digits \cup {ARD3})           \* re "\d+" (str pattern)
RECURSIVE IntOf(_)                                                     \* int() of a string that ReDigits accepts
IntOf(s) == IF Len(s) = 0 THEN 0
            ELSE 10 * IntOf(SubSeq(s, 1, Len(s) - 1)) + (IF T!Last1(s) = ARD3 THEN 3 ELSE G!DecOf(T!Last1(s)))

HasCRLFch(s) == T!Contains(s, "\r") \/ T!Contains(s, "\n")

--------------------------------------------------------------------------------
(* SelectProtocol: canhandlerequest of each configured class, first claim wins             *)
\* wap.py: the path is the WAP prefix itself or below it (prefix followed by nothing, "/" or "?")  [7016e2c]
BelowWap(path) == T!StartsWith(path, "/wap") /\ (Len(path) = 4 \/ T!Ch(path, 5) \in {"/", "?"})
\* gemini.py: the query prefix matches at a path boundary only  [cce9c0c]
IsQueryPath(path) == path = "/GEMINI-QUERY" \/ T!StartsWith(path, "/GEMINI-QUERY/")

HTTPShape(line) ==
    LET w == Words(line) IN
    Len(w) = 3 /\ w[1] \in {"GET", "HEAD"} /\ T!StartsWith(w[3], "HTTP/")

SpartanShape(line) ==
    LET p == T!Split(Strip(line), " ") IN
    /\ IsAscii(line)                               \* self.request.encode("ascii")
    /\ Len(p) = 3 /\ (\A i \in 1..3 : p[i] # "") /\ PyIsDigit(p[3])         \* parts[2].isdigit()
    /\ ~T!StartsWith(p[1], "/")                                             \* not parts[0].startswith("/")  [c3ed498]
    /\ ~T!Contains(line, "\t")                                              \* "\t" not in self.request

\* "yes" | "no" | the class raised.  D = the defects in force
ClaimsGP(r, secure, D) ==
    IF secure # r.tls THEN "no"
    ELSE LET f == Fields(r.line) IN
         IF Len(f) < 2 \/ Len(f) > 3 THEN "no"
         ELSE LET g == f[Len(f)] IN
              IF g = "" THEN (IF "EmptyPlusField" \in D THEN "IndexError" ELSE "no")   \* gopherpstring[0]
              ELSE IF T!Ch(g, 1) = "+" \/ g = "!" \/ T!Ch(g, 1) = "$" THEN "yes" ELSE "no"

Claims(p, r, D) ==
    CASE p = "WAPProtocol" ->
            IF ~r.tls /\ HTTPShape(r.line) /\ (BelowWap(Words(r.line)[2]) \/ r.wap) THEN "yes" ELSE "no"
      [] p = "GeminiProtocol" -> IF r.tls /\ T!StartsWith(r.line, "gemini://") THEN "yes" ELSE "no"
      [] p = "HTTPProtocol"   -> IF ~r.tls /\ HTTPShape(r.line) THEN "yes" ELSE "no"
      [] p = "HTTPSProtocol"  -> IF r.tls /\ HTTPShape(r.line) THEN "yes" ELSE "no"
      [] p = "SpartanProtocol" -> IF ~r.tls /\ SpartanShape(r.line) THEN "yes" ELSE "no"
      [] p = "GopherPlusProtocol" -> ClaimsGP(r, FALSE, D)
      [] p = "SecureGopherPlusProtocol" -> ClaimsGP(r, TRUE, D)
      [] p = "GopherProtocol" -> IF ~r.tls THEN "yes" ELSE "no"
      [] p = "SecureGopherProtocol" -> IF r.tls THEN "yes" ELSE "no"
      [] OTHER -> "no"

RECURSIVE DetectFrom(_, _, _)
DetectFrom(r, i, D) ==
    IF i > Len(ProtoOrder) THEN [p |-> "none", raises |-> "none"]       \* getProtocol returns None
    ELSE LET c == Claims(ProtoOrder[i], r, D) IN
         IF c = "yes" THEN [p |-> ProtoOrder[i], raises |-> "none"]
         ELSE IF c = "no" THEN DetectFrom(r, i + 1, D)
         ELSE [p |-> "none", raises |-> c]
Detect(r) == DetectFrom(r, 1, Defects)
ReachesEmptyPlus(r) == DetectFrom(r, 1, {"EmptyPlusField"}).raises # "none"

Fam(p) == G!Family(p)
Method(r, p) == IF Fam(p) \in {"H", "W"} /\ Words(r.line)[1] = "HEAD" THEN "HEAD" ELSE "GET"
GPMode(r) == LET f == Fields(r.line) g == f[Len(f)] IN
             IF g = "!" THEN "info" ELSE IF T!Ch(g, 1) = "$" THEN "dir" ELSE "doc"

--------------------------------------------------------------------------------
(* Parse: what each protocol's handle() does before its try block                          *)
RECURSIVE DropChars(_, _)
DropChars(s, cs) == IF Len(s) = 0 THEN "" ELSE (IF T!Ch(s, 1) \in cs THEN "" ELSE T!Ch(s, 1)) \o DropChars(T!Tail1(s), cs)
MinPos(a, b) == IF a = 0 THEN b ELSE IF b = 0 THEN a ELSE IF a < b THEN a ELSE b
GemParts(line) ==                              \* urllib.parse.urlparse(request.strip())
    LET u    == DropChars(Strip(line), {"\t", "\r", "\n"})       \* urlsplit removes TAB, CR, LF anywhere
        rest == SubSeq(u, 10, Len(u))          \* after "gemini://"
        e    == MinPos(T!Find(rest, "/"), MinPos(T!Find(rest, "?"), T!Find(rest, "#")))
        net  == IF e = 0 THEN rest ELSE SubSeq(rest, 1, e - 1)
        rem  == IF e = 0 THEN "" ELSE SubSeq(rest, e, Len(rest))
        h    == T!Find(rem, "#")
        nof  == IF h = 0 THEN rem ELSE SubSeq(rem, 1, h - 1)
        q    == T!Find(nof, "?")
        lb   == T!Find(net, "[")
        rb   == T!Find(net, "]")
        host == IF lb # 0 /\ rb > lb THEN SubSeq(net, lb + 1, rb - 1) ELSE ""
    IN [path  |-> IF q = 0 THEN nof ELSE SubSeq(nof, 1, q - 1),
        query |-> IF q = 0 THEN "" ELSE SubSeq(nof, q + 1, Len(nof)),
        \* (a "]" before the "[" passes this interpreter's urlsplit unchecked: observed, gemini://::1][::1/x)
        bad   |-> ((lb # 0) # (rb # 0)) \/ (lb # 0 /\ rb > lb /\ host \notin {"::1", "::"})]

QueryPrefix == "/GEMINI-QUERY"
IconPrefix == "/PYGOPHERD-HTTPPROTO-ICONS/"
Icons == {"text.gif", "folder.gif", "binary.gif", "generic.gif", "blank.gif", "binhex.gif", "image3.gif", "sound1.gif"}

\* [sel, special, aux]   special: "none" | "badurl" | "input10" | "input30" | "icon" | "noproto"
ParseSel(p, r) ==
    LET fam == Fam(p) IN
    CASE fam \in {"G", "GP"} -> [sel |-> SlashNorm(Fields(r.line)[1]), special |-> "none", aux |-> ""]
      [] fam \in {"H", "W"} ->
            LET path0 == Words(r.line)[2]
                path  == IF fam = "W" /\ BelowWap(path0) THEN SubSeq(path0, 5, Len(path0)) ELSE path0
                s     == SlashNorm(Unquote(T!Split(path, "?")[1]))
            IN IF T!StartsWith(s, IconPrefix) /\ SubSeq(s, Len(IconPrefix) + 1, Len(s)) \in Icons
               THEN [sel |-> s, special |-> "icon", aux |-> ""]
               ELSE [sel |-> s, special |-> "none", aux |-> ""]
      [] fam = "GEM" ->
            LET g == GemParts(r.line) IN
            IF g.bad THEN [sel |-> "", special |-> "badurl", aux |-> ""]
            ELSE IF IsQueryPath(g.path)
                 THEN (IF g.query = "" THEN [sel |-> "", special |-> "input10", aux |-> ""]
                       ELSE [sel |-> "", special |-> "input30",
                             aux |-> SubSeq(g.path, Len(QueryPrefix) + 1, Len(g.path)) \o "?" \o g.query])
                 ELSE [sel |-> SlashNorm(Unquote(g.path)), special |-> "none", aux |-> ""]
      [] fam = "S" -> [sel |-> SlashNorm(Unquote(T!Split(Strip(r.line), " ")[2])), special |-> "none", aux |-> ""]
      [] OTHER -> [sel |-> "", special |-> "noproto", aux |-> ""]

--------------------------------------------------------------------------------
(* Lookup: HandlerMultiplexer.getHandler over the content tree                             *)
Node(k, n) == [k |-> k, n |-> n]
KindIn(f, p) == IF p \in DOMAIN f THEN f[p].k ELSE "missing"
PathOf(s) == IF Len(s) > 1 /\ T!Last1(s) = "/" THEN SubSeq(s, 1, Len(s) - 1) ELSE s     \* getfspath
Join(p, name) == IF p = "/" THEN "/" \o name ELSE p \o "/" \o name
DirKinds == {"dir", "gmapdir", "maildir", "pycache"}           \* "pycache": a __pycache__ directory left by PYG loading
RegKinds == {"file", "html", "mbox", "exe", "pyg", "zip", "gz", "cache"}  \* "cache": a cache file left by a directory / ZIP handler
\* regular files the file handlers serve: the repaired FileHandler refuses the cache artefacts
Servable == IF "ArtefactFetchable" \in Defects THEN RegKinds ELSE RegKinds \ {"cache"}

HasNul(s) == T!Contains(s, NUL)
IsSecure(s) ==                                 \* handlers/base.py isrequestsecure
    /\ \A bad \in {"./", "..", "//", ".\\", "\\\\", NUL} : ~T!Contains(s, bad)
    /\ ~T!EndsWith(s, "/.")

VSplit(s) ==                                   \* handlers/virtual.py: first "?" if any, else first "|"
    LET q == T!Find(s, "?") b == T!Find(s, "|") i == IF q # 0 THEN q ELSE b IN
    IF i = 0 THEN [real |-> s, args |-> "", sep |-> FALSE]
    ELSE [real |-> SubSeq(s, 1, i - 1), args |-> SubSeq(s, i + 1, Len(s)), sep |-> TRUE]

Big == 1000000000
MsgNum(args, flag) ==                          \* "^" + flag + r"(\d+)$"  ->  number, or -1
    IF T!StartsWith(args, flag) /\ ReDigits(SubSeq(args, Len(flag) + 1, Len(args)))
    THEN LET d == SubSeq(args, Len(flag) + 1, Len(args)) IN IF Len(d) > 9 THEN Big ELSE IntOf(d)
    ELSE -1

UrlShaped(s) ==                                \* "^(/|)URL:.+://"
    LET t == IF T!StartsWith(s, "/URL:") THEN SubSeq(s, 6, Len(s))
             ELSE IF T!StartsWith(s, "URL:") THEN SubSeq(s, 5, Len(s)) ELSE NUL
    IN t # NUL /\ T!Find(t, "://") > 1

RECURSIVE ZipRootOf(_, _)                      \* handlers/ZIP.py walk-up with os.path.split
ZipRootOf(f, s) ==
    IF T!EndsWith(s, ".zip") /\ KindIn(f, PathOf(s)) = "zip" THEN s
    ELSE IF s \in {"", "/", "."} THEN ""
    ELSE LET ps == {i \in 1..Len(s) : T!Ch(s, i) = "/"} IN
         IF ps = {} THEN ""
         ELSE LET i == CHOOSE x \in ps : \A y \in ps : y <= x IN
              ZipRootOf(f, IF i = 1 THEN "/" ELSE SubSeq(s, 1, i - 1))

Accepts(h, s, f) ==
    LET v  == VSplit(s)
        kS == KindIn(f, PathOf(s))
        kR == KindIn(f, PathOf(v.real))
    IN
    IF h = "HTMLURLHandler"
    THEN (UrlShaped(s) /\ (\A c \in {NUL, "\n", "\t", "\"", "\r"} : ~T!Contains(s, c)))
    ELSE IF ~IsSecure(s) THEN FALSE
    ELSE CASE h = "BuckGophermapHandler"  -> kS = "gmapdir"
           [] h = "MaildirFolderHandler"  -> v.args = "" /\ kR = "maildir"
           [] h = "MaildirMessageHandler" -> MsgNum(v.args, "/MAILDIR-MESSAGE/") >= 1
           [] h \in {"UMNDirHandler", "DirHandler"} -> kS \in DirKinds
           [] h = "HTMLFileTitleHandler"  -> kS \in Servable /\ (T!EndsWith(s, ".html") \/ T!EndsWith(s, ".htm"))
           [] h = "MBoxMessageHandler"    -> MsgNum(v.args, "/MBOX-MESSAGE/") >= 1
           [] h = "MBoxFolderHandler"     -> v.args = "" /\ kR = "mbox"
           [] h = "PYGHandler"            -> kR = "pyg"
           [] h = "ExecHandler"           -> kR \in {"exe", "pyg"}
           [] h = "ZIPHandler"            -> ZipRootOf(f, s) # ""
           [] h = "CompressedFileHandler" -> kS = "gz"
           [] h = "FileHandler"           -> kS \in Servable
           [] h = "URLTypeRewriter"       -> Len(s) >= 3 /\ T!Ch(s, 1) = "/" /\ T!Ch(s, 3) = "/"
           [] OTHER -> FALSE                     \* TALFileHandler: no .tal file in the tree

RECURSIVE FirstAccepting(_, _, _, _)
FirstAccepting(hs, i, s, f) ==
    IF i > Len(hs) THEN "none"
    ELSE IF Accepts(hs[i], s, f) THEN hs[i] ELSE FirstAccepting(hs, i + 1, s, f)

\* [h, s]: the handler that serves and the selector it serves ("none": FileNotFound for s)
Resolve(s, hl, f) ==
    LET hs == HandlerLists[hl]
        h1 == FirstAccepting(hs, 1, s, f)
    IN IF h1 = "URLTypeRewriter"
       THEN LET s2 == SubSeq(s, 3, Len(s))
                rest == SelectSeq(hs, LAMBDA x : x # "URLTypeRewriter")
            IN [h |-> FirstAccepting(rest, 1, s2, f), s |-> s2]
       ELSE [h |-> h1, s |-> s]

MenuHandlers == {"BuckGophermapHandler", "MaildirFolderHandler", "UMNDirHandler", "DirHandler", "MBoxFolderHandler"}
SizedHandlers == {"FileHandler", "HTMLFileTitleHandler", "CompressedFileHandler"}

Exc(cls, fam, nargs, msg) == [cls |-> cls, fam |-> fam, nargs |-> nargs, msg |-> msg]
NoExc == Exc("none", "none", 0, "")
NotFoundMsg(s) == "'" \o s \o "' does not exist (no handler found)"
NotFoundExc(s) == Exc("FileNotFound", "FileNotFound", 3, NotFoundMsg(s))

Children(f, d) == {p \in DOMAIN f : p # d /\ T!StartsWith(p, IF d = "/" THEN "/" ELSE d \o "/")
                                   /\ ~T!Contains(SubSeq(p, Len(IF d = "/" THEN "/" ELSE d \o "/") + 1, Len(p)), "/")}
BaseName(p, d) == SubSeq(p, Len(IF d = "/" THEN "/" ELSE d \o "/") + 1, Len(p))
Visible(f, d) == {p \in Children(f, d) : T!Ch(BaseName(p, d), 1) # "." /\ BaseName(p, d) # "gophermap"
                                         /\ f[p].k \notin {"zdir", "zfile"}}
CacheName == ".cache.pygopherd.dir"

\* getentry() / prepare() of the chosen handler: [raises, kind, n (menu size), opens, site]
EntryOutcome(h, s, f) ==
    LET v  == VSplit(s)
        kR == KindIn(f, PathOf(v.real))
        ok(kd, n, o) == [raises |-> NoExc, kind |-> kd, n |-> n, opens |-> o, site |-> "none"]
        bad(e, st)   == [raises |-> e, kind |-> "none", n |-> 0, opens |-> {}, site |-> st]
        beyond == IF "MsgBeyondEnd" \in Defects THEN bad(Exc("StopIteration", "other", 0, ""), "MsgBeyondEnd")
                  ELSE bad(NotFoundExc(s), "MsgBeyondEnd")
        nobox  == IF "NoMailbox" \in Defects THEN bad(Exc("NoSuchMailboxError", "other", 1, ""), "NoMailbox")
                  ELSE bad(NotFoundExc(s), "NoMailbox")
        oserr(cls, msg) == bad(Exc(cls, "OSError", 2, msg), "MailboxOSError")
    IN
    CASE h = "MBoxMessageHandler" ->
            IF kR = "missing" THEN nobox
            ELSE IF kR \in DirKinds THEN oserr("IsADirectoryError", "Is a directory")
            ELSE IF MsgNum(v.args, "/MBOX-MESSAGE/") > (IF kR = "mbox" THEN MailCount[PathOf(v.real)] ELSE 0) THEN beyond
            ELSE ok("doc", 0, {"gc"})                    \* the mailbox object holds its file until collected
      [] h = "MaildirMessageHandler" ->
            IF kR = "missing" THEN nobox
            ELSE IF kR \in RegKinds THEN oserr("NotADirectoryError", "Not a directory")
            ELSE IF kR # "maildir" THEN oserr("FileNotFoundError", "No such file or directory")
            ELSE IF MsgNum(v.args, "/MAILDIR-MESSAGE/") > MailCount[PathOf(v.real)] THEN beyond
            ELSE ok("doc", 0, {})
      [] h = "ZIPHandler" ->
            LET k == KindIn(f, PathOf(s)) IN
            IF k \in {"zip", "zdir"} THEN ok("menu", Cardinality({p \in Children(f, PathOf(s)) : f[p].k \in {"zdir", "zfile"}}), {})
            ELSE IF k = "zfile" THEN ok("doc", 0, {})
            ELSE bad(NotFoundExc(s), "NotFound")
      [] h \in {"UMNDirHandler", "DirHandler"} ->
            LET c == Join(PathOf(s), CacheName) IN
            IF KindIn(f, c) = "cache" THEN ok("menu", f[c].n, {})                 \* served from the cache
            ELSE ok("menu", Cardinality(Visible(f, PathOf(s))), {})
      [] h \in MenuHandlers -> ok("menu", 2, {})
      [] h \in {"FileHandler", "HTMLFileTitleHandler", "CompressedFileHandler"} -> ok("doc", 0, {"with"})
      [] OTHER -> ok("doc", 0, {})                        \* URL page, PYG, script output

\* what serving leaves behind in the tree (observed by snapshot diffs in the harness)
ParentOf(p) == LET ps == {i \in 1..Len(p) : T!Ch(p, i) = "/"}
                   i  == CHOOSE x \in ps : \A y \in ps : y <= x
               IN IF i = 1 THEN "/" ELSE SubSeq(p, 1, i - 1)
HasHandler(hl, h) == \E i \in 1..Len(HandlerLists[hl]) : HandlerLists[hl][i] = h
Leaves(h, s, hl, f) ==
    LET dirp   == PathOf(s)
        lists  == h \in {"UMNDirHandler", "DirHandler"} /\ KindIn(f, Join(dirp, CacheName)) = "missing"
        \* resolving the entries of a listing runs every child through the chain: PYG files get loaded
        pygs   == IF ~Bytecode \/ ~HasHandler(hl, "PYGHandler") \/ "PycacheListed" \notin Defects THEN {}
                  ELSE IF h = "PYGHandler" THEN {PathOf(VSplit(s).real)}
                  ELSE IF lists THEN {p \in Visible(f, dirp) : f[p].k = "pyg"} ELSE {}
        pycs   == {Join(ParentOf(p), "__pycache__") : p \in pygs}
        \* the ZIP handler keeps an index cache next to every archive it opens
        zips   == IF ~HasHandler(hl, "ZIPHandler") THEN {}
                  ELSE IF h = "ZIPHandler" THEN {ZipRootOf(f, s)}
                  ELSE IF lists THEN {p \in Visible(f, dirp) : f[p].k = "zip"} ELSE {}
        caches == (IF lists THEN {Join(dirp, CacheName)} ELSE {})
                  \cup {Join(ParentOf(z), ".cache.pygopherd.zip3." \o BaseName(z, ParentOf(z))) : z \in zips}
    IN [p \in DOMAIN f \cup pycs \cup caches |->
            IF p \in DOMAIN f THEN f[p]
            ELSE IF p \in caches THEN Node("cache", IF lists THEN Cardinality(Visible(f, dirp)) ELSE 0)
            ELSE Node("pycache", 0)]

--------------------------------------------------------------------------------
(* the writes of a response: Seq([r |-> region, c |-> chunk])                              *)
(* region: "try" = inside the protocol's try block, "handler" = inside one of its except    *)
(* blocks, "outside" = in protocol.handle() but outside its try (Gemini/Spartan bodies)    *)
Txt(s)  == [t |-> "txt",  s |-> s,  n |-> Len(s)]
Blob(n) == [t |-> "blob", s |-> "", n |-> n]
MenuC(n) == [t |-> "menu", s |-> "", n |-> n]
RaiseC == [t |-> "raise", s |-> "", n |-> 0]      \* not a write: the handler raises before writing (see WriteRaises)
Wr(region, c) == [r |-> region, c |-> c]
Wrs(region, cs) == [i \in 1..Len(cs) |-> Wr(region, cs[i])]
NominalSize == 7
Content(kd, n) == IF kd = "menu" THEN MenuC(n) ELSE Blob(NominalSize)
Repeat(x, n) == [i \in 1..n |-> x]

\* gemini.py write_status: the <META> of an error is cut to 1024 BYTES of its encoding, never inside a character
\* (stand-ins "*", "^", "`" are two-byte characters, see c03_lib.STANDINS; everything else in the alphabet is one byte)
TwoByte == {"*", "^", "`"}
ByteLen(s) == Len(s) + Cardinality({i \in 1..Len(s) : T!Ch(s, i) \in TwoByte})
CutBytes(s, n) ==
    IF ByteLen(s) <= n THEN s
    ELSE LET k == CHOOSE j \in 0..Len(s) : /\ ByteLen(SubSeq(s, 1, j)) <= n
                                           /\ (j = Len(s) \/ ByteLen(SubSeq(s, 1, j + 1)) > n)
         IN SubSeq(s, 1, k)
MetaMax == 1024

\* the error reply of each protocol (filenotfound / write_status), from the message text
ErrorChunks(fam, method, msg, io) ==
    CASE fam = "G"  -> <<Txt("3" \o msg \o "\t\terror.host\t1" \o CRLF)>>
      [] fam = "GP" -> <<Txt("--2" \o CRLF), Txt("1 "), Txt("admin"), Txt(CRLF \o msg \o CRLF)>>
      [] fam = "H"  -> <<Txt("HTTP/1.0 404 Not Found" \o CRLF), Txt("Content-Type: text/html" \o CRLF \o CRLF)>>
                       \o (IF method = "HEAD" /\ "HeadErrorBody" \notin Defects THEN <<>> ELSE Repeat(Blob(1), 4))
      [] fam = "W"  -> <<Txt("HTTP/1.0 200 Not Found" \o CRLF), Txt("Content-Type: text/vnd.wap.wml" \o CRLF \o CRLF)>>
                       \o (IF method = "HEAD" /\ "HeadErrorBody" \notin Defects THEN <<>> ELSE Repeat(Blob(1), 5))
      [] fam = "GEM" -> <<Txt("51 " \o CutBytes(msg, MetaMax) \o CRLF)>>
      [] fam = "S"   -> <<Txt((IF io THEN "5 " ELSE "4 ") \o msg \o CRLF)>>
      [] OTHER -> <<>>
\* repaired steps replace CR/LF (and TAB) in the message by spaces before writing it
RECURSIVE Sanitize(_)
Sanitize(s) == IF Len(s) = 0 THEN "" ELSE (IF T!Ch(s, 1) \in {"\r", "\n", "\t"} THEN " " ELSE T!Ch(s, 1)) \o Sanitize(T!Tail1(s))
ErrSite(fam, method, msg) ==
    IF fam \in {"GEM", "S"} /\ HasCRLFch(msg) THEN "CrlfInStatus"
    ELSE IF fam = "G" /\ HasCRLFch(msg) THEN "CrInErrorLine"
    ELSE IF fam \in {"H", "W"} /\ method = "HEAD" THEN "HeadErrorBody"
    ELSE "none"
ErrorPlan(fam, method, msg, io) ==
    LET st == ErrSite(fam, method, msg)
        m  == IF st \in {"CrlfInStatus", "CrInErrorLine"} /\ st \notin Defects THEN Sanitize(msg) ELSE msg
    IN Wrs("handler", ErrorChunks(fam, method, m, io))

\* nw > 0: the measured number of write() calls of this reply (C20): pad / cut the plan to it
Resize(plan, nw) ==
    IF nw = 0 \/ Len(plan) = 0 \/ nw = Len(plan) THEN plan
    ELSE IF nw < Len(plan) THEN SubSeq(plan, 1, nw)
    ELSE plan \o Repeat(Wr(plan[1].r, Blob(1)), nw - Len(plan))

\* the writes of a successful response; nw > 0: the measured number of write() calls (C20)
OkPlan(fam, method, mode, kd, n, sized, gz, nw, sub) ==
    LET body == Content(kd, n)
        head == CASE fam = "G"  -> <<>>
                  [] fam = "GP" -> IF mode = "info" THEN <<Txt("+-2" \o CRLF)>>
                                   ELSE IF sized /\ kd = "doc" /\ ~(gz /\ "GzSize" \notin Defects)
                                        THEN <<Txt("+" \o (IF gz THEN "9" ELSE "7") \o CRLF)>>      \* gz: compressed size
                                        ELSE <<Txt("+-2" \o CRLF)>>
                  [] fam \in {"H", "W"} -> <<Txt("HTTP/1.0 200 OK" \o CRLF), Txt("Last-Modified: TS" \o CRLF),
                                             Txt("Content-Type: text/plain" \o CRLF \o CRLF)>>
                  [] fam = "GEM" -> <<Txt("20 text/plain" \o CRLF)>>
                  [] fam = "S"   -> <<Txt("2 text/plain" \o CRLF)>>
                  [] OTHER -> <<>>
        nbody == IF fam \in {"H", "W"} /\ method = "HEAD" THEN 0
                 ELSE IF nw > Len(head) THEN nw - Len(head) ELSE 1
        \* WapSubprocess: wap.py converts text documents through an in-memory file, which has no
        \* fileno() for the subprocess of ExecHandler: UnsupportedOperation
        cont == IF fam = "W" /\ sub /\ nbody > 0 THEN <<RaiseC>>
                ELSE IF fam = "GP" /\ mode = "info" THEN Repeat(Blob(NominalSize), nbody) ELSE Repeat(body, nbody)
        bodyregion == IF fam \in {"GEM", "S"} THEN "outside" ELSE "try"
    IN Wrs(bodyregion, head) \o Wrs(bodyregion, cont)

--------------------------------------------------------------------------------
(* what the client received, as frames (the model's own lexer over the chunks written)     *)
RECURSIVE TextPrefix(_)
TextPrefix(cs) == IF Len(cs) = 0 \/ cs[1].t # "txt" THEN "" ELSE cs[1].s \o TextPrefix(Tail(cs))
RECURSIVE RestOf(_)
RestOf(cs) == IF Len(cs) = 0 \/ cs[1].t # "txt" THEN cs ELSE RestOf(Tail(cs))
RECURSIVE SumN(_)
SumN(cs) == IF Len(cs) = 0 THEN 0 ELSE cs[1].n + SumN(Tail(cs))
HasMenu(cs) == \E i \in 1..Len(cs) : cs[i].t = "menu"
MenuN(cs) == LET i == CHOOSE j \in 1..Len(cs) : cs[j].t = "menu" IN cs[i].n
Tailing(p, i, cs) == IF HasMenu(cs) THEN G!Menu(MenuN(cs)) ELSE G!Body(Len(p) - i + SumN(cs))

FramesOf(fam, cs) ==
    IF Len(cs) = 0 THEN <<>>
    ELSE LET p == TextPrefix(cs) rest == RestOf(cs) IN
    CASE fam \in {"GP", "GEM", "S"} ->
            LET i == T!Find(p, CRLF) IN
            IF i = 0 THEN <<G!Junk(Len(p) + SumN(rest))>>
            ELSE <<G!Line(SubSeq(p, 1, i - 1)), Tailing(p, i + 1, rest)>>
      [] fam \in {"H", "W"} ->
            LET j == T!Find(p, CRLF \o CRLF) IN
            IF j = 0 THEN <<G!Junk(Len(p) + SumN(rest))>>
            ELSE LET ls == SplitStr(SubSeq(p, 1, j - 1), CRLF) IN
                 [i \in 1..Len(ls) |-> G!Line(ls[i])] \o <<G!Blank, Tailing(p, j + 3, rest)>>
      [] OTHER ->                                                     \* plain Gopher / nothing detected
            IF Len(rest) = 0
            THEN (IF T!EndsWith(p, CRLF) /\
                     LET ls == SplitStr(SubSeq(p, 1, Len(p) - 2), CRLF) IN \A i \in 1..Len(ls) : T!Contains(ls[i], "\t")
                  THEN LET ls == SplitStr(SubSeq(p, 1, Len(p) - 2), CRLF) IN [i \in 1..Len(ls) |-> G!Line(ls[i])]
                  ELSE <<G!Raw(Len(p))>>)
            ELSE IF HasMenu(rest) THEN <<G!Menu(MenuN(rest))>>
            ELSE <<G!Raw(Len(p) + SumN(rest))>>

--------------------------------------------------------------------------------
(* the machine *)
InitConn(r, f) ==
    /\ rq = r /\ pc = "read" /\ proto = "none" /\ sel = "" /\ hname = "none" /\ kind = "none"
    /\ exc = NoExc /\ todo = <<>> /\ out = <<>> /\ wn = 0 /\ log = <<>> /\ mark = -1 /\ fds = {}
    /\ esc = "none" /\ ops = 0 /\ site = "none" /\ fs = f

\* the next connection on the tree f (primed twin of InitConn: histories, trace replay)
StartConn(r, f) ==
    /\ rq' = r /\ pc' = "read" /\ proto' = "none" /\ sel' = "" /\ hname' = "none" /\ kind' = "none"
    /\ exc' = NoExc /\ todo' = <<>> /\ out' = <<>> /\ wn' = 0 /\ log' = <<>> /\ mark' = -1 /\ fds' = {}
    /\ esc' = "none" /\ ops' = 0 /\ site' = "none" /\ fs' = f

\* the pristine content tree for a handler list (ZIP members exist only where the ZIP handler is on)
TreeOf(hl) == [p \in DOMAIN Tree0[hl] |-> Node(Tree0[hl][p], 0)]
NoReq == [line |-> "", tls |-> FALSE, wap |-> FALSE, hl |-> "default", tail |-> "none",
          fk |-> 0, fcls |-> "none", nw |-> 0, id |-> ""]

Rec(p, e) == [addr |-> Client, proto |-> IF p = "none" THEN "None" ELSE p, cls |-> e.cls, fam |-> e.fam]
Benign == {"none", "NotFound", "MailboxOSError", "WapSubprocess"}         \* sites that are not defects: a later hazard supersedes them
\* `site` = the first site reached whose defect is in force; failing that, the last hazard reached
SetSite(s) == site' = IF s # "none" /\ (site \in Benign \/ site \notin Defects) THEN s ELSE site

ReadLine ==                                     \* rfile.readline()
    /\ pc = "read" /\ pc' = "select" /\ ops' = ops + 1
    /\ UNCHANGED <<rq, proto, sel, hname, kind, exc, todo, out, wn, log, mark, fds, esc, site, fs>>

SelectProtocol ==                               \* getProtocol(): OUTSIDE the try of handle()
    /\ pc = "select"
    /\ LET d == Detect(rq) IN
       /\ proto' = d.p
       /\ IF d.raises # "none"
          THEN exc' = Exc(d.raises, "other", 1, "") /\ pc' = "escape"
          ELSE exc' = exc /\ pc' = "parse"
    /\ SetSite(IF ReachesEmptyPlus(rq) THEN "EmptyPlusField" ELSE "none")
    /\ UNCHANGED <<rq, sel, hname, kind, todo, out, wn, log, mark, fds, esc, ops, fs>>

Parse ==                                        \* protocol.handle() up to its try (inside the server's try)
    /\ pc = "parse"
    /\ LET r == ParseSel(proto, rq) fam == Fam(proto) m == Method(rq, proto) IN
       CASE r.special = "noproto" ->             \* None.handle(): AttributeError
               /\ exc' = Exc("AttributeError", "other", 1, "") /\ pc' = "catchS"
               /\ UNCHANGED <<sel, kind, todo, site>>
         [] r.special = "badurl" ->
               /\ SetSite("GemAuthority")
               /\ IF "GemAuthority" \in Defects
                  THEN exc' = Exc("ValueError", "other", 1, "Invalid IPv6 URL") /\ pc' = "catchS" /\ UNCHANGED <<kind, todo>>
                  ELSE /\ todo' = Wrs("outside", <<Txt("59 Bad request" \o CRLF)>>) /\ kind' = "error"
                       /\ pc' = "write" /\ exc' = exc
               /\ UNCHANGED sel
         [] r.special \in {"input10", "input30"} ->
               \* GemLongRedirect: the redirect of the search dialogue echoes selector and query whatever their length; for a
               \* request that is itself over the protocol's limit the <META> comes out over 1024 bytes (as coded).  The
               \* repaired step would refuse such a request (59) - not taken: gemini.py is permissive about over-long requests
               \* on purpose and the other protocols deliver such search strings (C06).
               /\ SetSite(IF r.special = "input30" /\ ByteLen(r.aux) > MetaMax THEN "GemLongRedirect" ELSE "none")
               /\ todo' = Wrs("outside", <<Txt(IF r.special = "input10" THEN "10 Enter input" \o CRLF
                                                ELSE IF ByteLen(r.aux) > MetaMax /\ "GemLongRedirect" \notin Defects
                                                     THEN "59 Bad request" \o CRLF
                                                ELSE "30 " \o r.aux \o CRLF)>>)
               /\ kind' = "status" /\ pc' = "write" /\ UNCHANGED <<sel, exc>>
         [] r.special = "icon" ->
               /\ todo' = Wrs("outside", <<Txt("HTTP/1.0 200 OK" \o CRLF), Txt("Last-Modified: TS" \o CRLF),
                                           Txt("Content-Type: image/gif" \o CRLF \o CRLF)>>
                                         \o (IF m = "HEAD" THEN <<>> ELSE <<Blob(9)>>))
               /\ sel' = r.sel /\ kind' = "doc" /\ pc' = "write" /\ UNCHANGED <<exc, site>>
         [] OTHER ->
               /\ sel' = r.sel /\ pc' = "lookup" /\ UNCHANGED <<kind, exc, todo, site>>
    /\ ops' = ops + (IF Fam(proto) \in {"H", "W", "S"} THEN 2 ELSE 0)       \* header / body reads
    /\ UNCHANGED <<rq, proto, hname, out, wn, log, mark, fds, esc, fs>>

Lookup ==                                       \* gethandler(): first statement of the protocol's try
    /\ pc = "lookup"
    /\ IF HasNul(sel)
       THEN \* StatBeforeFilter: os.stat on the raw selector raises ValueError, only OSError is swallowed
            /\ SetSite("NulStat")
            /\ IF "NulStat" \in Defects
               THEN exc' = Exc("ValueError", "other", 1, "embedded null byte") /\ pc' = "catchS" /\ log' = log
               ELSE /\ exc' = NotFoundExc(sel) /\ pc' = "catchP"
                    /\ log' = Append(log, Rec(proto, NotFoundExc(sel)))
            /\ UNCHANGED <<hname, sel>>
       ELSE LET r == Resolve(sel, rq.hl, fs)
                kS == KindIn(fs, PathOf(r.s))
                art == IF kS = "cache" THEN "ArtefactFetchable"
                       ELSE IF kS = "pycache" THEN "PycacheListed" ELSE "none"
            IN
            IF r.h = "none"
            THEN /\ exc' = NotFoundExc(r.s) /\ pc' = "catchP" /\ SetSite(IF art # "none" THEN art ELSE "NotFound")
                 /\ log' = Append(log, Rec(proto, NotFoundExc(r.s)))       \* FileNotFound logs itself
                 /\ UNCHANGED <<hname, sel>>
            ELSE /\ hname' = r.h /\ sel' = r.s /\ pc' = "entry"
                 /\ SetSite(art)
                 /\ UNCHANGED <<exc, log>>
    /\ ops' = ops + 2
    /\ UNCHANGED <<rq, proto, kind, todo, out, wn, mark, fds, esc, fs>>

Entry ==                                        \* getentry(), prepare(): still inside the try
    /\ pc = "entry"
    /\ LET e == EntryOutcome(hname, sel, fs)
           fam == Fam(proto)
           m == Method(rq, proto)
           mode == IF fam = "GP" THEN GPMode(rq) ELSE "doc"
       IN
       IF e.raises.cls # "none"
       THEN /\ exc' = e.raises /\ SetSite(e.site)
            /\ pc' = IF e.raises.fam \in {"FileNotFound", "OSError"} THEN "catchP" ELSE "catchS"
            /\ log' = IF e.raises.fam = "FileNotFound" THEN Append(log, Rec(proto, e.raises)) ELSE log
            /\ UNCHANGED <<kind, todo, fds, fs>>
       ELSE /\ kind' = IF mode = "info" THEN "info" ELSE e.kind
            /\ todo' = OkPlan(fam, m, mode, e.kind, e.n, hname \in SizedHandlers, hname = "CompressedFileHandler", rq.nw,
                              FALSE)     \* WapSubprocess: CompressedFileHandler (fe55d6b) and ExecHandler (758309a)
                                         \* now capture and relay when the stream has no descriptor
            /\ SetSite(IF fam = "GP" /\ mode # "info" /\ hname = "CompressedFileHandler" THEN "GzSize"
                       \* the listing (fresh or cached) shows an entry the pristine directory does not have
                       ELSE IF hname \in {"UMNDirHandler", "DirHandler"} /\ mode # "info"
                               /\ PathOf(sel) \in DOMAIN Tree0[rq.hl]
                               /\ e.n # Cardinality(Visible(TreeOf(rq.hl), PathOf(sel))) THEN "PycacheListed"
                       ELSE "none")
            /\ fds' = fds \cup e.opens
            /\ fs' = IF mode = "info" THEN fs ELSE Leaves(hname, sel, rq.hl, fs)
            /\ pc' = "write" /\ UNCHANGED <<exc, log>>
    /\ ops' = ops + 2 + Cardinality(Children(fs, PathOf(sel)))
    /\ UNCHANGED <<rq, proto, sel, hname, out, wn, mark, esc>>

Dead == rq.fk # 0 /\ wn + 1 >= rq.fk           \* the next write() hits the dead connection

IOExc(cls) ==                                   \* the injected failure, as the socket layer raises it
    CASE cls = "BrokenPipeError"      -> Exc(cls, "OSError", 2, "Broken pipe")
      [] cls = "ConnectionResetError" -> Exc(cls, "OSError", 2, "Connection reset by peer")
      [] cls = "TimeoutError"         -> Exc(cls, "OSError", 1, "timed out")     \* socket.timeout("timed out")
      [] OTHER                        -> Exc(cls, "OSError", 2, "error")

WriteRaises ==                                  \* the handler's write() raises before any byte is written
    /\ pc = "write" /\ todo # <<>> /\ Head(todo).c.t = "raise"
    /\ exc' = Exc("UnsupportedOperation", "OSError", 1, "fileno") /\ todo' = <<>> /\ fds' = fds \ {"with"}
    /\ pc' = "catchP" /\ SetSite("WapSubprocess")
    /\ UNCHANGED <<rq, proto, sel, hname, kind, out, wn, log, mark, esc, ops, fs>>

WriteOk ==                                      \* (with a write buffer even a dead connection accepts the bytes)
    /\ pc = "write" /\ todo # <<>> /\ (~Dead \/ Buffered) /\ Head(todo).c.t # "raise"
    /\ out' = (IF Dead THEN out ELSE Append(out, Head(todo).c)) /\ todo' = Tail(todo) /\ wn' = wn + 1 /\ ops' = ops + 1
    /\ UNCHANGED <<rq, pc, proto, sel, hname, kind, exc, log, mark, fds, esc, site, fs>>

WriteFail ==                                    \* write() raises: with-blocks unwind, the class propagates
    /\ pc = "write" /\ todo # <<>> /\ Dead /\ ~Buffered /\ Head(todo).c.t # "raise"
    /\ wn' = wn + 1 /\ ops' = ops + 1
    /\ exc' = IOExc(rq.fcls)
    /\ mark' = IF mark = -1 THEN Len(log) ELSE mark
    /\ fds' = fds \ {"with"}
    /\ todo' = <<>>
    /\ pc' = IF Head(todo).r = "try" THEN "catchP" ELSE "catchS"
    /\ UNCHANGED <<rq, proto, sel, hname, kind, out, log, esc, site, fs>>

WriteDone ==
    /\ pc = "write" /\ todo = <<>>
    /\ fds' = fds \ {"with"} /\ pc' = "finish"
    /\ UNCHANGED <<rq, proto, sel, hname, kind, exc, todo, out, wn, log, mark, esc, ops, site, fs>>

UsesStrerror(p) == Fam(p) = "G"                 \* base.py: e.strerror; gopherp/http(wap)/gemini/spartan: e.args[1]

CatchInProtocol ==                              \* except FileNotFound / except IOError in protocol.handle()
    /\ pc = "catchP"
    /\ LET fam == Fam(proto) m == Method(rq, proto) IN
       IF exc.fam = "FileNotFound"
       THEN /\ todo' = Resize(ErrorPlan(fam, m, exc.msg, FALSE), IF wn = 0 THEN rq.nw ELSE 0)
            /\ kind' = "error" /\ pc' = "write" /\ exc' = NoExc
            /\ SetSite(ErrSite(fam, m, exc.msg))
            /\ log' = log
       ELSE /\ log' = Append(log, Rec(proto, exc))                       \* GopherExceptions.log(e, self, None)
            /\ IF UsesStrerror(proto) \/ exc.nargs >= 2 \/ "ArgsIndex" \notin Defects
               THEN /\ todo' = ErrorPlan(fam, m, IF exc.nargs >= 2 \/ ~UsesStrerror(proto) THEN exc.msg ELSE "None", TRUE)
                    /\ kind' = "error" /\ pc' = "write" /\ exc' = NoExc
                    /\ SetSite(IF ~UsesStrerror(proto) /\ exc.nargs < 2 THEN "ArgsIndex" ELSE ErrSite(fam, m, exc.msg))
               ELSE \* e.args[1] of a one-argument error: IndexError raised inside the except block
                    /\ exc' = Exc("IndexError", "other", 1, "tuple index out of range") /\ pc' = "catchS"
                    /\ SetSite("ArgsIndex") /\ UNCHANGED <<todo, kind>>
    /\ UNCHANGED <<rq, proto, sel, hname, out, wn, mark, fds, esc, ops, fs>>

CatchInServer ==                                \* except IOError / except Exception in server.py handle()
    /\ pc = "catchS"
    /\ log' = Append(log, Rec(proto, exc)) /\ exc' = NoExc /\ pc' = "finish"
    /\ UNCHANGED <<rq, proto, sel, hname, kind, todo, out, wn, mark, fds, esc, ops, site, fs>>

Escape ==                                       \* raised outside every try: leaves handle()
    /\ pc = "escape"
    /\ esc' = exc.cls /\ exc' = NoExc /\ pc' = "finish"
    /\ UNCHANGED <<rq, proto, sel, hname, kind, todo, out, wn, log, mark, fds, ops, site, fs>>

\* finish(): flush, close; request objects released.  As coded wbufsize = 0: every write() reaches the
\* socket at once and finish() has nothing to lose.  With a write buffer (Buffered) the bytes written to
\* a dead connection are still pending: StreamRequestHandler.finish() swallows the error of its flush()
\* but wfile.close() flushes again and raises - OUTSIDE handle(), past both catch levels, never logged.
LostInBuffer == Buffered /\ rq.fk # 0 /\ wn >= rq.fk
Finish ==
    /\ pc = "finish"
    /\ pc' = "closed" /\ fds' = fds \ {"gc"} /\ ops' = ops + 1
    /\ esc' = IF LostInBuffer /\ esc = "none" THEN rq.fcls ELSE esc
    /\ mark' = IF LostInBuffer /\ mark = -1 THEN Len(log) ELSE mark
    /\ UNCHANGED <<rq, proto, sel, hname, kind, exc, todo, out, wn, log, site, fs>>

Step == \/ ReadLine \/ SelectProtocol \/ Parse \/ Lookup \/ Entry \/ WriteOk \/ WriteRaises \/ WriteFail \/ WriteDone
        \/ CatchInProtocol \/ CatchInServer \/ Escape \/ Finish

--------------------------------------------------------------------------------
(* Observables of a finished connection, and the property clauses over them.  The same     *)
(* clause operators judge the design model (ModelView) and what alpha observed on the real *)
(* server (TraceC03 / TraceC20 build a view from the recorded events).                     *)
ModelView == [proto |-> proto, method |-> Method(rq, proto), frames |-> FramesOf(Fam(proto), out),
              log |-> log, esc |-> esc, nfds |-> Cardinality(fds \ {"child"}),
              nproc |-> Cardinality(fds \cap {"child"}), mark |-> mark, ops |-> ops]

\* C03
OneResponseV(v) == G!WellFormed(v.proto, v.method, v.frames)
NoUnhandledV(v) == v.esc = "none" /\ \A i \in 1..Len(v.log) : v.log[i].fam \in {"FileNotFound", "OSError"}
BoundedV(v, bound) == v.ops <= bound
\* C20
ContainedV(v) == v.esc = "none"
\* With an injected failure every failing write() raises the injected class.  On a real socket the
\* kernel chooses the class of each failing write (ECONNRESET once, EPIPE afterwards): there the own
\* class of a record is whichever connection-failure class that write raised.
ConnFailures == {"ConnectionResetError", "BrokenPipeError", "TimeoutError", "ConnectionAbortedError"}
OwnOf(cls) == IF cls = "connection-failure" THEN ConnFailures ELSE {cls}
OwnClassV(v, cls) ==
    v.mark >= 0 => /\ Len(v.log) > v.mark
                   /\ \A i \in (v.mark + 1)..Len(v.log) : v.log[i].cls \in OwnOf(cls) /\ v.log[i].addr = Client
\* resources opened for the request: descriptors (files, pipes) AND child processes (running or un-reaped).
\* As coded the subprocess handlers use subprocess.run: the child is reaped before run() returns or raises,
\* so no "child" is ever held across a Python write(); a relay that keeps a Popen across its writes would be.
FilesClosedV(v) == v.nfds = 0 /\ v.nproc = 0

C03Verdict(v, bound) ==
    IF ~OneResponseV(v) THEN "OneResponse"
    ELSE IF ~NoUnhandledV(v) THEN "NoUnhandled"
    ELSE IF ~BoundedV(v, bound) THEN "Bounded"
    ELSE "ok"
C20Verdict(v, cls) ==
    IF ~ContainedV(v) THEN "Contained"
    ELSE IF ~OwnClassV(v, cls) THEN "OwnClass"
    ELSE IF ~FilesClosedV(v) THEN "FilesClosed"
    ELSE "ok"

\* the sites at which the recorded defects break a clause: the invariants are weakened by exactly these
Excused == site \in Defects
=============================================================================
