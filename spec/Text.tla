-------------------------------- MODULE Text --------------------------------
(* Text as TLA+ strings, touched only through Len, SubSeq and \o (the three string          *)
(* operators TLC 1.8 implements natively).  Shared, read-only helper module.               *)
EXTENDS Naturals, Sequences

Ch(s, i) == SubSeq(s, i, i)                         \* i-th character as a 1-char string
Tail1(s) == SubSeq(s, 2, Len(s))
Last1(s) == IF Len(s) = 0 THEN "" ELSE Ch(s, Len(s))

StartsWith(s, p) == Len(p) <= Len(s) /\ SubSeq(s, 1, Len(p)) = p
EndsWith(s, p)   == Len(p) <= Len(s) /\ SubSeq(s, Len(s) - Len(p) + 1, Len(s)) = p

\* position (1-based) of the first occurrence of sub in s, 0 if none  (Python s.find(sub) + 1)
Find(s, sub) ==
    LET ps == {i \in 1..(Len(s) - Len(sub) + 1) : SubSeq(s, i, i + Len(sub) - 1) = sub}
    IN IF Len(sub) > Len(s) \/ ps = {} THEN 0 ELSE CHOOSE i \in ps : \A j \in ps : i <= j
Contains(s, sub) == Find(s, sub) # 0

\* split on a 1-character separator (Python s.split(sep)): always at least one field
RECURSIVE Split(_, _)
Split(s, sep) ==
    LET i == Find(s, sep) IN
    IF i = 0 THEN <<s>> ELSE <<SubSeq(s, 1, i - 1)>> \o Split(SubSeq(s, i + 1, Len(s)), sep)

RECURSIVE Join(_, _)
Join(seq, sep) == IF Len(seq) = 0 THEN ""
                  ELSE IF Len(seq) = 1 THEN seq[1]
                  ELSE seq[1] \o sep \o Join(Tail(seq), sep)

RECURSIVE LStripSet(_, _)
LStripSet(s, cs) == IF Len(s) > 0 /\ Ch(s, 1) \in cs THEN LStripSet(Tail1(s), cs) ELSE s
RECURSIVE RStripSet(_, _)
RStripSet(s, cs) == IF Len(s) > 0 /\ Last1(s) \in cs THEN RStripSet(SubSeq(s, 1, Len(s) - 1), cs) ELSE s
StripSet(s, cs) == LStripSet(RStripSet(s, cs), cs)

RECURSIVE ReplaceAll(_, _, _)
ReplaceAll(s, old, new) ==       \* Python s.replace(old, new), old non-empty
    LET i == Find(s, old) IN
    IF i = 0 THEN s
    ELSE SubSeq(s, 1, i - 1) \o new \o ReplaceAll(SubSeq(s, i + Len(old), Len(s)), old, new)

Chars(s) == {Ch(s, i) : i \in 1..Len(s)}
Digits == {"0", "1", "2", "3", "4", "5", "6", "7", "8", "9"}
IsDigits(s) == Len(s) > 0 /\ Chars(s) \subseteq Digits

\* all strings over alphabet A (a set of 1-char strings) of length exactly n / at most n
RECURSIVE StringsOfLen(_, _)
StringsOfLen(A, n) == IF n = 0 THEN {""} ELSE {a \o t : a \in A, t \in StringsOfLen(A, n - 1)}
StringsUpTo(A, n) == UNION {StringsOfLen(A, k) : k \in 0..n}

(* ---- additions by the C08/C09 builder (ordering, Python strip, integers, paths) ---- *)
\* printable ASCII in code-point order; Rank = position (0 for anything else, e.g. TAB)
Ascii == " !\"#$%&'()*+,-./0123456789:;<=>?@ABCDEFGHIJKLMNOPQRSTUVWXYZ[\\]^_`abcdefghijklmnopqrstuvwxyz{|}~"
Rank(c) == Find(Ascii, c)
RECURSIVE StrLt(_, _)
StrLt(s, t) ==                    \* Python s < t for strings over printable ASCII
    IF Len(t) = 0 THEN FALSE
    ELSE IF Len(s) = 0 THEN TRUE
    ELSE IF Ch(s, 1) = Ch(t, 1) THEN StrLt(Tail1(s), Tail1(t))
    ELSE Rank(Ch(s, 1)) < Rank(Ch(t, 1))
StrCmp(s, t) == IF s = t THEN 0 ELSE IF StrLt(s, t) THEN 0 - 1 ELSE 1

PyWS == {" ", "\t", "\n", "\r", "\f"}       \* the members of Python's str.strip() class used here
Strip(s) == StripSet(s, PyWS)
From(s, i) == SubSeq(s, i, Len(s))          \* Python s[i-1:]
DropLast(s) == SubSeq(s, 1, Len(s) - 1)

DigitVal(c) == Find("0123456789", c) - 1
RECURSIVE ParseNatAcc(_, _)
ParseNatAcc(s, acc) == IF Len(s) = 0 THEN acc ELSE ParseNatAcc(Tail1(s), 10 * acc + DigitVal(Ch(s, 1)))
ParseNat(s) == ParseNatAcc(s, 0)
IsInt(s) == IsDigits(s) \/ (Len(s) > 1 /\ Ch(s, 1) \in {"-", "+"} /\ IsDigits(Tail1(s)))
ParseInt(s) == IF Ch(s, 1) = "-" THEN 0 - ParseNat(Tail1(s))
               ELSE IF Ch(s, 1) = "+" THEN ParseNat(Tail1(s)) ELSE ParseNat(s)

\* os.path.normpath for absolute paths starting with exactly one slash
RECURSIVE NormParts(_, _)
NormParts(parts, acc) ==
    IF Len(parts) = 0 THEN acc
    ELSE LET p == parts[1] IN
         IF p = "" \/ p = "." THEN NormParts(Tail(parts), acc)
         ELSE IF p = ".." THEN NormParts(Tail(parts), IF Len(acc) = 0 THEN acc ELSE SubSeq(acc, 1, Len(acc) - 1))
         ELSE NormParts(Tail(parts), Append(acc, p))
NormAbs(path) == "/" \o Join(NormParts(Split(path, "/"), <<>>), "/")
=============================================================================
