------------------------------- MODULE MC_C18 -------------------------------
(* Bounded design model for C18: the machine of MC_C17 (TALCompile + TALVM against TALSem)   *)
(* with the C18 properties as invariants, on the families esc (values over the markup        *)
(* metacharacters and reference look-alikes in every substitution position), py (python: in   *)
(* every command position, gate on and off), doc (TAL-free documents) and C17's families.    *)
EXTENDS MC_C17

\* every value written as text / as an attribute value is free of markup characters (history st.dw)
Escaped     == EscapedOn(st)
AttrEscaped == AttrEscapedOn(st)
\* python: is opaque in the model: its value is the marker "PY" when evaluated, false (0) when gated off
PythonGated == (Done /\ st.err = "" /\ ~case.py) => TX!Find(st.out, "PY") = 0
\* after any completed expansion the Context's stacks are empty again and no global was lost
ContextRestored == (Done /\ st.err = "") => Restored(st, G0(case))
\* a TAL-free document is one OUTPUT command that re-serialises it.  Named deviation RawTextEscaped: handle_data
\* escapes the content of script/style elements like ordinary text (TALCompile follows the code)
TalFree(c) == c.fam = "doc"
PassThrough == (Done /\ TalFree(case)) =>
                   /\ Len(prog) = 1
                   /\ (st.out = Sem!Doc(Ref.t) \/ (KnownRawTextEscaped /\ Sem!HasRawMarkup(case.tree, 1)))
=============================================================================
