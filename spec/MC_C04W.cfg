SPECIFICATION Spec
CONSTANTS
  Alpha1 = {"x", "SP", "CR", "VT", "FF", "NEL", "LS", "LT", "AMP", "QUOT", "HI", "NUL"}
  Len1 = 2
  Alpha2 = {"x", "SP", "CR", "LS", "AMP"}
  Len2 = 1
INVARIANT Invertible
CHECK_DEADLOCK FALSE
