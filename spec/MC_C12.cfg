SPECIFICATION Spec
CONSTANTS
  IgnorePatterns <- DataIgnorePatterns
  EaExts <- DataEaExts
  SkipUnservable = TRUE
  SortedLinks = TRUE
  DotRuleAll = TRUE
  Scopes <- ScopesQuick
  OrderModes = {"sorted"}
  Protos = {"G", "GP+", "GP$", "H", "GEM", "SP", "WAP"}
  DotFaults = TRUE
INVARIANT ModelRobust
INVARIANT StepsAreFolds
INVARIANT WellFormed
CHECK_DEADLOCK FALSE
