SPECIFICATION Spec
CONSTANTS
  B = 2
  MaxN = 5
INVARIANT OverlapExact
INVARIANT OverlapPrefix
CHECK_DEADLOCK FALSE
