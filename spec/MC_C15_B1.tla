----------------------------- MODULE MC_C15_B1 -----------------------------
(* Binding B1 for C15: data the code treats as data, read from the working tree at check   *)
(* time by harness/c15.py (conf/pygopherd.conf [GopherEntry] eaexts / defaultmimetype,      *)
(* [handlers.UMN.UMNDirHandler] extstrip, conf/mime.types) and written over this file in   *)
(* the TLC scratch directory.  The values below are those of the pinned tree (fallback).   *)
B1_EaExts == <<[ext |-> ".abstract", name |-> "ABSTRACT"], [ext |-> ".keywords", name |-> "KEYWORDS"],
               [ext |-> ".ask", name |-> "ASK"], [ext |-> ".3d", name |-> "3D"]>>
B1_MimeOf(e) == CASE e = "txt" -> "text/plain" [] e = "gif" -> "image/gif" [] e = "html" -> "text/html"
                  [] OTHER -> ""
B1_DefaultMime == "text/plain"
B1_ExtStrip == "nonencoded"
=============================================================================
