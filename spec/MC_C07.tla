------------------------------- MODULE MC_C07 -------------------------------
(* Bounded design model for C07: directories built from the probe names that the harness   *)
(* derives from the SHIPPED ignore pattern (binding B1: every alternative's literal,        *)
(* literal+suffix, prefix+literal, near misses at every `.`), dot-files, dot-directories,   *)
(* nested directories, link files with small block alphabets (including conflicting and     *)
(* tying blocks in two link files), a .cap-hidden entry, colliding titles; for EVERY         *)
(* permutation of the OS enumeration order; both directory handlers; the shipped pattern    *)
(* and the documented buck-only pattern.  Invariants: Exact (set of listed entries =        *)
(* Visible, once each) and OrderFree (the listing is the same for every enumeration order). *)
(* The initial states are the replay cases for the real server (binding B2).                *)
EXTENDS Dir, MC_C07_data, TLC

CONSTANTS Suites     \* set of [sel, list, ign, nprobes, base, meta]

mcvars == dvars

K(n, kind) == [name |-> n, kind |-> kind, fault |-> "none", capx |-> FALSE, blocks |-> <<>>]
F(n) == K(n, "file")
D(n) == K(n, "dir")
L(n, bs) == [K(n, "file") EXCEPT !.blocks = bs]
Hid(k) == [k EXCEPT !.capx = TRUE]

Blk(merge, tgt, title, num, x, host) == [merge |-> merge, tgt |-> tgt, title |-> title, num |-> num, x |-> x, host |-> host]
bRenZ  == Blk(TRUE, "a.txt", "Zed", 0, FALSE, "")
bRenA  == Blk(TRUE, "a.txt", "Alpha", 0, FALSE, "")
bNum2  == Blk(TRUE, "a.txt", "", 2, FALSE, "")
bHide  == Blk(TRUE, "a.txt", "", 0, TRUE, "")
bAdd1  == Blk(FALSE, "/else", "Mirror", 0, FALSE, "h1")
bAdd2  == Blk(FALSE, "/other", "Mirror", 0, FALSE, "h2")
bGhost == Blk(TRUE, "ghost", "Ghost", 0, FALSE, "")
bNegB  == Blk(TRUE, "b.txt", "", -1, FALSE, "")
BlockAlphabet == {bRenZ, bRenA, bNum2, bHide, bAdd1, bAdd2, bGhost, bNegB}

BaseKids(b) == CASE b = "plain" -> {F("a.txt"), D("sub")}
                 [] b = "links" -> {F("a.txt"), D("sub"), L(".Links", <<bRenZ>>)}
                 [] b = "one"   -> {F("a.txt")}

ProbeKid(pr) == K(pr.name, pr.kind)
ProbeSets(n) == {{pr} : pr \in DataProbes}
                \cup (IF n >= 2 THEN {{a, b} : a, b \in {c \in DataProbes : c.core}} ELSE {})
DistinctNames(S) == \A a, b \in S : a.name = b.name => a = b

\* metadata-driven directories (UMN semantics; two link files with every pair of blocks)
MetaDirs ==
    {{F("a.txt"), F("b.txt"), L(".Links", <<x>>), L(".names", <<y>>)} : x, y \in BlockAlphabet}
    \cup {{F("a.txt"), F("b.txt"), D("sub"), L(".Links", <<x>>)} : x \in BlockAlphabet}
    \cup {{F("a.txt"), F("b.txt"), L(".Links", <<bNum2, bAdd1>>), L(".names", <<bNegB, bGhost>>)},
          {F("notes.txt"), F("notes.pdf"), F("a.txt"), D("sub")},
          {Hid(F("a.txt")), F("b.txt"), D(".cap"), D("sub")},
          {F("a.txt"), F(".secret"), D(".git"), D("sub")}}
\* metadata-free directories every suite lists (colliding titles, dot-file + dot-directory)
\* (... and names that differ only in letter case: any case-folding comparison makes them tie)
PlainExtras == {{F("notes.txt"), F("notes.pdf"), F("a.txt"), D("sub")},
                {F("a.txt"), F(".secret"), D(".git"), D("sub")},
                {F("README"), F("readme"), F("Readme"), F("a.txt")},
                {F("Zebra.txt"), F("zebra.txt"), D("SUB"), D("sub")}}

MkDir(s, kids) ==
    [sb |-> IF s.sel = "/" THEN "" ELSE s.sel, handler |-> DataLists[s.list].handler, ign |-> s.ign,
     sniff |-> [mbox |-> DataLists[s.list].mbox, html |-> DataLists[s.list].html], kids |-> kids]

\* a regular file called gophermap turns the directory into a Bucktooth menu (another handler
\* serves it): not a listing produced by the directory handlers
BuckTakesOver(s, kids) == DataLists[s.list].buck /\ \E k \in kids : k.name = "gophermap" /\ k.kind = "file"

SuiteDirs(s) ==
    {MkDir(s, BaseKids(s.base) \cup {ProbeKid(pr) : pr \in P}) :
        P \in {Q \in ProbeSets(s.nprobes) : DistinctNames(BaseKids(s.base) \cup {ProbeKid(pr) : pr \in Q})}}
    \cup {MkDir(s, ks) : ks \in PlainExtras}
    \cup (IF s.meta THEN {MkDir(s, ks) : ks \in MetaDirs} ELSE {})

Cases == UNION {{dd \in SuiteDirs(s) : ~BuckTakesOver(s, dd.kids)} : s \in Suites}

RECURSIVE SetAsSeq(_)
SetAsSeq(S) == IF S = {} THEN <<>> ELSE LET x == CHOOSE y \in S : TRUE IN <<x>> \o SetAsSeq(S \ {x})
SortedNames(dd) == SortStrSeq(SetAsSeq(Names(dd)))
Perms(s) == {[i \in DOMAIN s |-> s[f[i]]] : f \in Permutations(DOMAIN s)}

Init == \E dd \in Cases : DirInit(dd)
Next == \/ pc = "start" /\ \E o \in Perms(SortedNames(d)) : ListDir(o)
        \/ DirStep
Spec == Init /\ [][Next]_mcvars
GenSpec == Init /\ [][FALSE]_mcvars

\* the one named deviation of the pinned code from the literal property that has no fix:
\* plain dir.DirHandler has no dot-file rule (documented in conf/pygopherd.conf)
KnownDeviation(dd, c) == dd.handler = "dir" /\ c = "Exact.DotFileListed"

Exact == pc = "done" => /\ p.out.kind = "ok"
                        /\ LET c == ExactClause(d, p.out.listing) IN c = "ok" \/ KnownDeviation(d, c)
OrderFree == pc = "done" => p.out = Pipeline(d, SortedNames(d))
WellFormed == WellFormedDir(d)

\* witnesses (each must be VIOLATED: vacuity guards)
ExactLiteral   == pc = "done" => ExactClause(d, p.out.listing) = "ok"      \* DirHandler lists dot-files
W_NothingHidden == ~(pc = "done" /\ Names(d) \ Visible(d) # {} /\ Visible(d) # {})

\* the scope is part of the case analysis: selectorbase "" (document root) vs "/d"
SuitesQuick ==
    {[sel |-> "/d", list |-> "default", ign |-> "shipped", nprobes |-> 1, base |-> "plain", meta |-> TRUE],
     [sel |-> "/", list |-> "default", ign |-> "shipped", nprobes |-> 1, base |-> "one", meta |-> FALSE],
     [sel |-> "/", list |-> "dir", ign |-> "shipped", nprobes |-> 1, base |-> "one", meta |-> FALSE],
     [sel |-> "/d", list |-> "dir", ign |-> "shipped", nprobes |-> 1, base |-> "plain", meta |-> FALSE],
     [sel |-> "/d", list |-> "dir", ign |-> "buck", nprobes |-> 1, base |-> "plain", meta |-> FALSE]}
SuitesThorough == SuitesQuick \cup
    {[sel |-> "/d", list |-> "default", ign |-> "shipped", nprobes |-> 1, base |-> "links", meta |-> FALSE],
     [sel |-> "/d", list |-> "default", ign |-> "shipped", nprobes |-> 2, base |-> "one", meta |-> FALSE],
     [sel |-> "/d", list |-> "dir", ign |-> "shipped", nprobes |-> 2, base |-> "one", meta |-> FALSE],
     [sel |-> "/", list |-> "default", ign |-> "shipped", nprobes |-> 1, base |-> "plain", meta |-> TRUE],
     [sel |-> "/d/sub", list |-> "default", ign |-> "shipped", nprobes |-> 1, base |-> "plain", meta |-> FALSE],
     [sel |-> "/q.ask", list |-> "default", ign |-> "shipped", nprobes |-> 1, base |-> "plain", meta |-> FALSE],
     [sel |-> "/q.ask", list |-> "dir", ign |-> "shipped", nprobes |-> 1, base |-> "plain", meta |-> FALSE]}
=============================================================================
