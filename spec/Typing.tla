------------------------------- MODULE Typing -------------------------------
(* XTYPE (growth check) - how an object gets its Gopher item type, MIME type, encoding and    *)
(* display name.  The decision procedure of the pinned tree, transcribed operator by operator: *)
(*   SplitExt / Guess   Python's posixpath.splitext and mimetypes.MimeTypes.guess_type over    *)
(*                      the tables AS THE SERVER CONFIGURES THEM (initialization.init_mimetypes:*)
(*                      `[pygopherd] encoding` replaces encodings_map, `mimetypes` files are    *)
(*                      read): suffix_map loop on the lower-cased extension, encodings_map      *)
(*                      case-sensitive, then the lower-cased extension in the strict table,     *)
(*                      then (strict=False) in the common table                                 *)
(*   Entry              gopherentry.populatefromfs for a file: encoding found -> MIME type      *)
(*                      application/octet-stream + encoding + encodedmimetype; nothing found -> *)
(*                      `[GopherEntry] defaultmimetype`; then guesstype()                        *)
(*   ItemType           gopherentry.guesstype: the FIRST `[GopherEntry] mapping` rule whose     *)
(*                      regexp re.match()es the MIME type (anchored at the start only), "0" if  *)
(*                      none.  Regexps are imported as syntax trees (Python's own re parser run *)
(*                      by the harness on the configured strings); Ends/Match/Search below are  *)
(*                      the matcher                                                             *)
(*   Claims / PickFrom  handlers/HandlerMultiplexer: first handler of the configured list that  *)
(*                      claims a regular file: html.HTMLFileTitleHandler (strict table says     *)
(*                      text/html - the ENCODING IS NOT LOOKED AT), file.CompressedFileHandler  *)
(*                      (encoding has a decompressor, encoded type known, decompresspatt        *)
(*                      re.search()es the selector), file.FileHandler                           *)
(*   OwnEntry           the entry the chosen handler builds (what `!`, Content-Type, Gemini     *)
(*                      META announce): CompressedFileHandler.getentry swaps in the real type   *)
(*                      and re-runs guesstype; HTMLFileTitleHandler.getentry sets the name      *)
(*   TitleOf            handlers/html.py: HTMLTitleParser fed line by line until a complete     *)
(*                      title, re.sub(r"[\s]+", " ") - over token classes (TokOut/TokWs)        *)
(*   ExtStrip / RowName fileext.extstrip + UMN.prep_entriesappend: modes none/nonencoded/full   *)
(*                                                                                              *)
(* PROPERTIES (named clauses; judged on the real server by spec/trace/TraceXTYPE.tla, stated    *)
(* over the model by the invariants of spec/MC_XTYPE.tla).  Source of each promise:             *)
(*  FirstMatchWins   conf [GopherEntry] mapping: "Mapping from MIME types to gopher0 types ...  *)
(*                   a regexp to match and the second is the result": the item type shown for a *)
(*                   FILE is the result of the FIRST rule that matches the MIME type announced   *)
(*                   for it in the same answer; order matters                                   *)
(*  ShippedYields    what the shipped list yields: text/html h, other text/* 0, application/    *)
(*                   mac-binhex40 4, audio/* s, image/gif g, other image/* I, application/      *)
(*                   gopher-menu and gopher+-menu 1, multipart/mixed M, other application/* 9,  *)
(*                   everything else 0 (conf: ".* at the end to map all unknown types")         *)
(*  ViewsConsistent  the parent's listing (Gopher0 and Gopher+ `$`), the item's own Gopher+ `!` *)
(*                   block, the HTTP Content-Type and the Gemini META agree on type / MIME type *)
(*  TableTyped       populatefromfs docstring + conf `mimetypes` / `encoding` comments: the     *)
(*                   MIME type comes from the configured tables for the name's extension; "If   *)
(*                   both a mimetype and an encoding is found, self.mimetype will be            *)
(*                   application/octet-stream"; nothing found -> defaultmimetype                *)
(*  AnnouncedIsDelivered  doc/pygopherd.sgml file.CompressedFileHandler + conf decompressors /  *)
(*                   decompresspatt: a file is decompressed iff its encoding has a decompressor *)
(*                   and the pattern matches its name (and the handler is in the list); then    *)
(*                   the announced type is the type of the decompressed data; otherwise the     *)
(*                   stored bytes are sent and announced as octet-stream                        *)
(*  HtmlOnlyNames    doc html.HTMLFileTitleHandler: "will set the description of HTML files to  *)
(*                   the HTML title ... Other than that, it has no effect": type, MIME type and *)
(*                   delivery are those of the list without it                                  *)
(*  StripOnlyName    conf [handlers.UMN.UMNDirHandler] extstrip: changes the menu NAME only     *)
(*                   (selector untouched), only of files, only by removing a trailing           *)
(*                   extension; none: nothing; nonencoded: not for files with an encoding that  *)
(*                   is not handled; DocExamples: Welcome.txt / pygopherd.tar.gz as tabulated   *)
(*  TitleShown       doc html.HTMLFileTitleHandler + features list ("titles of HTML documents   *)
(*                   for presentation in a directory") + extstrip comment ("and no name is      *)
(*                   given"): an HTML file with a complete <title> is listed under that title,  *)
(*                   white space runs collapsed to one blank (html.py comment)                  *)
(*  TitleClean       html.py comment "Removes newlines, tabs, etc.  Good for presentation and   *)
(*                   for security": a display name never contains TAB / CR / LF                 *)
(*  NoTitleKeepsName no complete title (none, unterminated, inside comment/script) -> the name  *)
(*                   is the file name (subject to extstrip)                                     *)
(*  HistoryFree      every answer is a function of name + configuration: asking again after     *)
(*                   other requests, in another order, gives the same answer                    *)
(* NAMED DEVIATIONS of the pinned code (switches of Decide; the property clauses use the        *)
(* repaired reading, the design level accepts either):                                          *)
(*  TitleLostToStrip      UMN.prep_entriesappend overwrites the title with the stripped FILE     *)
(*                        name whenever extstrip applies (shipped: nonencoded) -> TitleShown     *)
(*  HtmlStealsCompressed  HTMLFileTitleHandler claims x.html.gz (it ignores the encoding), so a  *)
(*                        list with it before CompressedFileHandler never decompresses such a    *)
(*                        file -> HtmlOnlyNames                                                  *)
(* As coded, not promised anywhere (design level only): extensions are stripped case-           *)
(* sensitively (UP.TXT keeps its name), only extensions of the STRICT table are stripped, a     *)
(* file whose inner type is unknown (x.gz) is never decompressed, an empty or stray </title>     *)
(* gives an EMPTY display name, text after </title> on the same line is scanned too, titles are  *)
(* not truncated, undecodable bytes become U+FFFD, language is never set.                       *)
EXTENDS Naturals, Sequences, FiniteSets, Text

CONSTANTS StrictType(_),      \* mimetypes.types_map (strict) as configured: extension -> type or "none"
          LooseType(_),       \* mimetypes.common_types
          EncOf(_, _),        \* (encoding table id, extension) -> encoding or "none"   (case-sensitive)
          EncKeys(_),         \* encoding table id -> the keys of encodings_map
          SufOf(_),           \* mimetypes.suffix_map: extension -> replacement or "none"
          Mapping(_),         \* mapping id -> << [re |-> tree, t |-> type] >>
          Patt(_),            \* decompresspatt id -> tree
          IgnoreRe,           \* [handlers.dir.DirHandler] ignorepatt (tree)
          Cfg(_)              \* configuration id -> [enc, map, strip, dirh, chain, decomp, patt, defmime]

None  == "none"
Octet == "application/octet-stream"

(* ---- characters ------------------------------------------------------------------------- *)
UpperAlpha == "ABCDEFGHIJKLMNOPQRSTUVWXYZ"
LowerAlpha == "abcdefghijklmnopqrstuvwxyz"
LowCh(ch) == LET i == Find(UpperAlpha, ch) IN IF i = 0 THEN ch ELSE Ch(LowerAlpha, i)
UpCh(ch)  == LET i == Find(LowerAlpha, ch) IN IF i = 0 THEN ch ELSE Ch(UpperAlpha, i)
RECURSIVE Lower(_)
Lower(s) == IF Len(s) = 0 THEN "" ELSE LowCh(Ch(s, 1)) \o Lower(Tail1(s))
RECURSIVE UpperS(_)
UpperS(s) == IF Len(s) = 0 THEN "" ELSE UpCh(Ch(s, 1)) \o UpperS(Tail1(s))
RFind(s, ch) == LET ps == {i \in 1..Len(s) : Ch(s, i) = ch}
                IN IF ps = {} THEN 0 ELSE CHOOSE i \in ps : \A j \in ps : j <= i
BaseName(p) == SubSeq(p, RFind(p, "/") + 1, Len(p))
DropSuffix(s, suf) == SubSeq(s, 1, Len(s) - Len(suf))
Range(f) == {f[i] : i \in DOMAIN f}

(* ---- regular expressions (syntax trees of Python's re parser) --------------------------- *)
\* node = [k, c, a, lo, hi]: lit (c = the character), any, set / nset (c = the characters), cat (a = parts),
\* alt (a = alternatives), rep (a = <<body>>, lo..hi greedy or not: only WHETHER it matches is used), bol, eol.
\* Ends(n, s, I) = the positions just after a match of n that starts at a position of I.
RECURSIVE Ends(_, _, _)
RECURSIVE CatEnds(_, _, _, _)
RECURSIVE RepEnds(_, _, _, _, _)
Ends(n, s, I) ==
    IF I = {} THEN {}
    ELSE CASE n.k = "lit"  -> {i + 1 : i \in {j \in I : j <= Len(s) /\ Ch(s, j) = n.c}}
           [] n.k = "any"  -> {i + 1 : i \in {j \in I : j <= Len(s) /\ Ch(s, j) # "\n"}}
           [] n.k = "set"  -> {i + 1 : i \in {j \in I : j <= Len(s) /\ Contains(n.c, Ch(s, j))}}
           [] n.k = "nset" -> {i + 1 : i \in {j \in I : j <= Len(s) /\ ~Contains(n.c, Ch(s, j))}}
           [] n.k = "cat"  -> CatEnds(n.a, 1, s, I)
           [] n.k = "alt"  -> UNION {Ends(n.a[j], s, I) : j \in 1..Len(n.a)}
           [] n.k = "rep"  -> RepEnds(n, s, I, 0, {})
           [] n.k = "bol"  -> {i \in I : i = 1}
           [] n.k = "eol"  -> {i \in I : i = Len(s) + 1}
           [] OTHER -> {}
CatEnds(a, j, s, I) == IF j > Len(a) THEN I ELSE CatEnds(a, j + 1, s, Ends(a[j], s, I))
\* I = positions reached after exactly k rounds; seen = positions already expanded (termination on empty bodies)
RepEnds(n, s, I, k, seen) ==
    LET here == IF k >= n.lo THEN I ELSE {}
        new  == I \ seen
    IN IF new = {} \/ k >= n.hi THEN here
       ELSE here \cup RepEnds(n, s, Ends(n.a[1], s, new), k + 1, IF k >= n.lo THEN seen \cup new ELSE seen)
Match(re, s)  == Ends(re, s, {1}) # {}                       \* re.match: anchored at the start only
Search(re, s) == Ends(re, s, 1..(Len(s) + 1)) # {}           \* re.search

(* ---- mimetypes.guess_type ----------------------------------------------------------------- *)
\* posixpath.splitext: the extension starts at the last dot of the last component, leading dots do not count
SplitExt(p) ==
    LET sep == RFind(p, "/")
        dot == RFind(p, ".")
    IN IF dot > sep /\ (\E q \in (sep + 1)..(dot - 1) : Ch(p, q) # ".")
       THEN <<SubSeq(p, 1, dot - 1), SubSeq(p, dot, Len(p))>>
       ELSE <<p, "">>
RECURSIVE SufLoop(_, _, _)
SufLoop(base, ext, fuel) ==                  \* while ext.lower() in suffix_map: splitext(base + suffix_map[..])
    IF fuel > 0 /\ SufOf(Lower(ext)) # None
    THEN LET s == SplitExt(base \o SufOf(Lower(ext))) IN SufLoop(s[1], s[2], fuel - 1)
    ELSE <<base, ext>>
Guess(p, loose, tab) ==
    LET s0  == SplitExt(p)
        s1  == SufLoop(s0[1], s0[2], 4)
        enc == EncOf(tab, s1[2])                                   \* case-sensitive
        s2  == IF enc # None THEN SplitExt(s1[1]) ELSE s1
        ext == Lower(s2[2])
        t   == IF StrictType(ext) # None THEN StrictType(ext)
               ELSE IF loose THEN LooseType(ext) ELSE None
    IN [type |-> t, enc |-> enc]

(* ---- gopherentry.guesstype ---------------------------------------------------------------- *)
RECURSIVE FirstFrom(_, _, _)
FirstFrom(m, j, mime) == IF j > Len(m) THEN 0 ELSE IF Match(m[j].re, mime) THEN j ELSE FirstFrom(m, j + 1, mime)
FirstIndex(mapid, mime) == FirstFrom(Mapping(mapid), 1, mime)
ItemType(mapid, mime) == LET j == FirstIndex(mapid, mime) IN IF j = 0 THEN "0" ELSE Mapping(mapid)[j].t
\* the same, said declaratively (MC_XTYPE checks the two against each other)
IsFirstMatch(mapid, mime, t) ==
    LET m == Mapping(mapid) IN
    \/ \E j \in 1..Len(m) : Match(m[j].re, mime) /\ m[j].t = t /\ \A i \in 1..(j - 1) : ~Match(m[i].re, mime)
    \/ t = "0" /\ \A i \in 1..Len(m) : ~Match(m[i].re, mime)
\* what the SHIPPED list yields, class by class (pinned here, not imported)
Major(mime) == LET i == Find(mime, "/") IN IF i = 0 THEN mime ELSE SubSeq(mime, 1, i - 1)
ShippedType(mime) ==
    IF StartsWith(mime, "text/html") THEN "h"
    ELSE IF Major(mime) = "text" /\ Len(mime) > 5 THEN "0"
    ELSE IF StartsWith(mime, "application/mac-binhex40") THEN "4"
    ELSE IF Major(mime) = "audio" /\ Len(mime) > 6 THEN "s"
    ELSE IF StartsWith(mime, "image/gif") THEN "g"
    ELSE IF Major(mime) = "image" /\ Len(mime) > 6 THEN "I"
    ELSE IF StartsWith(mime, "application/gopher-menu") \/ StartsWith(mime, "application/gopher+-menu") THEN "1"
    ELSE IF StartsWith(mime, "multipart/mixed") THEN "M"
    ELSE IF Major(mime) = "application" /\ Len(mime) > 12 THEN "9"
    ELSE "0"

(* ---- gopherentry.populatefromfs (regular file) ------------------------------------------ *)
Entry(sel, K) ==
    LET g    == Guess(sel, TRUE, K.enc)
        mime == IF g.enc # None THEN Octet ELSE IF g.type # None THEN g.type ELSE K.defmime
    IN [mime |-> mime, enc |-> g.enc, encmime |-> IF g.enc # None THEN g.type ELSE None,
        type |-> ItemType(K.map, mime)]
DirEntry == [mime |-> "application/gopher-menu", enc |-> None, encmime |-> None, type |-> "1"]

(* ---- the handler list ----------------------------------------------------------------------- *)
Decompressible(e, sel, K) == e.enc # None /\ e.enc \in K.decomp /\ e.encmime # None /\ Search(Patt(K.patt), sel)
Claims(h, sel, K) ==
    CASE h = "html" -> Guess(sel, FALSE, K.enc).type = "text/html"     \* mimetypes.guess_type(selector): strict, encoding ignored
      [] h = "comp" -> Decompressible(Entry(sel, K), sel, K)
      [] h = "file" -> TRUE
      [] OTHER -> FALSE
RECURSIVE PickFrom(_, _, _, _)
PickFrom(chain, j, sel, K) == IF j > Len(chain) THEN None
                              ELSE IF Claims(chain[j], sel, K) THEN chain[j] ELSE PickFrom(chain, j + 1, sel, K)
WithoutHtml(chain) == SelectSeq(chain, LAMBDA h : h # "html")
\* repaired reading of HtmlStealsCompressed: the title handler leaves encoded files to the handlers after it
ClaimsRepaired(h, sel, K) == Claims(h, sel, K) /\ (h = "html" => Guess(sel, FALSE, K.enc).enc = None)
RECURSIVE PickFromR(_, _, _, _)
PickFromR(chain, j, sel, K) == IF j > Len(chain) THEN None
                               ELSE IF ClaimsRepaired(chain[j], sel, K) THEN chain[j] ELSE PickFromR(chain, j + 1, sel, K)

(* ---- HTML titles (token classes) ------------------------------------------------------------ *)
\* A title body is a sequence of tokens.  TokSrc = what is written into the file, TokOut = what the token adds
\* to the title, both as percent-quoted ASCII (gamma unquotes, alpha quotes); TokWs = the token is white space
\* for Python's \s (collapses with its neighbours into ONE blank).  Tokens in PlainToks are the ones the
\* documentation speaks about (text, white space, the four markup entities); the others are as coded.
Toks == {"w1", "w2", "sp", "sp2", "tab", "lf", "crlf", "vt", "ff", "fs", "nbsp", "nel", "ls",
         "amp", "lt", "gt", "eacute", "entnbsp", "ampbare", "badent", "cr9", "cr10", "cr13", "cr65", "crx41",
         "cr0", "cr27", "cr128", "rawff", "rawutf", "rawc3", "tagb", "tagbr", "comment", "nul", "long"}
PlainToks == {"w1", "w2", "sp", "sp2", "tab", "lf", "crlf", "amp", "lt", "gt"}
TokSrc(t) ==
    CASE t = "w1" -> "Ab" [] t = "w2" -> "z9" [] t = "sp" -> " " [] t = "sp2" -> "  " [] t = "tab" -> "%09"
      [] t = "lf" -> "%0A" [] t = "crlf" -> "%0D%0A" [] t = "vt" -> "%0B" [] t = "ff" -> "%0C" [] t = "fs" -> "%1C"
      [] t = "nbsp" -> "%C2%A0" [] t = "nel" -> "%C2%85" [] t = "ls" -> "%E2%80%A8"
      [] t = "amp" -> "&amp;" [] t = "lt" -> "&lt;" [] t = "gt" -> "&gt;" [] t = "eacute" -> "&eacute;"
      [] t = "entnbsp" -> "&nbsp;" [] t = "ampbare" -> "&amp" [] t = "badent" -> "&zzz;"
      [] t = "cr9" -> "&#9;" [] t = "cr10" -> "&#10;" [] t = "cr13" -> "&#13;" [] t = "cr65" -> "&#65;"
      [] t = "crx41" -> "&#x41;" [] t = "cr0" -> "&#0;" [] t = "cr27" -> "&#27;" [] t = "cr128" -> "&#128;"
      [] t = "rawff" -> "%FF" [] t = "rawutf" -> "%C3%A9" [] t = "rawc3" -> "%C3"
      [] t = "tagb" -> "<b>" [] t = "tagbr" -> "<br>" [] t = "comment" -> "<!-- c -->" [] t = "nul" -> "%00"
      [] t = "long" -> "{x*5000}" [] t = "w3" -> "Zz"
TokWs(t) == t \in {"sp", "sp2", "tab", "lf", "crlf", "vt", "ff", "fs", "nbsp", "nel", "ls", "entnbsp", "cr9", "cr10", "cr13"}
TokOut(t) ==
    CASE t = "w1" -> "Ab" [] t = "w2" -> "z9" [] t = "amp" -> "&" [] t = "lt" -> "<" [] t = "gt" -> ">"
      [] t = "eacute" -> "%C3%A9" [] t = "ampbare" -> "&" [] t = "badent" -> "&zzz;" [] t = "cr65" -> "A" [] t = "crx41" -> "A"
      [] t = "cr0" -> "%EF%BF%BD" [] t = "cr27" -> "" [] t = "cr128" -> "%E2%82%AC"
      [] t = "rawff" -> "%EF%BF%BD" [] t = "rawutf" -> "%C3%A9" [] t = "rawc3" -> "%EF%BF%BD"
      [] t = "tagb" -> "" [] t = "tagbr" -> "" [] t = "comment" -> "" [] t = "nul" -> "%00" [] t = "long" -> "{x*5000}" [] t = "w3" -> "Zz"
      [] OTHER -> " "
RECURSIVE Collapse(_, _)
Collapse(body, inws) ==                       \* re.sub(r"[\s]+", " ", titlestr)
    IF Len(body) = 0 THEN ""
    ELSE IF TokWs(body[1]) THEN (IF inws THEN "" ELSE " ") \o Collapse(Tail(body), TRUE)
    ELSE TokOut(body[1]) \o Collapse(Tail(body), IF TokOut(body[1]) = "" THEN inws ELSE FALSE)
RECURSIVE SrcOf(_)
SrcOf(body) == IF Len(body) = 0 THEN "" ELSE TokSrc(body[1]) \o SrcOf(Tail(body))
\* how the title element sits in the file
Wraps == {"std", "upper", "attr", "late", "oneline", "none", "open", "noclose", "incomment", "inscript", "stray",
          "selfclosed", "two", "twolines", "bom"}
Prolog == "<html><head>%0A"
Epilog == "%0A</head><body><p>text</p></body></html>%0A"
WrapSrc(w, body) ==
    LET b == SrcOf(body) IN
    CASE w = "std"        -> Prolog \o "<title>" \o b \o "</title>" \o Epilog
      [] w = "upper"      -> Prolog \o "<TITLE>" \o b \o "</TITLE>" \o Epilog
      [] w = "attr"       -> Prolog \o "<title lang=\"en\" >" \o b \o "</title >" \o Epilog
      [] w = "late"       -> Prolog \o "{p*300}" \o "<title>" \o b \o "</title>" \o Epilog
      [] w = "oneline"    -> "<title>" \o b \o "</title>"
      [] w = "none"       -> Prolog \o b \o Epilog
      [] w = "open"       -> Prolog \o "<title>" \o b
      [] w = "noclose"    -> Prolog \o "<title>" \o b \o "</title"
      [] w = "incomment"  -> Prolog \o "<!-- <title>" \o b \o "</title> -->" \o Epilog
      [] w = "inscript"   -> Prolog \o "<script>var t='<title>" \o b \o "</title>';</script>" \o Epilog
      [] w = "stray"      -> Prolog \o b \o "</title>" \o Epilog
      [] w = "selfclosed" -> Prolog \o "<title/>" \o b \o Epilog
      [] w = "two"        -> Prolog \o "<title>" \o b \o "</title><title>Zz</title>" \o Epilog
      [] w = "twolines"   -> Prolog \o "<title>" \o b \o "</title>%0A<title>Zz</title>" \o Epilog
      [] w = "bom"        -> "%EF%BB%BF<title>" \o b \o "</title>" \o Epilog
NoTitle == [complete |-> FALSE, text |-> ""]
TitleOf(w, body) ==
    CASE w \in {"std", "upper", "attr", "late", "oneline", "twolines", "bom"} -> [complete |-> TRUE, text |-> Collapse(body, FALSE)]
      [] w = "two"  -> [complete |-> TRUE, text |-> Collapse(body \o <<"w3">>, FALSE)]   \* the rest of the line is scanned too
      [] w \in {"stray", "selfclosed"} -> [complete |-> TRUE, text |-> ""]               \* an end tag alone completes an EMPTY title
      [] w = "incomment" /\ "comment" \in Range(body) -> [complete |-> TRUE, text |-> ""] \* the inner --> ends the comment: stray end tag
      [] OTHER -> NoTitle
\* the promise speaks about these
TitleDocumented(w, body) == w \in {"std", "upper", "attr", "late", "oneline", "twolines", "bom"} /\ Len(body) > 0
                            /\ (\A i \in 1..Len(body) : body[i] \in PlainToks) /\ (\E i \in 1..Len(body) : ~TokWs(body[i]))
Unclean(name) == Contains(name, "%09") \/ Contains(name, "%0A") \/ Contains(name, "%0D")

(* ---- fileext.extstrip ----------------------------------------------------------------------- *)
\* typemap[T] lists, for every strict extension e of type T: e, e + every encoding key, and the suffix_map
\* shorthands of those; sorted so that the first entry the name ends with is the LONGEST one.  Said per name:
DotSuffixes(f) == {SubSeq(f, i, Len(f)) : i \in {j \in 1..Len(f) : Ch(f, j) = "."}}
InBase(p, T, tab) == \/ StrictType(p) = T
                     \/ \E enc \in EncKeys(tab) : EndsWith(p, enc) /\ Len(p) > Len(enc) /\ StrictType(DropSuffix(p, enc)) = T
IsCand(p, T, tab) == InBase(p, T, tab) \/ (SufOf(p) # None /\ InBase(SufOf(p), T, tab))
ExtStrip(f, T, tab) ==
    LET cs == {p \in DotSuffixes(f) : IsCand(p, T, tab)}
    IN IF T = None \/ cs = {} THEN f
       ELSE LET p == CHOOSE q \in cs : \A r \in cs : Len(r) <= Len(q) IN DropSuffix(f, p)
IsExtPrefix(name, f) == name = f \/ \E p \in DotSuffixes(f) : name = DropSuffix(f, p)

(* ---- the decision --------------------------------------------------------------------------- *)
\* c = [cfg, d, n, kind] (+ wrap, body for HTML content; files of the name family carry no title).
\* rep = [title, steal]: TRUE = the repaired reading of the named deviation.
SelOf(c) == c.d \o "/" \o c.n
TitleFor(c) == IF "wrap" \in DOMAIN c THEN TitleOf(c.wrap, c.body) ELSE NoTitle
DecideK(c, K, rep) ==
    LET sel  == SelOf(c)
        e    == Entry(sel, K)
        h    == IF rep.steal THEN PickFromR(K.chain, 1, sel, K) ELSE PickFrom(K.chain, 1, sel, K)
        ti   == IF c.kind = "file" /\ h = "html" THEN TitleFor(c) ELSE NoTitle
        own  == IF c.kind = "dir" THEN DirEntry
                ELSE IF h = "comp" THEN [mime |-> e.encmime, enc |-> None, encmime |-> None, type |-> ItemType(K.map, e.encmime)]
                ELSE e
        oname == IF ti.complete THEN ti.text ELSE c.n
        strips == c.kind = "file" /\ K.dirh = "UMN" /\ (K.strip = "full" \/ (K.strip = "nonencoded" /\ own.enc = None))
        stripped == ExtStrip(c.n, IF own.encmime # None THEN own.encmime ELSE own.mime, K.enc)
        rname == IF strips /\ ~(rep.title /\ ti.complete) THEN stripped ELSE oname
    IN [sel |-> sel, by |-> IF c.kind = "dir" THEN "dir" ELSE h,
        type |-> own.type, mime |-> own.mime, enc |-> own.enc,
        name |-> oname,                                            \* the item's own view (`!`)
        rowname |-> rname,                                         \* the parent's listing
        delivered |-> IF c.kind = "dir" THEN "menu" ELSE IF h = "comp" THEN "plain" ELSE "raw",
        title |-> ti]
\* does the parent's menu show the entry at all (dir.py ignorepatt, UMN.py: no dot-files) - C07's subject, used
\* here only to know whether a listing row is to be expected
Listed(c) == ~Search(IgnoreRe, SelOf(c)) /\ ~(Cfg(c.cfg).dirh = "UMN" /\ StartsWith(c.n, "."))
Decide(c, rep) == DecideK(c, Cfg(c.cfg), rep)
AsCoded  == [title |-> FALSE, steal |-> FALSE]
Repaired == [title |-> TRUE, steal |-> TRUE]
Coded(c) == Decide(c, AsCoded)
Doc(c)   == Decide(c, Repaired)
\* which named deviation separates the two readings for this case ("" = none)
Deviation(c) == LET a == Coded(c) b == Doc(c) IN
                IF a = b THEN "" ELSE IF a.by # b.by THEN "HtmlStealsCompressed" ELSE "TitleLostToStrip"

\* HtmlOnlyNames over the model: the list with and without the title handler decide alike but for the names
HtmlOnlyNamesOk(c) ==
    LET K == Cfg(c.cfg)
        a == DecideK(c, K, Repaired)
        b == DecideK(c, [K EXCEPT !.chain = WithoutHtml(K.chain)], Repaired)
    IN a.type = b.type /\ a.mime = b.mime /\ a.enc = b.enc /\ a.delivered = b.delivered /\ a.sel = b.sel

(* ---- the clauses, over a decision (MC_XTYPE: over Doc; TraceXTYPE: over what was observed) -- *)
\* the documented table of the extstrip comment: <<name, mode, gzip handled>> -> listed name
DocExample(n, strip, handled) ==
    CASE n = "Welcome.txt" -> IF strip = "none" THEN "Welcome.txt" ELSE "Welcome"
      [] n = "pygopherd.tar.gz" -> IF strip = "full" \/ (strip = "nonencoded" /\ handled) THEN "pygopherd" ELSE "pygopherd.tar.gz"
      [] OTHER -> n
DocExampleNames == {"Welcome.txt", "pygopherd.tar.gz"}
StripOk(c, r) ==
    LET K == Cfg(c.cfg) IN
    /\ r.sel = SelOf(c)
    /\ ~r.title.complete =>
         /\ IsExtPrefix(r.rowname, c.n)
         /\ (K.strip = "none" \/ K.dirh # "UMN" \/ c.kind = "dir") => r.rowname = c.n
         /\ (K.strip = "nonencoded" /\ r.enc # None) => r.rowname = c.n
         /\ (c.n \in DocExampleNames /\ c.kind = "file" /\ K.dirh = "UMN")
               => r.rowname = DocExample(c.n, K.strip, r.by = "comp")
DeliveredOk(c, r) ==
    LET K == Cfg(c.cfg) e == Entry(SelOf(c), K) IN
    c.kind = "file" =>
      /\ r.delivered = "plain" <=> ("comp" \in Range(K.chain) /\ Decompressible(e, SelOf(c), K)
                                     /\ PickFromR(WithoutHtml(K.chain), 1, SelOf(c), K) = "comp")
      /\ r.delivered = "plain" => r.mime = e.encmime
      /\ (r.delivered = "raw" /\ e.enc # None) => r.mime = Octet
      /\ (r.delivered = "raw" /\ e.enc = None) => r.mime = e.mime
=============================================================================
