------------------------------- MODULE MC_C11 -------------------------------
(* Bounded design model for C11 (and the cache part of C14): workers interleave freely at  *)
(* the granularity of environment calls, so a reader can observe a writer that has         *)
(* truncated the cache file but not finished; the environment may cut the file to any      *)
(* shorter prefix or zero-fill it at any moment (crash of a writer, full disk), mutate the *)
(* directory and advance the clock.  Every request must still finish with a listing that    *)
(* reflects the directory recently (never a partial or mixed listing).                     *)
EXTENDS Cache, TLC

CONSTANTS MaxClock, MaxHist, MaxLen

MInit11 == Init

MNext11 ==
    \/ \E w \in Workers, p \in {"G", "GP"} : Start(w, p)
    \/ \E w \in Workers : WorkerStep(w)
    \/ \E n \in 0..(Full - 1) : Cut(n)
    \/ Zero
    \/ \E n \in Names : Create(n) \/ Delete(n)
    \/ Tick(T) \/ Tick(1)

MSpec11 == MInit11 /\ [][MNext11]_cvars

NoH == cvars
Bound == clock <= MaxClock /\ Len(hist) <= MaxHist

PCs == {"idle", "probe", "load", "gen", "save_open", "save_write", "render", "done"}
Answers == \A w \in Workers : pc[w] \in PCs /\ (pc[w] = "done" => out[w].src \in {"cache", "gen"})

\* whatever was on disk: what is served was at some moment the complete directory
CurrentWhenDamaged == \A w \in Workers : Done(w) => \E i \in 1..Len(hist) : hist[i].d = out[w].d
\* vacuity witnesses (must be violated)
W_NoIncompleteLoadSeen == \A w \in Workers : ~(pc[w] = "load" /\ file.exists /\ ~Complete(file))
=============================================================================
