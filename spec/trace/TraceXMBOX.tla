----------------------------- MODULE TraceXMBOX -----------------------------
(* Trace specification for the growth check XMBOX (spec/Mailbox.tla).  One trace = one case  *)
(* of MC_XMBOX (init.fam, init.c exactly as TLC enumerated it, init.fe = the front end) run  *)
(* on the REAL server through World.request; the events are the lexed answers:              *)
(*   dir    the parent menu (Gopher)                         rows                           *)
(*   list   the folder requested through the front end       cls, rows [t, name, sel]        *)
(*   get    item k of the listing FOLLOWED (its own reference as lexed)   cls, lines         *)
(*   info   Gopher+ "!" on item k                            cls, rows (one)                *)
(*   self   Gopher+ "!" on the folder                        cls, rows (one)                *)
(*   num    a message selector built from a number name      cls, lines                     *)
(*   raw    (recog) the object itself, lexed both as menu and as text    rows, lines         *)
(*   msg1   (recog) <object>|/<FLAG>/1                        cls, lines                     *)
(* cls: "ok" | "err" (the front end's error reply) | "none" (nothing usable was sent).       *)
(* Every event carries the selector that was requested; one that is not what the model       *)
(* derives from the case / from the listing just seen is ClientMismatch (machinery).         *)
(* Property level (VIOLATION; names as in the header of Mailbox.tla): Recognition,           *)
(* ListingAnswered, OneEntryPerMessage, StoreOrder, SelectorsNumbered, NamedBySubject,       *)
(* RetrieveNth, ListingMatchesRetrieval, NoSuchMessage, FrontEndsAgree, FlavoursAgree,       *)
(* NumberingOrderIndependent, NoEscape.  They are stated over observations and the delivered *)
(* messages only: the order of a Maildir listing is any fixed permutation (candidates are    *)
(* narrowed event by event), names may be the RFC 2047 decoding, contents are compared up to *)
(* Canon - so they hold for the pinned code and for a repaired one alike.                   *)
(* Design level (DRIFT, never a violation): the served bytes are exactly Served(message),    *)
(* the Maildir order is the coded one (os.listdir of cur, then new, as handed out) or the     *)
(* sorted one, text/plain, names exactly NameOf, the recognition of the unusual From_ line    *)
(* shapes and of cur+new without tmp, message selectors on files that are not mailboxes.      *)
EXTENDS MailboxCases, MC_XMBOX_consts, TraceBase

VARIABLES tid, l, verdict, mem
tvars == <<tid, l, verdict, mem>>

Ev == Traces[tid].events
F  == Traces[tid].init.fam
C  == Traces[tid].init.c
FE == Traces[tid].init.fe

\* (the messages of the case are derived ONCE per trace, in the initial state: operators that depend on tid are
\* re-evaluated by TLC at every use)
Derived(t) ==
    LET f == Traces[t].init.fam
        cc == Traces[t].init.c
    IN IF f \in {"folder", "num"}
       THEN LET ms == MsgsOf(cc.fl, CaseStore(f, cc)) IN
            [canon |-> [a \in 1..Len(ms) |-> Canon(ms[a])], names |-> [a \in 1..Len(ms) |-> NameAlts(ms[a])],
             served |-> [a \in 1..Len(ms) |-> Served(ms[a])]]
       ELSE [canon |-> <<>>, names |-> <<>>, served |-> <<>>]
TInit == tid \in 1..NTraces /\ l = 1 /\ verdict = "ok"
         /\ mem = [rows |-> <<>>, cands |-> {}, keep |-> <<>>, dirt |-> "", d |-> Derived(tid)]

Drift(cond, what) == IF cond THEN TRUE ELSE RecordDrift(tid, l, what)
RowFor(rows, sel) == LET js == {j \in 1..Len(rows) : rows[j].sel = sel} IN IF js = {} THEN 0 ELSE CHOOSE j \in js : TRUE
SameRow(a, b) == a.name = b.name /\ a.sel = b.sel /\ (a.t = b.t \/ a.t = "" \/ b.t = "")
SameRows(ra, rb) == Len(ra) = Len(rb) /\ \A k \in 1..Len(ra) : SameRow(ra[k], rb[k])
PlainType(e) == e.ctype \in {"", "text/plain"}

(* ---- folder ---------------------------------------------------------------------------- *)
Fl    == IF F \in {"folder", "fronts", "num"} THEN C.fl ELSE "maildir"
FN    == Len(mem.d.canon)
Cands0 == IF Fl = "mbox" THEN {Idx(FN)} ELSE Perms(FN)
FitsOne(name, alts) == \E a \in alts : SameName(name, a)
NamesFit(rows, names, p) == \A k \in 1..Len(rows) : FitsOne(rows[k].name, names[p[k]])
DesignPerms == IF Fl = "mbox" THEN {Idx(FN)} ELSE DesignOrders(FN, C.place, C.ord)

DirJudge(e) ==
    LET j == RowFor(e.rows, FolderSel(Fl)) IN
    (IF ~(e.sel = Dir) THEN "ClientMismatch"
     ELSE IF ~(e.escaped = "") THEN "NoEscape"
     ELSE IF ~(j > 0 /\ e.rows[j].t = "1") THEN "Recognition"
     ELSE "ok")
FolderLen(n) == 2 + n + (IF FE = "D" THEN n + 1 ELSE 0)
ListJudge(e) ==
    LET rows == e.rows IN
    (IF ~(e.sel = FolderSel(Fl) /\ e.fe = FE) THEN "ClientMismatch"
     ELSE IF ~(e.escaped = "") THEN "NoEscape"
     ELSE IF ~(e.cls = "ok") THEN "ListingAnswered"
     ELSE IF ~(Len(rows) = FN) THEN "OneEntryPerMessage"
     ELSE IF ~(Len(Ev) = FolderLen(FN)) THEN "Incomplete"
     ELSE IF ~(\A k \in 1..FN : rows[k].sel = MsgSel(Fl, "|", NatStr(k)) /\ rows[k].t \in {"0", ""}) THEN "SelectorsNumbered"
     ELSE IF {p \in Cands0 : NamesFit(rows, mem.d.names, p)} = {}
          THEN (IF Fl = "mbox" /\ FN <= 4 /\ \E p \in Perms(FN) : NamesFit(rows, mem.d.names, p) THEN "StoreOrder" ELSE "NamedBySubject")
     ELSE "ok")
ListDrift(e) ==
    Drift(\E p \in DesignPerms : \A k \in 1..FN : e.rows[k].name \in mem.d.names[p[k]], "names / order differ from the coded (or sorted) listing")
GetJudge(e) ==
    LET k == e.k IN
    (IF ~(k \in 1..Len(mem.rows) /\ k = l - 2 /\ e.fe = FE) THEN "ClientMismatch"
     ELSE IF ~(e.sel = mem.rows[k].sel) THEN "ClientMismatch"
     ELSE IF ~(e.escaped = "") THEN "NoEscape"
     ELSE IF ~(e.cls = "ok") THEN "RetrieveNth"
     ELSE IF {p \in mem.cands : Canon(e.lines) = mem.d.canon[p[k]]} = {} THEN "RetrieveNth"
     ELSE IF ~NameFits(mem.rows[k].name, e.lines) THEN "ListingMatchesRetrieval"
     ELSE "ok")
GetDrift(e) ==
    /\ Drift(\E p \in DesignPerms \cap mem.cands : e.lines = mem.d.served[p[e.k]], "served bytes differ from Served(message)")
    /\ Drift(PlainType(e), "message not announced as text/plain")
InfoJudge(e) ==
    LET k == e.k IN
    (IF ~(FE = "D" /\ k \in 1..Len(mem.rows) /\ e.sel = mem.rows[k].sel) THEN "ClientMismatch"
     ELSE IF ~(e.escaped = "") THEN "NoEscape"
     ELSE IF ~(e.cls = "ok" /\ Len(e.rows) = 1) THEN "ListingMatchesRetrieval"
     ELSE IF ~(SameRow(e.rows[1], mem.rows[k]) /\ e.rows[1].t = "0") THEN "ListingMatchesRetrieval"
     ELSE "ok")
SelfJudge(e) ==
    (IF ~(FE = "D" /\ e.sel = FolderSel(Fl)) THEN "ClientMismatch"
     ELSE IF ~(e.escaped = "") THEN "NoEscape"
     ELSE IF ~(e.cls = "ok" /\ Len(e.rows) = 1) THEN "Recognition"
     ELSE IF ~(e.rows[1].t = "1" /\ e.rows[1].sel = FolderSel(Fl)) THEN "Recognition"
     ELSE "ok")

(* ---- fronts ---------------------------------------------------------------------------- *)
FrontsJudge(e) ==
    (IF ~(e.sel = FolderSel(Fl) /\ e.fe \in Fes /\ Len(Ev) = Cardinality(Fes)) THEN "ClientMismatch"
     ELSE IF ~({Ev[j].fe : j \in 1..Len(Ev)} = Fes) THEN "Incomplete"
     ELSE IF ~(e.escaped = "") THEN "NoEscape"
     ELSE IF ~(e.cls = "ok") THEN "ListingAnswered"
     ELSE IF l > 1 /\ ~SameRows(e.rows, mem.rows) THEN "FrontEndsAgree"
     ELSE "ok")

(* ---- order / flav: two phases, each = one listing and the items it showed, followed ------ *)
\* phase 2 starts after the items of the first listing (mem.rows, set at event 1)
N1 == Len(mem.rows)
Second == l > 1 + N1
PhaseK == IF Second THEN l - (1 + N1) - 1 ELSE l - 1          \* 0 = the list event of the phase
Numbered(rows, fl) == \A k \in 1..Len(rows) : rows[k].sel = MsgSel(fl, "|", NatStr(k)) /\ rows[k].t = "0"
PhaseShape(e) ==            \* the trace has the events its listings call for
    IF PhaseK > 0 THEN TRUE
    ELSE IF ~Second THEN Len(Ev) >= 2 + Len(e.rows) ELSE Len(Ev) = l + Len(e.rows)
ON == Len(C.store)
OrderJudge(e) ==
    LET k == PhaseK IN
    (IF ~(e.ord = (IF Second THEN C.b ELSE C.a) /\ e.ev = (IF k = 0 THEN "list" ELSE "get")) THEN "ClientMismatch"
     ELSE IF ~(e.escaped = "") THEN "NoEscape"
     ELSE IF k = 0 /\ ~(e.sel = FolderSel("maildir")) THEN "ClientMismatch"
     ELSE IF k = 0 /\ ~(e.cls = "ok") THEN "ListingAnswered"
     ELSE IF k = 0 /\ ~(Len(e.rows) = ON) THEN "OneEntryPerMessage"
     ELSE IF k = 0 /\ ~Numbered(e.rows, "maildir") THEN "SelectorsNumbered"
     ELSE IF ~PhaseShape(e) THEN "Incomplete"
     ELSE IF k = 0 /\ Second /\ ~(e.rows = mem.rows) THEN "NumberingOrderIndependent"
     ELSE IF k > 0 /\ ~(e.k = k /\ e.sel = mem.rows[k].sel) THEN "ClientMismatch"
     ELSE IF k > 0 /\ ~(e.cls = "ok") THEN "RetrieveNth"
     ELSE IF k > 0 /\ Second /\ ~(e.lines = mem.keep[k]) THEN "NumberingOrderIndependent"
     ELSE "ok")

VN == Len(C.store)
FlavJudge(e) ==
    LET k == PhaseK
        fl == IF Second THEN "maildir" ELSE "mbox"
    IN (IF ~(e.fl = fl /\ e.ev = (IF k = 0 THEN "list" ELSE "get")) THEN "ClientMismatch"
        ELSE IF ~(e.escaped = "") THEN "NoEscape"
        ELSE IF k = 0 /\ ~(e.sel = FolderSel(fl)) THEN "ClientMismatch"
        ELSE IF k = 0 /\ ~(e.cls = "ok") THEN "ListingAnswered"
        ELSE IF k = 0 /\ ~(Len(e.rows) = VN) THEN "OneEntryPerMessage"
        ELSE IF k = 0 /\ ~Numbered(e.rows, fl) THEN "SelectorsNumbered"
        ELSE IF ~PhaseShape(e) THEN "Incomplete"
        ELSE IF k = 0 /\ Second /\ {p \in Perms(VN) : \A j \in 1..VN : e.rows[j].name = mem.rows[p[j]].name} = {} THEN "FlavoursAgree"
        ELSE IF k > 0 /\ ~(e.k = k /\ e.sel = MsgSel(fl, "|", NatStr(k))) THEN "ClientMismatch"
        ELSE IF k > 0 /\ ~(e.cls = "ok") THEN "RetrieveNth"
        ELSE IF k > 0 /\ Second /\ {p \in mem.cands : Canon(e.lines) = Canon(mem.keep[p[k]])} = {} THEN "FlavoursAgree"
        ELSE "ok")

(* ---- num ------------------------------------------------------------------------------- *)
NumJudge(e) ==
    LET o == IF C.cross THEN 0 ELSE NumOutcome(NumText(C.num, C.n), C.n) IN
    (IF ~(Len(Ev) = 1 /\ e.fe = FE /\ e.sel = NumSel(C) /\ (C.num = "d5000" => e.digits = 5000)) THEN "ClientMismatch"
     ELSE IF ~(e.escaped = "") THEN "NoEscape"
     ELSE IF o = 0 /\ ~(e.cls = "err") THEN "NoSuchMessage"
     ELSE IF o > 0 /\ C.num = "lead0" /\ e.cls = "err" THEN "ok"
     ELSE IF o > 0 /\ ~(e.cls = "ok" /\ Canon(e.lines) = mem.d.canon[o]) THEN "RetrieveNth"
     ELSE "ok")
NumDrift(e) ==
    LET o == IF C.cross THEN 0 ELSE NumOutcome(NumText(C.num, C.n), C.n) IN
    Drift(o > 0 => (e.cls = "ok" /\ e.lines = mem.d.served[o]), "message selector answer differs from Served(message)")

(* ---- recog ----------------------------------------------------------------------------- *)
RSel == IF C.kind = "file" THEN FolderSel("mbox") ELSE FolderSel("maildir")
RLines == RecogFileLines(C.shape)
MailboxReply(e, fl, msgs) == mem.dirt = "1" /\ e.cls = "ok" /\ SameRows(e.rows, Rows(fl, msgs))
FileReply(e) == mem.dirt # "1" /\ mem.dirt # "" /\ e.cls = "ok" /\ e.lines = RLines
DirMsg == <<LfLines(SubSeq(OneMessage, 1, 5))>>
DirReply(e) == e.cls = "ok" /\ \A j \in 1..Len(e.rows) : StartsWith(e.rows[j].sel, RSel \o "/") /\ ~Contains(e.rows[j].sel, "|")
RecogDirJudge(e) ==
    LET j == RowFor(e.rows, RSel) IN
    (IF ~(e.sel = Dir /\ Len(Ev) = 3) THEN "ClientMismatch"
     ELSE IF ~(e.escaped = "") THEN "NoEscape"
     ELSE IF ~(j > 0) THEN "Recognition"
     ELSE "ok")
RawJudge(e) ==
    (IF ~(e.sel = RSel) THEN "ClientMismatch"
     ELSE IF ~(e.escaped = "") THEN "NoEscape"
     ELSE IF C.kind = "file" /\ IsMboxFile(RLines) /\ mem.dirt = "1" /\ ~(e.cls = "ok") THEN "ListingAnswered"
     ELSE IF C.kind = "file" /\ C.shape = "std" /\ ~MailboxReply(e, "mbox", ReadMbox(RLines)) THEN "Recognition"
     ELSE IF C.kind = "file" /\ C.shape \in {"empty", "prose"} /\ ~FileReply(e) THEN "Recognition"
     ELSE IF C.kind = "dir" /\ C.shape = "full" /\ ~MailboxReply(e, "maildir", DirMsg) THEN "Recognition"
     ELSE IF C.kind = "dir" /\ C.shape \in {"curonly", "newonly", "newfile", "plain"} /\ ~(mem.dirt = "1" /\ DirReply(e) /\ Len(e.rows) >= 1) THEN "Recognition"
     ELSE "ok")
RawDrift(e) ==
    IF C.kind = "file"
    THEN Drift(IF IsMboxFile(RLines) THEN MailboxReply(e, "mbox", ReadMbox(RLines)) ELSE FileReply(e), "recognition differs from the UnixMailbox pattern")
    ELSE Drift(IF IsMaildirDir(SubdirSet(C.shape)) THEN MailboxReply(e, "maildir", DirMsg) ELSE DirReply(e), "recognition differs from cur+new")
Msg1Judge(e) ==
    (IF ~(e.sel = RSel \o "|" \o Flag(IF C.kind = "file" THEN "mbox" ELSE "maildir") \o "1") THEN "ClientMismatch"
     ELSE IF ~(e.escaped = "") THEN "NoEscape"
     ELSE IF ~(e.cls \in {"ok", "err"}) THEN "NoSuchMessage"
     ELSE "ok")
Msg1Drift(e) ==
    IF C.kind = "file"
    THEN LET ms == ReadMbox(RLines) IN
         Drift(IF Len(ms) >= 1 THEN e.cls = "ok" /\ e.lines = Served(ms[1]) ELSE e.cls = "err", "message selector on this file differs from ReadMbox")
    ELSE TRUE

(* ---- the run --------------------------------------------------------------------------- *)
Expected(e) ==
    CASE F = "folder" -> (IF l = 1 THEN e.ev = "dir" ELSE IF l = 2 THEN e.ev = "list"
                          ELSE IF l <= 2 + Len(mem.rows) THEN e.ev = "get"
                          ELSE IF l <= 2 + 2 * Len(mem.rows) THEN e.ev = "info" /\ e.k = l - 2 - Len(mem.rows)
                          ELSE e.ev = "self")
      [] F = "fronts" -> e.ev = "list"
      [] F = "order"  -> e.ev \in {"list", "get"}
      [] F = "flav"   -> e.ev \in {"list", "get"}
      [] F = "num"    -> e.ev = "num"
      [] F = "recog"  -> e.ev = (IF l = 1 THEN "dir" ELSE IF l = 2 THEN "raw" ELSE "msg1")
JudgeEv(e) ==
    CASE F = "folder" -> (CASE e.ev = "dir" -> (IF Len(Ev) >= 2 THEN DirJudge(e) ELSE "Incomplete") [] e.ev = "list" -> ListJudge(e)
                            [] e.ev = "get" -> GetJudge(e) [] e.ev = "info" -> InfoJudge(e) [] e.ev = "self" -> SelfJudge(e))
      [] F = "fronts" -> FrontsJudge(e)
      [] F = "order"  -> OrderJudge(e)
      [] F = "flav"   -> FlavJudge(e)
      [] F = "num"    -> NumJudge(e)
      [] F = "recog"  -> (CASE e.ev = "dir" -> RecogDirJudge(e) [] e.ev = "raw" -> RawJudge(e) [] e.ev = "msg1" -> Msg1Judge(e))
DriftEv(e) ==
    CASE F = "folder" /\ e.ev = "list" -> ListDrift(e)
      [] F = "folder" /\ e.ev = "get" -> GetDrift(e)
      [] F = "num" -> NumDrift(e)
      [] F = "recog" /\ e.ev = "raw" -> RawDrift(e)
      [] F = "recog" /\ e.ev = "msg1" -> Msg1Drift(e)
      [] OTHER -> TRUE
\* what later events need from this one
Remember(e) ==
    CASE F = "folder" /\ e.ev = "list" -> [mem EXCEPT !.rows = e.rows, !.cands = {p \in Cands0 : NamesFit(e.rows, mem.d.names, p)}]
      [] F = "folder" /\ e.ev = "get" -> [mem EXCEPT !.cands = {p \in mem.cands : Canon(e.lines) = mem.d.canon[p[e.k]]}]
      [] F = "fronts" /\ l = 1 -> [mem EXCEPT !.rows = e.rows]
      [] F = "order" /\ e.ev = "list" /\ l = 1 -> [mem EXCEPT !.rows = e.rows]
      [] F = "order" /\ e.ev = "get" /\ ~Second -> [mem EXCEPT !.keep = Append(mem.keep, e.lines)]
      [] F = "flav" /\ e.ev = "list" /\ l = 1 -> [mem EXCEPT !.rows = e.rows]
      [] F = "flav" /\ e.ev = "get" /\ ~Second -> [mem EXCEPT !.keep = Append(mem.keep, e.lines)]
      [] F = "flav" /\ e.ev = "list" /\ l > 1 -> [mem EXCEPT !.cands = {p \in Perms(VN) : \A j \in 1..VN : e.rows[j].name = mem.rows[p[j]].name}]
      [] F = "flav" /\ e.ev = "get" /\ Second -> [mem EXCEPT !.cands = {p \in mem.cands : Canon(e.lines) = Canon(mem.keep[p[e.k]])}]
      [] F = "recog" /\ e.ev = "dir" -> [mem EXCEPT !.dirt = (LET j == RowFor(e.rows, RSel) IN IF j = 0 THEN "" ELSE e.rows[j].t)]
      [] OTHER -> mem
Consume ==
    /\ l <= Len(Ev) /\ verdict = "ok"
    /\ l' = l + 1 /\ UNCHANGED tid
    /\ LET e == Ev[l] IN
       IF ~Expected(e) THEN verdict' = "unmatched" /\ UNCHANGED mem
       ELSE /\ verdict' = JudgeEv(e)
            /\ (IF verdict' = "ok" THEN mem' = Remember(e) /\ DriftEv(e) ELSE UNCHANGED mem)

TSpec == TInit /\ [][Consume]_tvars
Record == RecordVerdict(tid, l, verdict, Len(Ev))
Post == WriteVerdicts
=============================================================================
