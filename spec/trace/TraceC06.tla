------------------------------ MODULE TraceC06 ------------------------------
(* Trace specification for C06.  One trace = one materialised site (content tree + .Links   *)
(* entries + abstracts + search item) under one configuration (abstract_headers,            *)
(* abstract_entries, advertised port, handler list), observed through every protocol view:  *)
(*   view    directory `sel` (with/without a trailing slash; HTTP-family views also with a  *)
(*           browser's header block, hdr) fetched through p: req,                           *)
(*           response class cls, object kind obj, MIME type mime, lexed entries             *)
(*   object  the same for a non-directory selector                                          *)
(*   search  the user of p types s into the search item t of listing `base`: requests       *)
(*           (req + chain for Gemini's prompt -> query -> redirect), and got = the string   *)
(*           the handler received (echoed by a PYG handler)                                 *)
(* The first observation of a selector is the reference; every later one (another protocol, *)
(* another slash variant) is compared with it - pairwise equality over all protocols.       *)
(* Property level (VIOLATION):                                                              *)
(*   SameObject   same response class, same object kind, same MIME type (where the protocol *)
(*                carries one), with or without the trailing slash                          *)
(*   SameLinks    same link entries in the same order: kind (link/search), display name,    *)
(*                canonical target (Views!Canon); the clause name carries the first         *)
(*                differing row (SameLinks@<name>)                                          *)
(*   SameInfo     unless abstract_entries = unsupported: identical sequences incl. info     *)
(*   SameSearch   got = s (SameSearch_PlusFlagAmbiguity / SameSearch_CapturedBy_<Class> when *)
(*                the model predicts exactly the observed deviation)                        *)
(*   ClientMismatch  a request is not Links!Follow of the model's target (machinery)        *)
(* Design level (DRIFT): rows that stem from the site's .Links entries are rendered as      *)
(* Target(p, entry); the search string that arrives is SearchReaches(p, ..).                *)
EXTENDS Views, LinksConst, TraceBase

VARIABLES tid, l, verdict, refs
tvars == <<tid, l, verdict, refs>>

Ev   == Traces[tid].events
Cfg  == Traces[tid].init.cfg
Ents == Traces[tid].init.ents          \* the site's link-file entries: [name, type, sel, host, port]

TInit == tid \in 1..NTraces /\ l = 1 /\ verdict = "ok" /\ refs = <<>>

HasRef(sel) == \E i \in 1..Len(refs) : refs[i].sel = sel
Obs(e) == [cls |-> e.cls, obj |-> e.obj, mime |-> MimeCanon(e.p, e.obj, e.mime)]
RefIdx(sel) == CHOOSE i \in 1..Len(refs) : refs[i].sel = sel
Ref(sel) == refs[RefIdx(sel)]
\* the first observation that carries a MIME type supplies the reference MIME type (plain Gopher carries none)
Learn(e) == IF Ref(e.sel).obs.mime = "" /\ ObjAgree(Ref(e.sel).obs, Obs(e))
            THEN [refs EXCEPT ![RefIdx(e.sel)].obs.mime = Obs(e).mime] ELSE refs

\* how a client of p asks for selector sel (a link to it, as p renders links), resp. for the root menu
ReqOk(e) ==
    (e.hdr => e.p \in {"H", "HS", "W"}) /\ e.nbytes = ReqBytes(e.req) /\     \* gamma wrote the bytes the length classes say
    IF e.sel = "/" /\ ~e.slash THEN e.req = WithHeaders(Follow(e.p, RootTarget(e.p), "", ""), e.hdr)
    ELSE e.req = WithHeaders(Follow(e.p, Target(e.p, [type |-> "1", name |-> "x", sel |-> e.sel \o (IF e.slash THEN "/" ELSE ""),
                                                      host |-> "", port |-> 0]), RootRef(e.p), ""), e.hdr)

EntNamed(n) == {i \in 1..Len(Ents) : Ents[i].name = n}
EntOf(n) == LET x == Ents[CHOOSE i \in EntNamed(n) : TRUE] IN
            [type |-> x.type, name |-> x.name, sel |-> x.sel, host |-> x.host, port |-> x.port]

\* name of the SameLinks clause: first differing row, explained by the model if it can
LinksClause(p, v1, v2) ==
    LET a == LinksOf(v1) b == LinksOf(v2)
        n == IF Len(a) < Len(b) THEN Len(a) ELSE Len(b)
        d == {i \in 1..n : a[i] # b[i]}
    IN IF d = {} THEN "SameLinks@" \o (IF Len(a) > n THEN a[n + 1].name ELSE b[n + 1].name)
       ELSE LET i == CHOOSE x \in d : \A y \in d : x <= y
                nm == b[i].name
            IN "SameLinks@" \o nm

RowsAsModel(e) ==
    \A i \in 1..Len(e.entries) :
        LET x == e.entries[i] IN
        (x.t.mark # "info" /\ EntNamed(x.name) # {}) => Canon(e.p, x.t) = CanonOfEntry(e.p, EntOf(x.name))

Compare(e, isview) ==
    IF ~ReqOk(e) THEN "ClientMismatch"
    ELSE IF ~HasRef(e.sel) THEN "ok"
    ELSE LET r == Ref(e.sel) IN
         IF ~ObjAgree(r.obs, Obs(e)) THEN "SameObject"
         ELSE IF isview /\ e.cls = "ok" /\ e.obj = "menu"
              THEN LET v == ViewOf(e.p, e.entries) IN
                   IF ~SameLinks(r.view, v) THEN LinksClause(e.p, r.view, v)
                   ELSE IF ~SameInfo(r.view, v, Cfg.ae) THEN "SameInfo"
                   ELSE "ok"
              ELSE "ok"

DoView(e) ==
    /\ verdict' = Compare(e, TRUE)
    /\ refs' = IF HasRef(e.sel) THEN Learn(e)
               ELSE Append(refs, [sel |-> e.sel, obs |-> Obs(e),
                                  view |-> IF e.cls = "ok" /\ e.obj = "menu" THEN ViewOf(e.p, e.entries) ELSE <<>>])
    /\ (IF RowsAsModel(e) THEN TRUE ELSE RecordDrift(tid, l, "a link-file row is not Target(p, entry)"))

DoObject(e) ==
    /\ verdict' = Compare(e, FALSE)
    /\ refs' = IF HasRef(e.sel) THEN Learn(e) ELSE Append(refs, [sel |-> e.sel, obs |-> Obs(e), view |-> <<>>])

SearchClientOk(e) ==
    IF e.p = "M"
    THEN /\ e.req = Follow("M", e.t, e.base, "") /\ e.nbytes = ReqBytes(e.req)
         /\ Len(e.chain) >= 1 => e.chain[1].line = Follow("M", e.t, e.base, e.s).line
         /\ Len(e.chain) >= 2 => e.chain[2].line = "gemini://" \o ServerName
                                   \o RefPath(RefPath(e.base, e.t.href), e.chain[1].loc) \o cCRLF       \* the redirect the server actually sent
         /\ Len(e.chain) <= 2
    ELSE e.req = Follow(e.p, e.t, e.base, e.s) /\ Len(e.chain) = 0 /\ e.nbytes = ReqBytes(e.req)

Reaches(e) == LET x == SearchReaches(e.p, e.t, e.base, e.s) IN IF x = "" THEN "(not delivered)" ELSE x

DoSearch(e) ==
    /\ UNCHANGED refs
    /\ verdict' = IF ~SearchInScope(e.s) THEN "unmatched"
                  ELSE IF ~SearchClientOk(e) THEN "ClientMismatch"
                  ELSE IF e.got = e.s THEN "ok"
                  ELSE IF e.got = Reaches(e) /\ PlusFlagAmbiguity(e.p, e.s) THEN "SameSearch_PlusFlagAmbiguity"
                  ELSE IF e.got = Reaches(e) /\ SearchCapturedBy(e.p, e.t, e.base, e.s) # "none"
                       THEN "SameSearch_CapturedBy_" \o SearchCapturedBy(e.p, e.t, e.base, e.s)
                  ELSE "SameSearch"
    /\ (IF e.got = Reaches(e) /\ (Len(e.chain) >= 1 => e.chain[1].loc = Parse(Rq(e.chain[1].line, "", TRUE)).redirect)
        THEN TRUE ELSE RecordDrift(tid, l, "search string or redirect differs from the model (SearchReaches, Parse)"))

Consume ==
    /\ l <= Len(Ev) /\ verdict = "ok"
    /\ l' = l + 1 /\ UNCHANGED tid
    /\ LET e == Ev[l] IN
       CASE e.ev = "view"   -> DoView(e)
         [] e.ev = "object" -> DoObject(e)
         [] e.ev = "search" -> DoSearch(e)
         \* the search item that the plain Gopher root menu shows is not an item of view p's root listing at all
         [] e.ev = "nosearchitem" -> verdict' = "SameLinks" /\ UNCHANGED refs
         [] OTHER -> verdict' = "unmatched" /\ UNCHANGED refs

TSpec == TInit /\ [][Consume]_tvars
Record == RecordVerdict(tid, l, verdict, Len(Ev))
Post == WriteVerdicts
=============================================================================
