SPECIFICATION TSpec
CONSTANTS
  StaleNegativeMemo = FALSE
  GuardIsInstance = FALSE
  RawNames = {}
  LinkDirnameUntranscoded = FALSE
CONSTRAINT Record
POSTCONDITION Post
CHECK_DEADLOCK FALSE
