SPECIFICATION TSpec
CONSTANTS
  StaleNegativeMemo = FALSE
  GuardIsInstance = FALSE
CONSTRAINT Record
POSTCONDITION Post
CHECK_DEADLOCK FALSE
