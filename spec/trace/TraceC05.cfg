SPECIFICATION TSpec
CONSTANTS
  ProtoOrder <- K_ProtoOrder
  WapTop = "/wap"
  QueryPrefix = "/GEMINI-QUERY"
  ServerName = "localhost"
  ServerPort = 70
  HiCode = "FF"
  Fixes = {"wap", "gemini", "mapfile", "spartan"}
CONSTRAINT Record
POSTCONDITION Post
CHECK_DEADLOCK FALSE
