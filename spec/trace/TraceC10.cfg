SPECIFICATION TSpec
CONSTANTS
  Names = {"a", "b"}
  Workers = {1}
  Full = 2
  Lifetimes = {0}
CONSTRAINT Record
POSTCONDITION Post
CHECK_DEADLOCK FALSE
