------------------------------ MODULE TraceC18 ------------------------------
(* Trace specification for C18: the same traces as TraceC17 (real compile + real expand of   *)
(* a TLC-enumerated case, replayed against TALVM for drift) judged by the C18 clauses:        *)
(*   Escaped         the element skeleton (the sequence of start and end tags) the             *)
(*                   independent tokenizer finds in the output is the skeleton TALSem         *)
(*                   predicts: context data introduced no markup (unless the template asks    *)
(*                   for `structure` with a value that carries markup), and the character    *)
(*                   data reads back as exactly the data: it was escaped, whatever it looks   *)
(*                   like                                                                     *)
(*   AttrEscaped     the same with the attribute lists (names and values) of every start tag: *)
(*                   data did not break out of an attribute value                             *)
(*   PythonGated     allowPythonPath off => the side-effect canary of python: was not touched  *)
(*                   (kind "handler": the same through handlers/tal.py's allowpythonpath)     *)
(*   PassThrough     a TAL-free document expands to an equivalent token stream (elements,     *)
(*                   attributes, text, comments)                                              *)
(*   Idempotent      ... and expanding the result again changes nothing                        *)
(*                   (RawTextEscaped: the one class of documents - script/style content with  *)
(*                   < > & - where both fail in the way the design model predicts)             *)
(*   ContextRestored after the expansion Context.evaluate answers for every name the template *)
(*                   binds (and its repeat/<name>) what it answered before; the locals, local *)
(*                   stack, repeat stack, repeat map and built-ins are as before (as far as   *)
(*                   observable); globals grew only by explicit global defines and no other   *)
(*                   global changed                                                           *)
(* Expansions that raise are C17's business (Completes) and are not judged here.              *)
EXTENDS TraceC17

\* ---- token streams ---------------------------------------------------------------------------------------
RECURSIVE MergeText(_, _)
MergeText(toks, i) ==        \* adjacent text tokens are one text; empty texts vanish
    IF i > Len(toks) THEN <<>>
    ELSE LET r == MergeText(toks, i + 1)
             k == [t |-> toks[i].t, name |-> toks[i].name, atts |-> toks[i].atts, s |-> toks[i].s]
         IN IF k.t = "text" /\ k.s = "" THEN r
            ELSE IF k.t = "text" /\ Len(r) > 0 /\ r[1].t = "text" THEN <<[k EXCEPT !.s = @ \o r[1].s]>> \o Tail(r)
            ELSE <<k>> \o r
NormToks(toks) == MergeText(toks, 1)
NoRText(toks) == SelectSeq(toks, LAMBDA k : k.t # "rtext")

\* ---- Context snapshots: [l, g: <<[n, v]>>, nls, nrs, rm: <<names>>, builtins, repeat_is_rm] ----------------------
Names(nv) == {nv[i].n : i \in DOMAIN nv}
ValOf(nv, n) == nv[CHOOSE i \in DOMAIN nv : nv[i].n = n].v
GDefs == Sem!GlobalDefines(TI.tree, 1)
\* PUBLIC behaviour first: for every name the template binds, Context.evaluate answers after the expansion what it
\* answered before (the name itself and repeat/<name>/number) - unless a `global` define rebinds that name.
\* The internals (locals, stack depths, repeat map, built-ins) are compared as far as the harness could read them
\* (a missing internal is -1 / empty on both sides).
ProbesEqual(b, a) == /\ Len(a.probes) = Len(b.probes)
                     /\ \A i \in DOMAIN b.probes : b.probes[i].n \notin GDefs => a.probes[i] = b.probes[i]
Restored18(b, a) ==
    /\ ProbesEqual(b, a)
    /\ a.l = b.l /\ a.nls = b.nls /\ a.nrs = b.nrs /\ a.rm = b.rm /\ a.builtins = b.builtins
    /\ Names(b.g) \subseteq Names(a.g) /\ Names(a.g) \subseteq Names(b.g) \cup GDefs
    /\ \A n \in Names(b.g) \ GDefs : ValOf(a.g, n) = ValOf(b.g, n)

TalFree == TI.fam = "doc"

Judge18(f) ==
    IF TI.kind = "handler"
    THEN (IF ~TI.py /\ (f.canary > 0 \/ TX!Find(f.doc, "PY") # 0) THEN "PythonGated" ELSE "ok")
    ELSE IF ~TI.compiled \/ f.raised # "" THEN "ok"
    ELSE IF ~Sem!AsksStructure(Ref.t) /\ (Sem!Skel(f.toks) # Sem!Skel(Ref.t) \/ Sem!AllText(f.toks) # Sem!AllText(Ref.t)) THEN "Escaped"
    ELSE IF ~Sem!AsksStructure(Ref.t) /\ Sem!AttrSkel(f.toks) # Sem!AttrSkel(Ref.t) THEN "AttrEscaped"
    ELSE IF ~TI.py /\ f.canary > 0 THEN "PythonGated"
    \* the recorded defect RawTextEscaped: the content of script/style elements is entity-escaped like ordinary text
    ELSE IF TalFree /\ NormToks(f.toks) # NormToks(Ref.t)
         THEN (IF Sem!HasRawMarkup(TI.tree, 1) /\ NoRText(NormToks(f.toks)) = NoRText(NormToks(Ref.t)) THEN "RawTextEscaped" ELSE "PassThrough")
    ELSE IF TalFree /\ f.doc2 # f.doc THEN (IF Sem!HasRawMarkup(TI.tree, 1) THEN "RawTextEscaped" ELSE "Idempotent")
    ELSE IF ~Restored18(TI.before, f.after) THEN "ContextRestored"
    ELSE "ok"

TNext18 == Load \/ Consume(Judge18)
TSpec18 == TInit /\ [][TNext18]_tvars
=============================================================================
