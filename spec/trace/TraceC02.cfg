SPECIFICATION TSpec
CONSTANTS
  WapTop <- C_WapTop
  EmptyPlusFieldRaises <- C_EmptyPlusFieldRaises
CONSTRAINT Record
POSTCONDITION Post
CHECK_DEADLOCK FALSE
