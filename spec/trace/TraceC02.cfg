SPECIFICATION TSpec
CONSTANTS
  WapTop <- C_WapTop
  EmptyPlusFieldRaises <- C_EmptyPlusFieldRaises
  GluedAcceptUnrecognised <- C_GluedAcceptUnrecognised
CONSTRAINT Record
POSTCONDITION Post
CHECK_DEADLOCK FALSE
