------------------------------ MODULE TraceC01 ------------------------------
(* Trace specification for C01.  One trace = one case (handler list, frame, raw selector)   *)
(* that TLC enumerated in MC_C01, sent through the REAL server once per "run": a run is a    *)
(* (world, working directory) pair; the worlds have identical document roots and differ in  *)
(* everything outside.  Each run event carries what the harness observed:                   *)
(*   outside  list of <<op, path>> audit events (open / list / run / modify) whose real     *)
(*            path is neither inside the root nor part of the interpreter/repository         *)
(*   inside   number of such events inside the root                                         *)
(*   resp     response class in the protocol's own syntax (notfound, ok, error, noreply ...) *)
(*   digest   digest of the response bytes                                                  *)
(*   h, lsel  handler class and selector as printed by the server log (design level only)   *)
(* Property level (a failing clause is a VIOLATION):                                        *)
(*   NoOutsideAccess   nothing outside the root is opened, listed, run or modified          *)
(*   UrlNoFile         a URL-shaped selector opens no file at all                           *)
(*   ClimbIsNotFound   a hostile selector (the property's own list, evaluated on the        *)
(*                     selector decoded as Handlers!DecodeSelector says) is answered as     *)
(*                     not-found                                                            *)
(*   NonInterference   every run of the case produced byte-identical responses              *)
(*   TwoWorlds         (at "end") at least two different worlds were compared               *)
(* Design level (DRIFT only): decoded selector, handler class and response class are those  *)
(* Handlers!Serve predicts; every path seen in an audit event (paths, root prefix removed)   *)
(* is Handlers!LiteralPath - the assumption NoTransformAfterFilter - and none is relative.   *)
EXTENDS TraceBase

H == INSTANCE Handlers

VARIABLES tid, l, verdict, info, first, worlds
tvars == <<tid, l, verdict, info, first, worlds>>

Ev == Traces[tid].events

\* Property level: the decoded selector and its classification are recomputed here from the case.
\* Design level: the predictions of Handlers!Serve for this case are those TLC computed in the
\* MC_C01 run that produced the case (init.pred, relayed verbatim by the harness); recomputing
\* them per trace made validation three times slower.
Info(t) ==
    LET i == Traces[t].init
        d == H!DecodeSelector(i.frame, i.raw)
    IN [d |-> d, url |-> H!UrlShaped(d), hostile |-> H!Hostile(d),
        ph |-> i.pred.h, presp |-> i.pred.resp, plsel |-> i.pred.lsel]

TInit == /\ tid \in 1..NTraces /\ l = 1 /\ verdict = "ok"
         /\ info = Info(tid) /\ first = "" /\ worlds = {}

Clause(i, e, f) ==
    IF Len(e.outside) # 0 THEN "NoOutsideAccess"
    ELSE IF i.url /\ e.inside # 0 THEN "UrlNoFile"
    ELSE IF i.hostile /\ ~i.url /\ e.resp # "notfound" THEN "ClimbIsNotFound"
    ELSE IF f # "" /\ e.digest # f THEN "NonInterference"
    ELSE "ok"

\* ("empty": zero bytes without any exception - a Gopher menu all of whose entries were left out)
RespMatches(p, r) == p = "any" \/ p = r \/ (p = "ioerror" /\ r \in {"notfound", "error"}) \/ (p = "ok" /\ r = "empty")
\* the model's "some other byte" matches any one character of the logged selector
SelMatches(p, s) == Len(p) = Len(s) /\ \A j \in 1..Len(p) : p[j] = s[j] \/ p[j] = H!Oth

Run ==
    /\ l <= Len(Ev) /\ verdict = "ok" /\ Ev[l].ev = "run"
    /\ l' = l + 1 /\ UNCHANGED <<tid, info>>
    /\ verdict' = Clause(info, Ev[l], first)
    /\ first' = (IF first = "" THEN Ev[l].digest ELSE first)
    /\ worlds' = worlds \cup {Ev[l].world}
    /\ (IF ~Ev[l].lselknown \/ SelMatches(info.plsel, Ev[l].lsel) THEN TRUE ELSE RecordDrift(tid, l, "decoded selector"))
    /\ (IF Ev[l].h = info.ph THEN TRUE ELSE RecordDrift(tid, l, "handler class"))
    /\ (IF RespMatches(info.presp, Ev[l].resp) THEN TRUE ELSE RecordDrift(tid, l, "response class"))
    \* NoTransformAfterFilter: every path the server handed to the OS is a literal piece of the decoded
    \* selector plus a trusted tail, and none was relative to the working directory
    /\ (IF \A i \in 1..Len(Ev[l].paths) : H!LiteralPath(info.d, Ev[l].paths[i]) THEN TRUE
        ELSE RecordDrift(tid, l, "LiteralPath: a path handed to the OS is not root + selector"))
    /\ (IF Ev[l].relpaths = 0 THEN TRUE ELSE RecordDrift(tid, l, "LiteralPath: a relative path, or one not under the root string, was handed to the OS"))

End ==
    /\ l <= Len(Ev) /\ verdict = "ok" /\ Ev[l].ev = "end"
    /\ l' = l + 1 /\ UNCHANGED <<tid, info, first, worlds>>
    /\ verdict' = (IF Cardinality(worlds) >= 2 THEN "ok" ELSE "TwoWorlds")

Other ==
    /\ l <= Len(Ev) /\ verdict = "ok" /\ Ev[l].ev \notin {"run", "end"}
    /\ l' = l + 1 /\ UNCHANGED <<tid, info, first, worlds>>
    /\ verdict' = "unmatched"

TNext == Run \/ End \/ Other
TSpec == TInit /\ [][TNext]_tvars

Record == RecordVerdict(tid, l, verdict, Len(Ev))
Post == WriteVerdicts
=============================================================================
