------------------------------ MODULE TraceC16 ------------------------------
(* Trace specification for C16.  One trace = one archive (member list, init.members) and     *)
(* one selector of the model; its events are the requests made for that selector per         *)
(* protocol and per index state (fresh: the request builds the index; cached: the saved      *)
(* index is opened).  Each request event carries what alpha observed for three targets:      *)
(*   z   /ZQ.zip/<sel>  through the full handler list (the archive)                          *)
(*   tf  /ZQ/<sel>      through the full handler list (the twin: the same tree on disk, links*)
(*                      that the reference cannot resolve among members left out)            *)
(*   tp  /ZQ/<sel>      through the handler list WITHOUT the real-file-only handlers         *)
(* after alpha removed the selector prefix and timestamps, plus what the audit hook saw      *)
(* while the archive request ran (process spawns, imports/exec of files, opens of the        *)
(* relative path of a mailbox/script/PYG member = a handler looking for a real file at the   *)
(* member's name; other relative opens are reported at design level only).                   *)
(*                                                                                          *)
(* Property level (VIOLATION):                                                              *)
(*   LinksStayInside  no archive answer contains bytes of a file outside the member list     *)
(*   RealOnly         no spawn / import / real-file access for a member; an answer that      *)
(*                    involves a mailbox, script or PYG member equals the twin's answer when *)
(*                    those handlers do not exist (served as a plain file)                   *)
(*   SameStatus / SameType / SameListing / SameBytes                                         *)
(*                    otherwise the archive answers exactly as the twin does                 *)
(*   RefIsKernel      (extract event) the reference of module Zip resolves every link member *)
(*                    as the kernel does on the faithfully extracted tree - binds the        *)
(*                    reference used by the model-level theorem to the real file system      *)
(* Design level (DRIFT): the kind the model MC_C16 predicted for the selector (carried in    *)
(* the event from the TLC dump) is the kind observed; not-found message texts agree.         *)
EXTENDS Zip, TraceBase

VARIABLES tid, l, verdict
tvars == <<tid, l, verdict>>

Ev == Traces[tid].events
Ms == Traces[tid].init.members

TInit == tid \in 1..NTraces /\ l = 1 /\ verdict = "ok"

Agree(z, o) ==      \* everything alpha reports, for an answered request
    /\ z.st = o.st /\ z.kind = o.kind /\ z.mime = o.mime /\ z.len = o.len
    /\ z.items = o.items /\ (z.st = "ok" => (z.blen = o.blen /\ z.h = o.h))

JudgeReq(e) ==
    LET ro == InvolvesRealOnly(Ms, e.sel, e.args)
        o == IF ro THEN e.tp ELSE e.tf
        z == e.z
    IN IF e.spawn + e.imp + e.relopen > 0 THEN "RealOnly"
       ELSE IF ro /\ (z.canary \/ ~Agree(z, o)) THEN "RealOnly"
       ELSE IF z.canary THEN "LinksStayInside"
       ELSE IF z.st # o.st THEN "SameStatus"
       ELSE IF z.kind # o.kind \/ z.mime # o.mime \/ z.len # o.len THEN "SameType"
       ELSE IF z.items # o.items THEN "SameListing"
       ELSE IF z.st = "ok" /\ (z.blen # o.blen \/ z.h # o.h) THEN "SameBytes"
       ELSE "ok"

PredSt(k) == IF k = "none" THEN "notfound" ELSE "ok"
DriftReq(e) ==
    /\ (IF InvolvesRealOnly(Ms, e.sel, e.args) \/ PredSt(e.pk) = e.z.st THEN TRUE
        ELSE RecordDrift(tid, l, "model predicted " \o e.pk))
    /\ (IF e.relother = 0 THEN TRUE ELSE RecordDrift(tid, l, "relative path opened (is_zipfile probe of a member named like an archive)"))
    /\ (IF e.z.st = "notfound" /\ e.tf.st = "notfound" /\ e.z.msg # e.tf.msg
        THEN RecordDrift(tid, l, "not-found message text") ELSE TRUE)

JudgeExtract(e) ==
    IF \A j \in 1..Len(e.links) :
          LET x == e.links[j]  r == RefOf(Ms, x.p) IN r.k = x.kind /\ (r.k # "none" => r.p = x.target)
    THEN "ok" ELSE "RefIsKernel"

Consume ==
    /\ l <= Len(Ev) /\ verdict = "ok"
    /\ l' = l + 1 /\ UNCHANGED tid
    /\ LET e == Ev[l] IN
       IF e.ev = "req" THEN verdict' = JudgeReq(e) /\ DriftReq(e)
       ELSE IF e.ev = "extract" THEN verdict' = JudgeExtract(e)
       ELSE verdict' = "unmatched"

TSpec == TInit /\ [][Consume]_tvars
Record == RecordVerdict(tid, l, verdict, Len(Ev))
Post == WriteVerdicts
=============================================================================
