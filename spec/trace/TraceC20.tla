------------------------------ MODULE TraceC20 ------------------------------
(* Trace specification for C20: the same replay mechanics as TraceC03 (the connection       *)
(* machine of Server is run on the recorded request WITH the recorded fault (rq.fk = the     *)
(* index of the first failing write(), rq.fcls = its class, rq.nw = the number of write()    *)
(* calls of the fault-free run), then the observation is consumed).  A trace whose init.prop *)
(* is "C20" is judged by Server!C20Verdict:                                                  *)
(*   Contained    nothing left handle()                                                      *)
(*   OwnClass     every EXCEPTION record logged after the injected failure carries the       *)
(*                client's address and the failure's own class, and there is at least one    *)
(*   FilesClosed  no descriptor opened for the request is still open afterwards              *)
(* Design level (DRIFT): protocol, escaped class, the classes of ALL log records in order    *)
(* and the log position of the failure are those of the machine (CatchInProtocol logs, the   *)
(* error reply fails again, CatchInServer logs).                                             *)
EXTENDS TraceC03
=============================================================================
