------------------------------ MODULE TraceBase ------------------------------
(* Batch mechanics shared by every trace specification (binding B3, code -> spec).          *)
(*                                                                                          *)
(* One TLC run validates a whole JSON array of traces.  Each trace spec has the variables   *)
(*   tid      index of the trace being replayed (chosen in Init, never changes)             *)
(*   l        position of the next event to consume                                         *)
(*   verdict  "ok" while every property clause held in every state so far, otherwise the    *)
(*            NAME of the first clause that failed (verdicts are total and name the clause) *)
(* A trace is finished when all events are consumed or the verdict is no longer "ok".       *)
(* Finished states are recorded in TLC registers from a CONSTRAINT (needs -workers 1) and   *)
(* written as JSON by the POSTCONDITION; the harness reads that file.  A trace is accepted  *)
(* iff some finished state of it has verdict "ok" (unlogged variables may make a trace spec *)
(* branch).  A trace that gets stuck before its end is reported with clause "stuck".        *)
EXTENDS Naturals, Integers, Sequences, FiniteSets, TLC, TLCExt, Json, IOUtils, SequencesExt

Traces  == JsonDeserialize(IOEnv.TRACE_FILE)
NTraces == Len(Traces)

ASSUME TLCSet(1, {}) /\ TLCSet(2, {}) /\ TLCSet(3, {})

\* register 1: bad <<tid, l, clause>>;  register 2: ok tids.
\* Every trace spec makes its next-state relation TOTAL on unfinished traces (an event no
\* action matches sets verdict to "unmatched"), so a trace can only end in one of the two
\* registers; a trace found in neither is reported as "stuck" at position 0 (machinery bug).
RecordVerdict(tid, l, verdict, nevents) ==
    IF verdict # "ok"
    THEN TLCSet(1, TLCGet(1) \cup {<<tid, l, verdict>>})
    ELSE IF l > nevents THEN TLCSet(2, TLCGet(2) \cup {tid}) ELSE TRUE

\* register 3: design-level drift <<tid, l, what>> (reported, never a violation)
RecordDrift(tid, l, what) == TLCSet(3, TLCGet(3) \cup {<<tid, l, what>>})

WriteVerdicts ==
    LET okset == TLCGet(2)
        bad0  == {b \in TLCGet(1) : b[1] \notin okset}
        stuck == {<<t, 0, "stuck">> : t \in {t \in 1..NTraces :
                        t \notin okset /\ ~(\E b \in bad0 : b[1] = t)}}
        bad   == bad0 \cup stuck
    IN JsonSerialize(IOEnv.VERDICT_FILE,
                     [ok |-> Cardinality(okset), bad |-> SetToSeq(bad),
                      drift |-> SetToSeq(TLCGet(3))])
=============================================================================
