----------------------------- MODULE TraceXTALH -----------------------------
(* Conformance of the REAL TALFileHandler / TALLoader / RecursiveTALLoader (behind the unmodified           *)
(* GopherRequestHandler, World.request) with module TalHandler.  One trace = one TLC-generated case run on  *)
(* a real document root:  init.c = the case;  events                                                        *)
(*   1 [ev |-> "req", handler]                          which handler the multiplexer chose (from the log)  *)
(*   2 [ev |-> "opens", files]                          ids of the template files opened (audit hook)       *)
(*   3 [ev |-> "reply", status, announce, blen, mime, gtype, vars, kids, macro, before, after, raw, entry]  *)
(*   4 [ev |-> "next", status]                          the following request on the same server            *)
(* verdict = name of the first promise (see TalHandler.tla) that fails; the switches are the PROMISED ones. *)
EXTENDS TalHandler, TraceBase

VARIABLES tid, l, verdict
tvars == <<vars, tid, l, verdict>>
Ev == Traces[tid].events
SetOf(s) == {s[i] : i \in 1..Len(s)}
CaseOf(t) == LET j == Traces[t].init.c IN
    [loc |-> j.loc, name |-> j.name, kind |-> j.kind, shape |-> j.shape, fe |-> j.fe, cfg |-> j.cfg,
     macroAt |-> SetOf(j.macroAt), dirm |-> j.dirm, ldr |-> j.ldr, walk |-> j.walk]

TInit == /\ tid \in 1..NTraces /\ l = 1 /\ verdict = "ok"
         /\ c = CaseOf(tid) /\ pc = "recv" /\ handler = "" /\ sent = <<>> /\ status = "" /\ announce = "na"
         /\ ld = NoVal /\ rest = <<>>

Served == Claims(c) /\ Typed(c) /\ ~IsListing(c)            \* a template request the promises speak about
Expands == Served /\ c.fe # "gi" /\ c.shape # "syntax"
ExpVars == [selector |-> Selector(c), talbasename |-> InnerName(Selector(c)), mimetype |-> InnerMime(c.name),
            gtype |-> TypeOfMime(InnerMime(c.name)), allowpy |-> AllowPy(c), protocol |-> ProtoOf(c.fe),
            handler |-> "TALFileHandler", dirp |-> PathStr(c.loc), rdirp |-> PathStr(c.loc), rootp |-> "/", rrootp |-> "/",
            parentp |-> PathStr(Parent(c.loc)), rootparent |-> "/"]
MimeSeen == c.fe \in {"http", "gi", "lsp"}
TypeSeen == c.fe \in {"gi", "ls", "lsp"}

ReqVerdict(e) == IF (e.handler = "TALFileHandler") # ExpHandlerIsTal(c) THEN "ClaimRule" ELSE "ok"
OpensVerdict(e) == IF "out" \in SetOf(e.files) THEN "Contained" ELSE "ok"
OpensDrift(e) == IF ~(Expands /\ c.shape = "use" /\ ~HasDotDot(c)) \/ SetOf(e.files) = ExpOpened(c) THEN TRUE
                 ELSE RecordDrift(tid, l, "files opened by the loaders differ from the model")
ReplyVerdict(e) ==
    IF Served /\ c.fe # "gi" /\ c.shape = "syntax" /\ e.status # "error" THEN "ErrorReply"
    ELSE IF IsListing(c) /\ e.status # "ok" THEN "ListingSurvives"
    ELSE IF e.status \notin {"ok", "error"} THEN "Answered"
    ELSE IF Served /\ c.shape # "syntax" /\ e.status # "ok" THEN "StatusOK"
    ELSE IF c.fe = "gp" /\ e.status = "ok" /\ e.announce >= 0 /\ e.announce # e.blen THEN "LengthHonest"
    ELSE IF Served /\ e.status = "ok" /\ MimeSeen /\ e.mime # InnerMime(c.name) THEN "TypeOfInner"
    ELSE IF Served /\ e.status = "ok" /\ TypeSeen /\ e.gtype # TypeOfMime(InnerMime(c.name)) THEN "TypeOfInner"
    ELSE IF IsListing(c) /\ Claims(c) /\ Typed(c) /\ ~e.entry.present THEN "ListedAs"
    ELSE IF IsListing(c) /\ Claims(c) /\ Typed(c) /\ e.entry.gtype # TypeOfMime(InnerMime(c.name)) THEN "ListedAs"
    ELSE IF c.fe = "lsp" /\ Claims(c) /\ Typed(c) /\ e.entry.mime # InnerMime(c.name) THEN "ListedAs"
    ELSE IF Expands /\ e.raw THEN "Expanded"
    ELSE IF Expands /\ ~(e.before /\ e.after) THEN "Complete"
    ELSE IF Expands /\ c.shape = "vars" /\ e.vars # ExpVars THEN "Bindings"
    ELSE IF Expands /\ c.shape = "vars" /\ SetOf(e.kids) # ChildNames(c, c.loc) THEN "Bindings"
    ELSE IF Expands /\ c.shape = "use" /\ ~HasDotDot(c) /\ e.macro # ExpMacro(c) THEN "Resolves"
    ELSE IF Expands /\ c.shape = "nomacro" /\ e.macro # "" THEN "Resolves"
    ELSE "ok"
ReplyDrift(e) == IF (~Claims(c) /\ c.kind = "file" /\ ~IsListing(c) /\ c.fe # "gi") => (e.status = "ok" /\ e.raw) THEN TRUE
                 ELSE RecordDrift(tid, l, "a file the handler does not claim was not served verbatim")
NextVerdict(e) == IF e.status # "ok" THEN "KeepsServing" ELSE "ok"

Consume == /\ verdict = "ok" /\ l <= Len(Ev)
           /\ LET e == Ev[l] IN
              /\ verdict' = (IF l = 1 /\ e.ev = "req" THEN ReqVerdict(e)
                             ELSE IF l = 2 /\ e.ev = "opens" THEN OpensVerdict(e)
                             ELSE IF l = 3 /\ e.ev = "reply" THEN ReplyVerdict(e)
                             ELSE IF l = 4 /\ e.ev = "next" THEN NextVerdict(e)
                             ELSE "unmatched")
              /\ (IF l = 2 /\ e.ev = "opens" THEN OpensDrift(e) ELSE IF l = 3 /\ e.ev = "reply" THEN ReplyDrift(e) ELSE TRUE)
           /\ l' = l + 1 /\ UNCHANGED <<vars, tid>>

TNext == Consume
TSpec == TInit /\ [][TNext]_tvars
\* a trace must hold all four observations
Record == RecordVerdict(tid, l, IF l > Len(Ev) /\ verdict = "ok" /\ Len(Ev) # 4 THEN "incomplete" ELSE verdict, Len(Ev))
Post == WriteVerdicts
=============================================================================
