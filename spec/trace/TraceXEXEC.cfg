SPECIFICATION TSpec
CONSTANTS
  SplitFirstMark = TRUE
  WapCaptures = TRUE
CONSTRAINT Record
POSTCONDITION Post
CHECK_DEADLOCK FALSE
