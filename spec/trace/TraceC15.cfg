SPECIFICATION TSpec
CONSTANTS
  EaExts <- B1_EaExts
  MimeOf <- B1_MimeOf
  DefaultMime <- B1_DefaultMime
CONSTRAINT Record
POSTCONDITION Post
CHECK_DEADLOCK FALSE
