SPECIFICATION TSpec
CONSTANTS
  Files = {"a.html", "b.xml"}
  XmlNames = {"b.xml"}
  Contents = {"h1", "x1", "d1"}
  SniffXml = {"d1"}
  XmlOk = {"x1", "d1"}
  MaxClock = 100
  MaxLen = 100
CONSTRAINT Record
POSTCONDITION Post
CHECK_DEADLOCK FALSE
