------------------------------ MODULE TraceC08 ------------------------------
(* Trace specification for C08.  One trace = one directory (init.dir, the record TLC         *)
(* enumerated in MC_C08 and the harness wrote to disk) and one "listing" event: the Gopher  *)
(* menu of that directory as lexed by alpha ([type, name, sel, host, port, abs] per entry).  *)
(*                                                                                          *)
(* Property level (VIOLATION): for a directory in scope (well-formed, NoTies) the menu must  *)
(* satisfy the clauses of UMN!Judge against RefListing(dir) - the reference reading of the  *)
(* manual IS the property (DESIGN.md Appendix E.1); the verdict is the first failing clause: *)
(*   Answered, HidesOnXorDash, PlusMeansThisServer, AddsWhenNotDotSlash, ExtStripName,      *)
(*   OverridesOnlySetFields, Order, SidecarBecomesAbstract, StaysListed, PlusIsFetchable     *)
(*   (e.fetch: what requesting each listed selector from this server returned).            *)
(* Design level (DRIFT): the menu is exactly ImplListing(dir), handlers/UMN.py as modelled  *)
(* (also for directories outside the scope of the property).                                *)
EXTENDS UMN, TraceBase

VARIABLES tid, l, verdict
tvars == <<tid, l, verdict>>

Ev == Traces[tid].events
TheDir == Traces[tid].init.dir

TInit == tid \in 1..NTraces /\ l = 1 /\ verdict = "ok"

Observed(e) == [ok |-> e.ok, out |-> e.out]

Consume ==
    /\ l <= Len(Ev) /\ verdict = "ok"
    /\ l' = l + 1 /\ UNCHANGED tid
    /\ LET e == Ev[l] IN
       IF e.ev # "listing" \/ l # 1
       THEN verdict' = "unmatched"
       ELSE /\ verdict' = (IF ~InScope(TheDir) THEN "ok"
                            ELSE LET j == Judge(Observed(e), RefListing(TheDir), RefHidden(TheDir)) IN
                                 IF j # "ok" THEN j
                                 ELSE IF PlusIsFetchable(e.fetch, RefListing(TheDir), TheDir) THEN "ok" ELSE "PlusIsFetchable")
            /\ (IF Observed(e) = ImplListing(TheDir) THEN TRUE
                ELSE RecordDrift(tid, l, "menu differs from handlers/UMN.py as modelled"))

\* a trace without its listing event proves nothing: it must not be accepted
Missing == l = 1 /\ Len(Ev) = 0 /\ verdict = "ok" /\ verdict' = "unmatched" /\ l' = 2 /\ UNCHANGED tid

TNext == Consume \/ Missing
TSpec == TInit /\ [][TNext]_tvars

Record == RecordVerdict(tid, l, verdict, IF Len(Ev) = 0 THEN 1 ELSE Len(Ev))
Post == WriteVerdicts
=============================================================================
