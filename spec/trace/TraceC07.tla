------------------------------ MODULE TraceC07 ------------------------------
(* Trace specification for C07: ONE directory of the REAL server, listed once per           *)
(* permutation of the OS enumeration order (the substituted os.listdir hands out the order  *)
(* TLC chose), then every child requested by its exact selector.  Events:                   *)
(*   enum      the order the substituted os.listdir handed out            -> ListDir        *)
(*   touches   names of the children whose own path was stat()ed/opened, in order           *)
(*   response  status and the lexed listing [sel, title]                                    *)
(*   fetch     what an exact-selector request for one child returned (content|menu|...)     *)
(*   end       end of the history                                                           *)
(* Property level (VIOLATION):                                                              *)
(*   Answered            every listing request is answered with a success listing           *)
(*   Exact.Missing / .Duplicate / .IgnoredListed / .DotFileListed / .HiddenListed /         *)
(*   .Phantom            the listed children are exactly Visible(d), once each              *)
(*   OrderFree           the listing is identical for all enumeration orders (the           *)
(*                       implementation against itself: first listing of the trace)         *)
(*   StillRetrievable    every child kept out of the listing answers by exact selector      *)
(*   StillRetrievable.NotProbed / OrderFree.NotProbed   the history is complete             *)
(* Design level (DRIFT, only when the property holds): inspection order and listing are     *)
(* exactly what the pipeline model predicts.                                                *)
EXTENDS Dir, MC_C07_data, TraceBase

VARIABLES tid, l, verdict, pred, seen, first, nlist, fetched
tvars == <<dvars, tid, l, verdict, pred, seen, first, nlist, fetched>>

Ev == Traces[tid].events
DirOf(i) == [sb |-> i.sb, handler |-> i.handler, ign |-> i.ign, sniff |-> i.sniff, kids |-> Range(i.kids)]

TInit == /\ tid \in 1..NTraces /\ l = 1 /\ verdict = "ok" /\ pred = NoExpect /\ seen = <<>>
         /\ first = <<>> /\ nlist = 0 /\ fetched = {}
         /\ DirInit(DirOf(Traces[tid].init.d))

Known == {"enum", "touches", "response", "fetch", "end"}

Enum(e) ==
    IF pc \in {"start", "done"} /\ IsEnumOf(d, e.order)
    THEN ListDir(e.order) /\ pred' = Expect(d, e.order) /\ verdict' = "ok" /\ UNCHANGED <<seen, first, nlist, fetched>>
    ELSE UNCHANGED <<dvars, pred, seen, first, nlist, fetched>> /\ verdict' = "unmatched"

Touches(e) == UNCHANGED <<dvars, pred, first, nlist, fetched>> /\ seen' = e.names /\ verdict' = "ok"

Response(e) ==
    LET mdl == Pipeline(d, raw)
        v   == IF e.status # "ok" THEN "Answered"
               ELSE IF ExactClause(d, e.listing) # "ok" THEN ExactClause(d, e.listing)
               ELSE IF nlist > 0 /\ e.listing # first THEN "OrderFree"
               ELSE "ok"
    IN /\ p' = [p EXCEPT !.out = mdl] /\ pc' = "done" /\ UNCHANGED <<d, raw, j, pred, seen, fetched>>
       /\ first' = IF nlist = 0 THEN e.listing ELSE first
       /\ nlist' = nlist + 1
       /\ verdict' = IF e.status # "ok" THEN "Answered" ELSE IF pc # "filter" THEN "unmatched" ELSE v
       /\ (IF v # "ok" \/ [kind |-> e.status, listing |-> e.listing] \in pred.outs THEN TRUE
           ELSE RecordDrift(tid, l, "listing differs from the pipeline model"))
       /\ (IF v # "ok" \/ seen \in pred.touches THEN TRUE
           ELSE RecordDrift(tid, l, "children inspected in another order than the model predicts"))

Expected(k) == IF IsDirKind(k) THEN "menu" ELSE "content"
\* a link to nothing, a socket ... kept out of a listing (it is only generated under a name the pattern hides) cannot
\* be "retrieved": StillRetrievable speaks about regular files and directories
Retrievable(k) == k.kind \in {"file", "dir", "dirabs"}
Fetch(e) ==
    /\ UNCHANGED <<dvars, pred, seen, first, nlist>>
    /\ IF e.name \notin Names(d) THEN verdict' = "unmatched" /\ UNCHANGED fetched
       ELSE /\ fetched' = fetched \cup {e.name}
            /\ verdict' = IF e.name \notin Visible(d) /\ Retrievable(KidOf(d, e.name)) /\ e.got # Expected(KidOf(d, e.name))
                          THEN "StillRetrievable" ELSE "ok"

Factorial[n \in Nat] == IF n = 0 THEN 1 ELSE n * Factorial[n - 1]
End(e) ==
    /\ UNCHANGED <<dvars, pred, seen, first, nlist, fetched>>
    /\ verdict' = IF ~((Names(d) \ Visible(d)) \subseteq fetched) THEN "StillRetrievable.NotProbed"
                  ELSE IF nlist = 0 \/ (e.mode = "all" /\ nlist # Factorial[Cardinality(Names(d))]) THEN "OrderFree.NotProbed"
                  ELSE "ok"

Consume ==
    /\ l <= Len(Ev) /\ verdict = "ok"
    /\ l' = l + 1 /\ UNCHANGED tid
    /\ LET e == Ev[l] IN
       IF e.ev \notin Known THEN UNCHANGED <<dvars, pred, seen, first, nlist, fetched>> /\ verdict' = "unmatched"
       ELSE CASE e.ev = "enum" -> Enum(e)
              [] e.ev = "touches" -> Touches(e)
              [] e.ev = "response" -> Response(e)
              [] e.ev = "fetch" -> Fetch(e)
              [] e.ev = "end" -> End(e)

TSpec == TInit /\ [][Consume]_tvars
Record == RecordVerdict(tid, l, verdict, Len(Ev))
Post == WriteVerdicts
=============================================================================
