----------------------------- MODULE TraceXEXEC -----------------------------
(* Conformance of the REAL script gateway (handlers/virtual.py, scriptexec.py, pyg.py       *)
(* behind the unmodified GopherRequestHandler on a socket pair, real TLS sessions) with     *)
(* module Gateway.  One trace = one history of 1 or 2 requests on one server; per request:  *)
(*   [ev |-> "req",   fe, tls, sel, search, caddr, cport]      what was asked (gamma)        *)
(*   [ev |-> "spawn", argv, env, effects]  one per program run: what the program itself saw *)
(*                                     (its argv and /proc/<pid>/environ, reported through  *)
(*                                     a side file, NOT through the connection); effects =  *)
(*                                     new entries of the server's working directory        *)
(*   [ev |-> "pyg",   what |-> "load"]                       a PYG module body was executed *)
(*   [ev |-> "pyg",   what |-> "write", sel, real, args, search]  what PYGMain holds        *)
(*   [ev |-> "reply", st, mime, len, toks, argv, env, psaw]  the client's bytes, lexed      *)
(*   [ev |-> "after", unreaped, running, fdleft, envdelta, effects]  the server afterwards  *)
(* The Gateway actions are replayed; steps without an observation of their own are silent.  *)
(* Property clauses (verdict = name of the first one that fails) are the promises listed in *)
(* Gateway.tla; design-level agreement beyond them is DRIFT.  The trace spec always runs    *)
(* with the documented switches (SplitFirstMark, WapCaptures = TRUE).                       *)
EXTENDS Gateway, TraceBase

VARIABLES tid, l, verdict,
          seen       \* what the program reported at spawn time: [argv, env] (OutExact compares the body with it)
tvars == <<gvars, tid, l, verdict, seen>>
Ev == Traces[tid].events

EnvSet(s) == {<<s[i][1], s[i][2]>> : i \in 1..Len(s)}
NoSeen == [argv |-> <<>>, env |-> {}]
ReqOf(e) == [fe |-> e.fe, tls |-> e.tls, sel |-> e.sel, search |-> e.search, caddr |-> e.caddr, cport |-> e.cport]

TInit == /\ tid \in 1..NTraces /\ l = 1 /\ verdict = "ok" /\ seen = NoSeen
         /\ GInit(EnvSet(Traces[tid].senv0))

SilentPc == pc \in {"split", "choose", "env", "run", "wait", "relay", "serve"}
TSilent == /\ verdict = "ok" /\ SilentPc /\ (Silent \/ Serve)
           /\ UNCHANGED <<tid, l, verdict, seen>>

Keep(v) == UNCHANGED gvars /\ UNCHANGED seen /\ verdict' = v

\* ---- clause evaluation -----------------------------------------------------------------
SpawnVerdict(e) ==
    IF e.effects # <<>> THEN "NoShell"         \* the run left something behind in the working directory
    ELSE IF ~ArgvClause(e.argv, DocBase(rq.sel), DocArgs(rq.sel)) THEN "ArgvVerbatim"
    ELSE IF \E x \in EnvSet(e.env) : x[1] = "SEARCHREQUEST" /\ rq.search = "" THEN "NoStale"
    ELSE IF ~EnvClause(EnvSet(e.env), rq) THEN "EnvDocumented"
    ELSE "ok"
SpawnDrift(e) ==        \* design level: exactly the model's vector; the server's own entries are inherited
    /\ (IF e.argv = argv THEN TRUE ELSE RecordDrift(tid, l, "argv differs from the model's"))
    /\ (IF {x \in EnvSet(e.env) : x[1] \notin DocNames} = {x \in senv : x[1] \notin DocNames}
        THEN TRUE ELSE RecordDrift(tid, l, "inherited environment differs"))

ReplyVerdict(e) ==
    IF handler = "exec"
    THEN (IF \E i \in 1..Len(e.toks) : e.toks[i] = "ERR" THEN "StderrNotSent"
          ELSE IF e.st # "ok" \/ e.toks # sock THEN "OutExact"
          ELSE IF (\E i \in 1..Len(e.toks) : e.toks[i] = "DUMP")
                  /\ (e.argv # seen.argv \/ EnvSet(e.env) # seen.env) THEN "OutExact"
          ELSE IF e.mime # OkMime(rq.fe) \/ (rq.fe = "gplus" /\ e.len # "-2") THEN "ListedAsText"
          ELSE "ok")
    ELSE IF handler = "pyg"
    THEN (IF e.st # "ok" \/ e.toks # sock THEN "OutExact"
          ELSE IF e.psaw # pygsaw THEN "PygSeesRequest"
          ELSE "ok")
    ELSE "ok"
ReplyDrift(e) ==
    IF handler \in {"exec", "pyg"} THEN TRUE
    ELSE /\ (IF e.st = st THEN TRUE ELSE RecordDrift(tid, l, "status class differs: " \o e.st \o " / " \o st))
         /\ (IF handler # "file" \/ e.toks = sock THEN TRUE ELSE RecordDrift(tid, l, "file body differs"))

AfterVerdict(e) ==
    IF e.effects # <<>> THEN "NoShell"
    ELSE IF e.unreaped # 0 \/ e.running # 0 THEN "Reaped"
    ELSE IF handler = "exec" /\ e.fdleft # 0 THEN "NoFdLeft"
    ELSE IF e.envdelta # <<>> THEN "ServerEnvUntouched"
    ELSE "ok"

\* ---- one event --------------------------------------------------------------------------
Consume ==
    /\ verdict = "ok" /\ ~SilentPc /\ l <= Len(Ev) /\ l' = l + 1 /\ UNCHANGED tid
    /\ LET e == Ev[l] IN
       IF pc = "idle"
       THEN (IF e.ev = "req" THEN Recv(ReqOf(e)) /\ verdict' = "ok" /\ seen' = NoSeen
             ELSE Keep("unmatched"))
       ELSE IF e.ev = "spawn"
       THEN (IF pc = "spawn"
             THEN /\ Spawn /\ seen' = [argv |-> e.argv, env |-> EnvSet(e.env)]
                  /\ verdict' = SpawnVerdict(e) /\ SpawnDrift(e)
             ELSE Keep("GatedRun"))               \* a program ran that the gate does not admit (or ran again)
       ELSE IF e.ev = "pyg"
       THEN (IF pc = "pygload" /\ e.what = "load" THEN PygLoad /\ verdict' = "ok" /\ UNCHANGED seen
             ELSE IF pc = "pygwrite" /\ e.what = "write"
             THEN /\ PygWrite /\ UNCHANGED seen
                  /\ verdict' = (IF <<e.sel, e.real, e.args, e.search>> = pygsaw THEN "ok" ELSE "PygSeesRequest")
             ELSE Keep("GatedLoad"))              \* a module was loaded that the gate does not admit (or again)
       ELSE IF pc \in {"spawn", "pygload", "pygwrite"}
       THEN Keep("ServedWhenGated")               \* the model runs / loads the file, the server did not
       ELSE IF pc = "reply"
       THEN (IF e.ev = "reply" THEN Reply /\ UNCHANGED seen /\ verdict' = ReplyVerdict(e) /\ ReplyDrift(e)
             ELSE Keep("unmatched"))
       ELSE IF pc = "after"
       THEN (IF e.ev = "after" THEN Finish /\ UNCHANGED seen /\ verdict' = AfterVerdict(e)
             ELSE Keep("unmatched"))
       ELSE Keep("unmatched")

TNext == TSilent \/ Consume
TSpec == TInit /\ [][TNext]_tvars
\* a history is complete only when the model is back at "idle" (a dropped last event is not accepted)
Record == IF l > Len(Ev) /\ verdict = "ok" /\ pc # "idle"
          THEN (IF SilentPc THEN TRUE ELSE RecordVerdict(tid, l, "incomplete", Len(Ev)))
          ELSE RecordVerdict(tid, l, verdict, Len(Ev))
Post == WriteVerdicts
=============================================================================
