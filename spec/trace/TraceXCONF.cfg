SPECIFICATION TSpec
CONSTANT Defects = {"liveview"}
CONSTRAINT Record
POSTCONDITION Post
CHECK_DEADLOCK FALSE
