------------------------------ MODULE TraceXTYPE ------------------------------
(* Trace specification for the growth check XTYPE (spec/Typing.tla).  One trace = one case of  *)
(* MC_XTYPE built as a real file (or directory) under the case's configuration and fetched     *)
(* through World.request.  init = [c, d]: the case exactly as TLC enumerated it, and the       *)
(* directory gamma put it into (title cases get a directory each).  Events, in this order:     *)
(*   info  the item's own Gopher+ `!` block: lexed type, name, selector, VIEWS MIME type, the  *)
(*         handler class named in the log                                                      *)
(*   http  HEAD of the item: status, Content-Type        } files of the name family only       *)
(*   gem   Gemini request for the item: status, META     }                                     *)
(*   get   Gopher0 fetch: are the bytes the stored ones ("raw") or the payload ("plain")       *)
(*   ... the same requests again (pass 2), made in the opposite order after all other items    *)
(*   row0  the item's row in the parent's Gopher0 menu: rows with its selector, malformed      *)
(*         lines of the menu, rows whose selector is no item of the directory                  *)
(*   row   the same from the Gopher+ `$` listing, with the VIEWS MIME type; then pass 2        *)
(* Property level (first failing clause = verdict; names as in the header of Typing.tla):      *)
(* Answered WellFormed FirstMatchWins ShippedYields ViewsConsistent TableTyped                  *)
(* AnnouncedIsDelivered HtmlOnlyNames StripOnlyName TitleShown TitleClean NoTitleKeepsName      *)
(* HistoryFree.  The expectation is Doc(c) - the documented reading -, so the two named         *)
(* deviations of the pinned code show as TitleShown / HtmlOnlyNames.                            *)
(* Design level (DRIFT, never a violation): the answer is field by field what the transcribed   *)
(* decision yields, in the pinned (Coded) or the repaired (Doc) reading: exact stripped name,   *)
(* handler class, titles outside the documented token classes, no language, directories.       *)
EXTENDS Typing, MC_XTYPE_consts, TraceBase

VARIABLES tid, l, verdict, pred
tvars == <<tid, l, verdict, pred>>

Ev == Traces[tid].events
C  == [Traces[tid].init.c EXCEPT !.d = Traces[tid].init.d]
K  == Cfg(C.cfg)

TInit == /\ tid \in 1..NTraces /\ l = 1 /\ verdict = "ok"
         /\ pred = [doc |-> Doc(C), coded |-> Coded(C), e |-> Entry(SelOf(C), K), listed |-> Listed(C)]

D  == pred.doc
Cd == pred.coded
IsFile == C.kind = "file"
IsFileCase == C.fam = "name" /\ IsFile
HasTitle == "wrap" \in DOMAIN C
Documented == HasTitle /\ TitleDocumented(C.wrap, C.body)
Dev == IF D = Cd THEN "" ELSE IF D.by # Cd.by THEN "HtmlStealsCompressed" ELSE "TitleLostToStrip"
Drift(cond, what) == IF cond THEN TRUE ELSE RecordDrift(tid, l, what)

Kinds  == IF IsFileCase THEN <<"info", "http", "gem", "get", "info", "http", "gem", "get", "row0", "row", "row0", "row">>
          ELSE <<"info", "info", "row0", "row", "row0", "row">>
Passes == IF IsFileCase THEN <<1, 1, 1, 1, 2, 2, 2, 2, 1, 1, 2, 2>> ELSE <<1, 2, 1, 1, 2, 2>>
Twin(i) == IF IsFileCase THEN (IF i \in 5..8 THEN i - 4 ELSE IF i \in 11..12 THEN i - 2 ELSE 0)
           ELSE (IF i = 2 THEN 1 ELSE IF i \in 5..6 THEN i - 2 ELSE 0)
Complete == Len(Ev) = Len(Kinds) /\ \A i \in 1..Len(Ev) : Ev[i].ev = Kinds[i] /\ Ev[i].pass = Passes[i]
Info == Ev[1].o                                       \* the item's own block (pass 1)
Broken == IF HasTitle THEN "TitleClean" ELSE "WellFormed"      \* a name that splits a line shows as a broken answer

(* ---- clauses over one observed field -------------------------------------------------------- *)
TypeClause(m, ty) ==
    IF ~IsFile THEN "ok"
    ELSE IF ~IsFirstMatch(K.map, m, ty) THEN "FirstMatchWins"
    ELSE IF K.map = "shipped" /\ ty # ShippedType(m) THEN "ShippedYields"
    ELSE "ok"
MimeClause(m) ==
    IF ~IsFile \/ m = D.mime THEN "ok"
    ELSE IF Dev = "HtmlStealsCompressed" /\ m = Cd.mime THEN "HtmlOnlyNames"
    ELSE IF pred.e.enc # None THEN "AnnouncedIsDelivered"
    ELSE "TableTyped"
OwnNameClause(name) ==
    IF Unclean(name) THEN "TitleClean"
    ELSE IF D.title.complete THEN (IF Documented /\ name # D.title.text THEN "TitleShown" ELSE "ok")
    ELSE IF name # C.n THEN (IF D.by = "html" \/ Cd.by = "html" THEN "NoTitleKeepsName" ELSE "StripOnlyName")
    ELSE "ok"
RowNameClause(name) ==
    IF Unclean(name) THEN "TitleClean"
    ELSE IF D.title.complete THEN (IF Documented /\ name # D.title.text THEN "TitleShown" ELSE "ok")
    ELSE IF ~StripOk(C, [D EXCEPT !.rowname = name])
         THEN (IF (D.by = "html" \/ Cd.by = "html") /\ ~IsExtPrefix(name, C.n) THEN "NoTitleKeepsName" ELSE "StripOnlyName")
    ELSE "ok"
First(seq) == IF \E i \in 1..Len(seq) : seq[i] # "ok"
              THEN seq[CHOOSE i \in 1..Len(seq) : seq[i] # "ok" /\ \A j \in 1..(i - 1) : seq[j] = "ok"] ELSE "ok"

(* ---- one event -------------------------------------------------------------------------------- *)
InfoJudge(o) ==
    (IF o.esc # "" \/ o.st = "error" THEN "Answered"
     ELSE IF o.st # "ok" \/ o.bad > 0 \/ o.n # 1 \/ o.views # 1 THEN Broken
     ELSE IF o.sel # SelOf(C) THEN "StripOnlyName"
     ELSE First(<<TypeClause(o.mime, o.type), MimeClause(o.mime), OwnNameClause(o.name)>>))
InfoDrift(o) ==
    /\ Drift(o.lang = "", "a language is announced")
    /\ Drift(o.by \in {D.by, Cd.by}, "handler class differs from the modelled handler list")
    /\ Drift(o.name \in {D.name, Cd.name}, "own display name differs from the transcription")
    /\ Drift(IsFile \/ (o.type = "1" /\ o.mime = "application/gopher+-menu"), "directory not announced as a Gopher+ menu")
HttpJudge(o) ==
    (IF o.esc # "" \/ o.status # 200 THEN "Answered"
     ELSE IF o.nct # 1 \/ o.ctype # Info.mime THEN "ViewsConsistent" ELSE "ok")
GemJudge(o) ==
    (IF o.esc # "" \/ o.status # 20 THEN "Answered"
     ELSE IF o.meta # Info.mime THEN "ViewsConsistent" ELSE "ok")
GetJudge(o) ==
    (IF o.esc # "" THEN "Answered"
     ELSE IF o.cls \notin {"raw", "plain"} THEN "AnnouncedIsDelivered"
     ELSE IF o.cls # D.delivered THEN (IF Dev = "HtmlStealsCompressed" /\ o.cls = Cd.delivered THEN "HtmlOnlyNames" ELSE "AnnouncedIsDelivered")
     ELSE IF o.cls = "plain" /\ Info.mime # pred.e.encmime THEN "AnnouncedIsDelivered"
     ELSE IF o.cls = "raw" /\ pred.e.enc # None /\ Info.mime # Octet THEN "AnnouncedIsDelivered"
     ELSE "ok")
GetDrift(o) == Drift(o.by \in {D.by, Cd.by}, "handler class differs from the modelled handler list")
Row0Judge(o) ==
    (IF o.esc # "" THEN "Answered"
     ELSE IF o.bad > 0 THEN Broken
     ELSE IF o.orphans > 0 \/ o.n > 1 THEN "StripOnlyName"
     ELSE IF o.n = 0 THEN "ok"
     ELSE IF IsFile /\ o.type # Info.type THEN "ViewsConsistent"
     ELSE RowNameClause(o.name))
RowJudge(o, o0) ==
    (IF o.esc # "" \/ o.st # "ok" THEN "Answered"
     ELSE IF o.bad > 0 THEN Broken
     ELSE IF o.orphans > 0 \/ o.n > 1 THEN "StripOnlyName"
     ELSE IF o.n = 0 THEN "ok"
     ELSE IF o.views # 1 THEN Broken
     ELSE IF TypeClause(o.mime, o.type) # "ok" THEN TypeClause(o.mime, o.type)
     ELSE IF o.type # Info.type \/ o.mime # Info.mime THEN "ViewsConsistent"
     ELSE IF o0.n = 1 /\ (o.name # o0.name \/ o.type # o0.type) THEN "ViewsConsistent"
     ELSE RowNameClause(o.name))
RowDrift(o) ==
    /\ Drift((o.n = 1) = pred.listed, "entry listed / hidden differently from ignorepatt + dot-file rule")
    /\ Drift(o.n # 1 \/ o.name \in {D.rowname, Cd.rowname}, "listed name differs from the transcription (extstrip / title)")
    /\ Drift(o.n # 1 \/ o.lang = "", "a language is announced")

JudgeEv(i) ==
    LET e == Ev[i] IN
    IF e.pass = 2 THEN (IF e.o # Ev[Twin(i)].o THEN "HistoryFree" ELSE "ok")
    ELSE CASE e.ev = "info" -> InfoJudge(e.o)
           [] e.ev = "http" -> HttpJudge(e.o)
           [] e.ev = "gem"  -> GemJudge(e.o)
           [] e.ev = "get"  -> GetJudge(e.o)
           [] e.ev = "row0" -> Row0Judge(e.o)
           [] e.ev = "row"  -> RowJudge(e.o, Ev[i - 1].o)
           [] OTHER -> "unmatched"
DriftEv(i) ==
    LET e == Ev[i] IN
    IF e.pass = 2 THEN TRUE
    ELSE CASE e.ev = "info" -> InfoDrift(e.o)
           [] e.ev = "get"  -> GetDrift(e.o)
           [] e.ev = "row"  -> RowDrift(e.o)
           [] OTHER -> TRUE

Consume ==
    /\ l <= Len(Ev) /\ verdict = "ok"
    /\ l' = l + 1 /\ UNCHANGED <<tid, pred>>
    /\ (IF ~Complete THEN verdict' = "Incomplete"
        ELSE /\ verdict' = JudgeEv(l)
             /\ (IF verdict' = "ok" THEN DriftEv(l) ELSE TRUE))

TSpec == TInit /\ [][Consume]_tvars
Record == RecordVerdict(tid, l, verdict, Len(Ev))
Post == WriteVerdicts
=============================================================================
