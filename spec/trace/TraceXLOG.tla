------------------------------ MODULE TraceXLOG ------------------------------
(* Trace specification for XLOG: what the REAL code sent to its log sinks, judged by the    *)
(* clauses of module Logging.                                                               *)
(*                                                                                          *)
(* part "req": a World (real server object, real logger.init for the configured method,     *)
(*   standard output and syslog.openlog/syslog.syslog substituted by recorders) is sent the *)
(*   requests of one MC_XLOG initial state, one connection after the other.  Events:        *)
(*     [ev |-> "init", ops]                    sink operations of logger.init               *)
(*     [ev |-> "req", i, calls, ops, esc]      request i: messages handed to logger.log,    *)
(*                                             sink operations, did anything leave handle() *)
(* part "adm": the real initialize() ran in a forked child under recorders (fork, exit,     *)
(*   getpid, open of the pidfile, privileged calls, bind, sinks).  One event                *)
(*     [ev |-> "end", ob]                      the observation record of Logging!AdmVerdict *)
(*                                                                                          *)
(* Property level: ReqVerdict / AdmVerdict (first failing clause names the verdict).        *)
(* Design level (drift only): calls and sink operations are exactly those of the model run  *)
(* (Logging!Run / Logging!AdmRun) for the same case.                                        *)
EXTENDS Logging, MC_XLOG_consts, TraceBase

VARIABLES tid, l, verdict
tvars == <<tid, l, verdict>>

T == Traces[tid]
Ev == T.events
Lg == T.init.lg

TInit == tid \in 1..NTraces /\ l = 1 /\ verdict = "ok"

InitVerdict(ops) ==
    IF ~NoneIsSilent(Lg, ops) THEN "NoneIsSilent"
    ELSE IF ~RightSink(Lg, ops) THEN "RightSink"
    ELSE IF ~SyslogOpened(Lg, ops) THEN "SyslogOpened"
    ELSE "ok"

Texts(calls) == [k \in 1..Len(calls) |-> calls[k].text]

ReqStep(e) ==
    LET c == T.init.reqs[e.i]
        m == Run(Lg, T.init.reqs) IN
    /\ verdict' = ReqVerdict(Lg, c, e.calls, e.ops, e.esc)
    /\ (IF e.calls = Texts(CallsOf(m, e.i)) THEN TRUE ELSE RecordDrift(tid, l, "calls differ from the model"))
    /\ (IF e.ops = OpsOf(m, e.i) THEN TRUE ELSE RecordDrift(tid, l, "sink operations differ from the model"))

AdmStep(e) ==
    LET a == T.init.a
        m == ObOf(AdmRun(a, T.init.role, T.init.fault)) IN
    /\ verdict' = AdmVerdict(a, T.init.role, T.init.fault, e.ob)
    /\ (IF e.ob.sink = m.sink THEN TRUE ELSE RecordDrift(tid, l, "start-up sink operations differ from the model"))
    /\ (IF e.ob.pc = m.pc THEN TRUE ELSE RecordDrift(tid, l, "start-up ends differently from the model"))

\* a request trace = the init event and ONE request of the case (the harness writes one trace per
\* request of a sequence, so that every request gets its own verdict); an adm trace = its end event
Complete == IF T.init.part = "req" THEN Len(Ev) = 2 ELSE Len(Ev) = 1

Consume ==
    /\ l <= Len(Ev) /\ verdict = "ok" /\ l' = l + 1 /\ UNCHANGED tid
    /\ LET e == Ev[l] IN
       IF ~Complete THEN verdict' = "unmatched"
       ELSE IF T.init.part = "req" /\ e.ev = "init" /\ l = 1
       THEN /\ verdict' = InitVerdict(e.ops)
            /\ (IF e.ops = InitOps(Lg) THEN TRUE ELSE RecordDrift(tid, l, "logger.init differs from the model"))
       ELSE IF T.init.part = "req" /\ e.ev = "req" /\ l = 2 /\ e.i \in 1..Len(T.init.reqs)
       THEN ReqStep(e)
       ELSE IF T.init.part = "adm" /\ e.ev = "end" /\ l = 1
       THEN AdmStep(e)
       ELSE verdict' = "unmatched"

TSpec == TInit /\ [][Consume]_tvars
Record == RecordVerdict(tid, l, verdict, Len(Ev))
Post == WriteVerdicts
=============================================================================
