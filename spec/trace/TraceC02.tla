------------------------------ MODULE TraceC02 ------------------------------
(* Trace specification for C02.  Two kinds of traces recorded from the REAL code:            *)
(*                                                                                            *)
(* kind "conn"  - one case (first line, TLS?, header block) pushed through the real            *)
(*   ProtocolMultiplexer.getProtocol:                                                          *)
(*     detect  the shipped list (C_Lists[1], read from conf): class returned / "None" /        *)
(*             "crash", the same again later in the process' life, header lines consumed       *)
(*     alone   every listed protocol class ALONE on a fresh connection: r[i] for C_Listed[i]   *)
(*     orders  every list of C_Lists on a fresh connection: got[l]                              *)
(*   and through the real CONNECTION HANDLER (GopherRequestHandler.handle, which reads the      *)
(*   request line itself), the answering class taken from the server log:                      *)
(*     served  the shipped list: got; for long lines (pad > 0) also every listed class alone:    *)
(*             alone[i] for C_Listed[i] (<<>> otherwise)                                          *)
(*   judged with the documented shapes of Wire (Shape/FirstMatch) - the transcription          *)
(*   (Claims/Detect) is compared at design level only (drift).                                 *)
(*                                                                                            *)
(* kind "sniff" - one (TLS context?, bytes sent) case through the real BaseServer.wrap_socket  *)
(*   on a socketpair with a recording socket and a recording stand-in context:                 *)
(*     recv      a recv call made by the code: size, MSG_PEEK?, result, bytes readable after    *)
(*     wrapcall  the context's wrap_socket was called: bytes readable at that moment            *)
(*     return    wrap_socket returned: result is the context's product?, bytes readable after   *)
(*   replayed against the actions of WireSniff.                                                 *)
(*                                                                                            *)
(* Property level (VIOLATION): Total, TlsStrict, Ordered, Deterministic, ClaimsMatchShape,     *)
(* OrderedByClaims, SniffExact, SniffPure.  Design level (DRIFT): predicted claims, read       *)
(* position, the exact peek.                                                                   *)
EXTENDS Wire, WireSniff, MC_C02_consts, TraceBase

VARIABLES tid, l, verdict,
          px,        \* conn: Parse(X), computed once (TLC re-evaluates definitions at every use)
          mt,        \* conn: the documented shapes, [p |-> Matches(p, X)], computed once
          al,        \* conn: answers of the protocols alone, once the "alone" event was consumed (<<>> before)
          wc         \* sniff: the context's wrap_socket has been called
tvars == <<tid, l, verdict, px, mt, al, wc, svars>>

T  == Traces[tid]
Ev == T.events
X  == [line |-> T.init.line, pad |-> T.init.pad, tls |-> T.init.tls, hdrs |-> T.init.hdrs]    \* conn traces only

ListedSet == {C_Listed[i] : i \in 1..Len(C_Listed)}
TInit == /\ tid \in 1..NTraces /\ l = 1 /\ verdict = "ok" /\ al = <<>> /\ wc = FALSE
         /\ (IF T.init.kind = "sniff" THEN SInit(T.init.ctx, T.init.sent) /\ px = <<>> /\ mt = <<>>
             ELSE SInit(FALSE, <<>>) /\ px = Parse(X) /\ mt = MatchTable(ListedSet, X))

Idx(p) == CHOOSE i \in 1..Len(C_Listed) : C_Listed[i] = p
NLists == Len(C_Lists)
FirstBad(S) == CHOOSE i \in S : \A j \in S : i <= j

(* ---- conn events ----------------------------------------------------------------------- *)
DetectVerdict(e, m) ==
    IF ~TotalAt(e.got) THEN "Total"
    ELSE IF ~TlsStrictAt(X.tls, e.got) THEN "TlsStrict"
    ELSE IF ~OrderedAt(C_Lists[1], m, e.got) THEN "Ordered"
    ELSE IF e.again # e.got THEN "Deterministic"
    ELSE "ok"
OnDetect(e) ==
    /\ verdict' = DetectVerdict(e, mt)
    /\ (IF e.pos = Detect(C_Lists[1], px).conn.pos THEN TRUE ELSE RecordDrift(tid, l, "read position"))
    /\ UNCHANGED <<px, mt, al, wc, svars>>

OnAlone(e) ==
    /\ (IF Len(e.r) # Len(C_Listed) THEN (verdict' = "unmatched" /\ UNCHANGED al)
        ELSE LET m == mt IN
             /\ al' = [p \in ListedSet |-> e.r[Idx(p)]]
             /\ verdict' = (IF \E i \in 1..Len(C_Listed) : ~ClaimsMatchShapeAt(C_Listed[i], m, e.r[i])
                            THEN "ClaimsMatchShape" ELSE "ok")
             /\ (IF \A i \in 1..Len(C_Listed) : e.r[i] = Claims(C_Listed[i], px, FreshConn).r THEN TRUE
                 ELSE RecordDrift(tid, l, "claims differ from the transcription")))
    /\ UNCHANGED <<px, mt, wc, svars>>

OrderVerdict(lst, got, m) ==
    IF ~TlsStrictAt(X.tls, got) THEN "TlsStrict"
    ELSE IF ~OrderedAt(lst, m, got) THEN "Ordered"
    ELSE IF got # FirstClaimant(lst, 1, al) THEN "OrderedByClaims"
    ELSE "ok"
OnOrders(e) ==
    /\ (IF al = <<>> \/ Len(e.got) # NLists THEN verdict' = "unmatched"
        ELSE LET m == mt
                 bad == {i \in 1..NLists : OrderVerdict(C_Lists[i], e.got[i], m) # "ok"} IN
             verdict' = (IF bad = {} THEN "ok" ELSE OrderVerdict(C_Lists[FirstBad(bad)], e.got[FirstBad(bad)], m)))
    /\ UNCHANGED <<px, mt, al, wc, svars>>

\* the same bytes through the real connection handler: the class that answers is the first one whose documented
\* shape matches the FULL first line (whatever its length), and each class alone answers iff its shape matches
ServedVerdict(e) ==
    IF ~TotalAt(e.got) THEN "Total"
    ELSE IF ~TlsStrictAt(X.tls, e.got) THEN "TlsStrict"
    ELSE IF ~OrderedAt(C_Lists[1], mt, e.got) THEN "Ordered"
    ELSE IF e.alone # <<>> /\ Len(e.alone) # Len(C_Listed) THEN "unmatched"
    ELSE IF e.alone # <<>> /\ (\E i \in 1..Len(C_Listed) : ~ClaimsMatchShapeAt(C_Listed[i], mt, e.alone[i])) THEN "ClaimsMatchShape"
    ELSE "ok"
OnServed(e) ==
    /\ verdict' = ServedVerdict(e)
    /\ UNCHANGED <<px, mt, al, wc, svars>>

(* ---- sniff events ---------------------------------------------------------------------- *)
\* a recv the code made: whatever it was, nothing may have left the buffer (property); at design level it is
\* the Peek action: one byte, MSG_PEEK, before anything else
OnRecv(e) ==
    /\ verdict' = (IF SniffPureAt(e.readable) THEN "ok" ELSE "SniffPure")
    /\ (IF CanPeek /\ e.peek /\ e.n = 1 /\ e.ret = (IF sent = <<>> THEN <<>> ELSE <<sent[1]>>)
        THEN Peek
        ELSE (UNCHANGED svars /\ RecordDrift(tid, l, "recv is not the modelled one-byte peek")))
    /\ UNCHANGED <<px, mt, al, wc>>
\* the connection is handed to the TLS context: only a TLS hello may get there, and intact
OnWrapCall(e) ==
    /\ verdict' = (IF ~(ctx /\ IsHello) THEN "SniffExact"
                   ELSE IF ~SniffPureAt(e.readable) THEN "SniffPure" ELSE "ok")
    /\ wc' = TRUE
    /\ UNCHANGED <<px, mt, al, svars>>
OnReturn(e) ==
    /\ verdict' = (IF ~SniffExactAt(e.wrapped) \/ e.wrapped # wc THEN "SniffExact"
                   ELSE IF ~SniffPureAt(e.readable) THEN "SniffPure" ELSE "ok")
    /\ (IF CanDecide THEN (Decide /\ (IF wrapped' = e.wrapped THEN TRUE ELSE RecordDrift(tid, l, "decision")))
        ELSE IF CanSkipPeek THEN SkipPeek
        ELSE (UNCHANGED svars /\ RecordDrift(tid, l, "return without the modelled peek")))
    /\ UNCHANGED <<px, mt, al, wc>>

Consume ==
    /\ l <= Len(Ev) /\ verdict = "ok"
    /\ l' = l + 1 /\ UNCHANGED tid
    /\ LET e == Ev[l] IN
       (IF T.init.kind = "conn" /\ e.ev = "detect" THEN OnDetect(e)
       ELSE IF T.init.kind = "conn" /\ e.ev = "alone" THEN OnAlone(e)
       ELSE IF T.init.kind = "conn" /\ e.ev = "orders" THEN OnOrders(e)
       ELSE IF T.init.kind = "conn" /\ e.ev = "served" THEN OnServed(e)
       ELSE IF T.init.kind = "sniff" /\ e.ev = "recv" /\ spc # "done" THEN OnRecv(e)
       ELSE IF T.init.kind = "sniff" /\ e.ev = "wrapcall" /\ spc # "done" THEN OnWrapCall(e)
       ELSE IF T.init.kind = "sniff" /\ e.ev = "return" /\ spc # "done" THEN OnReturn(e)
       ELSE (verdict' = "unmatched" /\ UNCHANGED <<px, mt, al, wc, svars>>))

\* a complete trace: conn = detect, alone, orders, served;  sniff = ends with return.  (Dropping an event is rejected.)
Complete == IF T.init.kind = "conn"
            THEN Len(Ev) = 4 /\ Ev[1].ev = "detect" /\ Ev[2].ev = "alone" /\ Ev[3].ev = "orders" /\ Ev[4].ev = "served"
            ELSE Len(Ev) >= 1 /\ Ev[Len(Ev)].ev = "return"
Reject == /\ l = 1 /\ verdict = "ok" /\ ~Complete
          /\ verdict' = "unmatched" /\ UNCHANGED <<tid, l, px, mt, al, wc, svars>>

TNext == IF l = 1 /\ ~Complete THEN Reject ELSE Consume
TSpec == TInit /\ [][TNext]_tvars

Record == RecordVerdict(tid, l, verdict, Len(Ev))
Post == WriteVerdicts
=============================================================================
