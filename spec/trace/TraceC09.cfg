SPECIFICATION TSpec
CONSTANTS
  Quirks = {"FileMapBase", "NonGopherPort70"}
CONSTRAINT Record
POSTCONDITION Post
CHECK_DEADLOCK FALSE
