SPECIFICATION TSpec
CONSTANTS
  Quirks = {}
CONSTRAINT Record
POSTCONDITION Post
CHECK_DEADLOCK FALSE
