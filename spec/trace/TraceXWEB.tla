------------------------------ MODULE TraceXWEB ------------------------------
(* Trace specification for the growth check XWEB (spec/Web.tla).  One trace = one case of    *)
(* MC_XWEB run on the REAL server through World.request; init = [fam, c] (the case exactly   *)
(* as TLC enumerated it), events = the lexed responses:                                      *)
(*   icon     the answer to an icon-route request                                            *)
(*   menu     one menu (init.c -> MC_XWEB!MenuEntries, written as a gophermap) fetched       *)
(*            through W (deck + rows), H (table rows with IMG tags) and M (lines)            *)
(*   iconref  the answer to GET <src> for an IMG SRC found in the H listing just seen        *)
(*   dlg      one request of a search dialogue (Gemini: prompt, query -> redirect, target)   *)
(*   wapdoc   the answer to a request around the waptop prefix                               *)
(*   gem      the answer to a Gemini request line (+ the MIME type Gopher+ reports for the   *)
(*            same selector)                                                                 *)
(*   fetch    selector families: role "inner" = /path under the handler list without the     *)
(*            rewriter, role "subject" = the case's selector under the case's handler list   *)
(* Every event carries the request that was sent; a request that is not the one the model    *)
(* derives from the case is ClientMismatch (machinery).                                      *)
(* Property level (VIOLATION, clause names as in the header of Web.tla): IconServed IconHead  *)
(* IconBytes IconDims RowIcon UnknownIcon / WmlWellFormed WmlNesting AccessKeys SearchCard   *)
(* SearchArrives WapPrefix WapTitle WapErrorCard WapHead / GemHeader GemMetaLimit GemPrompt   *)
(* GemSearchArrives GemSuccessMime GemServes GemNotFound GemBadRequest GemLinkLines GemFooter *)
(* / UrlRedirectPage UrlOnlyUrls RewriteSame RewriteOnce RewriteOff ServesItself NoEscape.    *)
(* Design level (DRIFT, never a violation): the lexed rows / lines / status are exactly what  *)
(* the transcribed operators produce (WapDeckRows, HttpRow, GemMenu, IconRoute for the       *)
(* non-plain request shapes, WebServe, WAP's status 200 on errors, prompt text, refresh 5).  *)
EXTENDS WebCases, MC_XWEB_consts, TraceBase

VARIABLES tid, l, verdict, mem
tvars == <<tid, l, verdict, mem>>

Ev == Traces[tid].events
F  == Traces[tid].init.fam
C  == Traces[tid].init.c

NoMem == [has |-> FALSE, cls |-> "", obj |-> "", id |-> "", srcs |-> <<>>]
TInit == tid \in 1..NTraces /\ l = 1 /\ verdict = "ok" /\ mem = NoMem

Drift(cond, what) == IF cond THEN TRUE ELSE RecordDrift(tid, l, what)

IsImage(ct) == StartsWith(ct, "image/")
GifOk(e) == e.magic \in {"GIF89a", "GIF87a"} /\ e.trailer = 59

(* ---- icon ------------------------------------------------------------------------------ *)
IconJudge(e) ==
    LET exp == IconExpect(C)
        plainKnown == C.name \in IconNames /\ C.shape = "plain"
        unknown == C.name \notin IconNames \/ C.shape \in {"lower", "sub"}
    IN (IF ~(e.path = IconPath(C) /\ e.method = C.method /\ e.front = C.front) THEN "ClientMismatch"
        ELSE IF ~(e.escaped = "") THEN "NoEscape"
        ELSE IF ~(plainKnown => (e.status = 200 /\ IsImage(e.ctype))) THEN "IconServed"
        ELSE IF ~((plainKnown /\ C.method = "GET") => e.nbody > 0) THEN "IconServed"
        ELSE IF ~((plainKnown /\ C.method = "HEAD") => e.nbody = 0) THEN "IconHead"
        ELSE IF ~((plainKnown /\ C.method = "GET") => e.digest = IconDigest(C.name)) THEN "IconBytes"
        ELSE IF ~((plainKnown /\ C.method = "GET") => (GifOk(e) /\ e.ctype = "image/gif" /\ e.w = IconWidth /\ e.h = IconHeight)) THEN "IconDims"
        ELSE IF ~(unknown => (e.cls = "notfound" /\ ~IsImage(e.ctype))) THEN "UnknownIcon"
        ELSE IF ~((unknown /\ C.front # "W") => e.status = 404) THEN "UnknownIcon"
        ELSE "ok")
IconDrift(e) ==
    LET exp == IconExpect(C) IN
    /\ Drift((exp # "") = (e.status = 200 /\ IsImage(e.ctype)), "icon route differs from IconRoute for this request shape")
    /\ Drift(exp # "" => e.lastmod = IconLastModified, "icon Last-Modified")

(* ---- menu ------------------------------------------------------------------------------ *)
Es == MenuEntries(C)
MenuName == Traces[tid].init.name
KindsMatch(rows) == Len(rows) = Len(Es) /\ \A i \in 1..Len(Es) : rows[i].kind = RowKind(Es[i]) /\ rows[i].name = Es[i].name
WapMenuJudge(e) ==
    (IF ~(e.path = WebRef("W", Traces[tid].init.sel)) THEN "ClientMismatch"
        ELSE IF ~(e.escaped = "") THEN "NoEscape"
        ELSE IF ~(e.status = 200 /\ e.ctype = WmlType) THEN "WmlWellFormed"
        ELSE IF ~(WmlWellFormedOk(e.deck)) THEN "WmlWellFormed"
        ELSE IF ~(WmlNestingOk(e.deck)) THEN "WmlNesting"
        ELSE IF ~(KindsMatch(e.rows)) THEN "MenuRows"
        ELSE IF ~(AccessKeysOk(e.rows) /\ KeysDistinct(e.rows)) THEN "AccessKeys"
        ELSE IF ~(SearchCardOk(e.rows)) THEN "SearchCard"
        ELSE IF ~(\A i \in 1..Len(Es) : Es[i].type = "7" => e.rows[i].href = Target("W", Es[i]).href) THEN "SearchCard"
        ELSE IF ~(WapPrefixOk(e.rows)) THEN "WapPrefix"
        ELSE IF ~(e.deck.cards[1].title = WapTitleOf(MenuName) /\ e.deck.heading = WapTitleOf(MenuName)) THEN "WapTitle"
        ELSE "ok")
HttpMenuJudge(e) ==
    (IF ~(e.path = WebRef("H", Traces[tid].init.sel)) THEN "ClientMismatch"
        ELSE IF ~(e.escaped = "") THEN "NoEscape"
        ELSE IF ~(e.status = 200 /\ KindsMatch(e.rows)) THEN "MenuRows"
        ELSE IF ~(\A i \in 1..Len(Es) : e.rows[i].icon = IconPrefix \o IconFor(Es[i].type)) THEN "RowIcon"
        ELSE "ok")
GemMenuJudge(e) ==
    LET n == Len(Es)
        body == SubSeq(e.rows, 1, IF Len(e.rows) < n THEN Len(e.rows) ELSE n)
        tail == SubSeq(e.rows, n + 1, Len(e.rows))
    IN (IF ~(e.path = WebRef("M", Traces[tid].init.sel)) THEN "ClientMismatch"
        ELSE IF ~(e.escaped = "") THEN "NoEscape"
        ELSE IF ~(e.status = 20 /\ e.crlf) THEN "GemHeader"
        ELSE IF ~(e.ctype = "text/gemini") THEN "GemSuccessMime"
        ELSE IF ~(Len(e.rows) >= n /\ \A i \in 1..n : body[i].name = Es[i].name /\ (body[i].kind = "text") = (Es[i].type = "i")) THEN "GemLinkLines"
        ELSE IF ~(GemLinksOk(body)) THEN "GemLinkLines"
        ELSE IF ~(\A i \in 1..n : Es[i].type # "i" => (StartsWith(body[i].url, QueryPrefix \o "/") = (Es[i].type = "7"))) THEN "GemPrompt"
        ELSE IF ~(tail = GemTail) THEN "GemFooter"
        ELSE "ok")
MenuDrift(e) ==
    CASE e.front = "W" -> Drift(e.rows = WapDeckRows(Es), "WAP rows differ from WapDeckRows")
      [] e.front = "H" -> Drift(e.rows = [i \in 1..Len(Es) |-> HttpRow(Es[i])], "HTTP rows differ from HttpRow")
      [] e.front = "M" -> Drift(e.rows = GemMenu(Es), "Gemini lines differ from GemMenu")
\* every IMG SRC of the listing is served: an image of the announced size, the pinned bytes
IconRefJudge(e) ==
    LET nm == From(e.src, Len(IconPrefix) + 1) IN
    (IF ~(e.escaped = "") THEN "NoEscape"
        ELSE IF ~(e.status = 200 /\ IsImage(e.ctype) /\ e.nbody > 0) THEN "IconServed"
        ELSE IF ~(GifOk(e) /\ e.w = e.tagw /\ e.h = e.tagh) THEN "IconDims"
        ELSE IF ~(StartsWith(e.src, IconPrefix) /\ e.digest = IconDigest(nm)) THEN "IconBytes"
        ELSE "ok")

(* ---- search ---------------------------------------------------------------------------- *)
Q == IF C.q = NoQuery THEN "" ELSE C.q
ItemHref == Target(C.front, SearchItem(C)).href
DlgReq(step) ==
    IF C.front # "M" THEN Follow(C.front, ItemHref, Q)
    ELSE IF step = 1 THEN Follow("M", ItemHref, "")
    ELSE IF step = 2 THEN Follow("M", ItemHref, Q)
    ELSE Rq("gemini://" \o ServerName \o RefPath(ItemHref, Ev[2].loc) \o cCRLF, "", TRUE)      \* the redirect the server sent
DlgJudge(e) ==
    (IF ~(e.step = l /\ e.line = DlgReq(e.step).line /\ e.rest = DlgReq(e.step).rest /\ e.tls = DlgReq(e.step).tls) THEN "ClientMismatch"
        ELSE IF ~(e.escaped = "") THEN "NoEscape"
        ELSE IF ~((C.front = "M") => (e.crlf /\ (e.status \notin 20..29 => e.nbody = 0))) THEN "GemHeader"
        ELSE IF ~((C.front = "M" /\ e.step = 1) => (e.status = 10 /\ e.meta # "" /\ e.by = "")) THEN "GemPrompt"
        ELSE IF ~((C.front = "M" /\ e.step = 2) => (e.status = 30 /\ e.loc # "")) THEN "GemSearchArrives"
        ELSE IF ~((C.front = "M" /\ e.step = 3) => (e.status = 20 /\ ~e.gotnone /\ e.got = C.q /\ e.logsel = SlashNorm(C.sel))) THEN "GemSearchArrives"
        ELSE IF ~((C.front # "M") => (e.cls = "ok" /\ e.logsel = SlashNorm(C.sel) /\ e.got = Q /\ (e.gotnone = (C.q = NoQuery)))) THEN "SearchArrives"
        ELSE "ok")
DlgDrift(e) ==
    /\ Drift((C.front = "M" /\ e.step = 1) => e.meta = GemPromptText, "prompt text")
    /\ Drift((C.front = "M" /\ e.step = 2) => e.loc = GemRoute(DlgReq(2).line).loc, "redirect differs from GemRoute")

(* ---- wapdoc ---------------------------------------------------------------------------- *)
LastSeg(sel) == LET ps == {i \in 1..Len(sel) : Ch(sel, i) = "/"} IN From(sel, (CHOOSE i \in ps : \A j \in ps : j <= i) + 1)
WapDocJudge(e) ==
    LET p == WapDocPath(C)
        below == C.suffix = "" \/ Ch(C.suffix, 1) \in {"/", "?"}
        sel == SlashNorm(PctUnquote(Split(C.suffix, "?")[1]))
        r == WebServe(sel, "default")
        get == C.method = "GET"
        wml == e.ctype = WmlType
    IN (IF ~(e.path = p /\ e.method = C.method) THEN "ClientMismatch"
        ELSE IF ~(e.escaped = "") THEN "NoEscape"
        ELSE IF ~(below = (e.proto = "WAPProtocol")) THEN "WapPrefix"
        ELSE IF ~(~below => (e.status = 404 /\ ~wml)) THEN "WapPrefix"
        ELSE IF ~(~get => e.nbody = 0) THEN "WapHead"
        ELSE IF ~((wml /\ get) => WmlWellFormedOk(e.deck)) THEN "WmlWellFormed"
        ELSE IF ~((wml /\ get) => WmlNestingOk(e.deck)) THEN "WmlNesting"
        ELSE IF ~((below /\ ~r.ok) => (e.cls = "notfound" /\ wml)) THEN "WapErrorCard"
        ELSE IF ~((below /\ ~r.ok /\ get) => e.deck.cards[1].title = "404 Error") THEN "WapErrorCard"
        ELSE IF ~((below /\ r.ok) => e.cls = "ok") THEN "WapPrefix"
        ELSE IF ~((below /\ r.ok /\ get) => (e.obj = r.obj /\ e.id = r.id)) THEN "WapPrefix"
        ELSE IF ~((below /\ r.ok /\ get /\ r.obj = "menu") => (wml /\ WapPrefixOk(e.rows) /\ AccessKeysOk(e.rows) /\ SearchCardOk(e.rows))) THEN "WapPrefix"
        ELSE IF ~((below /\ r.ok /\ get /\ r.obj = "menu") =>
                  (e.deck.cards[1].title = WapTitleOf(LastSeg(sel)) /\ e.deck.heading = WapTitleOf(LastSeg(sel)))) THEN "WapTitle"
        ELSE "ok")
WapDocDrift(e) ==
    LET below == C.suffix = "" \/ Ch(C.suffix, 1) \in {"/", "?"} IN
    /\ Drift((below /\ e.logsel # "") => e.logsel = WapSel(WapDocPath(C)), "selector differs from WapSel")
    /\ Drift((below /\ e.cls = "notfound") => e.status = 200, "WapStatus200: error card no longer sent with status 200")

(* ---- gem ------------------------------------------------------------------------------- *)
GemJudge(e) ==
    LET rt == GemRoute(C.url \o cCRLF)
        r == IF rt.kind = "serve" THEN WebServe(rt.sel, "default") ELSE WebMiss
    IN (IF ~(e.url = C.url) THEN "ClientMismatch"
        ELSE IF ~(e.escaped = "") THEN "NoEscape"
        ELSE IF ~(e.crlf /\ e.status \in 10..69 /\ (e.status \notin 20..29 => e.nbody = 0)) THEN "GemHeader"
        ELSE IF ~(e.reqlen <= 1024 => e.metalen <= 1024) THEN "GemMetaLimit"
        ELSE IF ~(rt.kind = "bad" => e.status = 59) THEN "GemBadRequest"
        ELSE IF ~(rt.kind = "prompt" => (e.status = 10 /\ e.meta # "" /\ e.by = "")) THEN "GemPrompt"
        ELSE IF ~((rt.kind = "serve" /\ ~r.ok) => e.status = 51) THEN "GemNotFound"
        ELSE IF ~((rt.kind = "serve" /\ r.ok) => e.status = 20) THEN "GemServes"
        ELSE IF ~((rt.kind = "serve" /\ r.ok) => (e.obj = r.obj /\ e.id = r.id)) THEN "GemServes"
        ELSE IF ~((rt.kind = "serve" /\ r.ok) => e.meta = GemMeta(e.gmime)) THEN "GemSuccessMime"
        ELSE "ok")
GemDrift(e) == LET rt == GemRoute(C.url \o cCRLF) IN
    /\ Drift((rt.kind = "serve" /\ e.logsel # "") => e.logsel = rt.sel, "selector differs from GemRoute")
    /\ Drift(rt.kind = "redirect" => (e.status = 30 /\ e.meta = rt.loc), "redirect differs from GemRoute")

(* ---- sel ------------------------------------------------------------------------------- *)
S == SlashNorm(C.sel)
InTree == S \in TreeFiles \cup TreeDirs
IsUrlCase == UrlCan(S) /\ UrlSecure(S)
RwCase == C.hl = "full" /\ ~InTree /\ ~UrlCan(S) /\ WebSecure(S) /\ RwCan(S)
SelReq(sel) == IF C.front = "G" THEN sel ELSE WebRef(C.front, sel)
PageOk(e) ==
    /\ e.page.refresh \in 0..UrlRefreshMax
    /\ SlashLess(e.page.target) = SlashLess(UrlTarget(C.sel))
    /\ Len(e.page.hrefs) >= 1 /\ \A i \in 1..Len(e.page.hrefs) : SlashLess(e.page.hrefs[i]) = SlashLess(UrlTarget(C.sel))
    /\ \A i \in 1..Len(e.page.tags) : e.page.tags[i] \notin UrlForbiddenTags
    /\ (C.front # "G" => e.ctype = "text/html")
FetchJudge(e) ==
    IF e.role = "inner"
    THEN (IF ~(e.req = SelReq(From(S, 3)) /\ RwCan(S) /\ e.hl = "norw") THEN "ClientMismatch"
        ELSE IF ~(e.escaped = "") THEN "NoEscape"
        ELSE "ok")
    ELSE (IF ~(e.req = SelReq(C.sel) /\ e.front = C.front /\ e.hl = C.hl) THEN "ClientMismatch"
        ELSE IF ~(e.escaped = "") THEN "NoEscape"
        ELSE IF ~(IsUrlCase => (e.cls = "ok" /\ e.obj = "url")) THEN "UrlRedirectPage"
        ELSE IF ~(IsUrlCase => PageOk(e)) THEN "UrlRedirectPage"
        ELSE IF ~(~IsUrlCase => e.obj # "url") THEN "UrlOnlyUrls"
        ELSE IF ~((~IsUrlCase /\ InTree) => (e.cls = "ok" /\ e.id = S)) THEN "ServesItself"
        ELSE IF ~((C.hl = "default" /\ ~InTree /\ ~IsUrlCase) => e.cls = "notfound") THEN "RewriteOff"
        ELSE IF ~(RwCase => mem.has) THEN "ClientMismatch"
        ELSE IF ~(RwCase => (e.cls = mem.cls /\ e.obj = mem.obj /\ e.id = mem.id)) THEN "RewriteSame"
        ELSE IF ~((~InTree /\ ~IsUrlCase /\ ~RwCan(S)) => e.cls = "notfound") THEN "RewriteOnce"
        ELSE "ok")
FetchDrift(e) ==
    LET r == WebServe(S, C.hl) IN
    /\ Drift(e.role = "subject" => ((e.cls = "ok") = r.ok /\ (r.ok => (e.obj = r.obj /\ SlashLess(e.id) = SlashLess(r.id)))),
             "response differs from WebServe")
    /\ Drift((e.role = "subject" /\ IsUrlCase) => e.page.refresh = 5, "refresh delay")

(* ---- the run --------------------------------------------------------------------------- *)
Matches(e) == \/ F = "icon" /\ e.ev = "icon"
              \/ F = "menu" /\ e.ev \in {"menu", "iconref"}
              \/ F = "search" /\ e.ev = "dlg"
              \/ F = "wapdoc" /\ e.ev = "wapdoc"
              \/ F = "gem" /\ e.ev = "gem"
              \/ F = "sel" /\ e.ev = "fetch"
\* a trace must contain the events its family needs (a dropped event is a machinery failure, not a pass)
Complete ==
    CASE F = "menu"   -> Len(Ev) >= 3 /\ Ev[1].front = "W" /\ Ev[2].front = "H" /\ Ev[3].front = "M"
                         /\ Len(Ev) = 3 + Len(Ev[2].srcs) /\ \A i \in 1..Len(Ev[2].srcs) : Ev[3 + i].ev = "iconref" /\ Ev[3 + i].src = Ev[2].srcs[i]
      [] F = "search" -> Len(Ev) = (IF C.front = "M" THEN (IF C.q = NoQuery THEN 1 ELSE 3) ELSE 1)
      [] F = "sel"    -> Len(Ev) = (IF RwCase THEN 2 ELSE 1) /\ Ev[Len(Ev)].role = "subject"
      [] OTHER        -> Len(Ev) = 1
JudgeEv(e) ==
    CASE e.ev = "icon"    -> IconJudge(e)
      [] e.ev = "menu"    -> (CASE e.front = "W" -> WapMenuJudge(e) [] e.front = "H" -> HttpMenuJudge(e)
                                [] e.front = "M" -> GemMenuJudge(e) [] OTHER -> "unmatched")
      [] e.ev = "iconref" -> IconRefJudge(e)
      [] e.ev = "dlg"     -> DlgJudge(e)
      [] e.ev = "wapdoc"  -> WapDocJudge(e)
      [] e.ev = "gem"     -> GemJudge(e)
      [] e.ev = "fetch"   -> FetchJudge(e)
DriftEv(e) ==
    CASE e.ev = "icon"    -> IconDrift(e)
      [] e.ev = "menu"    -> MenuDrift(e)
      [] e.ev = "iconref" -> TRUE
      [] e.ev = "dlg"     -> DlgDrift(e)
      [] e.ev = "wapdoc"  -> WapDocDrift(e)
      [] e.ev = "gem"     -> GemDrift(e)
      [] e.ev = "fetch"   -> FetchDrift(e)
Consume ==
    /\ l <= Len(Ev) /\ verdict = "ok"
    /\ l' = l + 1 /\ UNCHANGED tid
    /\ LET e == Ev[l] IN
       IF ~Matches(e) THEN verdict' = "unmatched" /\ UNCHANGED mem
       ELSE IF ~Complete THEN verdict' = "Incomplete" /\ UNCHANGED mem
       ELSE /\ verdict' = JudgeEv(e)
            /\ mem' = (IF e.ev = "fetch" /\ e.role = "inner"
                       THEN [has |-> TRUE, cls |-> e.cls, obj |-> e.obj, id |-> e.id, srcs |-> <<>>] ELSE mem)
            /\ (IF verdict' = "ok" THEN DriftEv(e) ELSE TRUE)

TSpec == TInit /\ [][Consume]_tvars
Record == RecordVerdict(tid, l, verdict, Len(Ev))
Post == WriteVerdicts
=============================================================================
