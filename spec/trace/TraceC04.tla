------------------------------ MODULE TraceC04 ------------------------------
(* Trace specification for C04.  One trace = one real file (init: size, content as lines of *)
(* runs of byte classes, the row of the configured MIME tables for its name, handler list,  *)
(* configured decompressors) and one request family; its events are the fetches made (GET,  *)
(* then HEAD for the HTTP-shaped families).  alpha supplies per fetch: status class,        *)
(* advertised type, Gopher+ length, number of body bytes, whether the body equals the file  *)
(* (the decompressed content where a decompressor is configured), the header block, and for *)
(* WML replies the converted text lexed back into lines of runs of classes / entities.      *)
(*                                                                                          *)
(* A `prior` event records that another name was fetched or listed before in the SAME server   *)
(* process; it is not judged - the clauses below judge the fetch that follows against the      *)
(* row of the tables alone, so a type that depends on the history fails TypeTruthful.          *)
(* Property level (VIOLATION):                                                              *)
(*   Delivered         a complete reply with an OK status came back                          *)
(*   TypeTruthful      the advertised type is Deliver!TableMime(row) after the protocol's    *)
(*                     documented adjustment (WAP: text/plain -> WML)                        *)
(*   LenTruthful       Gopher+: the stated length is the number of body bytes (or "unknown"  *)
(*                     where the length cannot be known: decompression)                      *)
(*   BodyExact         the body is the file's bytes (no conversion applies)                  *)
(*   WmlInvertible     WAP text: one output line per input line, the inverse conversion      *)
(*                     gives back every line up to trailing white space; no raw markup       *)
(*   HeadNoBody / HeadIsGetHeaders   HEAD = the GET headers and nothing else                 *)
(* Design level (DRIFT): the header block has the shape Deliver!Headers predicts.            *)
EXTENDS Deliver, TraceBase

VARIABLES tid, l, verdict, lastget
tvars == <<tid, l, verdict, lastget>>

Ev == Traces[tid].events
I == Traces[tid].init
Decs == {I.decs[j] : j \in 1..Len(I.decs)}
IsDec == Decompresses(I.row, Decs)
Want == TableMime(I.row, Decs)

TInit == tid \in 1..NTraces /\ l = 1 /\ verdict = "ok" /\ lastget = <<>>

JudgeGet(e) ==
    IF e.st # "ok" THEN "Delivered"
    ELSE IF Advertises(e.p) /\ e.mime # Adjust(e.p, Want) THEN "TypeTruthful"
    ELSE IF e.p = "GP" /\ ~(e.len = e.blen \/ (IsDec /\ e.len = 0 - 2)) THEN "LenTruthful"
    ELSE IF ~Converts(e.p, Want) /\ ~e.eq THEN "BodyExact"
    ELSE IF Converts(e.p, Want) /\ ~(WmlInvertible(I.lines, e.wml) /\ WmlClean(e.wml)) THEN "WmlInvertible"
    ELSE "ok"

JudgeHead(e) ==
    IF e.st # "ok" THEN "Delivered"
    ELSE IF e.blen # 0 THEN "HeadNoBody"
    ELSE IF e.headers # lastget THEN "HeadIsGetHeaders"
    ELSE "ok"

Shape(e) == Len(e.hnames) = Len(Headers(e.p, EntryOf(I.row, 0)))

Consume ==
    /\ l <= Len(Ev) /\ verdict = "ok"
    /\ l' = l + 1 /\ UNCHANGED tid
    /\ LET e == Ev[l] IN
       IF e.ev = "prior" THEN verdict' = "ok" /\ UNCHANGED lastget        \* another name served before, same process
       ELSE IF e.ev # "fetch" THEN verdict' = "unmatched" /\ UNCHANGED lastget
       ELSE IF e.method = "GET"
       THEN /\ verdict' = JudgeGet(e) /\ lastget' = e.headers
            /\ (IF e.st # "ok" \/ Shape(e) THEN TRUE ELSE RecordDrift(tid, l, "header block shape"))
       ELSE verdict' = JudgeHead(e) /\ UNCHANGED lastget

TSpec == TInit /\ [][Consume]_tvars
Record == RecordVerdict(tid, l, verdict, Len(Ev))
Post == WriteVerdicts
=============================================================================
