SPECIFICATION TSpec
CONSTANTS
  IgnorePatterns <- DataIgnorePatterns
  EaExts <- DataEaExts
  SkipUnservable = TRUE
  SortedLinks = TRUE
  DotRuleAll = TRUE
CONSTRAINT Record
POSTCONDITION Post
CHECK_DEADLOCK FALSE
