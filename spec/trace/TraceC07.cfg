SPECIFICATION TSpec
CONSTANTS
  IgnorePatterns <- DataIgnorePatterns
  EaExts <- DataEaExts
  SkipUnservable = TRUE
  SortedEnum = TRUE
  DotRuleAll = TRUE
CONSTRAINT Record
POSTCONDITION Post
CHECK_DEADLOCK FALSE
