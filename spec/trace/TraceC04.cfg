SPECIFICATION TSpec
CONSTRAINT Record
POSTCONDITION Post
CHECK_DEADLOCK FALSE
