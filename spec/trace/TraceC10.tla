------------------------------ MODULE TraceC10 ------------------------------
(* Trace specification for C10 and C11: a recorded history of directory mutations, clock   *)
(* advances, cache damage and listing requests against the REAL server is replayed against *)
(* the environment actions of Cache; each request event is judged by the property clauses. *)
(*                                                                                          *)
(* A request event carries what alpha observed: the listing (as [n, v, mt] entries),        *)
(* whether the directory was enumerated during the request (`listed`: it was regenerated,  *)
(* not served from the cache), whether the cache file changed (`rewritten`), and whether a *)
(* complete well-formed response came back (`ok`).                                          *)
(*                                                                                          *)
(* Property level (VIOLATION):                                                              *)
(*   Answered      a complete, well-formed listing came back                       [C11]   *)
(*   Faithful      the listing is the rendering of SOME directory value (no entry dropped, *)
(*                 duplicated, or carrying another protocol's MIME rewrite)         [C10]   *)
(*   Transparent   served without enumerating => equals what was written to the cache      *)
(*   NeverStale    reflects the directory as it was at most the lifetime ago                *)
(*   ExpiredUsed   served without enumerating => the entry is not older than the lifetime   *)
(*   ZeroMeansLive lifetime 0 => reflects the directory as it is now                        *)
(*   NoRefresh     served without enumerating => the cache file was not touched             *)
(*   Harmless      the cache file is damaged => the listing reflects the directory now [C11]*)
(* Design level (DRIFT): hit/miss and rewrite decisions are exactly those of module Cache. *)
EXTENDS Cache, TraceBase

VARIABLES tid, l, verdict
tvars == <<cvars, tid, l, verdict>>

Ev == Traces[tid].events
NameOrder == <<"a", "b">>

TInit ==
    /\ tid \in 1..NTraces /\ l = 1 /\ verdict = "ok"
    /\ dir = Traces[tid].init.dir
    /\ hist = <<[t |-> 0, d |-> dir]>>
    /\ clock = 0 /\ T = Traces[tid].init.T /\ file = NoFile
    /\ pc = [w \in Workers |-> "idle"]
    /\ mem = [w \in Workers |-> [d |-> dir, leak |-> FALSE]]
    /\ req = [w \in Workers |-> "G"] /\ started = [w \in Workers |-> 0]
    /\ out = [w \in Workers |-> NoOut] /\ wpos = [w \in Workers |-> 0]

\* the rendering of a directory value through protocol p, as alpha abstracts it
\* (sz: the size the Gopher+ attribute listing states: every file of the universe is below 1 KB,
\* file b is EMPTY - a set-but-falsy field must survive the cache like any other)
ViewOf(p, d) ==
    LET present == SelectSeq(NameOrder, LAMBDA n : d[n] # "absent") IN
    [i \in 1..Len(present) |-> [n |-> present[i], v |-> d[present[i]],
                                mt |-> IF p = "H" THEN "plain" ELSE "na",
                                sz |-> IF p = "GD" THEN "0k" ELSE "na"]]
    \o <<[n |-> "s", v |-> "none", mt |-> IF p = "H" THEN "gopher-menu" ELSE "na",
          sz |-> IF p = "GD" THEN "none" ELSE "na"]>>

Dirs == [Names -> Versions]
Matching(p, view) == {d \in Dirs : ViewOf(p, d) = view}

Payload == file.chunks[1].d
FullFile(d, at) == [exists |-> TRUE, mtime |-> at, zero |-> FALSE,
                    chunks |-> [i \in 1..Full |-> [d |-> d, k |-> i, leak |-> FALSE]]]

Judge(e) ==
    IF ~e.ok THEN "Answered"
    \* the cache file's times moved although nobody wrote it: its age was refreshed (any request, HEAD included)
    ELSE IF e.touched THEN "NoRefresh"
    ELSE IF e.p = "HH" THEN "ok"              \* HEAD: no listing to judge
    ELSE IF Matching(e.p, e.view) = {} THEN "Faithful"
    ELSE LET d == CHOOSE x \in Matching(e.p, e.view) : TRUE IN
         IF ~e.listed /\ ~(Complete(file) /\ d = Payload) THEN "Transparent"
         ELSE IF ~ReflectsRecent(hist, d, clock, clock, T) THEN "NeverStale"
         ELSE IF ~e.listed /\ clock - file.mtime > T THEN "ExpiredUsed"
         ELSE IF T = 0 /\ d # dir THEN "ZeroMeansLive"
         ELSE IF ~e.listed /\ e.rewritten THEN "NoRefresh"
         ELSE IF ~Complete(file) /\ file.exists /\ d # dir THEN "Harmless"
         ELSE "ok"

ModelHit == file.exists /\ Fresh(clock, file.mtime, T) /\ Complete(file)

Request(e) ==
    /\ verdict' = Judge(e)
    /\ file' = IF e.rewritten
               THEN FullFile(IF e.listed \/ ~Complete(file) THEN dir ELSE Payload, clock)
               ELSE file
    /\ IF (ModelHit = ~e.listed) /\ (e.rewritten = (e.listed /\ e.p # "HH")) THEN TRUE
       ELSE RecordDrift(tid, l, "hit/miss or rewrite decision")
    /\ UNCHANGED <<dir, hist, clock, T, pc, mem, req, started, out, wpos>>

Known == {"create", "delete", "rename", "editmeta", "tick", "cut", "zero", "request"}

Enabled(e) ==
    CASE e.ev = "create"   -> dir[e.n] = "absent"
      [] e.ev = "delete"   -> dir[e.n] # "absent"
      [] e.ev = "rename"   -> e.n # e.m /\ dir[e.n] # "absent" /\ dir[e.m] = "absent"
      [] e.ev = "editmeta" -> dir[e.n] # "absent"
      [] e.ev = "cut"      -> file.exists /\ e.keep < Len(file.chunks)
      [] e.ev = "zero"     -> file.exists
      [] OTHER -> TRUE

Apply(e) ==
    CASE e.ev = "create"   -> Create(e.n) /\ verdict' = "ok"
      [] e.ev = "delete"   -> Delete(e.n) /\ verdict' = "ok"
      [] e.ev = "rename"   -> Rename(e.n, e.m) /\ verdict' = "ok"
      [] e.ev = "editmeta" -> EditMeta(e.n) /\ verdict' = "ok"
      [] e.ev = "tick"     -> Tick(e.d) /\ verdict' = "ok"
      [] e.ev = "cut"      -> Cut(e.keep) /\ verdict' = "ok"
      [] e.ev = "zero"     -> (IF file.zero THEN UNCHANGED cvars ELSE Zero) /\ verdict' = "ok"
      [] e.ev = "request"  -> Request(e)

Consume ==
    /\ l <= Len(Ev) /\ verdict = "ok"
    /\ l' = l + 1 /\ UNCHANGED tid
    /\ LET e == Ev[l] IN
       IF e.ev \notin Known \/ ~Enabled(e)
       THEN UNCHANGED cvars /\ verdict' = "unmatched"
       ELSE Apply(e)

TSpec == TInit /\ [][Consume]_tvars
Record == RecordVerdict(tid, l, verdict, Len(Ev))
Post == WriteVerdicts
=============================================================================
