----------------------------- MODULE TraceXCONF -----------------------------
(* Trace specification for XCONF: replays the environment calls the REAL initialize() made  *)
(* for one option table (recorded through substituted open / os / socket / ssl / signal      *)
(* entry points in a forked child) and what the built server looks like, against Config.     *)
(* Property level: the clauses of Config (StepClauses before every event, StateClauses       *)
(* after it; no defect is excused here).  Design level (drift only): the calls are exactly   *)
(* Config!Run(cfg, fault) and the built server is Config!CodedObs(cfg).                      *)
EXTENDS Config, TraceBase

VARIABLES tid, l, verdict
tvars == <<vars, tid, l, verdict>>

Ev == Traces[tid].events
Fault == Traces[tid].init.fault

TInit == /\ tid \in 1..NTraces /\ l = 1 /\ verdict = "ok"
         /\ InitWith(Traces[tid].init.cfg)

\* JSON lists -> sets
ObsOf(o) == [cls |-> o.cls, name |-> o.name, sport |-> o.sport, cfgsame |-> o.cfgsame, ctx |-> o.ctx, timeo |-> o.timeo,
             enc |-> Range(o.enc), encEff |-> Range(o.encEff), types |-> Range(o.types), tb |-> o.tb]
Norm(e) == IF e.ev = "serve"
           THEN [ev |-> e.ev, ok |-> e.ok, host |-> e.host, port |-> e.port, which |-> e.which, obs |-> ObsOf(e.obs)]
           ELSE [ev |-> e.ev, ok |-> e.ok, host |-> e.host, port |-> e.port, which |-> e.which]

SameCall(e, m) == e.ev = m.ev /\ e.ok = m.ok /\ e.host = m.host /\ e.port = m.port /\ e.which = m.which
DesignOk(e) ==
    LET run == Run(cfg, Fault) IN
    IF e.ev \in {"serve", "abort"}
    THEN /\ l = Len(run) + 1 /\ e.ev = Ends(cfg, Fault)
         /\ (e.ev = "serve" => e.obs = CodedObs(cfg))
    ELSE l <= Len(run) /\ SameCall(e, run[l])

Consume ==
    /\ l <= Len(Ev) /\ verdict = "ok"
    /\ l' = l + 1 /\ UNCHANGED tid
    /\ LET e == Norm(Ev[l]) IN
       IF e.ev \notin Known
       THEN UNCHANGED vars /\ verdict' = "unmatched"
       ELSE IF phase # "starting"
       THEN UNCHANGED vars /\ verdict' = "EventAfterEnd"
       ELSE /\ Do(e)
            /\ verdict' = (IF StepClauses(e) # "ok" THEN StepClauses(e) ELSE StateClauses(FALSE)')
            /\ (IF DesignOk(e) THEN TRUE ELSE RecordDrift(tid, l, e.ev))

TNext == Consume
TSpec == TInit /\ [][TNext]_tvars

Record == RecordVerdict(tid, l, verdict, Len(Ev))
Post == WriteVerdicts
=============================================================================
