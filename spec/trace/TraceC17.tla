------------------------------ MODULE TraceC17 ------------------------------
(* Trace specification for C17 (and base of TraceC18).  One trace = one template of the      *)
(* bounded grammar compiled by the REAL compiler and expanded by the REAL interpreter:       *)
(*   init   the case (tree, context, allowPythonPath), the real command list / symbol table  *)
(*          / macro table (abstracted), the Context snapshot before                          *)
(*   events one record per executed opcode handler, logged by the tracing interpreter:       *)
(*          <<pc, opcode, pc', |scopeStack|, outputTag, movePCForward, movePCBack,            *)
(*            hasContent, localVarsDefined, |localStack|, |repeatStack|, |out|, |programStack|>> *)
(*          (opcode 0 = pushProgram)                                                          *)
(*   final  the document (raw and re-serialised from an independent tokenizer), whether an    *)
(*          exception escaped, the Context snapshot after                                     *)
(* Property level (VIOLATION), judged when the trace ends:                                    *)
(*   Compiles        the real compiler accepted the (well-formed) template                    *)
(*   WellFormedProg  real program: scopes balanced, every jump target / macro / slot range is *)
(*                   the end of the element that owns it                                      *)
(*   Terminates      the interpreter stopped within the step budget                           *)
(*   Completes       no exception escaped expand()                                            *)
(*   Refines         the document is the one TALSem (Appendix E.4) prescribes                 *)
(* Design level (DRIFT): the real program equals TALCompile's, every opcode event is the      *)
(* step TALVM takes, and TALVM's output is the document.                                      *)
EXTENDS TALVM, TraceBase

VARIABLES tid, l, verdict, drifted, loaded
tvars == <<st, prog, sym, macros, tid, l, verdict, drifted, loaded>>

Sem == INSTANCE TALSem
CtxTable == JsonDeserialize("c17_ctx.json")        \* named contexts (extra file written by the harness)

TI == Traces[tid].init
Evs == Traces[tid].events
Fin == Traces[tid].final
NEv == Len(Evs) + 1                                 \* the final record is consumed as the last event

CtxEnts(i) == (IF i.ctx.id \in DOMAIN CtxTable THEN CtxTable[i.ctx.id] ELSE <<>>) \o i.ctx.ents
G0 == Sem!GlobalsOf(CtxEnts(TI), TI.tree)
Ref == Sem!Expand(TI.tree, G0, TI.py)
RefDoc == Sem!Doc(Ref.t)

RealSym == [x \in {TI.symt[i].s : i \in DOMAIN TI.symt} |-> TI.symt[CHOOSE i \in DOMAIN TI.symt : TI.symt[i].s = x].at]

\* (the program is compiled in an action, not in the initial predicate: TLC computes initial states
\* on its main thread, whose stack is too small for the nested compile states of larger templates)
TInit == /\ tid \in 1..NTraces /\ l = 1 /\ verdict = "ok" /\ drifted = FALSE /\ loaded = FALSE
         /\ prog = <<>> /\ sym = [x \in {} |-> 0] /\ macros = <<>> /\ st = VMInit(EmptyF, FALSE, 0)
Load == /\ ~loaded /\ loaded' = TRUE
        /\ LET c == Compile(TI.tree) IN
           /\ prog' = c.cmds /\ sym' = c.sym /\ macros' = c.macros
           /\ st' = VMInit(G0, TI.py, Len(c.cmds))
        /\ UNCHANGED <<tid, l, verdict, drifted>>

\* ---- design level: one opcode event = one step of TALVM ----------------------------------------------------
AtSubEnd(s) == s.err = "" /\ ~s.ret /\ s.pc >= s.plen /\ s.ps # <<>>
\* the handler whose completion the event reports: an inner execute() that ran off its end returns into
\* the pending cmdEndTagEndScope, which then completes
ModelStep(s) == IF AtSubEnd(s) THEN EndTail(DoReturn(s), prog[DoReturn(s).pc + 1]) ELSE StepOf(s)
PcBefore(s) == IF AtSubEnd(s) THEN Top(s.ps).pc ELSE s.pc
\* a logged register -1 = the harness could not read that internal (renamed / removed by a refactoring): unknown
Obs(x, y) == x = 0 - 1 \/ x = y
Agrees(e, s0, s1) ==
    /\ s0.err = "" /\ (AtSubEnd(s0) \/ s0.pc < s0.plen)
    /\ Obs(e[1], PcBefore(s0))
    /\ (e[2] = 0 \/ e[2] = prog[PcBefore(s0) + 1].op)
    /\ (e[2] = 0) = (~AtSubEnd(s0) /\ prog[s0.pc + 1].op = TAL_ENDTAG_ENDSCOPE /\ ExpandsInline(s0))
    /\ s1.err = ""
    /\ (e[2] # 0 => Obs(e[3], s1.pc) /\ Obs(e[4], Len(s1.ss)) /\ Obs(e[5], s1.ot) /\ e[6] = s1.mf /\ e[7] = s1.mb
                    /\ Obs(e[8], B2N(s1.tc.on)) /\ Obs(e[9], s1.lvd))
    /\ Obs(e[10], Len(s1.ls)) /\ Obs(e[11], Len(s1.rs)) /\ Obs(e[12], Len(s1.out)) /\ Obs(e[13], Len(s1.ps))

OpEvent ==
    /\ l <= Len(Evs)
    /\ verdict' = "ok"
    /\ IF drifted THEN UNCHANGED <<st, drifted>>
       ELSE LET s1 == ModelStep(st) IN
            IF Agrees(Evs[l], st, s1) THEN st' = s1 /\ UNCHANGED drifted
            ELSE /\ drifted' = TRUE /\ UNCHANGED st
                 /\ RecordDrift(tid, l, "opcode step differs from TALVM")

\* ---- property level -------------------------------------------------------------------------------------------
Judge17(f) ==
    IF ~TI.compiled THEN "Compiles"
    ELSE IF ~WellFormedProg(TI.prog, RealSym, TI.macros) THEN "WellFormedProg"
    ELSE IF f.raised = "StepBudget" THEN "Terminates"
    ELSE IF f.raised # "" THEN "Completes"
    ELSE IF f.doc # RefDoc /\ f.cdoc # RefDoc THEN "Refines"
    ELSE "ok"

FinalDrift(f) ==
    /\ (IF TI.kind = "direct" /\ TI.compiled /\ (TI.prog # prog \/ RealSym # sym \/ TI.macros # macros)
        THEN RecordDrift(tid, l, "compiled program differs from TALCompile") ELSE TRUE)
    /\ (IF TI.kind = "direct" /\ ~drifted /\ f.raised # "" /\ (Halted(st) \/ ModelStep(st).err = "")
        THEN RecordDrift(tid, l, "TALVM does not predict the exception") ELSE TRUE)
    /\ (IF TI.kind = "direct" /\ ~drifted /\ f.raised = "" /\ ~(Halted(st) /\ st.err = "" /\ st.out = f.doc)
        THEN RecordDrift(tid, l, "TALVM does not halt with the document") ELSE TRUE)

FinalEvent(Judge(_)) ==
    /\ l = Len(Evs) + 1
    /\ verdict' = Judge(Fin)
    /\ FinalDrift(Fin)
    /\ UNCHANGED <<st, drifted>>

Consume(Judge(_)) ==
    /\ loaded /\ l <= NEv /\ verdict = "ok"
    /\ l' = l + 1 /\ UNCHANGED <<tid, prog, sym, macros, loaded>>
    /\ (OpEvent \/ FinalEvent(Judge))

TNext == Load \/ Consume(Judge17)
TSpec == TInit /\ [][TNext]_tvars
Record == RecordVerdict(tid, l, verdict, NEv)
Post == WriteVerdicts
=============================================================================
