------------------------------ MODULE TraceXtalx ------------------------------
(* Trace specification of the XML-template part of XTALX (extends TraceC17: same opcode events,   *)
(* same replay against TALVM for DRIFT; the program is TALXml!XCompile of the tree).  One trace =   *)
(* one case of MC_XTALX rendered as XML text under its prefix binding, compiled by the REAL         *)
(* compileXMLTemplate and expanded (1) under the tracing interpreter without preamble -> events,     *)
(* final.doc and (2) by the REAL XMLTemplate.expand into a bytes file with (enc, sup, dt) ->          *)
(* final.decl (first line if it is an XML declaration), final.dtl (doctype line), final.cdoc (body,   *)
(* re-serialised by an independent tokenizer with <a/> written <a></a>), final.decodes (the bytes      *)
(* decode in the requested encoding), final.wf (an XML parser accepts the whole output).               *)
(* Property level: Compiles, WellFormedProg, Terminates, Completes, Encodes, XmlDeclaration, Doctype,   *)
(* WellFormedOut, Refines.  kind "mx" (simpleTALUtils.ExpandMacros): MacroExpandCompletes,              *)
(* MacroExpandWellFormed (the expansion of a well-formed XML template is well-formed XML),              *)
(* MacroExpandKeepsTAL (every TAL attribute of the source is still an attribute of the result and       *)
(* every use-macro element is still one: counts recorded by the lexer against TLA+ counts),            *)
(* MacroExpandSingletonEndTag (= not well-formed only because "<a ... /></a>" was written for a          *)
(* TAL-carrying singleton).  kind "tt" (simpleTALUtils.tagAsText): TagAsTextCompletes, TagAsText.         *)
EXTENDS TraceC17, TALXml

XLoad == /\ ~loaded /\ loaded' = TRUE
         /\ LET c == XCompile(TI.tree) IN
            /\ prog' = c.cmds /\ sym' = c.sym /\ macros' = c.macros
            /\ st' = VMInit(G0, FALSE, Len(c.cmds))
         /\ UNCHANGED <<tid, l, verdict, drifted>>

\* number of TAL commands written in a tree / of elements carrying use-macro (for kind mx)
RECURSIVE CountTal(_, _), CountUse(_, _)
CountTal(nodes, i) == IF i > Len(nodes) THEN 0
                      ELSE (IF nodes[i].k = "el"
                            THEN Len(SelectSeq(nodes[i].tal, LAMBDA c : ~IsMetal(c))) + CountTal(nodes[i].kids, 1) ELSE 0)
                           + CountTal(nodes, i + 1)
CountUse(nodes, i) == IF i > Len(nodes) THEN 0
                      ELSE (IF nodes[i].k = "el" THEN B2N(HasCmd(nodes[i], "usemacro")) + CountUse(nodes[i].kids, 1) ELSE 0)
                           + CountUse(nodes, i + 1)

\* does the tree hold an element written <a .../> that carries TAL/METAL commands?
RECURSIVE HasTalSingleton(_, _)
HasTalSingleton(nodes, i) == IF i > Len(nodes) THEN FALSE
                             ELSE (nodes[i].k = "el" /\ ((XSingle(nodes[i]) /\ Len(nodes[i].tal) > 0) \/ HasTalSingleton(nodes[i].kids, 1)))
                                  \/ HasTalSingleton(nodes, i + 1)

\* simpleTALUtils.tagAsText(tag, atts): values that already hold an entity reference (&\S+?;) are copied, others escaped
NoBlank(s) == ~TX!Contains(s, " ")
HasEntity(v) == \E i \in 1..Len(v) : \E j \in (i + 2)..Len(v) : TX!Ch(v, i) = "&" /\ TX!Ch(v, j) = ";" /\ NoBlank(SubSeq(v, i, j))
RECURSIVE TTAtts(_, _)
TTAtts(atts, i) == IF i > Len(atts) THEN ""
                   ELSE " " \o atts[i].n \o "=\"" \o (IF HasEntity(atts[i].v) THEN atts[i].v ELSE EscText(atts[i].v)) \o "\"" \o TTAtts(atts, i + 1)
JudgeTT(f) ==
    LET nd == TI.tree[1] IN
    IF f.raised # "" THEN "TagAsTextCompletes"
    ELSE IF f.doc # "<" \o nd.tag \o TTAtts(nd.atts, 1) \o ">" THEN "TagAsText"
    ELSE "ok"

JudgeMX(f) ==
    IF ~TI.compiled THEN "Compiles"
    ELSE IF f.raised # "" THEN "MacroExpandCompletes"
    ELSE IF ~f.wf /\ f.wfnodup /\ HasTalSingleton(TI.tree, 1) THEN "MacroExpandSingletonEndTag"
    ELSE IF ~f.wf THEN "MacroExpandWellFormed"
    ELSE IF f.nuse # CountUse(TI.tree, 1) \/ f.ntal < CountTal(TI.tree, 1) THEN "MacroExpandKeepsTAL"
    ELSE "ok"

JudgeX(f) ==
    IF TI.kind = "mx" THEN JudgeMX(f)
    ELSE IF TI.kind = "tt" THEN JudgeTT(f)
    ELSE IF ~TI.compiled THEN "Compiles"
    ELSE IF ~WellFormedProg(TI.prog, RealSym, TI.macros) THEN "WellFormedProg"
    ELSE IF f.raised = "StepBudget" THEN "Terminates"
    ELSE IF f.raised # "" THEN "Completes"
    ELSE IF ~f.decodes THEN "Encodes"
    ELSE IF f.decl # XDecl(TI.enc, TI.sup) THEN "XmlDeclaration"
    ELSE IF f.dtl # TI.dt THEN "Doctype"
    ELSE IF ~f.wf THEN "WellFormedOut"
    ELSE IF f.cdoc # RefDoc /\ TI.ns = 4 THEN "OuterPrefixStillBound"     \* XML Namespaces: an inner declaration of another prefix does not unbind the outer one
    ELSE IF f.cdoc # RefDoc THEN "Refines"
    ELSE "ok"

XNext == XLoad \/ Consume(JudgeX)
XSpec == TInit /\ [][XNext]_tvars
=============================================================================
