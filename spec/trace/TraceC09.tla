------------------------------ MODULE TraceC09 ------------------------------
(* Trace specification for C09.  One trace = one gophermap (init.gm, the record TLC          *)
(* enumerated in MC_C09 and the harness wrote to disk) and one "view" event per protocol    *)
(* (init.protos): the listing of the gophermap's selector in that protocol, lexed by alpha   *)
(* into rows [kind, type, name, form, sel, host, port, url].                                 *)
(*                                                                                          *)
(* Property level (VIOLATION), for well-formed gophermaps (DESIGN.md Appendix E.2): every    *)
(* view must be Gophermap!RefEntries line for line (Gophermap!Judge names the first failing *)
(* clause: Answered, LineForLine, InfoIffNoTab, TypeAndDescription,                          *)
(* SelectorDefaultsToDescription, RelativeResolved, SelectorVerbatim,                        *)
(* MissingHostPortMeanThisServer, HostPortVerbatim for the Gopher views;                     *)
(* SameInEveryProtocol for the others), and every protocol of init.protos must be present    *)
(* (MissingView).                                                                            *)
(* Design level (DRIFT): the Gopher view is exactly handlers/gophermap.py as modelled        *)
(* (also for gophermaps outside "well-formed").                                              *)
EXTENDS Gophermap, TraceBase

VARIABLES tid, l, verdict
tvars == <<tid, l, verdict>>

Ev == Traces[tid].events
TheGM == Traces[tid].init.gm
Protos == Traces[tid].init.protos

TInit == tid \in 1..NTraces /\ l = 1 /\ verdict = "ok"

Observed(e) == [ok |-> e.ok, rows |-> e.rows]

Consume ==
    /\ l <= Len(Ev) /\ verdict = "ok"
    /\ l' = l + 1 /\ UNCHANGED tid
    /\ LET e == Ev[l] IN
       IF e.ev # "view" \/ l > Len(Protos) \/ e.p # Protos[l]
       THEN verdict' = (IF e.ev # "view" THEN "unmatched" ELSE "MissingView")
       ELSE /\ verdict' = (IF WellFormed(TheGM) THEN Judge(TheGM, e.p, Observed(e)) ELSE "ok")
            /\ (IF e.p # "G" \/ Observed(e) = ImplGopherView(TheGM) THEN TRUE
                ELSE RecordDrift(tid, l, "Gopher view differs from handlers/gophermap.py as modelled"))

\* every protocol's view must have been recorded
Short == /\ l = Len(Ev) + 1 /\ Len(Ev) < Len(Protos) /\ verdict = "ok"
         /\ verdict' = "MissingView" /\ l' = l + 1 /\ UNCHANGED tid

TNext == Consume \/ Short
TSpec == TInit /\ [][TNext]_tvars

Record == RecordVerdict(tid, l, verdict, IF Len(Ev) < Len(Protos) THEN Len(Ev) + 1 ELSE Len(Ev))
Post == WriteVerdicts
=============================================================================
