SPECIFICATION TSpec
CONSTANTS
  KeyChecked = TRUE
  CompileInPrepare = TRUE
  SizeUnknown = TRUE
  InnerTypeOptional = TRUE
CONSTRAINT Record
POSTCONDITION Post
CHECK_DEADLOCK FALSE
