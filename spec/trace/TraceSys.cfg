SPECIFICATION TSpec
CONSTANTS
  MaxConn = 50
CONSTRAINT Record
POSTCONDITION Post
CHECK_DEADLOCK FALSE
