------------------------------ MODULE TraceC14 ------------------------------
(* Trace specification for C14.  A trace is one concurrent execution of the REAL server:   *)
(*  - B2 executions: real handler threads driven along a TLC-generated schedule by a        *)
(*    cooperative scheduler that grants one environment operation at a time (events         *)
(*    accept / step / tick / resp), or preempted once at a chosen line (lazy tables);       *)
(*  - B3 executions: bursts against real Threading/Forking servers on loopback (events      *)
(*    resp / end).                                                                          *)
(* Property level: Isolated (each client got, byte for byte modulo timestamps, the answer  *)
(* it gets alone, and it is a complete well-formed response), Conservation (every          *)
(* connection answered), AcceptLive (the server accepted and served a further connection   *)
(* while/after the burst; silent clients do not block others), Reaped (no child left).     *)
(* Design level (DRIFT): every granted operation is the step module Cache expects of that  *)
(* worker (Probe/Load/Gen/SaveOpen/SaveWrite), until the first disagreement.               *)
EXTENDS Cache, TraceBase

VARIABLES tid, l, verdict, tracking
tvars == <<cvars, tid, l, verdict, tracking>>
Ev == Traces[tid].events

TInit ==
    /\ tid \in 1..NTraces /\ l = 1 /\ verdict = "ok" /\ tracking = TRUE
    /\ dir = [n \in Names |-> "v1"] /\ hist = <<[t |-> 0, d |-> dir]>>
    /\ clock = 0 /\ T = 4 /\ file = NoFile
    /\ pc = [w \in Workers |-> "idle"]
    /\ mem = [w \in Workers |-> [d |-> dir, leak |-> FALSE]]
    /\ req = [w \in Workers |-> "G"] /\ started = [w \in Workers |-> 0]
    /\ out = [w \in Workers |-> NoOut] /\ wpos = [w \in Workers |-> 0]

Known == {"accept", "step", "tick", "resp", "end", "preempt", "prime", "cut", "zero"}

\* design level: replay the granted operation on the model worker (render/finish are silent)
\* grain of atomicity: the real loader opens the cache file ("load"), then reads it ("load_read": what it sees is decided
\* HERE, a writer may have truncated the file since the open) - module Cache's Load is that read; the open, a mapping of
\* the file and the removal of a file are implementation sub-steps without a model counterpart (stuttering)
StepModel(e) ==
    IF e.op \in {"load", "load_mapped", "unlink"} THEN UNCHANGED <<cvars, tracking>>
    ELSE LET mop == IF e.op = "load_read" THEN "load" ELSE e.op IN
    IF tracking /\ e.w \in Workers /\ pc[e.w] = mop /\ mop \in {"probe", "load", "gen", "save_open", "save_write"}
    THEN WorkerStep(e.w) /\ UNCHANGED tracking
    ELSE /\ UNCHANGED cvars /\ tracking' = FALSE
         /\ (IF tracking THEN RecordDrift(tid, l, e.op) ELSE TRUE)

RenderFinish(w) ==      \* Render ; Finish as one step (the response has been received)
    /\ out' = [out EXCEPT ![w] = [src |-> out[w].src, d |-> mem[w].d, leak |-> mem[w].leak, at |-> clock]]
    /\ mem' = [mem EXCEPT ![w].leak = (mem[w].leak \/ req[w] \in {"GP", "GD"})]
    /\ pc' = [pc EXCEPT ![w] = "idle"]
    /\ UNCHANGED <<dir, hist, clock, T, file, req, started, wpos>>

Silent(w) == \* bring a model worker that has rendered back to idle
    IF pc[w] = "render" THEN RenderFinish(w) ELSE IF pc[w] = "done" THEN Finish(w) ELSE UNCHANGED cvars

PrimedFile == [exists |-> TRUE, mtime |-> clock, zero |-> FALSE,
               chunks |-> [i \in 1..Full |-> [d |-> dir, k |-> i, leak |-> FALSE]]]

Apply(e) ==
    CASE e.ev = "accept" ->
            /\ (IF tracking /\ e.w \in Workers /\ pc[e.w] = "idle"
                THEN Start(e.w, e.p) /\ UNCHANGED tracking
                ELSE UNCHANGED cvars /\ tracking' = FALSE)
            /\ verdict' = "ok"
      [] e.ev = "step" -> StepModel(e) /\ verdict' = "ok"
      [] e.ev = "tick" -> Tick(T) /\ UNCHANGED tracking /\ verdict' = "ok"
      [] e.ev = "preempt" -> UNCHANGED <<cvars, tracking>> /\ verdict' = "ok"
      \* a request served alone before the race left a complete cache file of the current directory
      [] e.ev = "prime" -> /\ file' = PrimedFile /\ UNCHANGED <<dir, hist, clock, T, pc, mem, req, started, out, wpos, tracking>>
                           /\ verdict' = "ok"
      \* the remains of a crashed writer: environment actions of module Cache
      [] e.ev = "cut" -> /\ (IF file.exists /\ e.keep < Len(file.chunks) THEN Cut(e.keep) /\ UNCHANGED tracking
                              ELSE UNCHANGED cvars /\ tracking' = FALSE)
                         /\ verdict' = "ok"
      [] e.ev = "zero" -> /\ (IF file.exists /\ ~file.zero THEN Zero /\ UNCHANGED tracking
                               ELSE UNCHANGED cvars /\ tracking' = FALSE)
                          /\ verdict' = "ok"
      [] e.ev = "resp" ->
            /\ (IF tracking /\ e.w \in Workers /\ pc[e.w] \in {"render", "done"}
                THEN Silent(e.w) ELSE UNCHANGED cvars)
            /\ UNCHANGED tracking
            /\ verdict' = (IF ~e.ok THEN "Isolated_incomplete_response"
                           ELSE IF ~e.same THEN "Isolated" ELSE "ok")
      [] e.ev = "end" ->
            /\ UNCHANGED <<cvars, tracking>>
            /\ verdict' = (IF e.served # e.expected THEN "Conservation"
                           ELSE IF ~e.alive THEN "AcceptLive"
                           ELSE IF e.zombies # 0 THEN "Reaped" ELSE "ok")

Consume ==
    /\ l <= Len(Ev) /\ verdict = "ok"
    /\ l' = l + 1 /\ UNCHANGED tid
    /\ LET e == Ev[l] IN
       IF e.ev \notin Known THEN UNCHANGED <<cvars, tracking>> /\ verdict' = "unmatched"
       ELSE Apply(e)

TSpec == TInit /\ [][Consume]_tvars
Record == RecordVerdict(tid, l, verdict, Len(Ev))
Post == WriteVerdicts
=============================================================================
