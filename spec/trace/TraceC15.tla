------------------------------ MODULE TraceC15 ------------------------------
(* Trace specification for C15: what the REAL server answered to `!`, `$` and `+` requests  *)
(* for an item built from an abstract case of MC_C15 is judged by the clause operators of   *)
(* GopherPlus (reference reading: DESIGN.md Appendix E.3 = the property).                   *)
(*                                                                                          *)
(* init:   case (abstract, as enumerated by TLC), target / parent selectors                 *)
(* events: fetch - length of an independent plain Gopher fetch of the target item            *)
(*         menu  - the parent's plain Gopher listing (lines without CRLF)                   *)
(*         info  - the lexed `!` / `$` answer: first line, items <<[info, blocks]>>, junk   *)
(*                 (lines that are neither block headers nor space-prefixed), complete      *)
(*         doc   - the `+` answer: first line and number of bytes that follow               *)
(* Property level (VIOLATION), first failing clause is the verdict:                         *)
(*   BlockStructure  every line is a block header or starts with a space; CRLF-terminated   *)
(*   ItemsListed     `!`: exactly one item; `$`: exactly one item per listed selector        *)
(*   HasAdmin        every item has an +ADMIN block with an Admin line                       *)
(*   ViewsTruthful   the target's +VIEWS names its MIME type and size div 1024              *)
(*   SidecarExact    one block per sidecar present, lines = file lines right-stripped, each *)
(*                   prefixed by one space; no block for an absent sidecar                  *)
(*   SidecarExact_CappedPrefix  the same clause failing in exactly the recorded way Cap20K:  *)
(*                   the block is the first CapCount whole lines of an over-long side-car   *)
(*   InfoIsMenuLine  +INFO = the plain Gopher menu line (`$`: whole listing, in order)      *)
(*   LenOrMarker     `+`: exact length or the unknown-length marker                          *)
(* Design level (DRIFT): first line +-2, block order, lines exactly as the coded pipeline.   *)
EXTENDS GopherPlus, MC_C15_B1, TraceBase

VARIABLES tid, l, verdict, menu, havemenu, doclen
tvars == <<tid, l, verdict, menu, havemenu, doclen>>

Ev == Traces[tid].events
Case == Traces[tid].init.case
Target == Traces[tid].init.target

TInit == tid \in 1..NTraces /\ l = 1 /\ verdict = "ok" /\ menu = <<>> /\ havemenu = FALSE /\ doclen = -1

\* the length of what the item delivers: the bytes gamma wrote, or - for documents whose length only the server knows
\* (virtual items, decompressed files) - the length of an independent plain Gopher fetch; menus: the fetched menu
SizeOfCase == IF KnownSize(Case.kind) THEN Case.size ELSE -1                 \* as coded
SizeRef == IF KnownSize(Case.kind) THEN Case.size ELSE doclen                \* reference for a stated +VIEWS size
DocRef == IF KnownSize(Case.kind) THEN Case.size ELSE IF Case.kind \in DocKinds THEN doclen ELSE -1
CaseCapped == \E i \in 1..Len(EaExts) : Case.sc[i].p /\ Capped(Case.kind, Case.sc[i].lines)
ItemsFor(e, sel) == SelectSeq(e.items, LAMBDA it : SelectorOf(it.info) = sel)
MenuFor(sel) == SelectSeq(menu, LAMBDA m : SelectorOf(m) = sel)

JudgeInfo(e) ==
    IF ~(e.junk = <<>> /\ e.complete /\ \A i \in 1..Len(e.items) : ContentPrefixed(e.items[i]))
    THEN "BlockStructure"
    ELSE IF ~(IF e.form = "bang" THEN Len(e.items) = 1 ELSE Len(ItemsFor(e, Target)) = 1)
    THEN "ItemsListed"
    ELSE LET it == IF e.form = "bang" THEN e.items[1] ELSE ItemsFor(e, Target)[1] IN
         IF ~(\A i \in 1..Len(e.items) : HasAdmin(e.items[i])) THEN "HasAdmin"
         ELSE IF ~ViewsTruthful(it, MimesOf(Case.kind, Case.ext), SizeRef, KnownSize(Case.kind)) THEN "ViewsTruthful"
         ELSE IF ~SidecarExact(it, Case.sc, HasLinkAbs(Case.link))
         THEN (IF CaseCapped /\ SidecarAsCoded(it, Case.kind, Case.sc, Case.form, Case.link)
               THEN "SidecarExact_CappedPrefix"      \* exactly the recorded deviation Cap20K: the first CapCount WHOLE lines
               ELSE "SidecarExact")                  \* anything else, also on an over-long side-car
         ELSE IF ~(IF e.form = "bang"
                   THEN Len(MenuFor(Target)) = 1 /\ it.info = MenuFor(Target)[1]
                   ELSE [i \in 1..Len(e.items) |-> e.items[i].info] = menu)
         THEN "InfoIsMenuLine"
         ELSE "ok"

DriftInfo(e) ==
    LET it == IF e.form = "bang" THEN e.items[1] ELSE ItemsFor(e, Target)[1] IN
    /\ (IF e.first = "+-2" THEN TRUE ELSE RecordDrift(tid, l, "first line is not +-2"))
    /\ (IF [i \in 1..Len(it.blocks) |-> it.blocks[i].name] = Tail(CodeBlockNames(Case.kind, Case.sc, Case.form, Case.link))
        THEN TRUE ELSE RecordDrift(tid, l, "block order differs from INFO ADMIN VIEWS + configured sidecar order"))
    /\ (IF SidecarAsCoded(it, Case.kind, Case.sc, Case.form, Case.link) THEN TRUE ELSE RecordDrift(tid, l, "sidecar lines differ from the coded pipeline"))

JudgeDoc(e) == IF LenOrMarker(e.first, e.bodylen, DocRef) THEN "ok" ELSE "LenOrMarker"

Consume ==
    /\ l <= Len(Ev) /\ verdict = "ok"
    /\ l' = l + 1 /\ UNCHANGED tid
    /\ LET e == Ev[l] IN
       IF e.ev = "fetch" /\ doclen = -1 /\ ~havemenu
       THEN doclen' = e.len /\ UNCHANGED <<menu, havemenu>> /\ verdict' = "ok"
       ELSE IF e.ev = "menu" /\ ~havemenu /\ doclen >= 0
       THEN menu' = e.lines /\ havemenu' = TRUE /\ UNCHANGED doclen /\ verdict' = "ok"
       ELSE IF e.ev = "info" /\ havemenu /\ e.form = Case.form
       THEN /\ UNCHANGED <<menu, havemenu, doclen>>
            /\ verdict' = JudgeInfo(e)
            /\ (IF JudgeInfo(e) = "ok" THEN DriftInfo(e) ELSE TRUE)
       ELSE IF e.ev = "doc" /\ Case.form = "plus" /\ doclen >= 0
       THEN /\ UNCHANGED <<menu, havemenu, doclen>>
            /\ verdict' = JudgeDoc(e)
            /\ (IF JudgeDoc(e) = "ok" /\ e.first # LenHeader(SizeOfCase)
                THEN RecordDrift(tid, l, "length header differs from the coded one") ELSE TRUE)
       ELSE UNCHANGED <<menu, havemenu, doclen>> /\ verdict' = "unmatched"

\* a trace must end with the judged event: a trace whose events are all consumed without one is incomplete
Judged == \E i \in 1..Len(Ev) : Ev[i].ev \in {"info", "doc"}
TNext == Consume
TSpec == TInit /\ [][TNext]_tvars

Record == RecordVerdict(tid, l, IF verdict = "ok" /\ l > Len(Ev) /\ ~Judged THEN "unmatched" ELSE verdict, Len(Ev))
Post == WriteVerdicts
=============================================================================
