SPECIFICATION TSpec
CONSTANTS
  Names = {"a"}
  Workers = {1, 2, 3}
  Full = 2
  Lifetimes = {4}
CONSTRAINT Record
POSTCONDITION Post
CHECK_DEADLOCK FALSE
