---------------------------- MODULE TraceSignals ----------------------------
(* Conformance of pygopherd/sighandlers.py with module Signals: the REAL handlers are       *)
(* invoked (as master and as child) with signal.signal / os.kill / os._exit / sys.exit /    *)
(* os.getpid substituted by recorders; each recorded handler run is one event               *)
(*   [ev |-> "handle", p, sig, ignoredHupFirst, killedGroup0With, exit]                     *)
(* and must be exactly the effect of Signals!Handle(p, sig).                                *)
EXTENDS Signals, TraceBase

VARIABLES tid, l, verdict
tvars == <<svars, tid, l, verdict>>
Ev == Traces[tid].events

TInit == /\ tid \in 1..NTraces /\ l = 1 /\ verdict = "ok"
         /\ alive = {"master"} \cup Children \cup Outsiders /\ ownGroup = TRUE
         /\ hupIgnored = {} /\ pendingSig = {} /\ exitCode = [p \in Procs |-> 0] /\ masterPid = "master"

Judge(e) ==
    LET master == e.p = masterPid IN
    IF e.sig = "HUP" THEN (IF e.exit = 5 /\ e.killed = "none" THEN "ok" ELSE "HupExits5")
    ELSE IF master
         THEN (IF ~e.ignoredHupFirst THEN "MasterIgnoresHupBeforeKill"
               ELSE IF e.killed # "group0:HUP" THEN "MasterHupsItsGroup"
               ELSE IF e.exit # 6 THEN "MasterExits6" ELSE "ok")
         ELSE (IF e.killed # "none" THEN "ChildKillsNobody"
               ELSE IF e.exit # 7 THEN "ChildExits7" ELSE "ok")

Consume ==
    /\ l <= Len(Ev) /\ verdict = "ok" /\ l' = l + 1 /\ UNCHANGED tid
    /\ LET e == Ev[l] IN
       IF e.ev # "handle" \/ e.p \notin alive
       THEN UNCHANGED svars /\ verdict' = "unmatched"
       ELSE /\ pendingSig' = pendingSig \cup {<<e.p, e.sig>>}      \* delivery + handling in one event
            /\ UNCHANGED <<alive, ownGroup, hupIgnored, exitCode, masterPid>>
            /\ verdict' = Judge(e)

TSpec == TInit /\ [][Consume]_tvars
Record == RecordVerdict(tid, l, verdict, Len(Ev))
Post == WriteVerdicts
=============================================================================
