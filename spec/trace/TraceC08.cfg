SPECIFICATION TSpec
CONSTANTS
  Quirks = {"DashOnlyInCap", "CommentEndsBlock", "NumAlwaysMerged", "DoubleHideCrash"}
CONSTRAINT Record
POSTCONDITION Post
CHECK_DEADLOCK FALSE
