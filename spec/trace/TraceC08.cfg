SPECIFICATION TSpec
CONSTANTS
  Quirks = {"CommentEndsBlock"}
CONSTRAINT Record
POSTCONDITION Post
CHECK_DEADLOCK FALSE
