------------------------------ MODULE TraceC05 ------------------------------
(* Trace specification for C05 (link closure).  One trace = the crawl of one materialised   *)
(* content tree through one protocol view p, recorded from the REAL server:                 *)
(*   listing   a directory listing lexed with p's own link syntax: ref (the reference under *)
(*             which the client knows it), req (the request that fetched it), entries       *)
(*             [type, name, mt, t] with t the target exactly as rendered (Links!Target)     *)
(*   follow    entry i of listing `base` re-requested: req (+ chain for Gemini's prompt ->  *)
(*             query -> redirect dialogue), response class cls, object kind obj             *)
(*   rootfail  the root menu itself was not a listing (nothing to crawl: C12/C03 territory) *)
(*   end       the crawl is over                                                            *)
(* Property level (VIOLATION):                                                              *)
(*   Closure...      every LOCAL link (Links!IsLocal), followed with p's own request syntax *)
(*                   (Links!Follow - a deviating client is ClientMismatch, machinery), is   *)
(*                   answered by p's own protocol class (server log) with success and with  *)
(*                   the advertised kind.  The clause name   *)
(*                   carries the model's explanation when it has one: Closure_CapturedBy_<  *)
(*                   class>, Closure_QueryPrefixCapture, Closure_UrlNameAsReference,        *)
(*                   Closure_WrongKind, else plain Closure.                                 *)
(*   NotCrawled      a local link was listed but never followed (machinery).                *)
(* Design level (DRIFT): the rendered targets of every listing are exactly                  *)
(* Target(p, e) for the model's Listing of the case, and every response is what             *)
(* Serve(case, Parse(req).sel) predicts.                                                    *)
EXTENDS Links, LinksConst, TraceBase

VARIABLES tid, l, verdict, lists, pend
tvars == <<tid, l, verdict, lists, pend>>

Ev == Traces[tid].events
P  == Traces[tid].init.p
C  == Traces[tid].init.c
HL == Traces[tid].init.hl

\* crawls of trees whose names p cannot express are outside the property; the harness must not submit them
TInit == tid \in 1..NTraces /\ l = 1 /\ lists = <<>> /\ pend = {}
         /\ verdict = IF CaseExpressible(Traces[tid].init.p, Traces[tid].init.c) THEN "ok" ELSE "unmatched"

HasList(ref) == \E i \in 1..Len(lists) : lists[i].ref = ref
ListOf(ref) == lists[CHOOSE i \in 1..Len(lists) : lists[i].ref = ref]

Adv(x) ==
    IF P \in GopherViews THEN (IF x.type = "1" THEN "menu" ELSE IF x.type = "7" THEN "any" ELSE "doc")
    \* HTTP shows the kind as the icon of the entry's Gopher type (iconmapping: type 1 -> folder.gif)
    ELSE IF P \in {"H", "HS"} THEN (IF x.t.mark = "search" THEN "any" ELSE IF x.icon = "folder.gif" THEN "menu" ELSE "doc")
    ELSE "any"

\* the requests a client of P sends for entry x of the listing known as base (q typed for a search item)
ClientOk(e, x) ==
    IF P = "M"          \* Gemini: plain request; only if the server prompts (10) the typed query is sent, then the redirect followed
    THEN /\ e.req = Follow(P, x.t, e.base, "")
         /\ Len(e.chain) >= 1 => e.chain[1].line = Follow(P, x.t, e.base, e.q).line
         /\ Len(e.chain) >= 2 => e.chain[2].line = "gemini://" \o ServerName
                                   \o RefPath(RefPath(e.base, x.t.href), e.chain[1].loc) \o cCRLF       \* the redirect the server actually sent
         /\ Len(e.chain) <= 2
    ELSE e.req = Follow(P, x.t, e.base, e.q) /\ Len(e.chain) = 0
\* gamma wrote as many bytes as the model's length classes say (binds BlockBytes to the concrete request)
BytesOk(e) == e.nbytes = ReqBytes(e.req)

LastRq(e) == IF Len(e.chain) = 0 THEN e.req ELSE Rq(e.chain[Len(e.chain)].line, "", e.req.tls)

\* "answered": by the protocol that was asked.  e.by is the protocol class the server log names for the (last)
\* request ("" when nothing was logged, e.g. the built-in icon route); a WAP link served as an HTML page by the HTTP
\* class, or a Gopher selector served by the Spartan class, is not an answer in the client's protocol.
ClosureClause(e, x) ==
    IF e.cls = "ok" /\ e.by # "" /\ e.by # OwnClass(P) THEN "Closure_CapturedBy_" \o e.by
    ELSE IF e.cls = "ok" /\ (Adv(x) = "any" \/ e.obj = Adv(x)) THEN "ok"
    ELSE IF Why(P, e.req) # "none" THEN "Closure_" \o Why(P, e.req)
    ELSE IF x.t.form = "url" /\ ~StartsWith(x.t.href, "/") THEN "Closure_UrlNameAsReference"
    ELSE IF e.cls = "ok" THEN (LET r == Parse(LastRq(e)) IN          \* explained by the model: a *.gophermap file
                               IF r.kind = "serve" /\ IsMapFile(C, r.sel, HL) THEN "Closure_MapFileAsDocument"
                               ELSE "Closure_WrongKind")
    ELSE "Closure"

\* design level -------------------------------------------------------------------------------
Predicted(rq) == LET r == Parse(rq) IN
                 IF r.cls = OwnClass(P) /\ r.kind = "serve" THEN Serve(C, r.sel, HL) ELSE NotFound
\* no prediction when another class answers, nor for a *.gophermap file (announced with the MIME type of a text
\* file, so HTTP sends a listing under Content-Type text/plain: part of the named deviation MapFileAsDocument)
ResponseAsModel(e) == LET pr == Predicted(LastRq(e)) IN
                      \/ Why(P, LastRq(e)) # "none"
                      \/ (Parse(LastRq(e)).kind = "serve" /\ IsMapFile(C, Parse(LastRq(e)).sel, HL) /\ "mapfile" \notin Fixes)
                      \/ ((e.cls = "ok") = pr.ok /\ (e.cls = "ok" => e.obj = pr.obj))
ListingAsModel(e) ==
    LET r == Parse(e.req) IN
    IF r.cls # OwnClass(P) \/ r.kind # "serve" \/ r.sel \notin Dirs(C, HL) THEN FALSE
    ELSE {e.entries[i].t : i \in {j \in 1..Len(e.entries) : e.entries[j].t.mark # "info"}}
         = {Target(P, m) : m \in Listing(C, r.sel, HL)}

\* events --------------------------------------------------------------------------------------
DoListing(e) ==
    /\ lists' = Append(lists, [ref |-> e.ref, entries |-> e.entries])
    /\ pend' = pend \cup {<<e.ref, i>> : i \in {j \in 1..Len(e.entries) : IsLocal(P, e.entries[j].t)}}
    /\ verdict' = IF HasList(e.ref) THEN "unmatched" ELSE "ok"
    /\ (IF ListingAsModel(e) THEN TRUE ELSE RecordDrift(tid, l, "listing is not Target(p, Listing(case))"))

DoFollow(e) ==
    IF ~HasList(e.base) \/ e.i \notin 1..Len(ListOf(e.base).entries) \/ <<e.base, e.i>> \notin pend
    THEN verdict' = "unmatched" /\ UNCHANGED <<lists, pend>>
    ELSE LET x == ListOf(e.base).entries[e.i] IN
         /\ pend' = pend \ {<<e.base, e.i>>}
         /\ UNCHANGED lists
         /\ verdict' = IF ~ClientOk(e, x) \/ ~BytesOk(e) THEN "ClientMismatch" ELSE ClosureClause(e, x)
         /\ (IF ResponseAsModel(e) THEN TRUE ELSE RecordDrift(tid, l, "response differs from Serve(case, Parse(req))"))

DoEnd(e) == /\ verdict' = IF e.truncated THEN "unmatched" ELSE IF pend # {} THEN "NotCrawled" ELSE "ok"
            /\ UNCHANGED <<lists, pend>>

DoRootFail(e) == /\ verdict' = "ok" /\ UNCHANGED <<lists, pend>>
                 /\ (IF ListingFails(C, "/", HL) THEN TRUE ELSE RecordDrift(tid, l, "root menu is not a listing"))

Consume ==
    /\ l <= Len(Ev) /\ verdict = "ok"
    /\ l' = l + 1 /\ UNCHANGED tid
    /\ LET e == Ev[l] IN
       CASE e.ev = "listing"  -> DoListing(e)
         [] e.ev = "follow"   -> DoFollow(e)
         [] e.ev = "rootfail" -> DoRootFail(e)
         [] e.ev = "end"      -> DoEnd(e)
         [] OTHER -> verdict' = "unmatched" /\ UNCHANGED <<lists, pend>>

TSpec == TInit /\ [][Consume]_tvars
Record == RecordVerdict(tid, l, verdict, Len(Ev))
Post == WriteVerdicts
=============================================================================
