------------------------------ MODULE TraceC03 ------------------------------
(* Trace specification for C03 (and, through TraceC20, for C20): connections served by the  *)
(* REAL GopherRequestHandler are replayed against the connection machine of Server.         *)
(*                                                                                          *)
(* A trace is a sequence of events                                                          *)
(*   conn   one connection: the request as sent (rq, the record the machine takes as input)  *)
(*          and what alpha observed: detected protocol class, response frames, EXCEPTION    *)
(*          log records in order, the class that left handle(), environment operations,     *)
(*          the log length when the injected failure was raised (mark), descriptors still   *)
(*          open afterwards (nfds) and child processes left (nproc), the artefacts left in the tree (arts), a digest of the  *)
(*          reply modulo timestamps, and its role: single | alone | hist | final | socket   *)
(*   reset  the tree is put back to its pristine state                                      *)
(* For each conn event the specification first RUNS the design machine on rq from the        *)
(* current tree (Server!Step until closed: the same actions MC_C03 / MC_C20 check), then     *)
(* consumes the observation.                                                                *)
(* Property level (VIOLATION): the clause operators of Server over the OBSERVED view -       *)
(*   OneResponse, NoUnhandled, Bounded; HistoryFree (the final reply equals the reply to the *)
(*   same request alone, modulo timestamps); for C20 traces Contained, OwnClass, FilesClosed.*)
(* A rejection is reported as "<clause>@<site>": the first failing clause and the hazard     *)
(* site the machine reached on that request (what known findings are keyed by).             *)
(* Design level (DRIFT): the observed view equals the machine's (protocol, escaped class,   *)
(*   log classes, presence and kind of reply, artefacts).                                   *)
EXTENDS Server, TraceBase, MC_C03_consts

VARIABLES tid, l, verdict, ms, aloneD
tvars == <<vars, tid, l, verdict, ms, aloneD>>

Ev   == Traces[tid].events
Prop == Traces[tid].init.prop          \* "C03" | "C20"
HL   == Traces[tid].init.hl

TInit ==
    /\ tid \in 1..NTraces /\ l = 1 /\ verdict = "ok" /\ ms = "idle" /\ aloneD = ""
    /\ InitConn(NoReq, TreeOf(HL))

ObsView(e) == [proto |-> e.proto, method |-> Method(e.rq, e.proto), frames |-> e.frames, log |-> e.log,
               esc |-> e.esc, nfds |-> e.nfds, nproc |-> e.nproc, mark |-> e.mark, ops |-> e.ops]

Judge(e) ==
    LET v == ObsView(e) IN
    IF Prop = "C20" THEN C20Verdict(v, e.rq.fcls)
    ELSE LET c == C03Verdict(v, OpsBound) IN
         IF c # "ok" THEN c
         ELSE IF e.role = "final" /\ e.digest # aloneD THEN "HistoryFree"
         ELSE "ok"

Classes(lg) == [i \in 1..Len(lg) |-> lg[i].cls]
ModelArts == {p \in DOMAIN fs : p \notin DOMAIN Tree0[HL]}
ObsArts(e) == {e.arts[i] : i \in 1..Len(e.arts)}
DriftWhat(e) ==
    LET m == ModelView v == ObsView(e) IN
    IF e.role = "socket" THEN "none"          \* real-socket runs: the kernel picks the failing write, not the model
    ELSE IF m.proto # v.proto THEN "protocol"
    ELSE IF m.esc # v.esc THEN "escaped class"
    ELSE IF Classes(m.log) # Classes(v.log) THEN "log classes"
    \* (what a client saw of a reply that was cut off by an injected failure is not compared)
    ELSE IF e.rq.fk = 0 /\ (Len(m.frames) = 0) # (Len(v.frames) = 0) THEN "reply presence"
    ELSE IF e.rq.fk = 0 /\ G!IsErrorReply(m.proto, m.frames) # G!IsErrorReply(v.proto, v.frames) THEN "reply kind"
    ELSE IF m.mark # v.mark THEN "log position of the failure"
    ELSE IF e.role # "single" /\ ModelArts # ObsArts(e) THEN "artefacts"
    ELSE "none"

Consume ==
    /\ l <= Len(Ev) /\ verdict = "ok" /\ UNCHANGED tid
    /\ LET e == Ev[l] IN
       IF e.ev = "reset"
       THEN /\ fs' = TreeOf(HL) /\ ms' = "idle" /\ l' = l + 1
            /\ UNCHANGED <<rq, pc, proto, sel, hname, kind, exc, todo, out, wn, log, mark, fds, esc, ops, site, verdict, aloneD>>
       ELSE IF e.ev # "conn"
       THEN /\ verdict' = "unmatched" /\ l' = l + 1 /\ UNCHANGED <<vars, ms, aloneD>>
       ELSE IF ms = "idle"
       THEN /\ StartConn(e.rq, fs) /\ ms' = "run" /\ UNCHANGED <<l, verdict, aloneD>>
       ELSE IF pc # "closed"
       THEN /\ Step /\ UNCHANGED <<l, verdict, ms, aloneD>>
       ELSE /\ verdict' = (IF Judge(e) = "ok" THEN "ok" ELSE Judge(e) \o "@" \o site)    \* clause @ hazard site of the machine
            /\ aloneD' = IF e.role = "alone" THEN e.digest ELSE aloneD
            /\ l' = l + 1 /\ ms' = "idle" /\ UNCHANGED vars
            /\ (IF DriftWhat(e) = "none" THEN TRUE ELSE RecordDrift(tid, l, DriftWhat(e)))

TSpec == TInit /\ [][Consume]_tvars
Record == RecordVerdict(tid, l, verdict, Len(Ev))
Post == WriteVerdicts
=============================================================================
