SPECIFICATION TSpec
CONSTANTS
  StrictType <- K_StrictType
  LooseType <- K_LooseType
  SufOf <- K_SufOf
  EncOf <- K_EncOf
  EncKeys <- K_EncKeys
  Mapping <- K_Mapping
  Patt <- K_Patt
  IgnoreRe <- K_IgnoreRe
  Cfg <- K_Cfg
CONSTRAINT Record
POSTCONDITION Post
CHECK_DEADLOCK FALSE
