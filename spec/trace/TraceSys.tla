------------------------------ MODULE TraceSys ------------------------------
(* Conformance of a REAL pygopherd process (bin/pygopherd: initialize + serve_forever) with *)
(* the phase structure of module Pygopherd: the harness starts the process, sends requests, *)
(* sends SIGTERM and records the abstracted log lines and the exit status.                  *)
EXTENDS Pygopherd, TraceBase

VARIABLES tid, l, verdict
tvars == <<pvars, tid, l, verdict>>
Ev == Traces[tid].events

TInit == tid \in 1..NTraces /\ l = 1 /\ verdict = "ok" /\ Init

\* a log record is explained by a short run of model actions (silent steps included)
Explain(r) ==
    CASE r = "start"   -> Bind
      [] r = "running" -> phase = "bound" /\ phase' = "serving" /\ Log("running")
                          /\ UNCHANGED <<conns, answered, children, exitcode>>          \* Drop ; Running
      [] r = "request" -> phase = "serving" /\ conns < MaxConn /\ conns' = conns + 1 /\ answered' = answered + 1
                          /\ Log("request") /\ UNCHANGED <<phase, children, exitcode>>  \* Accept ; Answer
      [] r = "sigterm" -> Term
      [] r = "goodbye" -> phase = "stopping" /\ phase' = "gone" /\ exitcode' = 6 /\ children' = 0
                          /\ Log("goodbye") /\ UNCHANGED <<conns, answered>>            \* ChildHup* ; MasterExit
      [] OTHER -> FALSE

Consume ==
    /\ l <= Len(Ev) /\ verdict = "ok" /\ l' = l + 1 /\ UNCHANGED tid
    /\ LET e == Ev[l] IN
       IF e.ev = "log" /\ e.r \in {"start", "running", "request", "sigterm", "goodbye"}
       THEN IF ENABLED Explain(e.r)
            THEN Explain(e.r) /\ verdict' = (IF LogOrder' THEN "ok" ELSE "LogOrder")
            ELSE UNCHANGED pvars /\ verdict' = "PhaseOrder"
       ELSE IF e.ev = "exit"
       THEN UNCHANGED pvars /\ verdict' = (IF e.code = exitcode /\ phase = "gone" THEN "ok" ELSE "ExitStatus")
       ELSE IF e.ev = "answered"
       THEN UNCHANGED pvars /\ verdict' = (IF e.n = answered THEN "ok" ELSE "EveryRequestAnswered")
       ELSE UNCHANGED pvars /\ verdict' = "unmatched"

TSpec == TInit /\ [][Consume]_tvars
Record == RecordVerdict(tid, l, verdict, Len(Ev))
Post == WriteVerdicts
=============================================================================
