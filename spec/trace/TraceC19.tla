------------------------------ MODULE TraceC19 ------------------------------
(* Trace specification for C19: replays the privileged calls the REAL initialize() made   *)
(* (recorded through substituted os/pwd/grp/ssl/socket entry points) against the actions   *)
(* and the OS permission model of Startup, evaluating every clause of the property in      *)
(* every state.  Property level: any order of calls is accepted as long as the clauses     *)
(* hold.  Design level (drift only): the calls are exactly Prog(cfg).                      *)
EXTENDS Startup, TraceBase

VARIABLES tid, l, verdict, dpc     \* dpc: position in Prog(cfg) for the design-level comparison
tvars == <<vars, tid, l, verdict, dpc>>

Ev == Traces[tid].events

TInit == /\ tid \in 1..NTraces /\ l = 1 /\ verdict = "ok" /\ dpc = 1
         /\ InitFull(Traces[tid].init.cfg, Traces[tid].init.starter, Traces[tid].init.startdir)

Known == {"lookupuser", "lookupgroup", "loadtls", "bind", "chroot", "chdir", "cfgroot", "setgroups", "setgid", "setuid", "serve", "abort"}

Apply(e) ==
    CASE e.ev = "loadtls"   -> LoadTLS(e.ok)
      [] e.ev = "bind"      -> Bind(e.ok)
      [] e.ev = "lookupuser"  -> LookupUser(e.ok)
      [] e.ev = "lookupgroup" -> LookupGroup(e.ok)
      [] e.ev = "chroot"    -> Chroot(e.ok, e.docroot)
      [] e.ev = "chdir"     -> Chdir(e.ok, e.inside)
      [] e.ev = "cfgroot"   -> SetCfgRoot(e.v)
      [] e.ev = "setgroups" -> SetGroups(e.ok, e.empty)
      [] e.ev = "setgid"    -> SetGid(e.ok, e.full)
      [] e.ev = "setuid"    -> SetUid(e.ok, e.full)
      [] e.ev = "serve"     -> Serve
      [] e.ev = "abort"     -> Abort

\* a call that failed (injected fault, or refused by the emulated kernel) is not a privileged step TAKEN
StepName(e) == IF e.ev \in Drops /\ e.ok THEN e.ev ELSE "none"

Consume ==
    /\ l <= Len(Ev) /\ verdict = "ok"
    /\ l' = l + 1 /\ UNCHANGED tid
    /\ LET e == Ev[l] IN
       IF e.ev \notin Known
       THEN UNCHANGED <<vars, dpc>> /\ verdict' = "unmatched"
       ELSE IF phase # "starting"
       THEN UNCHANGED <<vars, dpc>> /\ verdict' = "EventAfterEnd"
       ELSE /\ Apply(e)
            /\ verdict' = (IF StepClauses(StepName(e)) # "ok" THEN StepClauses(StepName(e))
                           ELSE StateClauses')
            /\ IF e.ev \in {"serve", "abort"} THEN UNCHANGED dpc
               ELSE /\ dpc' = dpc + 1
                    /\ IF dpc <= Len(Prog(cfg)) /\ Prog(cfg)[dpc] = e.ev THEN TRUE
                       ELSE RecordDrift(tid, l, e.ev)

TNext == Consume
TSpec == TInit /\ [][TNext]_tvars

Record == RecordVerdict(tid, l, verdict, Len(Ev))
Post == WriteVerdicts
=============================================================================
