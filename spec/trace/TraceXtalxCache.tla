--------------------------- MODULE TraceXtalxCache ---------------------------
(* Trace specification for the TemplateCache part of XTALX.  One trace = one behaviour that     *)
(* TLC generated from spec/TALCache.tla, executed on the REAL simpleTALUtils.TemplateCache:      *)
(*   init    (unused; Files, XmlNames, SniffXml, XmlOk come from the generated cfg)              *)
(*   events  [a, f, c]  for the environment steps tick / write / touch / delete (performed by    *)
(*           the harness on real files, mtime = clock/2 seconds set with os.utime), and           *)
(*           [a = get|getxml, f, res, c, kind, obj, hits, misses, locked] for the calls:          *)
(*           res = "tmpl" | "err:<ExceptionType>", c = the content marker found in the            *)
(*           EXPANSION of the returned template, kind = html|xml (class of the template),         *)
(*           obj = number of the returned object in order of first appearance (identity),         *)
(*           hits/misses = the counters after the call, locked = cacheLock.locked() after it.     *)
(* The state (fs, clock) follows the environment events; the believed cache entry per name is     *)
(* derived from the OBSERVED results (a new object stores the current whole-second mtime).        *)
(* Property level (verdict): Fresh, StaleOnlyByHit, KindRule (operators of TALCache),             *)
(* HitSameObject, Counters, ErrKeeps, LockReleased.  Design level (DRIFT): the observed result     *)
(* differs from TALCache!Outcome (e.g. another exception type, a stale hit the model predicts).   *)
EXTENDS TALCache, TraceBase

VARIABLES tid, l, verdict, nseen
tcvars == <<fs, clock, cache, hits, misses, ngen, h, tid, l, verdict, nseen>>

TI == Traces[tid].init
Evs == Traces[tid].events
FilesT == Files      \* the cfg of a batch is generated with the constants of the instance its traces come from

TInit == /\ tid \in 1..NTraces /\ l = 1 /\ verdict = "ok" /\ nseen = 0
         /\ fs = [f \in FilesT |-> NoFile] /\ clock = 3
         /\ cache = [f \in FilesT |-> NoEntry] /\ hits = 0 /\ misses = 0 /\ ngen = 0 /\ h = <<>>

EnvStep(e) ==
    /\ UNCHANGED <<cache, hits, misses, ngen, nseen>>
    /\ CASE e.a = "tick"   -> clock' = clock + 1 /\ UNCHANGED fs /\ verdict' = "ok"
         [] e.a = "write"  -> fs' = [fs EXCEPT ![e.f] = [ex |-> TRUE, c |-> e.c, mt |-> clock]] /\ UNCHANGED clock /\ verdict' = "ok"
         [] e.a = "touch"  -> fs' = [fs EXCEPT ![e.f].mt = clock] /\ UNCHANGED clock /\ verdict' = "ok"
         [] e.a = "delete" -> fs' = [fs EXCEPT ![e.f] = NoFile] /\ UNCHANGED clock /\ verdict' = "ok"

Judge(e, file, entry, xml, r) ==
    IF e.locked THEN "LockReleased"
    ELSE IF ~FreshOn(file, entry, r) THEN "Fresh"
    ELSE IF ~StaleOnlyByHitOn(file, entry, r) THEN "StaleOnlyByHit"
    ELSE IF r.res = "tmpl" /\ r.hit /\ ~(entry.has /\ r.gen = entry.gen /\ r.kind = entry.kind /\ r.c = entry.c) THEN "HitSameObject"
    ELSE IF ~KindRuleOn(e.f, file, xml, r) THEN "KindRule"
    ELSE IF r.res # "tmpl" /\ (e.hits # hits \/ e.misses # misses) THEN "ErrKeeps"
    ELSE IF r.res = "tmpl" /\ (e.hits # hits + (IF r.hit THEN 1 ELSE 0) \/ e.misses # misses + (IF r.hit THEN 0 ELSE 1)) THEN "Counters"
    ELSE "ok"

GetStep(e) ==
    LET xml == e.a = "getxml"
        file == fs[e.f]
        entry == cache[e.f]
        r == [res |-> e.res, c |-> e.c, kind |-> e.kind, hit |-> e.res = "tmpl" /\ e.obj <= nseen, gen |-> e.obj]
        m == Outcome(file, entry, e.f, xml, hits, misses, ngen).r
    IN /\ verdict' = Judge(e, file, entry, xml, r)
       /\ (IF r.res = m.res /\ r.c = m.c /\ r.kind = m.kind /\ r.hit = m.hit THEN TRUE
           ELSE RecordDrift(tid, l, "result differs from TALCache!Outcome: " \o m.res))
       /\ nseen' = IF r.res = "tmpl" /\ ~r.hit THEN e.obj ELSE nseen
       /\ cache' = IF r.res = "tmpl" /\ ~r.hit
                   THEN [cache EXCEPT ![e.f] = [has |-> TRUE, c |-> r.c, kind |-> r.kind, mt |-> Sec(file.mt), gen |-> e.obj]]
                   ELSE cache
       /\ hits' = e.hits /\ misses' = e.misses /\ ngen' = ngen
       /\ UNCHANGED <<fs, clock>>

TStep ==
    /\ l <= Len(Evs) /\ verdict = "ok"
    /\ l' = l + 1 /\ UNCHANGED <<tid, h>>
    /\ LET e == Evs[l] IN
       IF e.a \in {"tick", "write", "touch", "delete"} THEN EnvStep(e)
       ELSE IF e.a \in {"get", "getxml"} /\ e.f \in FilesT THEN GetStep(e)
       ELSE verdict' = "unmatched" /\ UNCHANGED <<fs, clock, cache, hits, misses, ngen, nseen>>

TSpec == TInit /\ [][TStep]_tcvars
Record == RecordVerdict(tid, l, verdict, Len(Evs))
Post == WriteVerdicts
=============================================================================
