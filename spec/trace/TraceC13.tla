------------------------------ MODULE TraceC13 ------------------------------
(* Trace specification for C13.  One trace = one (combo, data) case of MC_C13 run on the    *)
(* REAL server: the data string was planted where the combo says it comes from, the page    *)
(* was fetched, and alpha (independent tokenizers: html.parser for HTML, expat for WML, a   *)
(* line classifier for Gopher+) abstracted it to                                             *)
(*   kind    html | wml | gplus | gplus-error | other | none                                *)
(*   hdrs    HTTP status and header lines / Gopher+ first line                               *)
(*   skel    element/attribute skeleton (start tags with attribute names, end tags,         *)
(*           declarations) / Gopher+ line classes  h:+NAME | c | o                          *)
(*   echoes  the raw strings found between the sentinels, in document order                 *)
(*   twins   the same for inert data of the same shape (oracle = implementation on inert    *)
(*           data), each with the CONTEXT of every sentinel occurrence (ctxs)               *)
(* Property level (VIOLATION), first failing clause is the verdict:                         *)
(*   BlocksUnforgeable   Gopher+: every line is a block header or starts with a space, and  *)
(*                       the block headers are those of the inert twin                      *)
(*   SkeletonStable      the page has the element/attribute skeleton of an inert twin       *)
(*   HeadersServerChosen status and header lines are those of that twin                     *)
(*   EchoesEscaped       every echo is escaped text / percent-encoded for the context the   *)
(*                       twin shows at that position (Render!EscapedOK)                     *)
(* Design level (DRIFT): the echoes are exactly Render!ModelEchoes (transformations as      *)
(* coded); the page is the twin the model predicts; a page was produced at all.             *)
EXTENDS Render, TraceBase

VARIABLES tid, l, verdict
tvars == <<tid, l, verdict>>

Ev == Traces[tid].events
Cb == ComboOf(Traces[tid].init.cb)
D == Traces[tid].init.d

TInit == tid \in 1..NTraces /\ l = 1 /\ verdict = "ok"

SameSkel(e) == {i \in 1..Len(e.twins) : e.twins[i].kind = e.kind /\ e.twins[i].skel = e.skel}
SameHdrs(e) == {i \in SameSkel(e) : e.twins[i].hdrs = e.hdrs}

JudgePage(e) ==
    IF e.kind = "none" THEN "ok"
    ELSE IF e.kind = "gplus" /\ (\E k \in 1..Len(e.skel) : e.skel[k] = "o") THEN "BlocksUnforgeable"
    ELSE IF SameSkel(e) = {} THEN (IF e.kind = "gplus" THEN "BlocksUnforgeable" ELSE "SkeletonStable")
    ELSE IF SameHdrs(e) = {} THEN "HeadersServerChosen"
    ELSE IF ~(\E i \in SameHdrs(e) : ObservedEscaped(e.twins[i].ctxs, e.echoes)) THEN "EchoesEscaped"
    ELSE "ok"

ModelStrings == LET m == ModelEchoes(Cb, D) IN [k \in 1..Len(m) |-> m[k].s]
PredictedTwin == IF Cb.urlfilter /\ ~UrlSecure(D) THEN 2 ELSE 1

DriftPage(e) ==
    IF e.kind = "none" THEN RecordDrift(tid, l, "no page produced")
    ELSE /\ (IF e.echoes = ModelStrings THEN TRUE
             ELSE RecordDrift(tid, l, "echoes differ from the transformations as coded"))
         /\ (IF SameSkel(e) = {} \/ PredictedTwin \in SameSkel(e) THEN TRUE
             ELSE RecordDrift(tid, l, "page kind differs from the model (URL filter)"))

Consume ==
    /\ l <= Len(Ev) /\ verdict = "ok"
    /\ l' = l + 1 /\ UNCHANGED tid
    /\ LET e == Ev[l] IN
       IF e.ev = "page" /\ l = 1
       THEN verdict' = JudgePage(e) /\ DriftPage(e)
       ELSE verdict' = "unmatched"

TNext == Consume
TSpec == TInit /\ [][TNext]_tvars
\* a trace without its page event judges nothing: incomplete
Record == RecordVerdict(tid, l, IF verdict = "ok" /\ Len(Ev) = 0 THEN "unmatched" ELSE verdict, Len(Ev))
Post == WriteVerdicts
=============================================================================
