------------------------------ MODULE TraceC12 ------------------------------
(* Trace specification for C12: one listing request of the REAL server for a directory      *)
(* in which some children cannot be served.  Events (recorded through the substituted       *)
(* os.listdir / os.stat / open and the protocol lexers):                                    *)
(*   enum      the order the substituted os.listdir handed out            -> ListDir        *)
(*   touches   names of the children whose own path was stat()ed/opened, in order           *)
(*   response  status (ok | notfound | error | none | hang) and the lexed listing           *)
(* Property level (VIOLATION), clause Robust of Dir:                                        *)
(*   Robust.Answered       the response is a success listing                                *)
(*   Robust.HealthyListed  every healthy visible child is listed                            *)
(*   Robust.OnlyVisible    nothing but visible children of the directory is listed          *)
(* Design level (DRIFT, only when the property holds): the children are inspected in the    *)
(* order the pipeline model predicts and the listing is exactly Pipeline(d, order).         *)
EXTENDS Dir, MC_C07_data, TraceBase

VARIABLES tid, l, verdict, pred, seen
tvars == <<dvars, tid, l, verdict, pred, seen>>

Ev == Traces[tid].events
DirOf(i) == [sb |-> i.sb, handler |-> i.handler, ign |-> i.ign, sniff |-> i.sniff, kids |-> Range(i.kids)]

TInit == /\ tid \in 1..NTraces /\ l = 1 /\ verdict = "ok" /\ pred = NoExpect /\ seen = <<>>
         /\ DirInit(DirOf(Traces[tid].init.d))

Known == {"enum", "touches", "response"}

Enum(e) ==
    IF pc = "start" /\ IsEnumOf(d, e.order)
    THEN ListDir(e.order) /\ pred' = Expect(d, e.order) /\ verdict' = "ok" /\ UNCHANGED seen
    ELSE UNCHANGED <<dvars, pred, seen>> /\ verdict' = "unmatched"

Touches(e) == UNCHANGED <<dvars, pred>> /\ seen' = e.names /\ verdict' = "ok"

Response(e) ==
    LET obs == [kind |-> e.status, listing |-> e.listing]
        mdl == Pipeline(d, raw)
        v   == RobustClause(d, obs)
    IN /\ p' = [p EXCEPT !.out = mdl] /\ pc' = "done" /\ UNCHANGED <<d, raw, j, pred, seen>>
       /\ verdict' = IF pc = "done" THEN "unmatched" ELSE v
       /\ (IF v # "ok" \/ obs \in pred.outs THEN TRUE
           ELSE RecordDrift(tid, l, "listing differs from the pipeline model"))
       /\ (IF v # "ok" \/ seen \in pred.touches THEN TRUE
           ELSE RecordDrift(tid, l, "children inspected in another order than the model predicts"))

Consume ==
    /\ l <= Len(Ev) /\ verdict = "ok"
    /\ l' = l + 1 /\ UNCHANGED tid
    /\ LET e == Ev[l] IN
       IF e.ev \notin Known THEN UNCHANGED <<dvars, pred, seen>> /\ verdict' = "unmatched"
       ELSE CASE e.ev = "enum" -> Enum(e)
              [] e.ev = "touches" -> Touches(e)
              [] e.ev = "response" -> Response(e)

TSpec == TInit /\ [][Consume]_tvars
Record == RecordVerdict(tid, l, verdict, Len(Ev))
Post == WriteVerdicts
=============================================================================
