------------------------------ MODULE TraceC12 ------------------------------
(* Trace specification for C12: one listing request of the REAL server for a directory      *)
(* in which some children cannot be served.  Events (recorded through the substituted       *)
(* os.listdir / os.stat / open and the protocol lexers):                                    *)
(*   enum      the order the substituted os.listdir handed out            -> ListDir        *)
(*   touches   names of the children whose own path was stat()ed/opened, in order           *)
(*   response  status (ok | notfound | error | none | hang) and the lexed listing           *)
(*   fetch     what an exact-selector request (same protocol form) for a child that the     *)
(*             listing omits returned: served | refused | none                              *)
(*   end       end of the history                                                           *)
(* Property level (VIOLATION), clause Robust of Dir:                                        *)
(*   Robust.Answered       the response is a success listing (unless the same directory     *)
(*                         WITHOUT any child is refused as well - control request recorded  *)
(*                         in `dirrefused`: no child is involved, drift only)               *)
(*   Robust.HealthyListed  every healthy visible child is listed - healthy judged on the    *)
(*                         implementation: an omitted child that the model's pinned filter  *)
(*                         calls healthy is a violation iff the server SERVES it by exact   *)
(*                         selector; if the server refuses it, it is unservable under the   *)
(*                         code's own rules and may be omitted (DRIFT: filter differs)      *)
(*   Robust.OnlyVisible    nothing but visible children of the directory is listed          *)
(* Design level (DRIFT, only when the property holds): the children are inspected in the    *)
(* order the pipeline model predicts and the listing is exactly Pipeline(d, order).         *)
EXTENDS Dir, MC_C07_data, TraceBase

VARIABLES tid, l, verdict, pred, seen, pending
tvars == <<dvars, tid, l, verdict, pred, seen, pending>>

Ev == Traces[tid].events
DirOf(i) == [sb |-> i.sb, handler |-> i.handler, ign |-> i.ign, sniff |-> i.sniff, kids |-> Range(i.kids)]

TInit == /\ tid \in 1..NTraces /\ l = 1 /\ verdict = "ok" /\ pred = NoExpect /\ seen = <<>> /\ pending = {}
         /\ DirInit(DirOf(Traces[tid].init.d))

Known == {"enum", "touches", "response", "fetch", "end"}

Enum(e) ==
    IF pc = "start" /\ IsEnumOf(d, e.order)
    THEN ListDir(e.order) /\ pred' = Expect(d, e.order) /\ verdict' = "ok" /\ UNCHANGED <<seen, pending>>
    ELSE UNCHANGED <<dvars, pred, seen, pending>> /\ verdict' = "unmatched"

Touches(e) == UNCHANGED <<dvars, pred, pending>> /\ seen' = e.names /\ verdict' = "ok"

\* Robust.HealthyListed is judged on the implementation itself: a child the model calls healthy (pinned filter) that
\* the listing omits stays PENDING until the trace shows what an exact-selector request for it returned
Response(e) ==
    LET obs     == [kind |-> e.status, listing |-> e.listing]
        mdl     == Pipeline(d, raw)
        \* the directory is refused INDEPENDENTLY of its children: the control request for the same directory with
        \* every child removed (same protocol form) was not answered with a success listing either (e.dirrefused is
        \* that observation, e.g. the directory's own name is rejected by the code's filter).  No child took the
        \* listing down - outside the property, reported as drift
        refused == obs.kind # "ok" /\ e.dirrefused
        v       == IF refused THEN "ok"
                   ELSE IF obs.kind # "ok" THEN "Robust.Answered"
                   ELSE IF ~(ListedNames(d, obs.listing) \subseteq Visible(d)) THEN "Robust.OnlyVisible"
                   ELSE IF ~LinkItemsListed(d, obs.listing) THEN "Robust.HealthyListed"   \* an item of a HEALTHY link file is gone
                   ELSE "ok"
        missing == IF obs.kind = "ok" THEN Healthy(d) \ ListedNames(d, obs.listing) ELSE {}
    IN /\ p' = [p EXCEPT !.out = mdl] /\ pc' = "done" /\ UNCHANGED <<d, raw, j, pred, seen>>
       /\ pending' = missing
       /\ verdict' = IF pc = "done" THEN "unmatched" ELSE v
       /\ (IF ~refused THEN TRUE
           ELSE RecordDrift(tid, l, "the server refuses the directory itself by its own selector (the model lists it)"))
       /\ (IF v # "ok" \/ refused \/ missing # {} \/ obs \in pred.outs THEN TRUE
           ELSE RecordDrift(tid, l, "listing differs from the pipeline model"))
       /\ (IF v # "ok" \/ refused \/ seen \in pred.touches THEN TRUE
           ELSE RecordDrift(tid, l, "children inspected in another order than the model predicts"))

\* what the server answered when the omitted child was requested by its exact selector (same protocol form)
Fetch(e) ==
    /\ UNCHANGED <<dvars, pred, seen>>
    /\ IF pc # "done" THEN verdict' = "unmatched" /\ UNCHANGED pending
       ELSE IF e.name \notin pending THEN verdict' = "ok" /\ UNCHANGED pending
       ELSE IF e.got = "refused"
       THEN /\ verdict' = "ok" /\ pending' = pending \ {e.name}      \* unservable under the code's own rules: may be omitted
            /\ RecordDrift(tid, l, "omitted child is healthy by the model's pinned filter but the server refuses it by exact selector")
       ELSE verdict' = "Robust.HealthyListed" /\ UNCHANGED pending     \* the server serves it, yet the listing dropped it

End(e) ==
    /\ UNCHANGED <<dvars, pred, seen, pending>>
    /\ verdict' = IF pc # "done" THEN "unmatched"
                  ELSE IF pending # {} THEN "Robust.HealthyListed.NotProbed" ELSE "ok"

Consume ==
    /\ l <= Len(Ev) /\ verdict = "ok"
    /\ l' = l + 1 /\ UNCHANGED tid
    /\ LET e == Ev[l] IN
       IF e.ev \notin Known THEN UNCHANGED <<dvars, pred, seen, pending>> /\ verdict' = "unmatched"
       ELSE CASE e.ev = "enum" -> Enum(e)
              [] e.ev = "touches" -> Touches(e)
              [] e.ev = "response" -> Response(e)
              [] e.ev = "fetch" -> Fetch(e)
              [] e.ev = "end" -> End(e)

TSpec == TInit /\ [][Consume]_tvars
Record == RecordVerdict(tid, l, verdict, Len(Ev))
Post == WriteVerdicts
=============================================================================
