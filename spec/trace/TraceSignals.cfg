SPECIFICATION TSpec
CONSTANTS
  Children = {"c1"}
  Outsiders = {"shell"}
CONSTRAINT Record
POSTCONDITION Post
CHECK_DEADLOCK FALSE
