SPECIFICATION TSpec
CONSTANTS
  Defects <- K_Defects
  InjText <- K_InjText
CONSTRAINT Record
POSTCONDITION Post
CHECK_DEADLOCK FALSE
