------------------------------ MODULE TALCache ------------------------------
(* simpleTALUtils.TemplateCache as a state machine over a virtual clock (growth check XTALX). *)
(*                                                                                            *)
(* Source of the properties (docstrings of /repo/simpletal/simpleTALUtils.py):                *)
(*   class TemplateCache: "caches compiled templates. This cache only works with file based   *)
(*     templates, the ctime of the file is checked on each hit, if the file has changed the   *)
(*     template is re-compiled."                                                              *)
(*   getTemplate: "If the path ends in 'xml' it is treated as an XML Template, otherwise it's *)
(*     treated as an HTML Template.  If the template file has changed since the last cache it *)
(*     will be re-compiled."      getXMLTemplate: "Name should be the path of an XML template" *)
(*   __init__: hits / misses counters.                                                        *)
(*                                                                                            *)
(* Structure like the code: one action per public call, plus the environment (Write, Touch,   *)
(* Delete, Tick).  Time is counted in HALF seconds; the code compares os.stat()[ST_MTIME],    *)
(* i.e. whole seconds.  Named deviations of the code from the ideal "re-compiled whenever the  *)
(* file changed" (modelled, not idealised away):                                              *)
(*   IntMTime     a change within the same whole second as the cached mtime is a (stale) HIT   *)
(*   KindCached   the cache is keyed by name only: a hit returns whatever kind was compiled     *)
(*   Sniffed      getTemplate also compiles as XML when the first line starts with <?xml or     *)
(*                is an XHTML DOCTYPE ("We have to guess...")                                   *)
(* Property clauses (what the docstrings promise; also judged on the real class by             *)
(* spec/trace/TraceXtalxCache.tla):                                                            *)
(*   Fresh        a returned template whose cached whole-second mtime differs from the file's   *)
(*                (or that was not cached) is the compilation of the file's CURRENT contents    *)
(*   StaleOnlyByHit  a template of other than the current contents is only ever returned by a   *)
(*                hit with equal whole-second mtime                                            *)
(*   Counters     hits = number of calls answered from the cache, misses = number of            *)
(*                compilations stored; a failed call changes neither                            *)
(*   KindRule     on a miss: getXMLTemplate or a name ending in "xml" -> XML template; a name    *)
(*                not ending in xml whose contents carry no XML marker -> HTML template         *)
(*   ErrKeeps     a call that raises leaves cache and counters unchanged (and the lock free)    *)
EXTENDS Naturals, Sequences, FiniteSets, TLC

CONSTANTS Files,        \* template file names
          XmlNames,     \* the names ending in "xml"
          Contents,     \* content ids
          SniffXml,     \* contents whose first line makes getTemplate guess XML
          XmlOk,        \* contents that are well-formed XML (compileXMLTemplate succeeds)
          MaxClock,     \* bound on the virtual clock (half seconds)
          MaxLen        \* bound on the history length

VARIABLES fs,           \* file system: name -> [ex, c, mt]   (mt in half seconds)
          clock,
          cache,        \* templateCache: name -> [has, c, kind, mt]  (mt in whole seconds), gen = object number
          hits, misses,
          ngen,         \* number of template objects compiled so far
          h             \* history of actions with their results

cvars == <<fs, clock, cache, hits, misses, ngen, h>>

Sec(mt) == mt \div 2
NoFile == [ex |-> FALSE, c |-> "", mt |-> 0]
NoEntry == [has |-> FALSE, c |-> "", kind |-> "", mt |-> 0, gen |-> 0]
NoRes == [res |-> "", c |-> "", kind |-> "", hit |-> FALSE, gen |-> 0]

CInit == /\ fs = [f \in Files |-> NoFile] /\ clock = 3
         /\ cache = [f \in Files |-> NoEntry] /\ hits = 0 /\ misses = 0 /\ ngen = 0 /\ h = <<>>

Ev(a, f, c, r) == [a |-> a, f |-> f, c |-> c, r |-> r]

\* ---- environment -----------------------------------------------------------------------------
Tick == /\ clock < MaxClock /\ clock' = clock + 1 /\ h' = Append(h, Ev("tick", "", "", NoRes))
        /\ UNCHANGED <<fs, cache, hits, misses, ngen>>
Write(f, c) == /\ fs' = [fs EXCEPT ![f] = [ex |-> TRUE, c |-> c, mt |-> clock]]
               /\ h' = Append(h, Ev("write", f, c, NoRes)) /\ UNCHANGED <<clock, cache, hits, misses, ngen>>
Touch(f) == /\ fs[f].ex /\ fs[f].mt # clock /\ fs' = [fs EXCEPT ![f].mt = clock]
            /\ h' = Append(h, Ev("touch", f, "", NoRes)) /\ UNCHANGED <<clock, cache, hits, misses, ngen>>
Delete(f) == /\ fs[f].ex /\ fs' = [fs EXCEPT ![f] = NoFile]
             /\ h' = Append(h, Ev("delete", f, "", NoRes)) /\ UNCHANGED <<clock, cache, hits, misses, ngen>>

\* ---- the class: getTemplate / getXMLTemplate -> (result, cache', hits', misses', ngen') ----------
KindOf(f, c, xml) == IF xml \/ f \in XmlNames \/ c \in SniffXml THEN "xml" ELSE "html"
Outcome(file, entry, f, xml, hi, mi, ng) ==
    IF entry.has /\ ~file.ex                      \* os.stat raises before anything else
    THEN [r |-> [NoRes EXCEPT !.res = "err:FileNotFoundError"], e |-> entry, hi |-> hi, mi |-> mi, ng |-> ng]
    ELSE IF entry.has /\ entry.mt = Sec(file.mt)  \* "Cache hit!"
    THEN [r |-> [res |-> "tmpl", c |-> entry.c, kind |-> entry.kind, hit |-> TRUE, gen |-> entry.gen],
          e |-> entry, hi |-> hi + 1, mi |-> mi, ng |-> ng]
    ELSE IF ~file.ex                              \* _cacheTemplate_: open() raises, lock released
    THEN [r |-> [NoRes EXCEPT !.res = "err:FileNotFoundError"], e |-> entry, hi |-> hi, mi |-> mi, ng |-> ng]
    ELSE LET k == KindOf(f, file.c, xml) IN
         IF k = "xml" /\ file.c \notin XmlOk      \* the compiler raises, lock released, nothing stored
         THEN [r |-> [NoRes EXCEPT !.res = "err:SAXParseException"], e |-> entry, hi |-> hi, mi |-> mi, ng |-> ng]
         ELSE [r |-> [res |-> "tmpl", c |-> file.c, kind |-> k, hit |-> FALSE, gen |-> ng + 1],
               e |-> [has |-> TRUE, c |-> file.c, kind |-> k, mt |-> Sec(file.mt), gen |-> ng + 1],
               hi |-> hi, mi |-> mi + 1, ng |-> ng + 1]

GetAny(f, xml) ==
    LET o == Outcome(fs[f], cache[f], f, xml, hits, misses, ngen) IN
    /\ cache' = [cache EXCEPT ![f] = o.e] /\ hits' = o.hi /\ misses' = o.mi /\ ngen' = o.ng
    /\ h' = Append(h, Ev(IF xml THEN "getxml" ELSE "get", f, IF fs[f].ex THEN fs[f].c ELSE "", o.r))
    /\ UNCHANGED <<fs, clock>>
Get(f) == GetAny(f, FALSE)
GetXML(f) == GetAny(f, TRUE)

CNext == /\ Len(h) < MaxLen
         /\ \/ Tick
            \/ \E f \in Files : Touch(f) \/ Delete(f) \/ Get(f) \/ GetXML(f) \/ \E c \in Contents : Write(f, c)
CSpec == CInit /\ [][CNext]_cvars

\* ---- properties ---------------------------------------------------------------------------------
IsGet(e) == e.a \in {"get", "getxml"}
Count(P(_)) == Cardinality({i \in DOMAIN h : P(h[i])})

\* clause operators shared with the trace spec: `file`/`entry` = state before the call, r = result
FreshOn(file, entry, r) ==
    /\ (r.res = "tmpl" /\ (~entry.has \/ entry.mt # Sec(file.mt))) => (file.ex /\ r.c = file.c /\ ~r.hit)
    /\ (r.res = "tmpl" /\ ~r.hit) => (file.ex /\ r.c = file.c)          \* whatever is compiled is the current contents
StaleOnlyByHitOn(file, entry, r) ==
    (r.res = "tmpl" /\ (~file.ex \/ r.c # file.c)) => (entry.has /\ file.ex /\ entry.mt = Sec(file.mt))
KindRuleOn(f, file, xml, r) ==
    (r.res = "tmpl" /\ ~r.hit) => /\ (xml \/ f \in XmlNames) => r.kind = "xml"
                                  /\ (~xml /\ f \notin XmlNames /\ file.c \notin SniffXml) => r.kind = "html"

TypeOK == /\ hits \in Nat /\ misses \in Nat /\ clock \in 2..MaxClock
          /\ \A f \in Files : cache[f].has => cache[f].kind \in {"html", "xml"}
Counters == /\ hits = Count(LAMBDA e : IsGet(e) /\ e.r.res = "tmpl" /\ e.r.hit)
            /\ misses = Count(LAMBDA e : IsGet(e) /\ e.r.res = "tmpl" /\ ~e.r.hit)
            /\ misses = ngen
\* a cached entry that is not the current contents has the file's whole-second mtime (IntMTime) or an older one
CacheSound == \A f \in Files : (cache[f].has /\ fs[f].ex) => cache[f].mt <= Sec(fs[f].mt)
Fresh == [][\A f \in Files : \A x \in BOOLEAN :
              LET r == Outcome(fs[f], cache[f], f, x, hits, misses, ngen).r IN
              (Len(h') = Len(h) + 1 /\ IsGet(h'[Len(h')]) /\ h'[Len(h')].f = f) =>
                  /\ FreshOn(fs[f], cache[f], h'[Len(h')].r)
                  /\ StaleOnlyByHitOn(fs[f], cache[f], h'[Len(h')].r)
                  /\ KindRuleOn(f, fs[f], h'[Len(h')].a = "getxml", h'[Len(h')].r)]_cvars
ErrKeeps == [][(Len(h') = Len(h) + 1 /\ IsGet(h'[Len(h')]) /\ h'[Len(h')].r.res # "tmpl")
               => UNCHANGED <<cache, hits, misses, ngen>>]_cvars
=============================================================================
