SPECIFICATION Spec
CONSTANTS
  WapTop <- C_WapTop
  EmptyPlusFieldRaises <- C_EmptyPlusFieldRaises
  GluedAcceptUnrecognised <- C_GluedAcceptUnrecognised
INVARIANT ClaimsMatchShape
INVARIANT Total
INVARIANT TlsStrict
INVARIANT Ordered
INVARIANT Deterministic
INVARIANT KnownIsCrash
CHECK_DEADLOCK FALSE
