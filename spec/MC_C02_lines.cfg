SPECIFICATION Spec
CONSTANTS
  WapTop <- C_WapTop
  EmptyPlusFieldRaises <- C_EmptyPlusFieldRaises
INVARIANT ClaimsMatchShape
INVARIANT Total
INVARIANT TlsStrict
INVARIANT Ordered
INVARIANT Deterministic
INVARIANT KnownIsCrash
CHECK_DEADLOCK FALSE
