SPECIFICATION CSpec
CONSTANTS
  Files = {"a.html", "b.xml"}
  XmlNames = {"b.xml"}
  Contents = {"h1", "x1", "d1"}
  SniffXml = {"d1"}
  XmlOk = {"x1", "d1"}
  MaxClock = 6
  MaxLen = 3
INVARIANTS TypeOK Counters CacheSound
PROPERTIES Fresh ErrKeeps
CHECK_DEADLOCK FALSE
