---------------------------- MODULE MC_C03_consts ----------------------------
(* Constants of Server for the C03 / C20 checks.  This checked-in copy holds the values of *)
(* the pinned tree (quick tier, no recorded defects, a 4-request history alphabet and two   *)
(* C20 cases) so that the .cfg files next to it run stand-alone; every run of harness/c03.py *)
(* and harness/c20.py REGENERATES the file next to the staged specs (binding B1): protocol  *)
(* order and handler lists are read from conf/pygopherd.conf, the tree is the one the       *)
(* harness builds, Defects comes from known_findings.json, C_C20Cases from measured runs.   *)
EXTENDS TLC
C_ProtoOrder == <<"WAPProtocol", "GeminiProtocol", "HTTPProtocol", "HTTPSProtocol", "SpartanProtocol", "GopherPlusProtocol", "SecureGopherPlusProtocol", "GopherProtocol", "SecureGopherProtocol">>
C_HandlerLists == ("default" :> <<"HTMLURLHandler", "BuckGophermapHandler", "MaildirFolderHandler", "MaildirMessageHandler", "UMNDirHandler", "HTMLFileTitleHandler", "MBoxMessageHandler", "MBoxFolderHandler", "FileHandler">> @@ "full" :> <<"HTMLURLHandler", "BuckGophermapHandler", "MaildirFolderHandler", "MaildirMessageHandler", "UMNDirHandler", "TALFileHandler", "HTMLFileTitleHandler", "MBoxMessageHandler", "MBoxFolderHandler", "PYGHandler", "ExecHandler", "ZIPHandler", "CompressedFileHandler", "FileHandler", "URLTypeRewriter">>)
C_Tree == ("default" :> ("/" :> "dir" @@ "/about.txt" :> "file" @@ "/big.txt" :> "file" @@ "/d" :> "dir" @@ "/d/a.txt" :> "file" @@ "/d/b.txt" :> "file" @@ "/d/sub" :> "dir" @@ "/d/sub/c.txt" :> "file" @@ "/gm" :> "gmapdir" @@ "/gm/gophermap" :> "file" @@ "/gm/x.txt" :> "file" @@ "/m.mbox" :> "mbox" @@ "/md" :> "maildir" @@ "/md/cur" :> "dir" @@ "/md/cur/1001.2.host:2,S" :> "file" @@ "/md/new" :> "dir" @@ "/md/new/1000.1.host" :> "file" @@ "/md/tmp" :> "dir" @@ "/md/tmp/.keep" :> "file" @@ "/p.pyg" :> "pyg" @@ "/page.html" :> "html" @@ "/run.sh" :> "exe" @@ "/t.txt.gz" :> "gz" @@ "/umn" :> "dir" @@ "/umn/.Links" :> "file" @@ "/umn/f.txt" :> "file" @@ "/z.zip" :> "zip") @@ "full" :> ("/" :> "dir" @@ "/about.txt" :> "file" @@ "/big.txt" :> "file" @@ "/d" :> "dir" @@ "/d/a.txt" :> "file" @@ "/d/b.txt" :> "file" @@ "/d/sub" :> "dir" @@ "/d/sub/c.txt" :> "file" @@ "/gm" :> "gmapdir" @@ "/gm/gophermap" :> "file" @@ "/gm/x.txt" :> "file" @@ "/m.mbox" :> "mbox" @@ "/md" :> "maildir" @@ "/md/cur" :> "dir" @@ "/md/cur/1001.2.host:2,S" :> "file" @@ "/md/new" :> "dir" @@ "/md/new/1000.1.host" :> "file" @@ "/md/tmp" :> "dir" @@ "/md/tmp/.keep" :> "file" @@ "/p.pyg" :> "pyg" @@ "/page.html" :> "html" @@ "/run.sh" :> "exe" @@ "/t.txt.gz" :> "gz" @@ "/umn" :> "dir" @@ "/umn/.Links" :> "file" @@ "/umn/f.txt" :> "file" @@ "/z.zip" :> "zip" @@ "/z.zip/sub" :> "zdir" @@ "/z.zip/sub/inner.txt" :> "zfile" @@ "/z.zip/top.txt" :> "zfile"))
C_MailCount == ("/m.mbox" :> 2 @@ "/md" :> 2)
C_Defects == {}
C_Bytecode == FALSE
C_Buffered == FALSE
C_OpsBound == 810
C_Frames == {"g", "g_4f", "g_eof", "g_lf", "g_q", "g_q_tab", "g_sp", "g_tab", "gem", "gem_bad1", "gem_bad2", "gem_noauth", "gem_plain", "gem_q", "gem_query", "gem_query_q", "gp_dir", "gp_info", "gp_plus", "gp_q", "gp_view", "h_09", "h_get", "h_hdrs_noblank", "h_head", "h_noblank", "h_q", "s", "s_2sp", "s_short", "tg", "tg_tab", "th_get", "w_get", "w_hdr"}
C_Sels == {"", "/", "/%2", "/%zz", "/../about.txt", "/1/about.txt", "/URL:http://x.org/", "/a%00b", "/about.txt", "/about.txt/x", "/a~b", "/big.txt", "/d", "/d/", "/d/.cache.pygopherd.dir", "/d//a.txt", "/gm", "/m.mbox", "/md", "/nofile", "/p.pyg", "/page.html", "/run.sh", "/t.txt.gz", "/umn", "/x\ry", "/x%0d%0ay", "/z.zip", "/z.zip/nope", "/z.zip/sub", "/z.zip/sub/inner.txt"}
C_ArgFrames == {"g", "gem", "gp_plus", "h_get", "s"}
C_ArgSels == {"/about.txt", "/d", "/m.mbox", "/md", "/nofile"}
C_Args == {"?/MBOX-MESSAGE/1", "|", "|/MAILDIR-MESSAGE/0", "|/MAILDIR-MESSAGE/1", "|/MAILDIR-MESSAGE/2", "|/MAILDIR-MESSAGE/3", "|/MBOX-MESSAGE/", "|/MBOX-MESSAGE/-1", "|/MBOX-MESSAGE/0", "|/MBOX-MESSAGE/1", "|/MBOX-MESSAGE/1000000000", "|/MBOX-MESSAGE/2", "|/MBOX-MESSAGE/3", "|/MBOX-MESSAGE/x"}
C_HLs == {"default", "full"}
C_Reps == <<[f |-> "g", s |-> "/", a |-> ""], [f |-> "gp_dir", s |-> "/", a |-> ""], [f |-> "h_get", s |-> "/", a |-> ""], [f |-> "g", s |-> "/d", a |-> ""]>>
C_MaxHist == 1
C_C20Cases == <<[line |-> "/big.txt\r\n", tls |-> FALSE, wap |-> FALSE, hl |-> "default", tail |-> "none", fk |-> 0, fcls |-> "none", nw |-> 3, id |-> "g :: /big.txt :: default"], [line |-> "localhost /d 0\r\n", tls |-> FALSE, wap |-> FALSE, hl |-> "default", tail |-> "none", fk |-> 0, fcls |-> "none", nw |-> 1, id |-> "s :: /d :: default"]>>
=============================================================================
