---------------------------- MODULE MC_C03_consts ----------------------------
(* Constants of Server for the C03 / C20 checks.  This checked-in copy holds the values of *)
(* the pinned tree; every run of harness/c03.py / c20.py REGENERATES the file next to the   *)
(* specs (binding B1): protocol order and handler lists are read from conf/pygopherd.conf, *)
(* the tree is the one the harness builds, Defects comes from known_findings.json.          *)
EXTENDS TLC
C_ProtoOrder == <<"WAPProtocol", "GeminiProtocol", "HTTPProtocol", "HTTPSProtocol", "SpartanProtocol", "GopherPlusProtocol", "SecureGopherPlusProtocol", "GopherProtocol", "SecureGopherProtocol">>
C_HandlerLists == ("default" :> <<"HTMLURLHandler", "BuckGophermapHandler", "MaildirFolderHandler", "MaildirMessageHandler", "UMNDirHandler", "HTMLFileTitleHandler", "MBoxMessageHandler", "MBoxFolderHandler", "FileHandler">> @@ "full" :> <<"HTMLURLHandler", "BuckGophermapHandler", "MaildirFolderHandler", "MaildirMessageHandler", "UMNDirHandler", "TALFileHandler", "HTMLFileTitleHandler", "MBoxMessageHandler", "MBoxFolderHandler", "PYGHandler", "ExecHandler", "ZIPHandler", "CompressedFileHandler", "FileHandler", "URLTypeRewriter">>)
C_Tree == ("default" :> ("/" :> "dir" @@ "/about.txt" :> "file" @@ "/d" :> "dir" @@ "/m.mbox" :> "mbox") @@ "full" :> ("/" :> "dir" @@ "/about.txt" :> "file" @@ "/d" :> "dir" @@ "/m.mbox" :> "mbox"))
C_MailCount == ("/m.mbox" :> 2 @@ "/md" :> 2)
C_Defects == {}
C_Bytecode == FALSE
C_OpsBound == 2000
C_Frames == {"g", "g_tab", "gp_plus", "h_get", "h_head", "gem", "gem_bad1", "s"}
C_Sels == {"/", "/about.txt", "/nofile", "/a~b", "/x%0d%0ay"}
C_ArgFrames == {"g", "s"}
C_ArgSels == {"/m.mbox", "/nofile"}
C_Args == {"|/MBOX-MESSAGE/1", "|/MBOX-MESSAGE/3"}
C_HLs == {"default"}
C_Reps == <<[f |-> "g", s |-> "/", a |-> ""], [f |-> "g", s |-> "/.cache.pygopherd.dir", a |-> ""], [f |-> "h_get", s |-> "/", a |-> ""]>>
C_MaxHist == 1
C_C20Cases == <<[line |-> "/about.txt\r\n", tls |-> FALSE, wap |-> FALSE, hl |-> "default", tail |-> "none", fk |-> 0, fcls |-> "none", nw |-> 1, id |-> "g :: /about.txt :: default"]>>
=============================================================================
