------------------------------- MODULE MC_C20 -------------------------------
(* Bounded design model for C20 over the connection machine of Server.                      *)
(*                                                                                          *)
(* Cases (constant C_C20Cases, generated per run): one request per response kind (document, *)
(* menu, error page, Gopher+ info, ZIP member, mailbox message, ...) x protocol, each with   *)
(* nw = the number of write() calls the REAL server made in a fault-free run (measured by    *)
(* harness/c20.py immediately before; binding B1).  TLC fails EVERY write index k in 1..nw   *)
(* with each error class: from index k on every write() raises (the connection is dead).     *)
(* The exception flow is the machine's: a failing write inside the protocol's try is caught  *)
(* by CatchInProtocol, which logs, builds an error reply from the error's arguments and      *)
(* writes again - failing again - so that CatchInServer logs a second record; writes of an   *)
(* error page and Gemini/Spartan bodies go straight to CatchInServer.  Every closed state is *)
(* one replay case (request, k, class) for the real server (binding B2).                     *)
EXTENDS Server, TLC, MC_C03_consts

Classes == {"BrokenPipeError", "ConnectionResetError", "TimeoutError"}    \* EPIPE, ECONNRESET, socket.timeout("timed out")

C20Init ==
    \E i \in 1..Len(C_C20Cases), cls \in Classes :
       \E k \in 1..C_C20Cases[i].nw :
          InitConn([C_C20Cases[i] EXCEPT !.fk = k, !.fcls = cls], TreeOf(C_C20Cases[i].hl))
C20Spec == C20Init /\ [][Step]_vars

Closed == pc = "closed"
Contained   == Closed => ContainedV(ModelView)
OwnClass    == Closed => (Excused \/ OwnClassV(ModelView, rq.fcls))
FilesClosed == Closed => FilesClosedV(ModelView)
\* the recorded defect is real in the model: an excused connection does log a foreign class
DefectsBite == (Closed /\ Excused) => ~OwnClassV(ModelView, rq.fcls)
\* vacuity: in every case the injected failure is reached, and the connection terminates
Injected    == Closed => mark >= 0
Terminates  == (~Closed) => ENABLED Step
=============================================================================
