SPECIFICATION Spec
CONSTANTS
  Quirks = {"DashOnlyInCap", "CommentEndsBlock", "NumAlwaysMerged", "DoubleHideCrash"}
INVARIANT BlockAsDocumented
PROPERTY Progress
CHECK_DEADLOCK FALSE
