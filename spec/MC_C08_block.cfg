SPECIFICATION Spec
CONSTANTS
  Quirks = {"CommentEndsBlock"}
INVARIANT BlockAsDocumented
PROPERTY Progress
CHECK_DEADLOCK FALSE
