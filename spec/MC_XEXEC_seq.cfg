SPECIFICATION Spec
CONSTANTS
  SplitFirstMark = TRUE
  WapCaptures = TRUE
  Bases <- BasesPair
  SepSet <- BarOnly
  ArgSet <- ArgsPair
  Searches <- SearchQuick
  Fams <- FamsPair
  ServerEnvs <- EnvsOne
  MaxReq = 2
INVARIANT GatedRun
INVARIANT GatedLoad
INVARIANT ServedWhenGated
INVARIANT ArgvVerbatim
INVARIANT EnvDocumented
INVARIANT NoStale
INVARIANT OutExact
INVARIANT PygSeesRequest
INVARIANT Reaped
INVARIANT NoFdLeft
INVARIANT StderrNotSent
PROPERTY EnvUntouched
CHECK_DEADLOCK FALSE
