SPECIFICATION MSpec
CONSTANTS
  Names = {"a", "b"}
  Workers = {1}
  Full = 2
  Lifetimes = {0, 4}
  MaxClock = 9
  MaxHist = 3
  MaxLen = 0
VIEW NoH
CONSTRAINT Bound
INVARIANT NeverStale
INVARIANT NoLeak
INVARIANT ZeroMeansLive
INVARIANT OnlyCompleteLoads
PROPERTY NoRefresh
CHECK_DEADLOCK FALSE
