-------------------------- MODULE MC_XMBOX_consts --------------------------
(* Constants of MC_XMBOX / TraceXMBOX that a TLC configuration file cannot spell (sets of   *)
(* records, tuples).  This file holds the QUICK-tier alphabets; harness/xmbox.py regenerates *)
(* it in the scratch directory of every run from its TIERS table (same text for quick).      *)
K_AllKinds == {[h |-> "plain", b |-> "text", e |-> "lf", f |-> "std"], [h |-> "none", b |-> "empty", e |-> "lf", f |-> "std"], [h |-> "empty", b |-> "fromline", e |-> "lf", f |-> "std"], [h |-> "fold", b |-> "text", e |-> "lf", f |-> "std"], [h |-> "tabs", b |-> "eight", e |-> "lf", f |-> "std"], [h |-> "enc", b |-> "gtfrom", e |-> "lf", f |-> "std"], [h |-> "eight", b |-> "text", e |-> "lf", f |-> "std"], [h |-> "long", b |-> "text", e |-> "lf", f |-> "std"], [h |-> "lower", b |-> "nonl", e |-> "lf", f |-> "std"], [h |-> "dup", b |-> "text", e |-> "crlf", f |-> "std"], [h |-> "tight", b |-> "fromline", e |-> "crlf", f |-> "std"], [h |-> "nohdr", b |-> "text", e |-> "lf", f |-> "std"], [h |-> "plain", b |-> "rawfrom", e |-> "lf", f |-> "std"], [h |-> "blank", b |-> "nonl", e |-> "crlf", f |-> "tz"]}
K_SmallKinds == {[h |-> "plain", b |-> "text", e |-> "lf", f |-> "std"], [h |-> "empty", b |-> "fromline", e |-> "lf", f |-> "std"], [h |-> "lower", b |-> "nonl", e |-> "lf", f |-> "std"]}
K_FolderPlaces == {"alt"}
K_FolderOrds == {"asc"}
K_OrderPlaces == {"new", "alt"}
K_OrdPairs == {<<"asc", "desc">>}
K_NumSizes == {0, 1, 3}
K_NumSet == {"zero", "neg", "next", "far", "word", "empty", "mixed", "space", "dec", "plus", "lead0", "d20", "d5000", "first", "last"}
K_AltNums == {"first", "last", "next", "zero", "word"}
K_FileShapes == {"std", "empty", "prose", "leadblank", "nodate", "tz", "nosec", "daemon", "extra", "glued", "extra2", "lower", "gt", "eight"}
K_DirShapes == {"full", "notmp", "curonly", "newonly", "newfile", "plain"}
K_Fes == {"G", "P", "D", "H", "M"}
K_Fams == {"folder", "fronts", "order", "flav", "num", "recog"}
=============================================================================
