------------------------------- MODULE Deliver -------------------------------
(* C04 - documents are delivered byte-for-byte with truthful length and type.               *)
(*                                                                                          *)
(* Design model of the delivery path of a regular file (pinned tree):                       *)
(*   ReadStep/ReadEOF  the copy loop of handlers/base.py VFS_Real.copyto: read at most B     *)
(*                     bytes, stop on the first EMPTY read, otherwise write what was read    *)
(*   EntryOf           gopherentry.populatefromfs for a file: size from stat, MIME type and  *)
(*                     encoding from the configured tables (a row of DATA), default type     *)
(*   Decompressed      handlers/file.py CompressedFileHandler.getentry: real type, no        *)
(*                     encoding; the size stays the size of the COMPRESSED file (SizeOfStored)*)
(*   Frame             per protocol: Gopher (body only), Gopher+ (+size line from            *)
(*                     entry.getsize(-2), then body), HTTP (status, Last-Modified, Content-  *)
(*                     Type, blank line, body iff GET), WAP (HTTP with text/plain rewritten  *)
(*                     as WML), Gemini / Spartan (status + MIME, body)                       *)
(*   WmlOf / WmlInv    protocols/wap.py handlerwrite: split at LF only, rstrip, html.escape, *)
(*                     blank line -> paragraph break; and the inverse                        *)
(* Bytes are abstracted to CLASSES (x LF CR NUL LT AMP ... one class per case distinguished  *)
(* by the code or by Python's str.rstrip / str.splitlines); contents are sequences of lines, *)
(* a line is a sequence of runs [c, n] (class, repetitions) so that contents around every    *)
(* multiple of the 4096-byte block stay small.  For the loop argument a content is           *)
(* <<1, .., n>> (positions), so that reordering, loss and duplication all show.              *)
EXTENDS Naturals, Integers, Sequences, FiniteSets

Min(a, b) == IF a < b THEN a ELSE b
Iota(n) == [j \in 1..n |-> j]

\* ---------------------------------------------------------------------------------------
\* The copy loop.  st = [n, pos, out, done]; B = block size; k = what this read() returned.
LoopInit(n) == [n |-> n, pos |-> 0, out |-> <<>>, done |-> FALSE]
CanRead(st, B, k) == ~st.done /\ st.pos < st.n /\ k \in 1..Min(B, st.n - st.pos)
ReadStep(st, k) == [st EXCEPT !.out = @ \o [j \in 1..k |-> st.pos + j], !.pos = @ + k]
AtEOF(st) == ~st.done /\ st.pos = st.n
ReadEOF(st) == [st EXCEPT !.done = TRUE]                    \* `if not len(data): break`
\* Loop: when the loop is done the output IS the content, whatever the read sizes were
LoopCorrect(st) == st.done => st.out = Iota(st.n)
LoopPrefix(st) == st.out = Iota(st.pos)                     \* inductive: always a prefix, in order
SizeClasses(B) == {0, 1, B - 1, B, B + 1, 2 * B - 1, 2 * B, 2 * B + 1, 3 * B}

\* ---------------------------------------------------------------------------------------
\* The request line.  server.py GopherRequestHandler.handle reads the WHOLE first line
\* (`self.rfile.readline()`, no limit) before any protocol looks at it, so a regular file is
\* reachable whatever the length of its path (a path on disk is at most PATH_MAX = 4095 bytes; the
\* percent-encoded forms of HTTP / WAP / Gemini / Spartan are up to three times as long).
\* Length classes of the request line, chosen around the caps a bounded reader would plausibly use
\* (1 KiB, 4 KiB, 5 KiB): p0 short, p1k > 1 KiB raw (> 3 KiB encoded), p2k > 5 KiB encoded,
\* p4k close to PATH_MAX raw (> 11 KiB encoded).  LineCap = "none" is the code as pinned.
PLens == {"p0", "p1k", "p2k", "p4k"}
PLenRank(p) == CASE p = "p0" -> 0 [] p = "p1k" -> 1 [] p = "p2k" -> 2 [] p = "p4k" -> 3
WholeLine(plen, cap) == cap = "none" \/ PLenRank(plen) < PLenRank(cap)

\* ---------------------------------------------------------------------------------------
\* Type assignment.  populatefromfs asks the tables (mimetypes.guess_type) for EVERY entry; nothing
\* is remembered between requests, so the type of a name is a function of the tables and the name
\* alone - not of the names requested or listed before in the same process (HistoryFree).  A row of the configured tables for a name: [type, enc] with "none" for
\* "no answer" (mimetypes.guess_type(name, strict=False) after init_mimetypes).
NoneS == "none"
DefaultMime == "text/plain"                                  \* [GopherEntry] defaultmimetype (B1)
EntryOf(row, size) ==
    [size |-> size,
     mime |-> IF row.enc # NoneS THEN "application/octet-stream"
              ELSE IF row.type # NoneS THEN row.type ELSE DefaultMime,
     enc |-> row.enc,
     encmime |-> IF row.enc # NoneS THEN row.type ELSE NoneS]
\* CompressedFileHandler takes the file iff the encoding has a configured decompressor and the
\* encoded type is known; the entry then advertises the real type
Decompresses(row, decompressors) == row.enc \in decompressors /\ row.type # NoneS
Decompressed(e) == [e EXCEPT !.mime = e.encmime, !.enc = NoneS, !.encmime = NoneS]
\* the TABLE's answer for what a client is told (the property's right-hand side)
TableMime(row, decompressors) ==
    IF Decompresses(row, decompressors) THEN row.type
    ELSE IF row.enc # NoneS THEN "application/octet-stream"
    ELSE IF row.type # NoneS THEN row.type ELSE DefaultMime

Protos == {"G", "GP", "H", "W", "GEM", "SP"}
\* adjustmimetype of http.py / wap.py, adjust_mimetype of gemini.py / spartan.py (for documents)
Adjust(p, mime) ==
    IF p = "W" /\ mime = "text/plain" THEN "text/vnd.wap.wml" ELSE mime
Converts(p, mime) == p = "W" /\ mime = "text/plain"          \* needsconversion
Advertises(p) == p \in {"H", "W", "GEM", "SP"}               \* protocols whose document reply names a type

\* ---------------------------------------------------------------------------------------
\* Framing.  body is what handler.write() produced.  Uniformly shaped frames.
NoLen == 0 - 1
GPlusLen(e) == IF e.size = NoLen THEN 0 - 2 ELSE e.size       \* entry.getsize(-2)
Headers(p, e) ==
    IF p \in {"H", "W"} THEN <<"status 200", "last-modified", "content-type " \o Adjust(p, e.mime)>>
    ELSE IF p \in {"GEM", "SP"} THEN <<"status ok " \o Adjust(p, e.mime)>>
    ELSE <<>>
Frame(p, method, e, body) ==
    [headers |-> Headers(p, e),
     len |-> IF p = "GP" THEN GPlusLen(e) ELSE NoLen,
     body |-> IF method = "HEAD" THEN <<>> ELSE body]

\* a Gopher+ reply states the length of its body; "unknown" (-2) only where the length cannot be
\* known before the body is produced (decompression)
LenTruthfulF(f, sizeknown) == f.len # NoLen => (f.len = Len(f.body) \/ (~sizeknown /\ f.len = 0 - 2))
HeadIsGetHeadersF(fh, fg) == fh.headers = fg.headers /\ fh.body = <<>>

\* ---------------------------------------------------------------------------------------
\* WAP text -> WML and back.  Classes that Python's str.rstrip() removes (str.isspace):
WS == {"SP", "TAB", "CR", "VT", "FF", "FS", "NEL", "LS", "NBSP"}
Esc(c) == CASE c = "AMP" -> "&amp;" [] c = "LT" -> "&lt;" [] c = "GT" -> "&gt;"
            [] c = "QUOT" -> "&quot;" [] c = "APOS" -> "&#x27;" [] OTHER -> c
Unesc(t) == CASE t = "&amp;" -> "AMP" [] t = "&lt;" -> "LT" [] t = "&gt;" -> "GT"
              [] t = "&quot;" -> "QUOT" [] t = "&#x27;" -> "APOS" [] OTHER -> t
Entities == {"&amp;", "&lt;", "&gt;", "&quot;", "&#x27;"}

RECURSIVE RStripRuns(_)
RStripRuns(line) == IF line = <<>> THEN <<>>
                    ELSE IF line[Len(line)].c \in WS THEN RStripRuns(SubSeq(line, 1, Len(line) - 1))
                    ELSE line
\* adjacent runs of one class merged (alpha lexes greedily)
RECURSIVE Merge(_)
Merge(line) == IF Len(line) < 2 THEN line
               ELSE IF line[1].c = line[2].c
                    THEN Merge(<<[c |-> line[1].c, n |-> line[1].n + line[2].n]>> \o SubSeq(line, 3, Len(line)))
                    ELSE <<line[1]>> \o Merge(SubSeq(line, 2, Len(line)))
MapRuns(line, f(_)) == [j \in 1..Len(line) |-> [c |-> f(line[j].c), n |-> line[j].n]]

Para == <<[c |-> "PARA", n |-> 1]>>                           \* `</p>\n<p>`
WmlLine(line) == LET r == RStripRuns(line) IN IF r = <<>> THEN Para ELSE MapRuns(r, Esc)
WmlOf(lines) == [j \in 1..Len(lines) |-> WmlLine(lines[j])]
InvLine(w) == IF w = Para THEN <<>> ELSE MapRuns(w, Unesc)
WmlInv(wml) == [j \in 1..Len(wml) |-> InvLine(wml[j])]
\* line by line, what the conversion keeps (everything but trailing white space) comes back
WmlExpected(lines) == [j \in 1..Len(lines) |-> Merge(RStripRuns(lines[j]))]
WmlInvertible(lines, wml) == Len(wml) = Len(lines) /\ [j \in 1..Len(wml) |-> Merge(InvLine(wml[j]))] = WmlExpected(lines)
\* the converted text never contains a raw "<" or "&": what makes the inverse unambiguous
WmlClean(wml) == \A j \in 1..Len(wml) : \A i \in 1..Len(wml[j]) : wml[j][i].c \notin {"LT", "AMP"}
=============================================================================
