SPECIFICATION Spec
CONSTANTS
  TAL_DEFINE = 1
  TAL_CONDITION = 2
  TAL_REPEAT = 3
  TAL_CONTENT = 4
  TAL_REPLACE = 5
  TAL_ATTRIBUTES = 6
  TAL_OMITTAG = 7
  TAL_START_SCOPE = 8
  TAL_OUTPUT = 9
  TAL_STARTTAG = 10
  TAL_ENDTAG_ENDSCOPE = 11
  TAL_NOOP = 13
  METAL_USE_MACRO = 14
  METAL_DEFINE_SLOT = 15
  METAL_FILL_SLOT = 16
  METAL_DEFINE_MACRO = 17
  VoidTags = {"area", "base", "basefont", "br", "col", "frame", "hr", "img", "input", "isindex", "link", "meta", "param"}
  Quick = TRUE
  Families = {"esc", "py", "doc"}
  CtxIds = {"A"}
  EscLen = 2
  NParts = 1
  Part = 0
  MaxSteps = 400
  KnownRawTextEscaped = TRUE
INVARIANT Terminates
INVARIANT Escaped
INVARIANT AttrEscaped
INVARIANT PythonGated
INVARIANT ContextRestored
INVARIANT PassThrough
POSTCONDITION WriteCases
CHECK_DEADLOCK FALSE
