SPECIFICATION Spec
INVARIANT StatesOk
INVARIANT BindFirst
INVARIANT ChrootComplete
INVARIANT FullyDropped
INVARIANT RootKept
INVARIANT FailAborts
INVARIANT ServingIsBound
PROPERTY StepsInOrder
CHECK_DEADLOCK FALSE
