SPECIFICATION Spec
INVARIANT StatesOk
INVARIANT BindFirst
INVARIANT ChrootComplete
INVARIANT FullyDropped
INVARIANT RootKept
INVARIANT FailAborts
INVARIANT GarbledAborts
INVARIANT ServingIsBound
PROPERTY StepsInOrder
CHECK_DEADLOCK FALSE
