------------------------------ MODULE MC_XEXEC ------------------------------
(* Bounded model of the script gateway: every request of a finite case space (front end x  *)
(* TLS x file of the fixture tree x separator x argument string x search string) is served  *)
(* by the Gateway state machine; MaxReq = 2 serves every ordered PAIR of a smaller space on *)
(* the same server (nothing of the first request may show in the second).  Every state with *)
(* pc = "after" and a complete history is one replay case for the real server (binding B2): *)
(* the harness reads `hist` and `senv` from TLC's state dump.                               *)
EXTENDS Gateway, TLC

CONSTANTS Bases, SepSet, ArgSet, Searches, Fams, ServerEnvs, MaxReq

VARIABLES hist
mcvars == <<gvars, hist>>

\* ---- alphabets (cfg files cannot spell quotes/backslashes: chosen by name there)
ArgsQuick == {"", "a b", "a  b", ";touch CANARY", "$(touch CANARY)", "*", "a?b", "x|y"}
ArgsThorough == ArgsQuick \cup {"a", "'q r'", "`touch CANARY`", "\"q r\"", ">CANARY", "&& touch CANARY", "$KEEP_ME", "-n",
                                "..", "a b c d", "%41+z", "a\\b", "~", "{g1,g2}"}
ArgsPair == {"a b"}

BasesQuick == {"/run", "/my run", "/bin.cgi", "/quiet.cgi", "/plain.txt", "/own.sh", "/xdir",
               "/x.pyg", "/n.pyg", "/z.zip/run", "/missing"}
BasesThorough == BasesQuick \cup {"/lnk", "/sub/run", "/oth.cgi", "/big.cgi", "/py.cgi", "/grp.sh", "/z.zip/x.pyg"}
BasesPair == {"/run", "/x.pyg"}
BasesPairThorough == {"/run", "/x.pyg", "/plain.txt"}

SearchQuick == {"", "find me"}
\* (a search string starting with $ or + would be read as a Gopher+ marker by the Gopher front ends: C02)
SearchThorough == SearchQuick \cup {";*$(touch CANARY)", "a=b&c d"}

FamsPair == {<<"gopher", FALSE>>, <<"gopher", TRUE>>, <<"http", FALSE>>}
FamsPairThorough == FamsPair \cup {<<"gemini", TRUE>>, <<"spartan", FALSE>>}
BothSeps == {"?", "|"}
BarOnly == {"|"}

Env0 == {<<"PATH", "/usr/bin:/bin">>, <<"KEEP_ME", "inherited">>}
\* a server started from an environment that already holds documented names: they are overwritten
Env1 == Env0 \cup {<<"SELECTOR", "/stale">>, <<"REQUEST", "/stale">>, <<"REMOTE_HOST", "stale.example">>,
                   <<"SERVER_PORT", "1">>}
EnvsBoth == {Env0, Env1}
EnvsOne == {Env0}
EnvsStale == {Env1}

\* the n-th request of a history comes from its own client
ClientOf(n) == IF n = 1 THEN [addr |-> "10.7.7.1", port |-> "7001"] ELSE [addr |-> "10.9.9.2", port |-> "9002"]

Selectors == Bases \cup {b \o s \o a : b \in Bases, s \in SepSet, a \in ArgSet}
\* the WAP front end converts text/plain into WML line by line: binary / bulk payloads are not
\* "the same modulo framing" there (C04 owns that conversion), so they are not asked through it
Askable(f, s) == ~(f[1] = "wap" /\ TreeAttr(DocBase(s)).prog \in {"bin", "big"})
Requests(n) == {[fe |-> f[1], tls |-> f[2], sel |-> s, search |-> q,
                 caddr |-> ClientOf(n).addr, cport |-> ClientOf(n).port]
                : f \in Fams, s \in Selectors, q \in Searches}

Init == /\ \E se \in ServerEnvs : GInit(se)
        /\ hist = <<>>

Next == \/ /\ Len(hist) < MaxReq
           /\ \E r \in Requests(Len(hist) + 1) :
                 /\ Askable(<<r.fe, r.tls>>, r.sel)
                 /\ Recv(r) /\ hist' = Append(hist, r)
        \/ GStep /\ UNCHANGED hist

Spec == Init /\ [][Next]_mcvars
EnvUntouched == [][senv' = senv]_mcvars
=============================================================================
