SPECIFICATION FairSpec
CONSTANTS
  MaxConn = 3
INVARIANT NoAnswerWithoutAccept
INVARIANT LogOrder
INVARIANT ExitStatus
PROPERTY AcceptOnlyWhileServing
PROPERTY EventuallyGone
CHECK_DEADLOCK FALSE
