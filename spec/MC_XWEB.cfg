SPECIFICATION Spec
CONSTANTS
  WapTop = "/wap"
  QueryPrefix = "/GEMINI-QUERY"
  ServerName = "localhost"
  IconNames <- K_IconNames
  IconPairs <- K_IconPairs
  GemFooterText <- K_GemFooter
  TreeFiles <- K_TreeFiles
  TreeDirs <- K_TreeDirs
  Fams <- K_Fams
  UnknownIcons <- K_UnknownIcons
  IconShapes <- K_IconShapes
  IconFronts <- K_IconFronts
  RowTypes <- K_RowTypes
  MaxRows = 14
  PosStride = 3
  SearchSels <- K_SearchSels
  Searches <- K_Searches
  SearchFronts <- K_SearchFronts
  WapSuffixes <- K_WapSuffixes
  GemUrls <- K_GemUrls
  UrlSels <- K_UrlSels
  RwChars <- K_RwChars
  RwRests <- K_RwRests
  SelFronts <- K_SelFronts
  HLs <- K_HLs
  CodeAccessKeys <- K_CodeAccessKeys
INVARIANT RenderInv
INVARIANT AccessKeysAsDocumented
INVARIANT MappedIcons
INVARIANT IconServedInv
INVARIANT UnknownIconInv
INVARIANT AccessKeysInv
INVARIANT SearchCardInv
INVARIANT WapPrefixInv
INVARIANT GemLinkLinesInv
INVARIANT GemPromptInv
INVARIANT GemSearchArrivesInv
INVARIANT GemBadRequestInv
INVARIANT GemSuccessMimeInv
INVARIANT UrlRedirectPageInv
INVARIANT UrlOnlyUrlsInv
INVARIANT RewriteSameInv
INVARIANT RewriteOnceInv
INVARIANT RewriteOffInv
CHECK_DEADLOCK FALSE
