SPECIFICATION Spec
CONSTANTS
  SortedMaildir = TRUE
  HeaderlessListed = TRUE
  HugeNumberRefused = TRUE
  From8Tolerated = TRUE
  AllKinds <- K_AllKinds
  MaxAll = 2
  SmallKinds <- K_SmallKinds
  MaxSmall = 4
  FolderPlaces <- K_FolderPlaces
  FolderOrds <- K_FolderOrds
  OrderPlaces <- K_OrderPlaces
  OrdPairs <- K_OrdPairs
  NumSizes <- K_NumSizes
  NumSet <- K_NumSet
  AltNums <- K_AltNums
  FileShapes <- K_FileShapes
  DirShapes <- K_DirShapes
  Fes <- K_Fes
  Fams <- K_Fams
INVARIANT RoundTripInv
INVARIANT RawFromSplitsInv
INVARIANT ServeIdempotentInv
INVARIANT ListingMatchesRetrievalInv
INVARIANT NumberedInv
INVARIANT HeaderlessAnsweredInv
INVARIANT From8AnsweredInv
INVARIANT PermutationInv
INVARIANT NumberingOrderIndependentInv
INVARIANT FlavoursAgreeInv
INVARIANT NoSuchMessageInv
INVARIANT RecognitionInv
CHECK_DEADLOCK FALSE
