\* default instance (pinned opcode numbers); harness/xtalx.py generates the cfg with the numbers imported from the tree (B1)
SPECIFICATION Spec
CONSTANTS
  TAL_DEFINE = 1
  TAL_CONDITION = 2
  TAL_REPEAT = 3
  TAL_CONTENT = 4
  TAL_REPLACE = 5
  TAL_ATTRIBUTES = 6
  TAL_OMITTAG = 7
  TAL_START_SCOPE = 8
  TAL_OUTPUT = 9
  TAL_STARTTAG = 10
  TAL_ENDTAG_ENDSCOPE = 11
  TAL_NOOP = 13
  METAL_USE_MACRO = 14
  METAL_DEFINE_SLOT = 15
  METAL_FILL_SLOT = 16
  METAL_DEFINE_MACRO = 17
  VoidTags = {}
  Thorough = FALSE
  MaxSteps = 400
INVARIANTS WellFormed Terminates Completes Refines PreambleShape
POSTCONDITION WriteCases
CHECK_DEADLOCK FALSE
