SPECIFICATION HistSpec
CONSTANTS
  ProtoOrder <- C_ProtoOrder
  HandlerLists <- C_HandlerLists
  Tree0 <- C_Tree
  MailCount <- C_MailCount
  Defects <- C_Defects
  Bytecode <- C_Bytecode
  Buffered <- C_Buffered
  OpsBound <- C_OpsBound
  Frames <- C_Frames
  Sels <- C_Sels
  ArgFrames <- C_ArgFrames
  ArgSels <- C_ArgSels
  Args <- C_Args
  HLs <- C_HLs
  Reps <- C_Reps
  MaxHist <- C_MaxHist
INVARIANT HistoryFree
CHECK_DEADLOCK FALSE
