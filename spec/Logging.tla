------------------------------- MODULE Logging -------------------------------
(* XLOG (growth beyond the listed properties): LOGGING and the administrative side of       *)
(* start-up.                                                                                *)
(*                                                                                          *)
(* Code abstracted                                                                          *)
(*   pygopherd/logger.py            init (logmethod syslog | file | none, priority,         *)
(*                                  facility), log_file, log_syslog, log_none               *)
(*   pygopherd/protocols/base.py    log() - the access record - and where handle() of every *)
(*                                  front end (base, gopherp, http, wap, gemini, spartan)   *)
(*                                  calls it and catches what the handler raises            *)
(*   pygopherd/GopherExceptions.py  log() - the exception record; FileNotFound logs itself  *)
(*                                  in its constructor                                      *)
(*   pygopherd/server.py            GopherRequestHandler.handle - the outer catch           *)
(*   pygopherd/initialization.py    initialize(): init_logger, init_mimetypes, get_server,  *)
(*                                  init_conditional_detach, init_pidfile, init_security    *)
(*                                                                                          *)
(* What the documentation promises (conf/pygopherd.conf comments, doc/pygopherd.sgml,       *)
(* docstrings) and therefore what is stated below:                                          *)
(*   [logger] logmethod  "syslog -- use Unix syslog facility / file -- log to standard      *)
(*                        output / none -- no logging"                                      *)
(*   [logger] priority, facility  "If you enable syslog, you will need to define these"     *)
(*   features list       "Full logging via syslog"                                          *)
(*   base.log docstring  "Log a handled request."      GopherExceptions.log docstring       *)
(*                       "Logs an exception ... based on the arguments passed in"           *)
(*   log_syslog comment  "Python's syslog forces UTF-8 and doesn't allow surrogate escapes" *)
(*                       (so: whatever bytes the selector has, the record must be accepted) *)
(*   [pygopherd] detach  "to go into the background after it starts"                        *)
(*   [pygopherd] pidfile "If you want gopherd to write a PID file, set this to the location" *)
(*                       (default below /var/run: writable by root only => written before   *)
(*                       privileges are dropped; a PID file names the daemon = the process  *)
(*                       that serves)                                                       *)
(*                                                                                          *)
(* Text is TLA+ strings.  Stand-ins (see harness/xlog.py, gamma/alpha): "\n" and "\r" are    *)
(* themselves, "^" is one byte that is not valid UTF-8 (0xFF; a lone surrogate inside        *)
(* Python), "@" is the NUL byte.  The model is written as pure stage operators over a        *)
(* record state (one operator per environment interaction / critical section of the code),  *)
(* so that the bounded model (MC_XLOG: one TLC action per stage) and the trace               *)
(* specification (TraceXLOG: runs the stages to predict) share them.                        *)
EXTENDS Naturals, Sequences, FiniteSets, Text

CONSTANTS Defects,     \* names of recorded defects the model keeps ("split", "nul"); {} = repaired code
          InjText(_)   \* name of an injected byte string -> its text (table shared with the harness: MC_XLOG_consts)

LF == "\n"
CR == "\r"
BAD == "^"             \* stand-in: a byte that is not UTF-8
NUL == "@"             \* stand-in: the NUL byte

Methods == {"syslog", "file", "none"}
Count(s, c) == Cardinality({i \in 1..Len(s) : Ch(s, i) = c})
Has(s, c) == \E i \in 1..Len(s) : Ch(s, i) = c

--------------------------------------------------------------------------------
(* logger.py                                                                               *)

\* the proposed repair: a record is one line whatever the message holds
EscapeBreaks(m) == ReplaceAll(ReplaceAll(m, CR, "\\r"), LF, "\\n")
FileTextPinned(m)   == m
FileTextRepaired(m) == EscapeBreaks(m)
FileText(m) == IF "split" \in Defects THEN FileTextPinned(m) ELSE FileTextRepaired(m)

\* log_syslog: encode(surrogateescape).decode("utf-8", backslashreplace)
Backslashed(m) == ReplaceAll(m, BAD, "\\xff")
SyslogTextPinned(m)   == Backslashed(m)
SyslogTextRepaired(m) == ReplaceAll(EscapeBreaks(Backslashed(m)), NUL, "\\x00")
SyslogText(m) == IF "nul" \in Defects THEN SyslogTextPinned(m) ELSE SyslogTextRepaired(m)
\* what syslog.syslog() of CPython accepts: encodable as UTF-8, no embedded NUL
SyslogAccepts(t) == ~Has(t, BAD) /\ ~Has(t, NUL)

Op(o, t, p, f) == [op |-> o, text |-> t, pri |-> p, fac |-> f]

\* logger.init(config): what the sink sees when the method is selected
InitOps(lg) == IF lg.method = "syslog" THEN <<Op("openlog", "pygopherd", "LOG_PID", lg.fac)>> ELSE <<>>

\* one logger.log(m) call: the sink operations it performs
LogOps(lg, m) ==
    CASE lg.method = "file"   -> <<Op("write", FileText(m) \o LF, "", ""), Op("flush", "", "", "")>>
      [] lg.method = "syslog" -> IF SyslogAccepts(SyslogText(m)) THEN <<Op("syslog", SyslogText(m), lg.pri, "")>> ELSE <<>>
      [] OTHER                -> <<>>
\* ... and whether it raises instead (ValueError: embedded null character)
LogRaises(lg, m) == lg.method = "syslog" /\ ~SyslogAccepts(SyslogText(m))

--------------------------------------------------------------------------------
(* The records                                                                             *)
AccessMsg(addr, proto, handler, sel) == addr \o " [" \o proto \o "/" \o handler \o "]: " \o sel
ExcHead(addr, proto, cls) == addr \o " [" \o proto \o "/None] EXCEPTION " \o cls \o ": "
ExcMsg(addr, proto, cls, text) == ExcHead(addr, proto, cls) \o text
FnfText(sel) == "'" \o sel \o "' does not exist (no handler found)"

--------------------------------------------------------------------------------
(* One request = [frame, kind, inj, where, addr]                                           *)
(*   frame  front end + framing: g gp h w s (plain TCP), gem tg th (TLS)                   *)
(*   kind   served | missing | rio (handler raises OSError) | rval (handler raises          *)
(*          ValueError) | wfail (every write to the client fails with EPIPE)                *)
(*   inj    NAME of the bytes (InjText) placed in the middle of the selector (where = "path") or sent as search   *)
(*          request / query (where = "query")                                               *)
Frames == {"g", "gp", "h", "w", "s", "gem", "tg", "th"}
RawFrames == {"g", "gp", "tg"}                 \* selector bytes travel unencoded: the line ends at the first LF
QueryFrames == {"h", "w", "th", "gem", "s"}
Kinds == {"served", "missing", "rio", "rval", "wfail"}

Ext(kind) == IF kind \in {"rio", "rval"} THEN "k.pyg" ELSE "k.txt"
\* the selector the client means (and the path of the file that exists unless kind = missing)
SelOf(c) == "/d" \o (IF c.where = "path" THEN InjText(c.inj) ELSE "") \o Ext(c.kind)
\* can a file of that name exist at all?
Creatable(c) == LET s == SelOf(c) IN ~Has(s, NUL) /\ Len(s) < 200

SlashNorm(s) == LET t == RStripSet(s, {"/"}) IN IF Len(t) = 0 \/ Ch(t, 1) # "/" THEN "/" \o t ELSE t

\* rfile.readline(): a raw line ends at its first LF; request parts are strip()ped
Truncated(c) == c.frame \in RawFrames /\ Has(SelOf(c), LF)
Received(c) ==
    LET s == SelOf(c) IN
    IF c.frame \in RawFrames
    THEN SlashNorm(Strip(IF Has(s, LF) THEN SubSeq(s, 1, Find(s, LF) - 1) ELSE s))
    ELSE SlashNorm(s)                          \* urllib.parse.unquote(errors="surrogateescape") gives every byte back

ProtoOf(c) ==
    CASE c.frame = "g"   -> "GopherProtocol"
      [] c.frame = "gp"  -> IF Truncated(c) THEN "GopherProtocol" ELSE "GopherPlusProtocol"   \* the "\t+" is cut off
      [] c.frame = "tg"  -> "SecureGopherProtocol"
      [] c.frame = "h"   -> "HTTPProtocol"
      [] c.frame = "th"  -> "HTTPSProtocol"
      [] c.frame = "w"   -> "WAPProtocol"
      [] c.frame = "gem" -> "GeminiProtocol"
      [] c.frame = "s"   -> "SpartanProtocol"

\* handle() of these front ends wraps the writing of the response in `except IOError`; Gemini and
\* Spartan only wrap gethandler/getentry/prepare
InnerCatchCoversWrite(proto) == proto \notin {"GeminiProtocol", "SpartanProtocol"}

Exists(c, sel) == c.kind # "missing" /\ sel = SelOf(c)
HandlerOf(c) == IF c.kind \in {"rio", "rval"} THEN "PYGHandler" ELSE "FileHandler"

NoPend == [cls |-> "", text |-> ""]
IOClasses == {"OSError", "BrokenPipeError"}
EPIPE == [cls |-> "BrokenPipeError", text |-> "[Errno 32] Broken pipe"]
EIO   == [cls |-> "OSError", text |-> "[Errno 5] Input/output error"]
BOOM  == [cls |-> "ValueError", text |-> "boom"]
EMBEDDED == [cls |-> "ValueError", text |-> "embedded null character"]

--------------------------------------------------------------------------------
(* The connection handler as stage operators over                                          *)
(*   st = [pc, i, proto, sel, handler, pend, calls, sink, esc]                             *)
(*   calls: messages handed to logger.log, tagged with the request index                   *)
(*   sink : what reached stdout / syslog, tagged with the request index                    *)
St0(lg) == [pc |-> "accept", i |-> 1, proto |-> "", sel |-> "", handler |-> "", pend |-> NoPend,
            calls |-> <<>>, sink |-> [k \in 1..Len(InitOps(lg)) |-> [req |-> 0, o |-> InitOps(lg)[k]]], esc |-> FALSE]

Tag(i, ops) == [k \in 1..Len(ops) |-> [req |-> i, o |-> ops[k]]]

\* logger.log(m) inside stage `st`: on success continue at `next`; if the call raises, the
\* exception travels to the catch named `onraise`
Emit(lg, st, m, next, onraise) ==
    IF LogRaises(lg, m)
    THEN [st EXCEPT !.calls = Append(@, [req |-> st.i, text |-> m]), !.pend = EMBEDDED, !.pc = onraise]
    ELSE [st EXCEPT !.calls = Append(@, [req |-> st.i, text |-> m]),
                    !.sink = @ \o Tag(st.i, LogOps(lg, m)), !.pc = next]

\* server.handle: readline, ProtocolMultiplexer.getProtocol, protocol.handle decodes the selector
Accept(lg, c, st) == [st EXCEPT !.proto = ProtoOf(c), !.sel = Received(c), !.handler = "", !.pend = NoPend, !.pc = "gethandler"]

\* HandlerMultiplexer.getHandler: a handler, or FileNotFound whose constructor logs itself
GetHandler(lg, c, st) ==
    IF Exists(c, st.sel)
    THEN [st EXCEPT !.handler = HandlerOf(c), !.pc = "accesslog"]
    ELSE Emit(lg, st, ExcMsg(c.addr, st.proto, "FileNotFound", FnfText(st.sel)), "replyerror", "servercatch")

\* protocol.log(handler): the access record
AccessLog(lg, c, st) == Emit(lg, st, AccessMsg(c.addr, st.proto, st.handler, st.sel), "serve", "servercatch")

Raise(st, e) == [st EXCEPT !.pend = e,
                           !.pc = IF e.cls \in IOClasses /\ InnerCatchCoversWrite(st.proto) THEN "protocatch" ELSE "servercatch"]

\* getentry / prepare / write the response
Serve(lg, c, st) ==
    CASE c.kind = "rio"   -> Raise(st, EIO)
      [] c.kind = "rval"  -> Raise(st, BOOM)
      [] c.kind = "wfail" -> Raise(st, EPIPE)
      [] OTHER            -> [st EXCEPT !.pc = "done"]

\* `except IOError` of the protocol: exception record, then the error reply
ProtoCatch(lg, c, st) == Emit(lg, st, ExcMsg(c.addr, st.proto, st.pend.cls, st.pend.text), "replyerror", "servercatch")

\* filenotfound() / write_status(): one more write to the client, outside every inner catch
ReplyError(lg, c, st) ==
    IF c.kind = "wfail" THEN [st EXCEPT !.pend = EPIPE, !.pc = "servercatch"] ELSE [st EXCEPT !.pc = "done"]

\* `except IOError / except Exception` of GopherRequestHandler.handle
ServerCatch(lg, c, st) == Emit(lg, st, ExcMsg(c.addr, st.proto, st.pend.cls, st.pend.text), "done", "escaped")

Done(lg, n, st) == [st EXCEPT !.i = @ + 1, !.pc = IF st.i < n THEN "accept" ELSE "end"]

Stage(lg, reqs, st) ==
    LET c == reqs[st.i] IN
    CASE st.pc = "accept"      -> Accept(lg, c, st)
      [] st.pc = "gethandler"  -> GetHandler(lg, c, st)
      [] st.pc = "accesslog"   -> AccessLog(lg, c, st)
      [] st.pc = "serve"       -> Serve(lg, c, st)
      [] st.pc = "protocatch"  -> ProtoCatch(lg, c, st)
      [] st.pc = "replyerror"  -> ReplyError(lg, c, st)
      [] st.pc = "servercatch" -> ServerCatch(lg, c, st)
      [] st.pc = "escaped"     -> [st EXCEPT !.esc = TRUE, !.pc = "done"]
      [] st.pc = "done"        -> Done(lg, Len(reqs), st)
      [] OTHER                 -> st

RECURSIVE RunFrom(_, _, _, _)
RunFrom(lg, reqs, st, fuel) == IF st.pc = "end" \/ fuel = 0 THEN st ELSE RunFrom(lg, reqs, Stage(lg, reqs, st), fuel - 1)
Run(lg, reqs) == RunFrom(lg, reqs, St0(lg), 12 * Len(reqs) + 2)

--------------------------------------------------------------------------------
(* PROPERTIES of the request side, as operators over what was observed for request i:     *)
(*   c      the request, lg the logger configuration                                      *)
(*   calls  messages handed to logger.log during the request (in order)                    *)
(*   ops    sink operations during the request (in order)                                  *)
(* Each returns TRUE when the clause holds.  Used as invariants over the model's own       *)
(* st.calls / st.sink (MC_XLOG) and over the recorded ones (TraceXLOG).                    *)
RECURSIVE Cat(_)
Cat(texts) == IF Len(texts) = 0 THEN "" ELSE texts[1] \o Cat(Tail(texts))
Sel(seq, P(_)) == SelectSeq(seq, P)
Writes(ops) == LET W(o) == o.op = "write" IN Sel(ops, W)
Stream(ops) == Cat([k \in 1..Len(Writes(ops)) |-> Writes(ops)[k].text])      \* the bytes that reached stdout
\* the lines of a stream that ends with LF (Split leaves one empty field after the last LF)
Lines(s) == IF s = "" THEN <<>> ELSE LET p == Split(s, LF) IN SubSeq(p, 1, Len(p) - 1)

\* [logger] "none -- no logging"
NoneIsSilent(lg, ops) == lg.method = "none" => ops = <<>>
\* "file -- log to standard output": and nothing goes to syslog; "syslog": nothing to stdout
RightSink(lg, ops) == \A k \in 1..Len(ops) :
    /\ lg.method = "file" => ops[k].op \in {"write", "flush"}
    /\ lg.method = "syslog" => ops[k].op \in {"syslog", "openlog"}
\* one log call = one record = ONE line of standard output; request data cannot start another
OneRecordOneLine(lg, calls, ops) == lg.method = "file" =>
    LET s == Stream(ops) IN /\ (s = "" \/ Last1(s) = LF)
                            /\ Count(s, LF) = Len(calls)
\* children of the forking server leave through os._exit: a record still in a buffer is lost
RecordFlushed(lg, ops) == lg.method = "file" =>
    \A k \in 1..Len(ops) : ops[k].op = "write" => \E j \in (k + 1)..Len(ops) : ops[j].op = "flush"
\* one log call = one syslog() call, with the configured priority, text CPython's syslog accepts
SyslogPriority(lg, ops) == \A k \in 1..Len(ops) : ops[k].op = "syslog" => ops[k].pri = lg.pri
SyslogTextEncodable(lg, ops) == \A k \in 1..Len(ops) : ops[k].op = "syslog" => SyslogAccepts(ops[k].text)
SyslogOnePerCall(lg, calls, ops) == lg.method = "syslog" =>
    LET S(o) == o.op = "syslog" IN Len(Sel(ops, S)) = Len(calls)
\* the records as the administrator reads them (lines of stdout / syslog messages)
Records(lg, ops) == IF lg.method = "file" THEN Lines(Stream(ops))
                    ELSE LET S(o) == o.op = "syslog" IN [k \in 1..Len(Sel(ops, S)) |-> Sel(ops, S)[k].text]

\* "Log a handled request": a request for which a handler was found yields exactly one access
\* record naming client address, protocol class, handler class and selector; no other request does.
\* (judged on the records that reached the sink; the expected text is the model's for the method)
\* the selector may be shown as it is or with its line breaks / NUL escaped: both name the request
ShownAny(lg, m) == IF lg.method = "file" THEN {FileTextPinned(m), FileTextRepaired(m)} ELSE {SyslogTextPinned(m), SyslogTextRepaired(m)}
IsAccessOf(c, r) == StartsWith(r, c.addr \o " [") /\ ~Contains(r, "/None] EXCEPTION ") /\ Contains(r, "]: ")
AccessRecordOnce(lg, c, recs) == lg.method # "none" =>
    LET A(r) == IsAccessOf(c, r)
        want == Exists(c, Received(c)) IN
    Len(Sel(recs, A)) = (IF want THEN 1 ELSE 0)
AccessRecordNamesRequest(lg, c, recs) == (lg.method # "none" /\ Exists(c, Received(c))) =>
    \E k \in 1..Len(recs) : recs[k] \in ShownAny(lg, AccessMsg(c.addr, ProtoOf(c), HandlerOf(c), Received(c)))

\* a failing request yields its exception record: client address, protocol, the failure's class
Fails(c) == c.kind \in {"rio", "rval", "wfail"} \/ ~Exists(c, Received(c))
FailureClass(c) == IF ~Exists(c, Received(c)) THEN "FileNotFound"
                   ELSE IF c.kind = "rio" THEN "OSError" ELSE IF c.kind = "rval" THEN "ValueError" ELSE "BrokenPipeError"
FailureRecorded(lg, c, recs) == (lg.method # "none" /\ Fails(c)) =>
    \E k \in 1..Len(recs) : StartsWith(recs[k], ExcHead(c.addr, ProtoOf(c), FailureClass(c)))
\* ... and a request that does not fail yields none
NoSpuriousException(lg, c, recs) == (lg.method # "none" /\ ~Fails(c)) =>
    \A k \in 1..Len(recs) : ~Contains(recs[k], " EXCEPTION ")
\* within one connection: the access record precedes the exception records
AccessBeforeException(lg, c, recs) == lg.method # "none" =>
    \A j, k \in 1..Len(recs) : (IsAccessOf(c, recs[j]) /\ Contains(recs[k], "/None] EXCEPTION ") /\ StartsWith(recs[k], c.addr)) => j < k
\* nothing raised by logging leaves the connection handler
LoggingContained(esc) == ~esc

\* the clauses in the order they are reported; "ok" when all hold
ReqVerdict(lg, c, calls, ops, esc) ==
    LET recs == Records(lg, ops) IN
    IF ~NoneIsSilent(lg, ops) THEN "NoneIsSilent"
    ELSE IF ~RightSink(lg, ops) THEN "RightSink"
    ELSE IF ~RecordFlushed(lg, ops) THEN "RecordFlushed"
    ELSE IF ~SyslogPriority(lg, ops) THEN "SyslogPriority"
    ELSE IF ~SyslogTextEncodable(lg, ops) THEN "SyslogTextEncodable"
    ELSE IF ~LoggingContained(esc) THEN "LoggingContained"
    ELSE IF ~FailureRecorded(lg, c, recs) THEN "FailureRecorded"
    ELSE IF ~OneRecordOneLine(lg, calls, ops) THEN "OneRecordOneLine"
    ELSE IF ~SyslogOnePerCall(lg, calls, ops) THEN "SyslogOnePerCall"
    ELSE IF ~AccessRecordOnce(lg, c, recs) THEN "AccessRecordOnce"
    ELSE IF ~AccessRecordNamesRequest(lg, c, recs) THEN "AccessRecordNamesRequest"
    ELSE IF ~NoSpuriousException(lg, c, recs) THEN "NoSpuriousException"
    ELSE IF ~AccessBeforeException(lg, c, recs) THEN "AccessBeforeException"
    ELSE "ok"

\* exact exclusions for the recorded defects (the model keeps the defective step):
\*   split: the file method writes LF/CR of the decoded selector as they are
\*   nul  : syslog.syslog refuses a NUL; the ValueError replaces the FileNotFound record
Excused(lg, c, clause) ==
    \/ "split" \in Defects /\ clause = "OneRecordOneLine" /\ lg.method = "file" /\ Has(Received(c), LF)
    \/ "nul" \in Defects /\ clause \in {"FailureRecorded", "SyslogOnePerCall"} /\ lg.method = "syslog" /\ Has(Received(c), NUL)

PartOf(seq, i) == LET P(x) == x.req = i IN Sel(seq, P)
CallsOf(st, i) == PartOf(st.calls, i)
OpsOf(st, i) == LET p == PartOf(st.sink, i) IN [k \in 1..Len(p) |-> p[k].o]

--------------------------------------------------------------------------------
(* THE ADMINISTRATIVE SIDE OF START-UP: initialize() as stage operators over               *)
(*   ad = [pc, self, forks, exit, bound, priv, pidopens, pidpriv, pidtext, calls, sink]    *)
(* for a configuration a = [method, pri, fac, detach, pidfile, mime, drop, chroot],         *)
(* following one side of the fork (role "parent" | "child"; without detach the starter      *)
(* is the only process) with at most one injected fault ("none" | "pidopen").              *)
(* Variable parts of messages are placeholders put in by the lexer: <conf> <files> <child>  *)
(* <pgrp> <root> <gid> <uid>; process ids are <starter> and <child>.                       *)
AdmRoles == {"parent", "child"}
AdmFaults == {"none", "pidopen"}
Pid(p) == "<" \o p \o ">"

MsgStarting == "Pygopherd starting, using configuration file <conf>"
MsgMimeOk   == "mimetypes initialized with files: <files>"
MsgMimeFail == "Could not find any mimetypes files; check mimetypes option in config."
MsgDetach   == "Parent process detaching; child is <child>"
MsgPgrp     == "Process group is <pgrp>"
MsgChroot   == "Chrooted to <root>"
MsgGroups   == "Supplemental group list cleared."
MsgGid      == "Switched to group <gid>"
MsgUid      == "Switched to uid <uid>"
MsgRunning  == "Running.  Root is '<root>'"

Ad0 == [pc |-> "logger", self |-> "starter", forks |-> 0, exit |-> 0 - 1, bound |-> FALSE, priv |-> TRUE,
        pidopens |-> 0, pidpriv |-> TRUE, pidtext |-> "", calls |-> <<>>, sink |-> <<>>]

ALog(a, ad, m) == [ad EXCEPT !.calls = Append(@, m), !.sink = @ \o LogOps(a, m)]
RECURSIVE ALogAll(_, _, _)
ALogAll(a, ad, ms) == IF Len(ms) = 0 THEN ad ELSE ALogAll(a, ALog(a, ad, ms[1]), Tail(ms))
Goto(ad, pc) == [ad EXCEPT !.pc = pc]

\* init_logger: logger.init selects the method (openlog for syslog), then the first record
InitLogger(a, ad) == Goto(ALog(a, [ad EXCEPT !.sink = @ \o InitOps(a)], MsgStarting), "mime")
\* init_mimetypes: no readable file => say so and raise
InitMime(a, ad) == IF a.mime THEN Goto(ALog(a, ad, MsgMimeOk), "bind") ELSE Goto(ALog(a, ad, MsgMimeFail), "aborted")
\* get_server: bind
GetServer(a, ad) == Goto([ad EXCEPT !.bound = TRUE], "detach")
\* init_conditional_detach: fork; the parent logs and exits 0, the child goes on
Detach(a, role, ad) ==
    IF ~a.detach THEN Goto(ad, "pidfile")
    ELSE IF role = "parent"
         THEN Goto([ALog(a, [ad EXCEPT !.forks = @ + 1], MsgDetach) EXCEPT !.exit = 0], "exited")
         ELSE Goto([ad EXCEPT !.forks = @ + 1, !.self = "child"], "pidfile")
\* init_pidfile: open(pidfile, "w") and write "%d\n" % os.getpid()
InitPidfile(a, fault, ad) ==
    IF ~a.pidfile THEN Goto(ad, "pgrp")
    ELSE IF fault = "pidopen" THEN Goto([ad EXCEPT !.pidopens = @ + 1, !.pidpriv = ad.priv], "aborted")
    ELSE Goto([ad EXCEPT !.pidopens = @ + 1, !.pidpriv = ad.priv, !.pidtext = Pid(ad.self) \o LF], "pgrp")
InitPgrp(a, ad) == Goto(ALog(a, ad, MsgPgrp), "drop")
\* init_security: chroot, setgroups, setregid, setreuid, each followed by its record
InitSecurity(a, ad) ==
    LET ms == (IF a.chroot THEN <<MsgChroot>> ELSE <<>>) \o (IF a.drop THEN <<MsgGroups, MsgGid, MsgUid>> ELSE <<>>) IN
    Goto(ALogAll(a, [ad EXCEPT !.priv = ~(a.chroot \/ a.drop)], ms), "running")
Running(a, ad) == Goto(ALog(a, ad, MsgRunning), "serving")

AdmFinal == {"serving", "aborted", "exited"}
AdmStage(a, role, fault, ad) ==
    CASE ad.pc = "logger"  -> InitLogger(a, ad)
      [] ad.pc = "mime"    -> InitMime(a, ad)
      [] ad.pc = "bind"    -> GetServer(a, ad)
      [] ad.pc = "detach"  -> Detach(a, role, ad)
      [] ad.pc = "pidfile" -> InitPidfile(a, fault, ad)
      [] ad.pc = "pgrp"    -> InitPgrp(a, ad)
      [] ad.pc = "drop"    -> InitSecurity(a, ad)
      [] ad.pc = "running" -> Running(a, ad)
      [] OTHER             -> ad
RECURSIVE AdmRunFrom(_, _, _, _, _)
AdmRunFrom(a, role, fault, ad, fuel) ==
    IF ad.pc \in AdmFinal \/ fuel = 0 THEN ad ELSE AdmRunFrom(a, role, fault, AdmStage(a, role, fault, ad), fuel - 1)
AdmRun(a, role, fault) == AdmRunFrom(a, role, fault, Ad0, 12)

(* PROPERTIES of start-up over an observation                                              *)
(*   ob = [pc (how it ended), self, forks, exit, bound, pidopens, pidpriv, pidtext, calls,  *)
(*         sink, after (what the parent did after the fork besides logging and exiting)]    *)
\* "If you enable syslog, you will need to define these": openlog carries the configured facility,
\* once, before the first record
SyslogOpened(a, ops) == a.method = "syslog" =>
    /\ Len(ops) > 0 /\ ops[1].op = "openlog" /\ ops[1].fac = a.fac
    /\ \A k \in 2..Len(ops) : ops[k].op # "openlog"
\* no readable mimetypes file: start-up says so and does not go on
MimeFailureAborts(a, ob) == ~a.mime =>
    /\ ob.pc = "aborted" /\ ~ob.bound
    /\ a.method # "none" => \E k \in 1..Len(Records(a, ob.sink)) : Contains(Records(a, ob.sink)[k], "Could not find any mimetypes files")
\* "detach ... go into the background after it starts": exactly one fork, none without the option
DetachForksOnce(a, ob) == a.mime => ob.forks = (IF a.detach THEN 1 ELSE 0)
\* the parent exits with status 0 and does nothing else
ParentExitsZero(a, role, ob) == (a.mime /\ a.detach /\ role = "parent") => (ob.pc = "exited" /\ ob.exit = 0 /\ ob.after = 0)
\* whoever is not the detaching parent goes on to serve (unless a call failed)
DaemonServes(a, role, fault, ob) == (a.mime /\ (fault = "none" \/ ~a.pidfile) /\ ~(a.detach /\ role = "parent")) => ob.pc = "serving"
\* a failing start-up call ends start-up
FaultAborts(a, role, fault, ob) == (a.mime /\ a.pidfile /\ fault = "pidopen" /\ ~(a.detach /\ role = "parent")) => ob.pc = "aborted"
\* "If you want gopherd to write a PID file": it holds exactly the pid of the process that serves
PidfileHoldsServingPid(a, ob) == ob.pc = "serving" =>
    IF a.pidfile THEN ob.pidopens = 1 /\ ob.pidtext = Pid(ob.self) \o LF ELSE ob.pidopens = 0
\* ... and is written while the process may still write below /var/run
PidfileBeforeDrop(a, ob) == ob.pidopens > 0 => ob.pidpriv

AdmVerdict(a, role, fault, ob) ==
    LET ops == ob.sink IN
    IF ~NoneIsSilent(a, ops) THEN "NoneIsSilent"
    ELSE IF ~RightSink(a, ops) THEN "RightSink"
    ELSE IF ~SyslogOpened(a, ops) THEN "SyslogOpened"
    ELSE IF ~RecordFlushed(a, ops) THEN "RecordFlushed"
    ELSE IF ~SyslogPriority(a, ops) THEN "SyslogPriority"
    ELSE IF ~SyslogTextEncodable(a, ops) THEN "SyslogTextEncodable"
    ELSE IF ~OneRecordOneLine(a, ob.calls, ops) THEN "OneRecordOneLine"
    ELSE IF ~SyslogOnePerCall(a, ob.calls, ops) THEN "SyslogOnePerCall"
    ELSE IF ~MimeFailureAborts(a, ob) THEN "MimeFailureAborts"
    ELSE IF ~DetachForksOnce(a, ob) THEN "DetachForksOnce"
    ELSE IF ~ParentExitsZero(a, role, ob) THEN "ParentExitsZero"
    ELSE IF ~DaemonServes(a, role, fault, ob) THEN "DaemonServes"
    ELSE IF ~FaultAborts(a, role, fault, ob) THEN "FaultAborts"
    ELSE IF ~PidfileHoldsServingPid(a, ob) THEN "PidfileHoldsServingPid"
    ELSE IF ~PidfileBeforeDrop(a, ob) THEN "PidfileBeforeDrop"
    ELSE "ok"
\* the model's own final state as an observation
ObOf(ad) == [pc |-> ad.pc, self |-> ad.self, forks |-> ad.forks, exit |-> ad.exit, bound |-> ad.bound,
             pidopens |-> ad.pidopens, pidpriv |-> ad.pidpriv, pidtext |-> ad.pidtext, calls |-> ad.calls,
             sink |-> ad.sink, after |-> 0]
================================================================================
