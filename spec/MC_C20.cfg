SPECIFICATION C20Spec
CONSTANTS
  ProtoOrder <- C_ProtoOrder
  HandlerLists <- C_HandlerLists
  Tree0 <- C_Tree
  MailCount <- C_MailCount
  Defects <- C_Defects
  Bytecode <- C_Bytecode
  Buffered <- C_Buffered
  OpsBound <- C_OpsBound
INVARIANT Contained
INVARIANT OwnClass
INVARIANT FilesClosed
INVARIANT DefectsBite
INVARIANT Injected
INVARIANT Terminates
CHECK_DEADLOCK FALSE
