SPECIFICATION Spec
CONSTANTS
  IgnorePatterns <- DataIgnorePatterns
  EaExts <- DataEaExts
  SkipUnservable = TRUE
  SortedLinks = TRUE
  DotRuleAll = TRUE
  Suites <- SuitesQuick
INVARIANT Exact
INVARIANT OrderFree
INVARIANT StepsAreFolds
INVARIANT WellFormed
CHECK_DEADLOCK FALSE
