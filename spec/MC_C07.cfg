SPECIFICATION Spec
CONSTANTS
  IgnorePatterns <- DataIgnorePatterns
  SkipUnservable = TRUE
  SortedEnum = TRUE
  DotRuleAll = TRUE
  Suites <- SuitesQuick
INVARIANT Exact
INVARIANT OrderFree
INVARIANT StepsAreFolds
INVARIANT WellFormed
CHECK_DEADLOCK FALSE
