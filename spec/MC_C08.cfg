SPECIFICATION Spec
CONSTANTS
  Quirks = {"CommentEndsBlock"}
  Tier = "quick"
INVARIANT AsDocumented
CHECK_DEADLOCK FALSE
