SPECIFICATION Spec
CONSTANTS
  Quirks = {"DashOnlyInCap", "CommentEndsBlock", "NumAlwaysMerged", "DoubleHideCrash"}
  Tier = "quick"
INVARIANT AsDocumented
CHECK_DEADLOCK FALSE
