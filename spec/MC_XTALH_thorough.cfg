SPECIFICATION Spec
CONSTANTS
  KeyChecked = TRUE
  CompileInPrepare = TRUE
  SizeUnknown = TRUE
  InnerTypeOptional = TRUE
  Tier = "thorough"
INVARIANT ModelClaimRule
INVARIANT ModelContained
INVARIANT ModelTerminates
INVARIANT ModelOneReply
INVARIANT ModelLengthHonest
INVARIANT ModelListing
INVARIANT ModelAgrees
INVARIANT ModelNearestWins
CHECK_DEADLOCK FALSE
