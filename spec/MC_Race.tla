------------------------------- MODULE MC_Race -------------------------------
(* Races on one directory cache file, at small scope and COMPLETELY  [C11 schedules, C14].   *)
(*                                                                                          *)
(* Every worker has accepted a listing request for the same directory at the same moment.   *)
(* The cache file is, to begin with, absent, complete, or the remains of a crashed writer   *)
(* (cut to fewer chunks, or zero-filled).  Workers then interleave freely at the            *)
(* granularity of module Cache's environment operations (Probe/Load/Gen/SaveOpen/SaveWrite) *)
(* until all have rendered.  The history variable h is the schedule; with h in the state,   *)
(* the reachable final states are exactly the distinct complete interleavings, which the    *)
(* harness replays on real handler threads (B2).  With more workers the same module is      *)
(* sampled with tlc -simulate.                                                              *)
EXTENDS Cache, TLC

CONSTANTS StartFiles,     \* subset of {"none", "full", "late", "cut0", "cut1", "zero"}
          StartProtos     \* protocols the workers may ask through

VARIABLES start,          \* [f, ps]: the chosen starting file and the protocol of each worker (constant)
          h               \* <<worker, step>> for every environment operation so far

rvars == <<cvars, start, h>>

D0 == [n \in Names |-> "v1"]
Chunks(k) == [i \in 1..k |-> [d |-> D0, k |-> i, leak |-> FALSE]]
FileOf(f) ==
    CASE f = "none" -> NoFile
      [] f \in {"full", "late"} -> [exists |-> TRUE, mtime |-> 0, zero |-> FALSE, chunks |-> Chunks(Full)]
      [] f = "cut0" -> [exists |-> TRUE, mtime |-> 0, zero |-> FALSE, chunks |-> Chunks(0)]
      [] f = "cut1" -> [exists |-> TRUE, mtime |-> 0, zero |-> FALSE, chunks |-> Chunks(1)]
      [] f = "zero" -> [exists |-> TRUE, mtime |-> 0, zero |-> TRUE, chunks |-> Chunks(Full)]

RInit ==
    /\ start \in [f : StartFiles, ps : [Workers -> StartProtos]]
    /\ dir = D0 /\ hist = <<[t |-> 0, d |-> D0]>> /\ clock = 0 /\ T = 4
    /\ file = FileOf(start.f)
    \* "late": a complete cache file is there, but worker 1 had looked before it was written (it probed, saw nothing
    \* and is about to regenerate): a writer that truncates a file which other workers have every reason to read
    /\ pc = [w \in Workers |-> IF start.f = "late" /\ w = 1 THEN "gen" ELSE "probe"]
    /\ mem = [w \in Workers |-> [d |-> D0, leak |-> FALSE]]
    /\ req = start.ps /\ started = [w \in Workers |-> 0]
    /\ out = [w \in Workers |-> NoOut] /\ wpos = [w \in Workers |-> 0]
    /\ h = <<>>

EnvOps == {"probe", "load", "gen", "save_open", "save_write"}

RStep(w) ==
    /\ pc[w] \notin {"idle", "done"}
    /\ WorkerStep(w)
    /\ h' = (IF pc[w] \in EnvOps THEN Append(h, <<w, pc[w]>>) ELSE h)
    /\ UNCHANGED start

RNext == \E w \in Workers : RStep(w)
RSpec == RInit /\ [][RNext]_rvars

NoH == <<cvars, start>>      \* VIEW for exhaustive safety checking with more workers (h hidden)
AllDone == \A w \in Workers : pc[w] = "done"

\* C11 / C14 on this scope: every worker ends with the complete current listing, none of them with another
\* protocol's MIME rewrite, whatever it found on disk and whatever the others were doing
RaceHarmless == \A w \in Workers : Done(w) => (out[w].d = dir /\ ~out[w].leak)
\* vacuity witnesses (must be VIOLATED when checked)
W_NobodyLoadsDamaged == ~\E w \in Workers : pc[w] = "load" /\ ~Complete(file)
W_NoReaderSeesWriter == ~\E w, v \in Workers : w # v /\ pc[w] = "load" /\ pc[v] = "save_write"
=============================================================================
