------------------------------- MODULE Config -------------------------------
(* XCONF (growth beyond the listed properties): CONFIGURATION -> THE SERVER THAT IS BUILT.   *)
(*                                                                                          *)
(* Code abstracted: pygopherd/initialization.py  init_config, init_exceptions,              *)
(* init_mimetypes, init_ssl_context, get_server and the ORDER of initialize();              *)
(* pygopherd/server.py BaseServer.__init__ / server_bind (servername, advertisedport,       *)
(* timeout).  NOT repeated here: init_security (spec/Startup.tla, C19), logger / detach /    *)
(* pidfile contents (spec/Logging.tla, XLOG), signal handlers (spec/Signals.tla).  Those     *)
(* steps appear only as opaque calls ("fork", "pidfile", "setpgrp", "signal", "priv") whose  *)
(* POSITION is judged.                                                                       *)
(*                                                                                          *)
(* State = the option table (one abstract value class per option) + what start-up has done  *)
(* so far.  Every environment interaction of start-up is one event [ev, ok, ...]; the same   *)
(* operator Do(e) is used by the bounded design model (MC_XCONF: the program as coded, for   *)
(* every explored option table x every failing call) and by the trace specification          *)
(* (TraceXCONF: the calls the REAL initialize() made).                                      *)
(*                                                                                          *)
(* What the documentation promises, and therefore what is stated (property level):          *)
(*  conf/pygopherd.conf                                                                      *)
(*   servertype  "Valid options are ForkingTCPServer and ThreadingTCPServer"                 *)
(*               -> ClassMatches; any other value is refused (InvalidRefused, CleanRefusal)  *)
(*   interface   "If specified, pygopherd will attempt to listen to the specified port on    *)
(*               only this interface ... If not specified, pygopherd will listen on all      *)
(*               interfaces"  + port "What port to listen on"       -> AddressMatches        *)
(*   servername  "The server name to present to the world.  If you do not specify it here,   *)
(*               Pygopherd will attempt to figure it out automatically ... It does not       *)
(*               control where the server listens"                  -> NameMatches           *)
(*   advertisedport "What port to *say* we're listening on"          -> PortMatches           *)
(*   timeout     "If given, any read or write that makes no progress in this number of       *)
(*               seconds will time out"                              -> TimeoutMatches        *)
(*   enable_tls / tls_certfile / tls_keyfile "These are required if TLS is enabled"          *)
(*               -> ContextMatches, NotConfigured; enabled without them is refused           *)
(*   mimetypes   "You can specify multiple files here -- just separate them with a colon.    *)
(*               ALL of them that are found will be read."           -> MimeAllFoundRead      *)
(*               (none found: "Could not find any mimetypes files" = refusal)                *)
(*   encoding    "You can use the default with the following syntax ...                      *)
(*               encoding = mimetypes.encodings_map.items()", "You can override the default  *)
(*               entirely (ie, to remove those)", "Or, you can extend the default"           *)
(*               -> EncodingsMatch (module map) / EncodingsEffective (what guess_type uses)  *)
(*   tracebacks  "you can decide whether or not to log a full backtrace" -> TracebacksMatch  *)
(*   detach / pidfile / setuid "Comment out if you don't want this"   -> NotConfigured        *)
(*  bin/pygopherd + init_config message "Could NOT access config file ... Please specify     *)
(*               config file as a command-line argument"             -> InvalidRefused,      *)
(*               CleanRefusal (a refusal, never a half-started server)                       *)
(*  initialization.py comments "Import lots of stuff so it's here before chrooting",          *)
(*               "Instantiate a server.  Has to be done before the security so we can get    *)
(*               a privileged port", conf "detach ... go into the background after it        *)
(*               starts"  -> HalfStarted: nothing irreversible (fork, pid file, process      *)
(*               group, signal handlers, privilege calls) before every fallible              *)
(*               configuration step is through and the socket listens; NoStepAfterFailure;   *)
(*               FailAborts; ValidServes (a valid table with no failing call is served).     *)
(* Design level only (DRIFT, never a violation): the exact sequence of calls Run(cfg,fault) *)
(* (e.g. exceptions before mimetypes before TLS before bind; setpgrp failure tolerated).     *)
EXTENDS Naturals, Sequences, FiniteSets

CONSTANTS Defects      \* names of recorded defects the design model keeps ("liveview"); {} = repaired code

VARIABLES
    cfg,        \* the option table: a record of strings, one field per option (see Default)
    phase,      \* "starting" | "serving" | "aborted"
    failed,     \* a call failed (other than the tolerated setpgrp)
    did,        \* set of call names that succeeded so far ("setpgrp!" marks a failed, tolerated setpgrp)
    mimeRead,   \* positions (in the mimetypes list) of the files opened so far
    addr,       \* [host, port] the socket was bound to: host "any" | "iface" | "other", port "conf" | "other"
    obs         \* what the built server / the process looks like once initialize() returned

vars == <<cfg, phase, failed, did, mimeRead, addr, obs>>

Ch(s, i) == SubSeq(s, i, i)
Range(s) == {s[i] : i \in 1..Len(s)}

(* The option table.  Value classes per option:                                             *)
(*  conf    ok | missing | unreadable | dir | garbage (no section header)                    *)
(*  tb      yes | no | garbled | absent                     [pygopherd] tracebacks            *)
(*  mime    string over p (present) a (absent) u (unreadable), one letter per listed file     *)
(*  enc     extend | deflist | view | dict | tuples | empty | garbled | absent                *)
(*  stype   forking | threading | other | lower | absent                                      *)
(*  iface   absent | given        port  valid | garbled | absent                               *)
(*  adv     absent | valid | garbled      sname absent | given      timeo valid | absent | garbled *)
(*  tls     no | absent | yes | garbled   cert  ok | nooption | badfile                        *)
(*  detach  no | yes    pidfile absent | given    sec none | drop (usechroot+setuid+setgid)   *)
(*  interp  no | yes    paths spelled through %(vbase)s (ConfigParser interpolation)          *)
Default == [conf |-> "ok", tb |-> "yes", mime |-> "p", enc |-> "extend", stype |-> "forking", iface |-> "absent",
            port |-> "valid", adv |-> "absent", sname |-> "absent", timeo |-> "valid", tls |-> "no", cert |-> "ok",
            detach |-> "no", pidfile |-> "absent", sec |-> "none", interp |-> "no"]
Options == DOMAIN Default

NoObs == [cls |-> "none", name |-> "none", sport |-> "none", cfgsame |-> FALSE, ctx |-> "none", timeo |-> "none",
          enc |-> {}, encEff |-> {}, types |-> {}, tb |-> "none"]
NoAddr == [host |-> "none", port |-> "none"]

InitWith(c) == /\ cfg = c /\ phase = "starting" /\ failed = FALSE /\ did = {} /\ mimeRead = {}
               /\ addr = NoAddr /\ obs = NoObs

--------------------------------------------------------------------------------
(* Reading the table                                                                        *)
Found(c) == {i \in 1..Len(c.mime) : Ch(c.mime, i) = "p"}
TlsOn(c) == c.tls = "yes"

\* encodings as tokens: "gz" "Z" = the two the conf comment names; "dflt" = every other entry Python ships;
\* "q1" "q2" = the two entries the test configurations add
EncWanted(enc) ==
    CASE enc \in {"deflist", "view"} -> {"gz", "Z", "dflt"}
      [] enc \in {"dict", "tuples"}  -> {"q1", "gz"}
      [] enc = "extend"              -> {"gz", "Z", "dflt", "q1", "q2"}
      [] OTHER                       -> {}
\* as coded: eval() of the documented `mimetypes.encodings_map.items()` is a live VIEW of the map that
\* init_mimetypes clears before copying from it: nothing is left (recorded defect "liveview")
EncCoded(enc) == IF enc = "view" /\ "liveview" \in Defects THEN {} ELSE EncWanted(enc)

\* each option on its own: is the value one the documentation allows?
PreBindValid(c) ==
    /\ c.conf = "ok"
    /\ c.tb \in {"yes", "no"}
    /\ Found(c) # {}
    /\ c.enc \notin {"garbled", "absent"}
    /\ c.tls # "garbled" /\ (TlsOn(c) => c.cert = "ok")
    /\ c.stype \in {"forking", "threading"}
    /\ c.port = "valid"
Valid(c) == PreBindValid(c) /\ c.timeo # "garbled" /\ c.adv # "garbled"

Calls == {"readconf", "readmime", "loadtls", "bind", "listen", "fork", "pidfile", "setpgrp", "signal", "priv"}
Irrev == {"bind", "listen", "fork", "pidfile", "setpgrp", "signal", "priv"}      \* visible outside the process
Late  == {"fork", "pidfile", "setpgrp", "signal", "priv"}                        \* only for a server that stands

\* calls that must not even be attempted for this table: a refusal is clean
Refused(c) == IF ~PreBindValid(c) THEN Irrev ELSE IF ~Valid(c) THEN Irrev \ {"bind"} ELSE {}
\* calls that belong to an option that is switched off / commented out
NotConf(c) == (IF TlsOn(c) THEN {} ELSE {"loadtls"}) \cup (IF c.detach = "yes" THEN {} ELSE {"fork"})
              \cup (IF c.pidfile = "given" THEN {} ELSE {"pidfile"}) \cup (IF c.sec = "drop" THEN {} ELSE {"priv"})

Ready == /\ {"bind", "listen"} \subseteq did
         /\ (TlsOn(cfg) => "loadtls" \in did)
         /\ mimeRead = Found(cfg)

--------------------------------------------------------------------------------
(* Events.  Uniform shape [ev, ok, host, port, which] (+ obs on "serve"):                    *)
(*   readconf  the configuration file is opened          readmime  which = position in the list *)
(*   loadtls   host = "conf" iff certificate and key are the configured files                 *)
(*   bind      host = any | iface | other, port = conf | other      listen                    *)
(*   fork, pidfile (opened for writing), setpgrp, signal (host = HUP | TERM | other),         *)
(*   priv      (chroot / chdir / setgroups / setregid / setreuid and relatives)               *)
(*   serve     initialize() returned (obs = the built server)       abort  initialize() raised *)
Known == Calls \cup {"serve", "abort"}

Do(e) ==
    /\ phase = "starting"
    /\ UNCHANGED cfg
    /\ IF e.ev = "abort" THEN phase' = "aborted" /\ UNCHANGED <<failed, did, mimeRead, addr, obs>>
       ELSE IF e.ev = "serve" THEN phase' = "serving" /\ obs' = e.obs /\ UNCHANGED <<failed, did, mimeRead, addr>>
       ELSE /\ UNCHANGED <<phase, obs>>
            /\ IF e.ok
               THEN /\ did' = did \cup {e.ev}
                    /\ mimeRead' = (IF e.ev = "readmime" THEN mimeRead \cup {e.which} ELSE mimeRead)
                    /\ addr' = (IF e.ev = "bind" THEN [host |-> e.host, port |-> e.port] ELSE addr)
                    /\ UNCHANGED failed
               ELSE /\ failed' = (failed \/ e.ev # "setpgrp")
                    /\ did' = (IF e.ev = "setpgrp" THEN did \cup {"setpgrp!"} ELSE did)
                    /\ UNCHANGED <<mimeRead, addr>>

\* judged in the state BEFORE the event
StepClauses(e) ==
    IF failed /\ e.ev # "abort" THEN "NoStepAfterFailure"
    ELSE IF e.ev \in Refused(cfg) THEN "CleanRefusal"
    ELSE IF e.ev \in NotConf(cfg) THEN "NotConfigured"
    ELSE IF e.ev \in Late /\ ~Ready THEN "HalfStarted"
    ELSE IF e.ev = "loadtls" /\ e.ok /\ e.host # "conf" THEN "ContextMatches"
    ELSE "ok"

--------------------------------------------------------------------------------
(* The built server, clause by clause (state clauses; excuse = the design model keeps a      *)
(* recorded defect, the trace specification never does)                                      *)
Serving == phase = "serving"
FailAborts       == failed => ~Serving
InvalidRefused   == Serving => Valid(cfg)
ValidServes      == phase = "aborted" => (failed \/ "setpgrp!" \in did \/ ~Valid(cfg))
ServingReady     == Serving => Ready
ClassMatches     == Serving => obs.cls = cfg.stype
AddressMatches   == Serving => addr = [host |-> (IF cfg.iface = "given" THEN "iface" ELSE "any"), port |-> "conf"]
NameMatches      == Serving => obs.name = (IF cfg.sname = "given" THEN "given" ELSE "fqdn")
PortMatches      == Serving => obs.sport = (IF cfg.adv = "valid" THEN "adv" ELSE "port")
ConfigCarried    == Serving => obs.cfgsame
ContextMatches   == Serving => obs.ctx = (IF TlsOn(cfg) THEN "loaded" ELSE "none")
TimeoutMatches   == Serving => obs.timeo = (IF cfg.timeo = "valid" THEN "conf" ELSE "none")
MimeAllFoundRead == Serving => obs.types = Found(cfg)
TracebacksMatch  == Serving => obs.tb = cfg.tb
Excused(excuse)  == excuse /\ cfg.enc = "view" /\ "liveview" \in Defects
EncodingsMatch(excuse)     == Serving => (Excused(excuse) \/ obs.enc = EncWanted(cfg.enc))
EncodingsEffective(excuse) == Serving => (Excused(excuse) \/ obs.encEff = EncWanted(cfg.enc))

StateClauses(excuse) ==
    IF ~FailAborts THEN "FailAborts"
    ELSE IF ~InvalidRefused THEN "InvalidRefused"
    ELSE IF ~ValidServes THEN "ValidServes"
    ELSE IF ~ServingReady THEN "ServingReady"
    ELSE IF ~ClassMatches THEN "ClassMatches"
    ELSE IF ~AddressMatches THEN "AddressMatches"
    ELSE IF ~NameMatches THEN "NameMatches"
    ELSE IF ~PortMatches THEN "PortMatches"
    ELSE IF ~ConfigCarried THEN "ConfigCarried"
    ELSE IF ~ContextMatches THEN "ContextMatches"
    ELSE IF ~TimeoutMatches THEN "TimeoutMatches"
    ELSE IF ~MimeAllFoundRead THEN "MimeAllFoundRead"
    ELSE IF ~TracebacksMatch THEN "TracebacksMatch"
    ELSE IF ~EncodingsMatch(excuse) THEN "EncodingsMatch"
    ELSE IF ~EncodingsEffective(excuse) THEN "EncodingsEffective"
    ELSE "ok"

--------------------------------------------------------------------------------
(* initialize() AS CODED (design level): the items of start-up in order - environment calls *)
(* and the checks of option values between them ("chk": raises when its option is bad).      *)
E(ev, ok)       == [ev |-> ev, ok |-> ok, host |-> "", port |-> "", which |-> 0]
EH(ev, ok, h, p) == [ev |-> ev, ok |-> ok, host |-> h, port |-> p, which |-> 0]
Chk(ok)         == E("chk", ok)
FoundSeq(c)     == SelectSeq([i \in 1..Len(c.mime) |-> i], LAMBDA i : Ch(c.mime, i) = "p")
MimeItems(c)    == [k \in 1..Len(FoundSeq(c)) |-> [ev |-> "readmime", ok |-> TRUE, host |-> "", port |-> "", which |-> FoundSeq(c)[k]]]
Rep(n, x)       == [i \in 1..n |-> x]

Items(c) ==
    \* init_config: isfile + access, then ConfigParser.read (opens the file; a file without section header raises)
    (IF c.conf \in {"ok", "garbage"} THEN <<E("readconf", TRUE), Chk(c.conf = "ok")>> ELSE <<Chk(FALSE)>>) \o
    \* init_logger (logmethod none here: no call) ; init_exceptions: getboolean(tracebacks)
    <<Chk(c.tb \in {"yes", "no"})>> \o
    \* init_mimetypes: filter the list, refuse if nothing is left, eval(encoding), clear + fill, mimetypes.init(files)
    <<Chk(Found(c) # {}), Chk(c.enc \notin {"garbled", "absent"})>> \o MimeItems(c) \o
    \* init_ssl_context
    (IF c.tls = "garbled" THEN <<Chk(FALSE)>>
     ELSE IF c.tls = "yes" THEN (IF c.cert = "nooption" THEN <<Chk(FALSE)>> ELSE <<EH("loadtls", c.cert = "ok", "conf", "")>>)
     ELSE <<>>) \o
    \* get_server: servertype, port, then the socketserver constructor: bind, server_bind's options, listen
    <<Chk(c.stype \in {"forking", "threading"}), Chk(c.port = "valid"),
      EH("bind", TRUE, IF c.iface = "given" THEN "iface" ELSE "any", "conf"),
      Chk(c.timeo # "garbled"), Chk(c.adv # "garbled"), E("listen", TRUE)>> \o
    (IF c.detach = "yes" THEN <<E("fork", TRUE)>> ELSE <<>>) \o
    (IF c.pidfile = "given" THEN <<E("pidfile", TRUE)>> ELSE <<>>) \o
    <<E("setpgrp", TRUE), EH("signal", TRUE, "HUP", ""), EH("signal", TRUE, "TERM", "")>> \o
    (IF c.sec = "drop" THEN Rep(5, E("priv", TRUE)) ELSE <<>>)

\* the injected fault: the FIRST call of that name fails
Faulted(its, f) == [i \in 1..Len(its) |->
    IF its[i].ev = f /\ \A j \in 1..(i - 1) : its[j].ev # f THEN [its[i] EXCEPT !.ok = FALSE] ELSE its[i]]
Stops(it) == ~it.ok /\ it.ev # "setpgrp"         \* init_process_group catches OSError and goes on
HasStop(its) == \E i \in 1..Len(its) : Stops(its[i])
FirstStop(its) == IF HasStop(its) THEN CHOOSE i \in 1..Len(its) : Stops(its[i]) /\ \A j \in 1..(i - 1) : ~Stops(its[j])
                  ELSE Len(its)
\* the calls the coded start-up makes for table c with fault f, and how it ends
Run(c, f) == LET its == Faulted(Items(c), f) IN SelectSeq(SubSeq(its, 1, FirstStop(its)), LAMBDA it : it.ev # "chk")
Ends(c, f) == IF HasStop(Faulted(Items(c), f)) THEN "abort" ELSE "serve"
FaultNames(c) == {Items(c)[i].ev : i \in 1..Len(Items(c))} \ {"chk", "readconf"}

\* the server the coded start-up builds
CodedObs(c) == [cls |-> c.stype,
                name |-> (IF c.sname = "given" THEN "given" ELSE "fqdn"),
                sport |-> (IF c.adv = "valid" THEN "adv" ELSE "port"),
                cfgsame |-> TRUE,
                ctx |-> (IF TlsOn(c) THEN "loaded" ELSE "none"),
                timeo |-> (IF c.timeo = "valid" THEN "conf" ELSE "none"),
                enc |-> EncCoded(c.enc), encEff |-> EncCoded(c.enc),
                types |-> Found(c), tb |-> c.tb]
=============================================================================
