---------------------------- MODULE MailboxCases ----------------------------
(* Case families of the growth check XMBOX (variable-free; shared by MC_XMBOX, which        *)
(* enumerates them and hands the files to write to the harness, and by TraceXMBOX, which     *)
(* re-derives messages, selectors and expectations from a case).                            *)
(*   "folder"  a store (sequence of message kinds) as an mbox file or as a Maildir (where   *)
(*             each message sits: cur/new; how the OS enumerates) - listed and followed item *)
(*             by item through ONE front end (the harness runs every front end of Fes)       *)
(*   "fronts"  the same folder listed through every front end (FrontEndsAgree)              *)
(*   "order"   a Maildir listed and followed twice under two enumeration orders             *)
(*   "flav"    the same store as mbox and as Maildir (FlavoursAgree)                        *)
(*   "num"     message numbers / argument shapes that name no message (and the few that do) *)
(*   "recog"   what is (not) a mailbox: first lines, sub-directories                        *)
EXTENDS Mailbox

CONSTANTS
    AllKinds, MaxAll,           \* every store of 0..MaxAll messages over AllKinds (a set of kind records)
    SmallKinds, MaxSmall,       \* plus every store of MaxAll+1..MaxSmall messages over SmallKinds
    FolderPlaces, FolderOrds,   \* Maildir placement / enumeration of the "folder" family
    OrderPlaces, OrdPairs,      \* "order" family: placements x pairs <<orderA, orderB>>
    NumSizes, NumSet, AltNums,  \* "num" family: store sizes, number names, names also tried with "?" / other flag
    FileShapes, DirShapes,      \* "recog" family
    Fes,                        \* front ends: "G" Gopher, "P" Gopher+ "+", "D" Gopher+ "$" (and "!"), "H" HTTP, "M" Gemini
    Fams

RECURSIVE SeqsOfLen(_, _)
SeqsOfLen(S, n) == IF n = 0 THEN {<<>>} ELSE {Append(q, x) : q \in SeqsOfLen(S, n - 1), x \in S}
Stores == UNION {SeqsOfLen(AllKinds, n) : n \in 0..MaxAll} \cup UNION {SeqsOfLen(SmallKinds, n) : n \in (MaxAll + 1)..MaxSmall}
HasKind(store, P(_)) == \E i \in 1..Len(store) : P(store[i])
IsRaw(k) == k.b = "rawfrom"
IsNoHdr(k) == k.h = "nohdr"
IsFrom8(k) == k.f = "eight"
Clean(store) == ~HasKind(store, IsRaw) /\ ~HasKind(store, IsNoHdr) /\ ~HasKind(store, IsFrom8)

FolderCases ==
    {[store |-> s, fl |-> "mbox", place |-> "-", ord |-> "-"] : s \in {x \in Stores : Len(x) >= 1}}
    \cup {[store |-> s, fl |-> "maildir", place |-> p, ord |-> o] : s \in {x \in Stores : ~HasKind(x, IsFrom8)}, p \in FolderPlaces, o \in FolderOrds}
OrderCases == {[store |-> s, place |-> p, a |-> op[1], b |-> op[2]] :
                  s \in {x \in Stores : Len(x) >= 2 /\ ~HasKind(x, IsNoHdr) /\ ~HasKind(x, IsFrom8)}, p \in OrderPlaces, op \in OrdPairs}
FrontsCases == {x \in FolderCases : Clean(x.store)}
FlavCases == {[store |-> s, place |-> p] : s \in {x \in Stores : Clean(x) /\ Len(x) >= 1}, p \in FolderPlaces}
PlainKind == Kind("plain", "text", "lf", "std")
PlainStore(n) == [i \in 1..n |-> PlainKind]
NumCases ==
    {[n |-> n, fl |-> fl, num |-> nm, sep |-> "|", cross |-> FALSE] : n \in NumSizes, fl \in {"mbox", "maildir"}, nm \in NumSet}
    \cup {[n |-> n, fl |-> fl, num |-> nm, sep |-> "?", cross |-> FALSE] : n \in NumSizes, fl \in {"mbox", "maildir"}, nm \in AltNums}
    \cup {[n |-> n, fl |-> fl, num |-> nm, sep |-> "|", cross |-> TRUE] : n \in NumSizes, fl \in {"mbox", "maildir"}, nm \in AltNums}
\* selector of a "num" case: folder of the case's flavour, flag of that (or the other) flavour, the number text
NumSel(cc) == FolderSel(cc.fl) \o cc.sep \o Flag(IF cc.cross THEN Other(cc.fl) ELSE cc.fl) \o NumText(cc.num, cc.n)
RecogCases == {[kind |-> "file", shape |-> s] : s \in FileShapes} \cup {[kind |-> "dir", shape |-> s] : s \in DirShapes}

(* ---- what is on disk for a case --------------------------------------------------------- *)
CaseStore(fam, c) == IF fam = "num" THEN PlainStore(c.n) ELSE c.store
MdFiles(store, place) == [i \in 1..Len(store) |-> [sub |-> MdSub(place, i), name |-> MdName(place, i), lines |-> MdLines(store[i], i)]]
\* recognition shapes: a file = first line of that shape + one ordinary message
OneMessage == <<"X-Id: m1", "Subject: Hello 1", "", "body 1 line one", "line two", "">>
LfLines(ss) == [j \in 1..Len(ss) |-> Ln(ss[j], "lf")]
RecogFileLines(shape) ==
    CASE shape = "empty"     -> <<>>
      [] shape = "leadblank" -> LfLines(<<"", FromLineText("std")>> \o OneMessage)
      [] OTHER               -> LfLines(<<FromLineText(shape)>> \o OneMessage)
DirSubdirs(shape) ==          \* sub-directories present, as a sequence
    CASE shape = "full" -> <<"cur", "new", "tmp">> [] shape = "notmp" -> <<"cur", "new">> [] shape = "curonly" -> <<"cur">>
      [] shape = "newonly" -> <<"new">> [] shape = "newfile" -> <<"cur">> [] shape = "plain" -> <<>>
SubdirSet(shape) == {DirSubdirs(shape)[j] : j \in 1..Len(DirSubdirs(shape))}
DirFiles(shape) ==            \* regular files: <<relative path, lines>>
    LET msg == LfLines(SubSeq(OneMessage, 1, 5)) IN
    CASE shape \in {"full", "notmp", "curonly", "newfile"} -> <<[path |-> "cur/" \o MdName("cur", 1), lines |-> msg]>>
                                                            \o (IF shape = "newfile" THEN <<[path |-> "new", lines |-> LfLines(<<"x">>)]>> ELSE <<>>)
      [] shape = "newonly" -> <<[path |-> "new/" \o MdName("new", 1), lines |-> msg]>>
      [] shape = "plain"   -> <<[path |-> "x.txt", lines |-> LfLines(<<"x">>)]>>
\* files and directories the harness writes below Dir for a case (gamma follows this literally)
Disk(fam, c) ==
    IF fam = "recog" THEN
        (IF c.kind = "file" THEN [files |-> <<[path |-> "m.mbox", lines |-> RecogFileLines(c.shape)]>>, dirs |-> <<>>]
         ELSE [files |-> [j \in 1..Len(DirFiles(c.shape)) |-> [path |-> "md/" \o DirFiles(c.shape)[j].path, lines |-> DirFiles(c.shape)[j].lines]],
               dirs |-> <<"md">> \o [j \in 1..Len(DirSubdirs(c.shape)) |-> "md/" \o DirSubdirs(c.shape)[j]]])
    ELSE LET st == CaseStore(fam, c)
             place == IF fam = "num" THEN "new" ELSE c.place
             mb == <<[path |-> "m.mbox", lines |-> MboxLines(st)]>>
             md == [i \in 1..Len(st) |-> [path |-> "md/" \o MdSub(place, i) \o "/" \o MdName(place, i), lines |-> MdLines(st[i], i)]]
             wantmb == fam = "flav" \/ (fam \in {"folder", "fronts", "num"} /\ c.fl = "mbox")
             wantmd == fam \in {"flav", "order"} \/ (fam \in {"folder", "fronts", "num"} /\ c.fl = "maildir")
         IN [files |-> (IF wantmb THEN mb ELSE <<>>) \o (IF wantmd THEN md ELSE <<>>),
             dirs |-> IF wantmd THEN <<"md", "md/cur", "md/new", "md/tmp">> ELSE <<>>]

(* ---- the messages of a case, as the model reads them ------------------------------------ *)
\* candidates for "which message is the k-th item": mbox = file order; Maildir = some fixed permutation
Perms(n) == {q \in [1..n -> 1..n] : {q[j] : j \in 1..n} = 1..n}
MsgsOf(fl, store) == IF fl = "mbox" THEN MboxMsgs(store) ELSE [i \in 1..Len(store) |-> MdLines(store[i], i)]
\* the names accepted for a message at property level: the coded one, or the RFC 2047 decoding of the "enc" subject
EncHead == "=?utf-8?q?caf=C3=A9_"
DecodeAlt(name) == IF StartsWith(name, EncHead) /\ EndsWith(name, "?=") /\ Len(name) = Len(EncHead) + 3
                   THEN "caf# " \o Ch(name, Len(EncHead) + 1) ELSE name
NameAlts(m) == {NameOf(Parse(m)), DecodeAlt(NameOf(Parse(m)))}
NameFits(name, m) == \E a \in NameAlts(m) : SameName(name, a)
\* design level: the order the code (as coded, or repaired) puts a Maildir in
DesignOrders(n, place, ord) == {CodedOrder(n, place, ord), Idx(n)}
=============================================================================
