------------------------------ MODULE MC_XCONF ------------------------------
(* Bounded design model for XCONF: the start-up program AS CODED (Config!Items) for every   *)
(* option table that differs from the shipped defaults in at most K options (K = 2: every    *)
(* pair of option values; K = 3 in the thorough tier), and - for tables with at most KF      *)
(* changed options - with every call of the program failing in turn.  Each initial state is  *)
(* also one replay case for the REAL initialize() (binding B2).                              *)
EXTENDS Config, TLC

CONSTANTS K, KF, MimeDom, PairInvalid

VARIABLES pc, fault, last     \* position in Run(cfg, fault); name of the failing call ("none"); last event done

mcvars == <<vars, pc, fault, last>>

Dom(o) ==
    CASE o = "conf"    -> {"ok", "missing", "unreadable", "dir", "garbage"}
      [] o = "tb"      -> {"yes", "no", "garbled", "absent"}
      [] o = "mime"    -> MimeDom
      [] o = "enc"     -> {"extend", "deflist", "view", "dict", "tuples", "empty", "garbled", "absent"}
      [] o = "stype"   -> {"forking", "threading", "other", "lower", "absent"}
      [] o = "iface"   -> {"absent", "given"}
      [] o = "port"    -> {"valid", "garbled", "absent"}
      [] o = "adv"     -> {"absent", "valid", "garbled"}
      [] o = "sname"   -> {"absent", "given"}
      [] o = "timeo"   -> {"valid", "absent", "garbled"}
      [] o = "tls"     -> {"no", "absent", "yes", "garbled"}
      [] o = "cert"    -> {"ok", "nooption", "badfile"}
      [] o = "detach"  -> {"no", "yes"}
      [] o = "pidfile" -> {"absent", "given"}
      [] o = "sec"     -> {"none", "drop"}
      [] o = "interp"  -> {"no", "yes"}

Alt == UNION {{<<o, v>> : v \in Dom(o) \ {Default[o]}} : o \in Options}
Set1(c, a) == [c EXCEPT ![a[1]] = a[2]]
\* a table whose configuration file cannot be read has no other option worth varying
\* (quick tier, PairInvalid = FALSE: two values that are each refused on their own are not paired either)
Bad(a) == ~Valid(Set1(Default, a))
Useful(a, b) == /\ a[1] # b[1] /\ ~(a[1] = "conf" /\ a[2] # "ok") /\ ~(b[1] = "conf" /\ b[2] # "ok")
                /\ (PairInvalid \/ ~(Bad(a) /\ Bad(b)))
Tables1 == {Set1(Default, a) : a \in Alt}
Tables2 == UNION {{Set1(Set1(Default, a), b) : b \in {x \in Alt : Useful(a, x)}} : a \in Alt}
Tables3 == UNION {{Set1(t, b) : b \in {x \in Alt : t[x[1]] = Default[x[1]] /\ x[1] # "conf"}} : t \in Tables2}
Diff(c) == Cardinality({o \in Options : c[o] # Default[o]})
Tables == {Default} \cup Tables1 \cup (IF K >= 2 THEN Tables2 ELSE {}) \cup (IF K >= 3 THEN Tables3 ELSE {})

Init == /\ \E c \in Tables : InitWith(c)
        /\ pc = 1 /\ last = E("none", TRUE)
        /\ fault \in {"none"} \cup (IF Diff(cfg) <= KF THEN FaultNames(cfg) ELSE {})

Step ==
    /\ phase = "starting" /\ pc <= Len(Run(cfg, fault))
    /\ Do(Run(cfg, fault)[pc])
    /\ last' = Run(cfg, fault)[pc]
    /\ pc' = pc + 1 /\ UNCHANGED fault

Finish ==
    /\ phase = "starting" /\ pc > Len(Run(cfg, fault))
    /\ IF Ends(cfg, fault) = "serve"
       THEN Do([ev |-> "serve", ok |-> TRUE, host |-> "", port |-> "", which |-> 0, obs |-> CodedObs(cfg)])
       ELSE Do(E("abort", TRUE))
    /\ last' = E(Ends(cfg, fault), TRUE) /\ UNCHANGED <<pc, fault>>

Next == Step \/ Finish
Spec == Init /\ [][Next]_mcvars

StatesOk == StateClauses(TRUE) = "ok"
StepsOk == [][Step => StepClauses(Run(cfg, fault)[pc]) = "ok"]_mcvars
\* non-vacuity witnesses (violated when checked)
NeverServes == phase # "serving"
NeverAborts == phase # "aborted"
=============================================================================
