------------------------------ MODULE WireSniff ------------------------------
(* TLS sniffing of pygopherd (property C02, second sentence): server.py:52-64                *)
(*     if self.context:                                                                       *)
(*         if sock.recv(1, socket.MSG_PEEK) == b"\x16":                                      *)
(*             return self.context.wrap_socket(sock, server_side=True)                        *)
(*     return sock                                                                            *)
(* A two-variable model: the kernel receive buffer of the accepted socket (sbuf) and whether  *)
(* the connection was handed to the TLS context (wrapped).  The other variables are inputs    *)
(* (ctx, sent) and the program counter.  Bytes are 0..255; the client may also close without  *)
(* sending anything (sent = <<>>: the peek returns b"").                                       *)
EXTENDS Naturals, Sequences

VARIABLES sbuf,      \* bytes readable from the accepted socket
          wrapped,   \* the connection is treated as TLS (the context's wrap_socket result is returned)
          ctx,       \* a TLS context is configured (enable_tls)
          sent,      \* what the client sent before the sniff (history; never changes)
          peeked,    \* result of the peek: <<>> = not yet / end of stream, <<b>> = first byte
          spc        \* "accepted" -> "peeked" -> "done"
svars == <<sbuf, wrapped, ctx, sent, peeked, spc>>

SInit(c, bytes) == /\ ctx = c /\ sent = bytes /\ sbuf = bytes
                   /\ wrapped = FALSE /\ peeked = <<>> /\ spc = "accepted"

CanPeek == spc = "accepted" /\ ctx
CanSkipPeek == spc = "accepted" /\ ~ctx
CanDecide == spc = "peeked"
\* recv(1, MSG_PEEK): returns the first byte WITHOUT removing it from the buffer
Peek == /\ CanPeek
        /\ peeked' = (IF sbuf = <<>> THEN <<>> ELSE <<sbuf[1]>>)
        /\ spc' = "peeked"
        /\ UNCHANGED <<sbuf, wrapped, ctx, sent>>
\* NAMED DEVIATION NoContextNoPeek: without a context the code does not look at the socket at all
SkipPeek == /\ CanSkipPeek
            /\ spc' = "done"
            /\ UNCHANGED <<sbuf, wrapped, ctx, sent, peeked>>
\* 0x16 = 22 = TLS record type "handshake"
Decide == /\ CanDecide
          /\ wrapped' = (peeked = <<22>>)
          /\ spc' = "done"
          /\ UNCHANGED <<sbuf, ctx, sent, peeked>>
SNext == Peek \/ SkipPeek \/ Decide

\* "A connection is treated as TLS exactly when its first byte is 0x16" (and TLS is configured at all)
IsHello == Len(sent) > 0 /\ sent[1] = 22
SniffExactAt(w) == w <=> (ctx /\ IsHello)
SniffExact == spc = "done" => SniffExactAt(wrapped)
\* "sniffing that byte consumes nothing of the request"
SniffPureAt(readable) == readable = sent
SniffPure == SniffPureAt(sbuf)
=============================================================================
