------------------------------- MODULE MC_C10 -------------------------------
(* Bounded design model for C10: one worker, so every listing request runs to completion   *)
(* between environment steps; all interleavings of directory mutations, clock advances on  *)
(* both sides of the lifetime, and requests through each protocol; lifetimes 0 and 4 ticks. *)
(* `h` records the behaviour so far (hidden from the exhaustive run by a VIEW, kept in the *)
(* generation runs whose dumps/simulations are replayed into the real server: binding B2). *)
EXTENDS Cache, TLC

CONSTANTS MaxClock, MaxHist, MaxLen
VARIABLES h, i0       \* behaviour so far; initial directory and lifetime (for replays)
mcvars == <<cvars, h, i0>>

Busy == \E w \in Workers : pc[w] # "idle"
Ticks == IF T = 0 THEN {1, 2} ELSE {1, T - 1, T, T + 1}

MInit == Init /\ h = <<>> /\ i0 = [d |-> dir, T |-> T]

Env(a) ==
    /\ ~Busy
    /\ \/ \E n \in Names : a = [a |-> "create", n |-> n] /\ Create(n)
       \/ \E n \in Names : a = [a |-> "delete", n |-> n] /\ Delete(n)
       \/ \E n \in Names, m \in Names : a = [a |-> "rename", n |-> n, m |-> m] /\ Rename(n, m)
       \/ \E n \in Names : a = [a |-> "editmeta", n |-> n] /\ EditMeta(n)
       \/ \E d \in Ticks : a = [a |-> "tick", d |-> d] /\ Tick(d)

Req(a) == /\ ~Busy /\ \E p \in Protos : a = [a |-> "request", p |-> p] /\ Start(1, p)

MNext ==
    \/ \E a \in [a : {"create", "delete", "editmeta"}, n : Names] \cup [a : {"rename"}, n : Names, m : Names]
              \cup [a : {"tick"}, d : Ticks] :
           Env(a) /\ h' = Append(h, a) /\ UNCHANGED i0
    \/ \E a \in [a : {"request"}, p : Protos] : Req(a) /\ h' = Append(h, a) /\ UNCHANGED i0
    \/ (\E w \in Workers : WorkerStep(w)) /\ UNCHANGED <<h, i0>>

MSpec == MInit /\ [][MNext]_mcvars

NoH == cvars                      \* VIEW for the exhaustive run
Bound == clock <= MaxClock /\ Len(hist) <= MaxHist
GenBound == Len(h) <= MaxLen /\ Bound

NoRefresh == [][NoRefreshStep]_mcvars
\* reachability witnesses for the vacuity check (each must be VIOLATED by TLC)
W_NeverHit == \A w \in Workers : ~(Done(w) /\ out[w].src = "cache" /\ out[w].d # dir)
=============================================================================
