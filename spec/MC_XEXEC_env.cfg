SPECIFICATION Spec
CONSTANTS
  SplitFirstMark = TRUE
  WapCaptures = TRUE
  Bases <- BasesQuick
  SepSet <- BothSeps
  ArgSet <- ArgsQuick
  Searches <- SearchQuick
  Fams <- Families
  ServerEnvs <- EnvsStale
  MaxReq = 1
INVARIANT GatedRun
INVARIANT GatedLoad
INVARIANT ServedWhenGated
INVARIANT ArgvVerbatim
INVARIANT EnvDocumented
INVARIANT NoStale
INVARIANT OutExact
INVARIANT PygSeesRequest
INVARIANT Reaped
INVARIANT NoFdLeft
INVARIANT StderrNotSent
PROPERTY EnvUntouched
CHECK_DEADLOCK FALSE
