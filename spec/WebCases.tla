------------------------------ MODULE WebCases ------------------------------
(* Case families of the growth check XWEB (variable-free, shared by MC_XWEB, which          *)
(* enumerates them, and TraceXWEB, which re-derives requests and expectations from a case):  *)
(* case sets, the request path / dialogue / menu entries of a case, and the model-side       *)
(* verdict of each case (the transcription of Web.tla judged by the declarative clauses).    *)
EXTENDS Web


CONSTANTS
    Fams,                       \* families enabled in this run (non-default waptop runs only need the WAP ones)
    UnknownIcons, IconShapes, IconFronts,
    RowTypes, MaxRows, PosStride,   \* sequence of item types for link rows; rows per menu; see Pos
    SearchSels, Searches, SearchFronts,
    WapSuffixes,
    GemUrls,
    UrlSels, RwChars, RwRests, SelFronts, HLs,
    CodeAccessKeys              \* B1: pygopherd.protocols.wap.accesskeys of the tree under test

Methods == {"GET", "HEAD"}
Idle == [k |-> 0]

(* ---- icon ------------------------------------------------------------------------------ *)
IconCases == {[front |-> f, method |-> m, name |-> n, shape |-> s] :
                 f \in IconFronts, m \in Methods, n \in IconNames \cup UnknownIcons, s \in IconShapes}
IconPath0(name, shape) ==
    LET n == PctQuote(name) IN           \* as a browser writes the name into a path
    CASE shape = "plain"   -> IconPrefix \o n
      [] shape = "pct"     -> IconPrefix \o ReplaceAll(n, ".", "%2E")
      [] shape = "slash"   -> IconPrefix \o n \o "/"
      [] shape = "query"   -> IconPrefix \o n \o "?x=1"
      [] shape = "nl"      -> IconPrefix \o n \o "%0A"
      [] shape = "noslash" -> Tail1(IconPrefix) \o n
      [] shape = "lower"   -> "/pygopherd-httpproto-icons/" \o n
      [] shape = "sub"     -> IconPrefix \o "x/" \o n
IconPath(cc) == IF cc.front = "W" THEN WapTop \o (IF cc.shape = "noslash" THEN "/" ELSE "") \o IconPath0(cc.name, cc.shape)
                ELSE IconPath0(cc.name, cc.shape)
IconExpect(cc) == IconRoute(IF cc.front = "W" THEN WapRest(IconPath(cc)) ELSE IconPath(cc))
IconVerdict(cc) ==
    LET r == IconExpect(cc) IN
    IF cc.name \in IconNames /\ cc.shape \in {"plain", "pct", "slash", "query", "noslash"} /\ r # cc.name THEN "IconServed"
    ELSE IF cc.name \notin IconNames /\ r # "" THEN "UnknownIcon"
    ELSE IF cc.shape \in {"lower", "sub"} /\ r # "" THEN "UnknownIcon"
    ELSE "ok"

(* ---- menu ------------------------------------------------------------------------------ *)
Num(k) == ToString(k)
LinkEntry(k)   == [type |-> RowTypes[((k - 1) % Len(RowTypes)) + 1], name |-> "r" \o Num(k), sel |-> "/t/r" \o Num(k), host |-> "", port |-> 0]
InfoEntry(k)   == [type |-> "i", name |-> "n" \o Num(k), sel |-> "fake", host |-> "(NULL)", port |-> 0]
SearchEntry(k) == [type |-> "7", name |-> "s" \o Num(k), sel |-> "/t/s" \o Num(k), host |-> "", port |-> 0]
\* positions tried for the single info / search row of an n-row menu: every PosStride-th, the first and the last
Pos(n) == {p \in 0..n : p % PosStride = 0 \/ p \in {1, n}}
MenuCases == {x \in {[n |-> n, ip |-> i, sp |-> s, pat |-> "single"] : n \in 0..MaxRows, i \in 0..MaxRows, s \in 0..MaxRows} :
                 x.ip \in Pos(x.n) /\ x.sp \in Pos(x.n) /\ (x.ip = 0 \/ x.ip # x.sp)}
             \cup {[n |-> n, ip |-> 0, sp |-> 0, pat |-> p] : n \in 1..MaxRows, p \in {"info2", "search3", "mixed"}}
KindAt(cc, k) ==
    CASE cc.pat = "single"  -> (IF k = cc.ip THEN "i" ELSE IF k = cc.sp THEN "7" ELSE "l")
      [] cc.pat = "info2"   -> (IF k % 2 = 1 THEN "i" ELSE "l")
      [] cc.pat = "search3" -> (IF k % 3 = 1 THEN "7" ELSE "l")
      [] cc.pat = "mixed"   -> (IF k % 4 = 2 THEN "i" ELSE IF k % 4 = 3 THEN "7" ELSE "l")
MenuEntries(cc) == [k \in 1..cc.n |-> IF KindAt(cc, k) = "i" THEN InfoEntry(k) ELSE IF KindAt(cc, k) = "7" THEN SearchEntry(k) ELSE LinkEntry(k)]
MenuStart(cc) == [k |-> 0, es |-> MenuEntries(cc), wap |-> WapStart, http |-> <<>>, gem |-> <<>>]
\* one rendered row: protocols/base.py writedir calls renderobjinfo once per entry, in order
MenuStep(s) == LET e == s.es[s.k + 1] IN
               [s EXCEPT !.k = s.k + 1, !.wap = WapRow(s.wap, e), !.http = Append(s.http, HttpRow(e)), !.gem = Append(s.gem, GemRow(e))]
MenuVerdict(s) ==
    IF ~AccessKeysOk(s.wap.out) \/ ~KeysDistinct(s.wap.out) THEN "AccessKeys"
    ELSE IF ~SearchCardOk(s.wap.out) THEN "SearchCard"
    ELSE IF ~WapPrefixOk(s.wap.out) THEN "WapPrefix"
    ELSE IF ~GemLinksOk(s.gem) THEN "GemLinkLines"
    ELSE IF \E i \in 1..Len(s.http) : From(s.http[i].icon, Len(IconPrefix) + 1) \notin IconNames THEN "MappedIconsExist"
    ELSE IF \E i \in 1..Len(s.es) : s.es[i].type = "7" /\ ~StartsWith(s.gem[i].url, QueryPrefix \o "/") THEN "GemPrompt"
    ELSE "ok"

(* ---- search ---------------------------------------------------------------------------- *)
NoQuery == "(none)"
SearchCases == {[front |-> f, sel |-> x, q |-> q] : f \in SearchFronts, x \in SearchSels, q \in Searches \cup {NoQuery}}
SearchItem(cc) == [type |-> "7", name |-> "find", sel |-> cc.sel, host |-> "", port |-> 0]
\* the dialogue: requests a user of front end p causes by typing q into the item (Gemini: prompt, query, redirect)
SearchDialogue(cc) ==
    LET p  == cc.front
        h  == Target(p, SearchItem(cc)).href
        q  == IF cc.q = NoQuery THEN "" ELSE cc.q
    IN IF p = "M"
       THEN LET r0 == GemRoute(Follow(p, h, "").line)
                r1 == GemRoute(Follow(p, h, q).line)
            IN IF cc.q = NoQuery THEN [first |-> r0.kind, second |-> "none", sel |-> "", got |-> ""]
               ELSE LET r2 == GemRoute("gemini://" \o ServerName \o RefPath(h, r1.loc) \o cCRLF)
                    IN [first |-> r0.kind, second |-> r1.kind, sel |-> r2.sel, got |-> r2.search]
       ELSE LET path == HttpPathOf(Follow(p, h, q).line)
                r == HttpParse(IF p = "W" THEN WapRest(path) ELSE path)
            IN [first |-> "serve", second |-> "none", sel |-> r.sel, got |-> r.search]
SearchVerdict(cc) ==
    LET d == SearchDialogue(cc) IN
    IF cc.front = "M" /\ d.first # "prompt" THEN "GemPrompt"
    ELSE IF cc.front = "M" /\ cc.q # NoQuery /\ (d.second # "redirect" \/ d.sel # SlashNorm(cc.sel) \/ d.got # cc.q) THEN "GemSearchArrives"
    ELSE IF cc.front # "M" /\ (d.first # "serve" \/ d.sel # SlashNorm(cc.sel) \/ d.got # (IF cc.q = NoQuery THEN "" ELSE cc.q)) THEN "SearchCard"
    ELSE "ok"

(* ---- wapdoc ---------------------------------------------------------------------------- *)
WapDocCases == {[method |-> m, suffix |-> x] : m \in Methods, x \in WapSuffixes \cup {"/" \o Tail1(WapTop)}}
WapDocPath(cc) == WapTop \o cc.suffix
WapDocVerdict(cc) ==
    LET p == WapDocPath(cc)
        below == cc.suffix = "" \/ Ch(cc.suffix, 1) \in {"/", "?"}
    IN IF WapClaims(p) # below THEN "WapPrefix"
       ELSE IF below /\ WapSel(p) # SlashNorm(PctUnquote(Split(cc.suffix, "?")[1])) THEN "WapPrefix"
       ELSE "ok"

(* ---- gem ------------------------------------------------------------------------------- *)
GemCases == {[url |-> u] : u \in GemUrls}
GemVerdict(cc) ==
    LET r == GemRoute(cc.url \o cCRLF) IN
    IF (Find(cc.url, "[") > 0 /\ Find(cc.url, "]") = 0) /\ r.kind # "bad" THEN "GemBadRequest"
    ELSE IF r.kind = "serve" /\ Find(r.sel, "%") > 0 /\ Find(cc.url, "%25") = 0 THEN "GemSuccessMime"     \* selector fully decoded
    ELSE "ok"

(* ---- sel ------------------------------------------------------------------------------- *)
RwSels == {"/" \o x \o r : x \in RwChars, r \in RwRests}                              \* one extra character
          \cup {"/" \o x \o y \o r : x \in RwChars, y \in RwChars, r \in {"/f", "/d"}}       \* two
          \cup {"/" \o x : x \in RwChars} \cup {"/" \o x \o "/" : x \in RwChars}            \* nothing behind it
          \cup {"/" \o x \o "/" \o y \o r : x \in RwChars, y \in RwChars, r \in {"/f"}}      \* nested
          \cup RwRests
SelCases == {x \in {[front |-> f, hl |-> h, sel |-> s] : f \in SelFronts, h \in HLs, s \in UrlSels \cup RwSels} :
                x.front = "G" => (x.sel # "" /\ \A ch \in {cTAB, cCR, cLF} : Find(x.sel, ch) = 0 /\ Strip(x.sel) = x.sel)}
SelVerdict(cc) ==
    LET s == SlashNorm(cc.sel)
        r == WebServe(s, cc.hl)
        intree == s \in TreeFiles \cup TreeDirs
    IN IF UrlCan(s) /\ UrlSecure(s) /\ ~(r.obj = "url" /\ SlashLess(r.id) = SlashLess(UrlTarget(cc.sel))) THEN "UrlRedirectPage"
       ELSE IF ~(UrlCan(s) /\ UrlSecure(s)) /\ r.obj = "url" THEN "UrlOnlyUrls"
       ELSE IF intree /\ ~(r.ok /\ r.id = s) THEN "RewriteOnce"
       ELSE IF cc.hl = "default" /\ ~intree /\ ~UrlCan(s) /\ r.ok THEN "RewriteOff"
       ELSE IF cc.hl = "full" /\ ~intree /\ ~UrlCan(s) /\ WebSecure(s) /\ RwCan(s) /\ r # WebServe(From(s, 3), "default") THEN "RewriteSame"
       ELSE IF ~intree /\ ~UrlCan(s) /\ ~RwCan(s) /\ r.ok THEN "RewriteOnce"
       ELSE "ok"


(* ---- what gamma needs besides the case: derived HERE so that the harness derives nothing -- *)
SelS(cc) == SlashNorm(cc.sel)
SelInTree(cc) == SelS(cc) \in TreeFiles \cup TreeDirs
SelRwCase(cc) == cc.hl = "full" /\ ~SelInTree(cc) /\ ~UrlCan(SelS(cc)) /\ WebSecure(SelS(cc)) /\ RwCan(SelS(cc))
SelReqOf(cc, sel) == IF cc.front = "G" THEN sel ELSE WebRef(cc.front, sel)
\* role, selector, request, handler list: /path is fetched under the list WITHOUT the rewriter ("norw"), because
\* that is what the rewriter itself consults (gethandler: handlers minus URLTypeRewriter)
SelReqs(cc) == (IF SelRwCase(cc) THEN << <<"inner", From(SelS(cc), 3), SelReqOf(cc, From(SelS(cc), 3)), "norw">> >> ELSE <<>>)
               \o << <<"subject", cc.sel, SelReqOf(cc, cc.sel), cc.hl>> >>
SearchReqs(cc) ==
    LET p == cc.front
        h == Target(p, SearchItem(cc)).href
        q == IF cc.q = NoQuery THEN "" ELSE cc.q
    IN IF p # "M" THEN <<Follow(p, h, q)>>
       ELSE IF cc.q = NoQuery THEN <<Follow(p, h, "")>>
       ELSE <<Follow(p, h, ""), Follow(p, h, q),
              Rq("gemini://" \o ServerName \o RefPath(h, GemRoute(Follow(p, h, q).line).loc) \o cCRLF, "", TRUE)>>
Extra(f, cc) ==
    CASE f = "icon"   -> [path |-> IconPath(cc)]
      [] f = "menu"   -> [es |-> MenuEntries(cc)]
      [] f = "search" -> [reqs |-> SearchReqs(cc), href |-> Target(cc.front, SearchItem(cc)).href]
      [] f = "wapdoc" -> [path |-> WapDocPath(cc)]
      [] f = "gem"    -> [k |-> 0]
      [] f = "sel"    -> [reqs |-> SelReqs(cc)]
=============================================================================
