------------------------------ MODULE MC_XMBOX ------------------------------
(* Bounded model for the growth check XMBOX (spec/Mailbox.tla, spec/MailboxCases.tla).       *)
(* TLC enumerates every case of every family (Init), computes what is on disk for it and     *)
(* judges the transcription against the declarative properties (Compute).  The state dump    *)
(* is the list of cases the harness replays on the real server (binding B2): `x.disk` is     *)
(* written literally (files as line sequences with their terminators, directories), the      *)
(* requests are the selectors of `x`.                                                        *)
(* Model-level clauses (res = name of the first one that fails, "ok" otherwise):             *)
(*   RoundTrip          what the mbox writer appends, the mbox reader gives back: as many    *)
(*                      messages as delivered, each Canon-equal to the delivered one (stores  *)
(*                      without an unquoted From line)                                       *)
(*   RawFromSplits      every unquoted From line adds exactly one message                    *)
(*   ServeIdempotent    serving a served message changes nothing                             *)
(*   ListingMatchesRetrieval  the Subject of the served text gives the listed name           *)
(*   Numbered           the text of k resolves to the k-th message, for every item           *)
(*   HeaderlessAnswered / From8Answered   the folder answers (switches HeaderlessListed,     *)
(*                      From8Tolerated)                                                      *)
(*   Permutation        the Maildir order is a permutation of the delivered messages         *)
(*   NumberingOrderIndependent  the Maildir order does not depend on the enumeration order   *)
(*                      (switch SortedMaildir)                                               *)
(*   FlavoursAgree      same names and Canon-equal contents for mbox and Maildir             *)
(*   NoSuchMessage      every number name that names no message resolves to "declined / no   *)
(*                      such message" (switch HugeNumberRefused), the others to their message *)
(*   Recognition        standard From_ line: mailbox; empty file, prose: not; cur+new+tmp:   *)
(*                      Maildir; without cur or new: not                                     *)
EXTENDS MailboxCases, MC_XMBOX_consts, TLC

VARIABLES fam, c, pc, x, res
vars == <<fam, c, pc, x, res>>

Idle == [k |-> 0]
Init == /\ pc = "new" /\ x = Idle /\ res = "new"
        /\ \/ "folder" \in Fams /\ fam = "folder" /\ c \in FolderCases
           \/ "fronts" \in Fams /\ fam = "fronts" /\ c \in FrontsCases
           \/ "order" \in Fams /\ fam = "order" /\ c \in OrderCases
           \/ "flav" \in Fams /\ fam = "flav" /\ c \in FlavCases
           \/ "num" \in Fams /\ fam = "num" /\ c \in NumCases
           \/ "recog" \in Fams /\ fam = "recog" /\ c \in RecogCases

Extra(f, cc) ==
    [disk |-> Disk(f, cc), dir |-> Dir, mb |-> FolderSel("mbox"), md |-> FolderSel("maildir"), fes |-> Fes,
     sel |-> IF f = "num" THEN NumSel(cc) ELSE "", huge |-> Huge]

FolderVerdict(cc) ==
    LET st == cc.store
        n == Len(st)
        msgs == IF cc.fl = "mbox" THEN MboxMsgs(st) ELSE MaildirMsgs(st, cc.place, cc.ord)
        rows == Rows(cc.fl, msgs)
        raws == Cardinality({i \in 1..n : IsRaw(st[i])})
    IN IF cc.fl = "mbox" /\ raws = 0 /\ ~(Len(msgs) = n /\ \A i \in 1..n : Canon(msgs[i]) = Canon(MdLines(st[i], i))) THEN "RoundTrip"
       ELSE IF cc.fl = "mbox" /\ Len(msgs) # n + raws THEN "RawFromSplits"
       ELSE IF \E k \in 1..Len(msgs) : Served(Served(msgs[k])) # Served(msgs[k]) THEN "ServeIdempotent"
       ELSE IF \E k \in 1..Len(msgs) : ~SameName(NameOf(Parse(Served(msgs[k]))), rows[k].name) THEN "ListingMatchesRetrieval"
       ELSE IF \E k \in 1..Len(msgs) : NumOutcome(NatStr(k), Len(msgs)) # k THEN "Numbered"
       ELSE IF ~(HeaderlessListed \/ ~AnyHeaderless(msgs)) THEN "HeaderlessAnswered"
       ELSE IF ~(From8Tolerated \/ cc.fl # "mbox" \/ FirstFrom8(st) = 0) THEN "From8Answered"
       ELSE IF cc.fl = "maildir" /\ ~IsPermutation(MaildirOrder(n, cc.place, cc.ord), n) THEN "Permutation"
       ELSE "ok"
OrderVerdict(cc) ==
    IF MaildirOrder(Len(cc.store), cc.place, cc.a) # MaildirOrder(Len(cc.store), cc.place, cc.b) THEN "NumberingOrderIndependent" ELSE "ok"
FlavVerdict(cc) ==
    LET st == cc.store
        mb == MboxMsgs(st)
        md == [i \in 1..Len(st) |-> MdLines(st[i], i)]
    IN IF Len(mb) = Len(md) /\ \A i \in 1..Len(st) : NameOf(Parse(mb[i])) = NameOf(Parse(md[i])) /\ Canon(mb[i]) = Canon(md[i])
       THEN "ok" ELSE "FlavoursAgree"
NumVerdict(cc) ==
    LET o == NumOutcome(NumText(cc.num, cc.n), cc.n)
        want == CASE cc.num = "first" -> (IF cc.n >= 1 THEN 1 ELSE 0)
                  [] cc.num = "last"  -> cc.n
                  [] cc.num = "lead0" -> (IF cc.n >= 1 THEN 1 ELSE 0)
                  [] OTHER -> 0
    IN IF o # want THEN "NoSuchMessage" ELSE "ok"
RecogVerdict(cc) ==
    IF cc.kind = "file" THEN
        (IF cc.shape = "std" /\ ~IsMboxFile(RecogFileLines(cc.shape)) THEN "Recognition"
         ELSE IF cc.shape \in {"empty", "prose"} /\ IsMboxFile(RecogFileLines(cc.shape)) THEN "Recognition"
         ELSE "ok")
    ELSE (IF cc.shape = "full" /\ ~IsMaildirDir(SubdirSet(cc.shape)) THEN "Recognition"
          ELSE IF cc.shape \in {"curonly", "newonly", "newfile", "plain"} /\ IsMaildirDir(SubdirSet(cc.shape)) THEN "Recognition"
          ELSE "ok")
Verdict(f, cc) ==
    CASE f \in {"folder", "fronts"} -> FolderVerdict(cc)
      [] f = "order" -> OrderVerdict(cc)
      [] f = "flav" -> FlavVerdict(cc)
      [] f = "num" -> NumVerdict(cc)
      [] f = "recog" -> RecogVerdict(cc)

Compute == /\ pc = "new" /\ pc' = "done"
           /\ x' = Extra(fam, c) /\ res' = Verdict(fam, c)
           /\ UNCHANGED <<fam, c>>
Spec == Init /\ [][Compute]_vars

RoundTripInv == res # "RoundTrip"
RawFromSplitsInv == res # "RawFromSplits"
ServeIdempotentInv == res # "ServeIdempotent"
ListingMatchesRetrievalInv == res # "ListingMatchesRetrieval"
NumberedInv == res # "Numbered"
HeaderlessAnsweredInv == res # "HeaderlessAnswered"
From8AnsweredInv == res # "From8Answered"
PermutationInv == res # "Permutation"
NumberingOrderIndependentInv == res # "NumberingOrderIndependent"
FlavoursAgreeInv == res # "FlavoursAgree"
NoSuchMessageInv == res # "NoSuchMessage"
RecognitionInv == res # "Recognition"
=============================================================================
