SPECIFICATION Spec
CONSTANTS
  B = 3
  Schedules = "all"
  Kinds = {"bin"}
  Fams = {"G"}
  Lists = {"default"}
  DecSizeStored = FALSE
  LineCap = "none"
  LongOn = FALSE
  HistOn = FALSE
  Known = {}
INVARIANT Loop
INVARIANT BodyExact
INVARIANT LenTruthful
CHECK_DEADLOCK FALSE
