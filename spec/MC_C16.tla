------------------------------- MODULE MC_C16 -------------------------------
(* Bounded design model for C16.  TLC enumerates member lists (any order, all lengths up   *)
(* to a bound, from a universe chosen from the code's case analysis), runs populate_cache  *)
(* as a state machine (one AddMember step per member, one LinkPass step per iteration of   *)
(* the fix-point loop) and, in the final state of every list, compares every VFSZip         *)
(* operation on every selector of the model with the reference tree (Zip!Same), for the    *)
(* object that built the index (fresh: memo tables left by populate) and for one that      *)
(* opened the saved index (cached: empty tables).  Every final state is also one replay    *)
(* case for the real server (binding B2): `ms` is the archive to build, `out` the selectors *)
(* to request with what the model predicts for them.                                       *)
EXTENDS Zip, TLC

CONSTANTS MetaLen,       \* lists of this length over the header-field universe (0: none)
          FullLen,       \* lists of this length over the full universe
          CoreLen,       \* lists of this length over the order-sensitive core
          UnivFull, UnivCore,
          Known          \* ids of recorded (not repaired) defects: the invariants exclude exactly their input class

VARIABLES ms, i, st, phase, out
vars == <<ms, i, st, phase, out>>

NoDest == [abs |-> FALSE, c |-> <<>>]
F(p, tag) == [p |-> p, k |-> "f", dest |-> NoDest, tag |-> tag, md |-> "std"]
D(p)      == [p |-> p, k |-> "d", dest |-> NoDest, tag |-> "dir", md |-> "std"]
L(p, c)   == [p |-> p, k |-> "l", dest |-> [abs |-> FALSE, c |-> c], tag |-> "link", md |-> "std"]
LA(p, c)  == [p |-> p, k |-> "l", dest |-> [abs |-> TRUE, c |-> c], tag |-> "link", md |-> "std"]
Md(m, md) == [m EXCEPT !.md = md]            \* the same member with other header fields

A    == F(<<"a">>, "plain")
Dd   == D(<<"d">>)
DA   == F(<<"d", "a">>, "plain")
D_ef  == F(<<"d", "e", "f">>, "plain")
HID  == F(<<".hidden">>, "plain")
ABS  == F(<<"a.abstract">>, "abstract")
GMAP == F(<<"gophermap">>, "gophermap")
LNK  == F(<<".Links">>, "links")
EXE  == F(<<"exec.sh">>, "exec")
MBX  == F(<<"m.mbox">>, "mbox")
PYG  == F(<<"x.pyg">>, "pyg")
L_a  == L(<<"l">>, <<"a">>)
L_d  == L(<<"l">>, <<"d">>)
L_de == L(<<"l">>, <<"d", "e">>)
L_Aa == LA(<<"l">>, <<"a">>)                      \* l -> /a
L_ua == L(<<"l">>, <<"..", "a">>)                 \* l -> ../a      (leaves the archive)
L_m  == L(<<"l">>, <<"m">>)
M_l  == L(<<"m">>, <<"l">>)                       \* with L_m: a cycle
M_a  == L(<<"m">>, <<"a">>)                       \* with L_m: a chain
L_x  == L(<<"l">>, <<"missing">>)
L_uu == L(<<"l">>, <<"..", "..", "x">>)
K_la == L(<<"k">>, <<"l", "a">>)                  \* through a directory link
K_lf == L(<<"k">>, <<"l", "f">>)
K_lua == L(<<"k">>, <<"l", "..", "a">>)           \* ".." after a link
DL_ua == L(<<"d", "l">>, <<"..", "a">>)           \* d/l -> ../a   (stays inside)

PZ   == F(<<"p.zip">>, "plain")                   \* a member NAMED like an archive that is not one
OZ   == D(<<"o.zip">>)                            \* a directory member named like an archive
OZA  == F(<<"o.zip", "a">>, "plain")
L_oz == L(<<"l">>, <<"o.zip">>)
D_la == L(<<"d", "l">>, <<"a">>)                  \* d/l -> a     (relative to its own directory)
SELFN == F(<<"d", "ZQ.zip.txt">>, "plain")        \* a member whose path holds the archive's own selector ("/ZQ.zip") again
UFullQ == {A, Dd, DA, D_ef, HID, ABS, GMAP, LNK, EXE, MBX, PYG, L_a, L_d, L_Aa, L_ua, L_m, M_l, M_a, L_x, L_uu, K_la, DL_ua, D_la, PZ, OZ, OZA, SELFN}
UCoreQ == {A, Dd, DA, L_a, L_d, L_Aa, L_ua, L_m, M_l, M_a, L_x, K_la, DL_ua, GMAP}
UCoreT == {A, DA, D_ef, L_a, L_d, L_de, L_m, M_l, M_a, L_x, K_la, K_lf, K_lua, DL_ua, D_la, OZA}
UCoreT5 == {A, DA, D_ef, L_d, L_de, L_m, M_l, M_a, K_la, K_lf}

\* a tree expressible on disk: one member per name, no file or link used as a directory
Consistent(s) ==
    /\ \A x \in 1..Len(s), y \in 1..Len(s) : x # y => s[x].p # s[y].p
    /\ \A x \in 1..Len(s), y \in 1..Len(s) :
          (s[x].k # "d" /\ x # y) => ~(Len(s[y].p) > Len(s[x].p) /\ IsPrefix(s[x].p, s[y].p))
\* the header-field dimension: the file a with every class of header fields, a directory member, a link
\* and a nested file with an all-zero date
UnivMeta == {Md(F(<<"a">>, "plain"), x) : x \in MetaClasses \ {"std"}}
            \cup {Md(D(<<"d">>), "dt0"), Md(L(<<"l">>, <<"a">>), "dt0"), Md(F(<<"d", "a">>, "plain"), "dt0"), Md(D(<<"d">>), "dos")}
\* the line-end dimension of text metadata: each kind of metadata member, in every line-end class, beside the file it describes
CAP == F(<<".cap", "a">>, "cap")
\* (a gophermap is read in BINARY mode and cut at LF only - on disk and in the archive alike - so only the classes whose lines
\* end in LF are gophermaps at all; a bare-CR file is one malformed line, which is C09 / C03 territory)
UnivText == {Md(t, x) : t \in {LNK, ABS, CAP}, x \in LineEndClasses} \cup {CAP}
            \cup {Md(GMAP, x) : x \in {"le_crlf", "le_nofinal", "le_seps"}}
TextLists == IF MetaLen = 0 THEN {} ELSE {<<A, t>> : t \in UnivText} \cup {<<A, DA, t>> : t \in {Md(LNK, x) : x \in {"le_cr", "le_seps"}}}
SeqsUpTo(U, n) == UNION {{s \in [1..k -> U] : Consistent(s)} : k \in 1..n}
Lists == SeqsUpTo(UnivFull, FullLen) \cup SeqsUpTo(UnivCore, CoreLen) \cup SeqsUpTo(UnivMeta, MetaLen) \cup TextLists

\* ---------------------------------------------------------------------------------------
\* selectors of the model: everything either side can reach by listing, every member path and
\* its prefixes, one missing name below each of them, and the virtual-argument forms
RECURSIVE TreeReach(_, _, _)
TreeReach(m, paths, n) ==
    IF n = 0 THEN paths
    ELSE TreeReach(m, paths \cup UNION {{Append(p, c) : c \in TreeNames(m, RefOf(m, p).p)} :
                                          p \in {q \in paths : RefOf(m, q).k = "d"}}, n - 1)
RECURSIVE ZipReach(_, _, _)
ZipReach(s, paths, n) ==
    IF n = 0 THEN paths
    ELSE ZipReach(s, paths \cup UNION {{Append(p, c) : c \in ZipLook(s, NoMemo, p).names} : p \in paths}, n - 1)
Prefixes(p) == {SubSeq(p, 1, n) : n \in 0..Len(p)}
Base(m, s) == TreeReach(m, {<<>>}, 3) \cup ZipReach(s, {<<>>}, 3) \cup UNION {Prefixes(x.p) : x \in Members(m)}
MboxArgSels(m) == {Front(x.p) \o <<LastOf(x.p) \o "|", "MBOX-MESSAGE", "1">> : x \in {y \in Members(m) : y.tag = "mbox"}}
ExecArgSels(m) == {Front(x.p) \o <<LastOf(x.p) \o "|arg">> : x \in {y \in Members(m) : y.tag \in {"exec", "pyg"}}}
RECURSIVE SetAsSeq(_)
SetAsSeq(S) == IF S = {} THEN <<>> ELSE LET x == CHOOSE y \in S : TRUE IN <<x>> \o SetAsSeq(S \ {x})
PathSels(m, s) == Base(m, s) \cup {Append(p, "zz") : p \in Base(m, s)}
                  \cup {Append(x.p, "a") : x \in {y \in Members(m) : y.k = "l"}}

KindF(s, sel) == ZipLook(s, s.memo, sel).k
KindC(s, sel) == ZipLook(s, NoMemo, sel).k

\* input classes of recorded defects (exactly; see findings/C16.proposed.json)
\* negmemo: (1) a look-up below a path that populate_cache recorded as invalid before a later link
\* made it valid, in the object that built the index; (2) a link left unresolved although its
\* target is in the finished index (only the negative memo hid it), its listing and everything below
PendOnly(s, it) == GetInode(s.nodes, NoMemo, DestPath(it)).ok
TouchesFwd(m, s, sel) ==
    \/ sel # <<>> /\ Front(sel) \in s.memo.inv /\ ZipLook(s, NoMemo, sel).k # "none"
    \/ sel \in s.memo.inv /\ ZipLook(s, NoMemo, sel).k = "d"          \* its listing resolves the children
    \/ \E it \in Range(s.pend) : PendOnly(s, it) /\ (IsPrefix(it.path, sel) \/ sel = Front(it.path))
\* lexdotdot: a link whose relative target has ".." after an ordinary component (normpath cancels the
\* pair lexically, a kernel resolves the component first) and whose index entry therefore differs
\* from the reference; the link, everything below it and the listing that shows it
TouchesDotDot(m, s, sel) ==
    \E k \in CancellingDotDot(m) : ~Same(m, s, NoMemo, k.p) /\ (IsPrefix(k.p, sel) \/ sel = Front(k.p))
\* cp437link: archives with a relative link inside a directory whose name is raw non-ASCII bytes
Excused(m, s, sel) == \/ ("negmemo" \in Known /\ TouchesFwd(m, s, sel))
                      \/ ("lexdotdot" \in Known /\ TouchesDotDot(m, s, sel))
                      \/ ("cp437link" \in Known /\ RawDirLinks(m) # {})

Summary ==
    [sels  |-> SetAsSeq(
               {[s |-> sel, args |-> FALSE, zf |-> KindF(st, sel), zc |-> KindC(st, sel), tk |-> RefOf(ms, sel).k,
                 ro |-> InvolvesRealOnly(ms, sel, FALSE), mb |-> InvolvesTag(ms, sel, {"mbox"}),
                 fw |-> TouchesFwd(ms, st, sel), dd |-> TouchesDotDot(ms, st, sel)]
                : sel \in PathSels(ms, st)}
               \cup {[s |-> sel, args |-> TRUE, zf |-> "none", zc |-> "none", tk |-> "none",
                      ro |-> TRUE, mb |-> sel \in MboxArgSels(ms), fw |-> FALSE, dd |-> FALSE]
                     : sel \in MboxArgSels(ms) \cup ExecArgSels(ms)}),
     prune |-> {x.p : x \in Unresolvable(ms)},
     passes |-> 0]

Init == ms \in Lists /\ i = 1 /\ st = Init0 /\ phase = "members" /\ out = [sels |-> <<>>, prune |-> {}, passes |-> 0]

AddMember == /\ phase = "members" /\ i <= Len(ms)
             /\ st' = AddMemberStep(st, ms[i]) /\ i' = i + 1
             /\ UNCHANGED <<ms, phase, out>>
StartLinks == /\ phase = "members" /\ i > Len(ms)
              /\ phase' = "links" /\ UNCHANGED <<ms, i, st, out>>
LinkPass == /\ phase = "links" /\ LinkLoopContinues(st)
            /\ st' = LinkPassStep(st) /\ out' = [out EXCEPT !.passes = @ + 1]
            /\ UNCHANGED <<ms, i, phase>>
Finish == /\ phase = "links" /\ ~LinkLoopContinues(st)
          /\ phase' = "done" /\ out' = [Summary EXCEPT !.passes = out.passes]
          /\ UNCHANGED <<ms, i, st>>
Next == AddMember \/ StartLinks \/ LinkPass \/ Finish
Spec == Init /\ [][Next]_vars

\* ---------------------------------------------------------------------------------------
Done == phase = "done"
SameFresh  == Done => \A sel \in PathSels(ms, st) : Same(ms, st, st.memo, sel) \/ Excused(ms, st, sel)
SameCached == Done => \A sel \in PathSels(ms, st) : Same(ms, st, NoMemo, sel) \/ Excused(ms, st, sel)
Inside     == Done => LinksStayInside(ms, st)
RealOnlyInv == Done => (RealOnly(ms) \/ ("mboxguard" \in Known /\
                            \A m \in Members(ms) : (m.tag \in RealOnlyTags /\ HandlerFor("zip", m) # "FileHandler") => m.tag = "mbox"))
StepwiseEqualsFunction == Done => st = Populate(ms)        \* the state machine IS the transcribed function
\* the fix-point loop terminates within one pass more than there are links
PassBound == out.passes <= Cardinality({x \in Members(ms) : x.k = "l"}) + 1

\* walk-up: selectors over the names the harness uses, archives at two depths and a
\* directory whose name also matches the pattern
WZips == {<<"ZQ.zip">>, <<"sub", "ZQ.zip">>, <<"y.zip", "ZQ.zip">>}
WComps == {"ZQ.zip", "sub", "y.zip", "d", "a", "x.zip"}
WSels == UNION {[1..n -> WComps] : n \in 0..4}
ASSUME \A sel \in WSels : WalkUpRight(sel, WZips)

\* reachability witnesses (vacuity): each must be VIOLATED
W_NoTwoPasses == out.passes < 3
W_NoPruned == ~(Done /\ out.prune # {})
=============================================================================
