------------------------------- MODULE Mailbox -------------------------------
(* Mail folders served as menus (growth check XMBOX) - design model of                      *)
(* pygopherd/handlers/mbox.py (FolderHandler / MessageHandler, MBoxFolderHandler,           *)
(* MBoxMessageHandler, MaildirFolderHandler, MaildirMessageHandler) and of the part of      *)
(* handlers/virtual.py they use (selector = real part, "|" or "?", arguments).              *)
(*                                                                                          *)
(* The model is structured like the code and the library under it:                          *)
(*   a STORE     a sequence of delivered messages (kind = header class, body class, line    *)
(*               ending, From_ line class); message i carries the digit i in its text       *)
(*   writers     MboxLines  - what a delivery agent appends to an mbox file (From_ line,    *)
(*               header, blank line, body with mboxo quoting ">From ", blank line);         *)
(*               MdLines / MdName - one file per message in cur/ or new/ of a Maildir       *)
(*   ReadMbox    mailbox.mbox._generate_toc / get_message: every line starting "From "      *)
(*               starts a message (mbox(5) as cited by the manual: "Any From_ line marks    *)
(*               the beginning of a message"), the blank LF line before the next From_      *)
(*               line / the end of file is dropped                                          *)
(*   MaildirOrder mailbox.Maildir._refresh: os.listdir(cur) then os.listdir(new)            *)
(*   Parse       email.feedparser over the alphabet used here: header lines, continuation   *)
(*               lines, blank line, body; a first line that is no header starts the body    *)
(*   NameOf      MessageHandler.getentry: Subject (first one, any case), str(Header) for     *)
(*               8-bit values (every 8-bit byte -> U+FFFD), re.sub(r"\s+", " "), empty or    *)
(*               missing -> "<no subject>"; RFC 2047 encoded words are NOT decoded, nothing  *)
(*               is truncated                                                               *)
(*   Serve       MessageHandler.write = message.as_bytes(): headers re-emitted as           *)
(*               "Name: value" LF (lines over 78 columns folded again), one blank line,      *)
(*               body lines with LF; the From_ line is not part of the message               *)
(*   NumOutcome  MessageHandler.canhandlerequest / getmessage: arguments ^<flag>(\d+)$,     *)
(*               number < 1 declined, n-th message of the iteration or "no such message"    *)
(*   FromLineOk  MBoxFolderHandler.canhandlerequest: the UnixMailbox pattern, token by token *)
(*   IsMaildirDir MaildirFolderHandler.canhandlerequest: sub-directories new and cur        *)
(*                                                                                          *)
(* Text: ASCII strings; stand-ins "@" = the byte 0xE9 (8-bit, not UTF-8), "#" = one          *)
(* non-ASCII character in a listing (U+FFFD).  A file / a message / a reply body is a        *)
(* sequence of lines [s |-> text, nl |-> "lf" | "crlf" | ""] ("" = unterminated last line).  *)
(*                                                                                          *)
(* PROPERTIES (what a user / administrator relies on) and where they are promised:          *)
(*  doc/pygopherd.sgml "mbox handlers": "present mailboxes as if they were folders, the     *)
(*  items of the folders being the messages in the mailbox, organized by subject"; "They     *)
(*  will automatically detect requests for mailboxes"; feature list: "present any Unix      *)
(*  MBOX ... Maildir directory ... as a virtual folder, the contents of which are the        *)
(*  messages in the mailbox"; doc/manpage.sgml CONFORMING TO: maildir(5), mbox(5);           *)
(*  virtual.Virtual: arguments after "?" (and "|", see XEXEC); mbox.py comments.             *)
(*   Recognition        a file whose first line is a From_ line as delivery agents write it  *)
(*                      ("From " sender, asctime date) is a folder (type 1) in its parent's  *)
(*                      menu and answers with a menu; an empty file or a text that merely    *)
(*                      starts with "From " is served as the file it is; a directory with    *)
(*                      cur, new, tmp is a folder, one without cur or new is a directory     *)
(*   ListingAnswered    a recognised folder answers a listing request in every front end     *)
(*   OneEntryPerMessage the menu has exactly one item per message of the store               *)
(*   StoreOrder         mbox: in file order                                                 *)
(*   SelectorsNumbered  the k-th item is type 0 with selector <folder>|/MBOX-MESSAGE/k       *)
(*                      (/MAILDIR-MESSAGE/k), k counted from 1                               *)
(*   NamedBySubject     the item is named by the message's Subject, white space runs (folded *)
(*                      headers, TAB, CR, LF) shown as one blank, "<no subject>" without one *)
(*   RetrieveNth        following the k-th item returns the k-th message: header and body    *)
(*                      of that message and of no other, complete (equal up to Canon: header *)
(*                      folding and white space, line terminators, mboxo quoting, trailing   *)
(*                      blank lines)                                                        *)
(*   ListingMatchesRetrieval  the name of an item is the Subject of what its selector        *)
(*                      retrieves; Gopher+ "!" on the item reports the same item              *)
(*   NoSuchMessage      0, negative, non-numeric, empty, out-of-range and huge numbers and a  *)
(*                      flag of the other flavour are answered by the front end's error      *)
(*                      reply, never by message text and never by silence                    *)
(*   FrontEndsAgree     Gopher, Gopher+ (+ and $), HTTP and Gemini list the same items        *)
(*   FlavoursAgree      the same messages delivered to an mbox and to a Maildir are listed   *)
(*                      with the same names and retrieved with the same contents (Canon)     *)
(*   NumberingOrderIndependent  while a store is unchanged, the k-th selector keeps meaning  *)
(*                      the same message: two listings agree and so do retrievals, whatever  *)
(*                      order the operating system enumerates cur/ and new/ in               *)
(* NAMED DEVIATIONS modelled as coded (switches, TRUE = repaired/documented behaviour):      *)
(*   SortedMaildir      FALSE: Maildir order = os.listdir order of cur, then of new          *)
(*   HeaderlessListed   FALSE: a message without any header field (len(message) == 0, e.g.   *)
(*                      the remainder after an unquoted "From " line, an empty Maildir       *)
(*                      file) makes FolderHandler.prepare call the abstract openmailbox:     *)
(*                      NotImplementedError, no reply at all                                 *)
(*   HugeNumberRefused  FALSE: more than 4300 digits -> int() raises ValueError, no reply    *)
(*   From8Tolerated     FALSE: an 8-bit byte in a later From_ line -> UnicodeDecodeError in  *)
(*                      mailbox.mbox.get_message, no reply for the listing and for every     *)
(*                      message from that one on                                             *)
(* Deviations that are NOT switches (design level, reported as DRIFT when the code changes): *)
(*   KeepsQuoting (">From " is served as stored; mbox(5) readers delete the quoting),        *)
(*   RawFromSplits (an unquoted "From " line in an mbox body starts a message),              *)
(*   CrlfBlankKept (a CRLF blank line before a From_ line is not dropped), Refolds (header   *)
(*   lines over 78 columns are folded again by the generator), HeaderSpacing                 *)
(*   ("Subject:x" is served "Subject: x"), EncodedWordsVerbatim, MaildirWithoutTmp (cur and   *)
(*   new suffice), MessageSelectorUnchecked (|/MBOX-MESSAGE/n works on any file: docstring   *)
(*   of MessageHandler.canhandlerequest), LeadingZeros ("01" = 1).                           *)
EXTENDS Naturals, Sequences, FiniteSets, Text

CONSTANTS SortedMaildir, HeaderlessListed, HugeNumberRefused, From8Tolerated

(* ---- text helpers ---------------------------------------------------------------------- *)
Ln(s, nl) == [s |-> s, nl |-> nl]
NlChars(nl) == IF nl = "lf" THEN "\n" ELSE IF nl = "crlf" THEN "\r\n" ELSE ""
BlankLf == Ln("", "lf")
D(i) == Ch("123456789", i)
ReSpace == {" ", "\t", "\n", "\r", "\f"}          \* what \s matches in the texts used here
UpperAZ == "ABCDEFGHIJKLMNOPQRSTUVWXYZ"
LowerAZ == "abcdefghijklmnopqrstuvwxyz"
LowerCh(ch) == LET p == Find(UpperAZ, ch) IN IF p = 0 THEN ch ELSE Ch(LowerAZ, p)
RECURSIVE Lower(_)
Lower(s) == IF Len(s) = 0 THEN "" ELSE LowerCh(Ch(s, 1)) \o Lower(Tail1(s))
RECURSIVE Repeat(_, _)          \* (recursion depth log n: TLC evaluates recursive operators on the Java stack)
Repeat(s, n) == IF n = 0 THEN "" ELSE IF n = 1 THEN s
                ELSE LET h == Repeat(s, n \div 2) IN h \o h \o (IF n % 2 = 1 THEN s ELSE "")
RECURSIVE Flatten(_)
Flatten(ss) == IF Len(ss) = 0 THEN <<>> ELSE ss[1] \o Flatten(Tail(ss))
RECURSIVE SortedSeq(_)
SortedSeq(S) == IF S = {} THEN <<>> ELSE LET m == CHOOSE x \in S : \A y \in S : x <= y IN <<m>> \o SortedSeq(S \ {m})
Reverse(q) == [j \in 1..Len(q) |-> q[Len(q) + 1 - j]]
IsWordCh(ch) == Len(ch) = 1 /\ (Find(UpperAZ, ch) > 0 \/ Find(LowerAZ, ch) > 0 \/ ch \in Digits \/ ch = "_")

\* re.sub(r"\s+", " ", s)
\* (what position i contributes: a white space character that follows one contributes nothing; divide and
\* conquer keeps the recursion depth at log n for the 300-character subject)
SanAt(s, i) == IF Ch(s, i) \in ReSpace THEN (IF i > 1 /\ Ch(s, i - 1) \in ReSpace THEN "" ELSE " ") ELSE Ch(s, i)
RECURSIVE SanRange(_, _, _)
SanRange(s, a, b) == IF a > b THEN "" ELSE IF a = b THEN SanAt(s, a)
                     ELSE LET m == (a + b) \div 2 IN SanRange(s, a, m) \o SanRange(s, m + 1, b)
Sanitise(s) == SanRange(s, 1, Len(s))
\* str(email.header.Header(value, charset=unknown-8bit)): every 8-bit byte becomes U+FFFD
EightToRepl(s) == ReplaceAll(s, "@", "#")

(* ---- the store: kinds of messages and what a delivery agent writes --------------------- *)
NoSubject == "<no subject>"
LongLen == 300
LongText == Repeat("L", LongLen)
IdLine(i) == "X-Id: m" \o D(i)
HdrLines(h, i) ==
    CASE h = "plain" -> <<IdLine(i), "Subject: Hello " \o D(i)>>
      [] h = "none"  -> <<IdLine(i)>>
      [] h = "empty" -> <<IdLine(i), "Subject:">>
      [] h = "blank" -> <<IdLine(i), "Subject:  ">>
      [] h = "fold"  -> <<"Subject: part " \o D(i), "\tcontinued  here", IdLine(i)>>
      [] h = "tabs"  -> <<IdLine(i), "Subject: a" \o D(i) \o "\tb \t c">>
      [] h = "enc"   -> <<IdLine(i), "Subject: =?utf-8?q?caf=C3=A9_" \o D(i) \o "?=">>
      [] h = "eight" -> <<IdLine(i), "Subject: caf@ " \o D(i)>>
      [] h = "long"  -> <<IdLine(i), "Subject: " \o LongText \o D(i)>>
      [] h = "lower" -> <<IdLine(i), "subject: low " \o D(i)>>
      [] h = "dup"   -> <<"Subject: first " \o D(i), IdLine(i), "Subject: second " \o D(i)>>
      [] h = "tight" -> <<IdLine(i), "Subject:tight" \o D(i)>>
      [] h = "nohdr" -> <<>>
HClasses == {"plain", "none", "empty", "blank", "fold", "tabs", "enc", "eight", "long", "lower", "dup", "tight", "nohdr"}

BodyLines(b, i) ==            \* the logical body (before mbox quoting)
    CASE b = "text"     -> <<"body " \o D(i) \o " line one", "line two">>
      [] b = "empty"    -> <<>>
      [] b = "fromline" -> <<"text " \o D(i), "From here " \o D(i), "end">>
      [] b = "rawfrom"  -> <<"text " \o D(i), "From here " \o D(i), "tail " \o D(i)>>
      [] b = "gtfrom"   -> <<">From already " \o D(i), "end">>
      [] b = "eight"    -> <<"caf@ body " \o D(i), "@@">>
      [] b = "nonl"     -> <<"body " \o D(i), "no newline">>
BClasses == {"text", "empty", "fromline", "rawfrom", "gtfrom", "eight", "nonl"}
FromLineText(f) ==
    CASE f = "std"    -> "From alice Thu Jan  1 00:00:00 1970"
      [] f = "eight"  -> "From b@b Thu Jan  1 00:00:00 1970"
      [] f = "tz"     -> "From alice Thu Jan  1 00:00:00 +0000 1970"
      [] f = "nosec"  -> "From alice Thu Jan 01 0:00 1970"
      [] f = "daemon" -> "From MAILER-DAEMON Fri Jul  8 12:08:34 2011"
      [] f = "extra"  -> "From alice Thu Jan  1 00:00:00 1970 remote"
      [] f = "glued"  -> "From alice Thu Jan  1 00:00:00 1970x"
      [] f = "extra2" -> "From alice Thu Jan  1 00:00:00 1970 remote from"
      [] f = "nodate" -> "From alice"
      [] f = "prose"  -> "From here to eternity"
      [] f = "lower"  -> "from alice Thu Jan  1 00:00:00 1970"
      [] f = "gt"     -> ">From alice Thu Jan  1 00:00:00 1970"
Kind(h, b, e, f) == [h |-> h, b |-> b, e |-> e, f |-> f]

MboxQuote(s) == IF StartsWith(s, "From ") THEN ">" \o s ELSE s       \* mboxo
\* one message as appended to an mbox file; `last` = it is the last one of the file
MbMsgLines(k, i, last) ==
    LET bs0  == BodyLines(k.b, i)
        bs   == IF k.b = "rawfrom" THEN bs0 ELSE [j \in 1..Len(bs0) |-> MboxQuote(bs0[j])]
        core == <<FromLineText(k.f)>> \o HdrLines(k.h, i) \o <<"">> \o bs
        open == last /\ k.b = "nonl"            \* the file ends in the middle of a line
        all  == IF open THEN core ELSE core \o <<"">>
    IN [j \in 1..Len(all) |-> Ln(all[j], IF open /\ j = Len(all) THEN "" ELSE k.e)]
MboxLines(store) == Flatten([i \in 1..Len(store) |-> MbMsgLines(store[i], i, i = Len(store))])
\* one message as a Maildir file
MdLines(k, i) ==
    LET all == HdrLines(k.h, i) \o <<"">> \o BodyLines(k.b, i)
    IN [j \in 1..Len(all) |-> Ln(all[j], IF j = Len(all) /\ k.b = "nonl" THEN "" ELSE k.e)]
MdUniq(i) == "100" \o D(i) \o ".M" \o D(i) \o ".host"
InCur(place, i) == place = "cur" \/ (place = "alt" /\ i % 2 = 1)
MdName(place, i) == IF InCur(place, i) THEN MdUniq(i) \o ":2,S" ELSE MdUniq(i)
MdSub(place, i) == IF InCur(place, i) THEN "cur" ELSE "new"

(* ---- readers --------------------------------------------------------------------------- *)
IsFromLine(l) == StartsWith(l.s, "From ")
ReadMbox(lines) ==
    LET starts == SortedSeq({j \in 1..Len(lines) : IsFromLine(lines[j])})
        Msg(a) == LET p == starts[a]
                      q == IF a = Len(starts) THEN Len(lines) + 1 ELSE starts[a + 1]
                      raw == SubSeq(lines, p + 1, q - 1)
                  IN IF Len(raw) > 0 /\ raw[Len(raw)] = BlankLf THEN SubSeq(raw, 1, Len(raw) - 1) ELSE raw
    IN [a \in 1..Len(starts) |-> Msg(a)]
FromLinesOf(lines) == LET starts == SortedSeq({j \in 1..Len(lines) : IsFromLine(lines[j])}) IN [a \in 1..Len(starts) |-> lines[starts[a]].s]

Arrange(ord, q) ==
    CASE ord = "asc"  -> q
      [] ord = "desc" -> Reverse(q)
      [] ord = "rot"  -> IF Len(q) = 0 THEN q ELSE Tail(q) \o <<q[1]>>
      [] OTHER        -> q
Idx(n) == [i \in 1..n |-> i]
CodedOrder(n, place, ord) ==
    Arrange(ord, SelectSeq(Idx(n), LAMBDA i : InCur(place, i))) \o Arrange(ord, SelectSeq(Idx(n), LAMBDA i : ~InCur(place, i)))
MaildirOrder(n, place, ord) == IF SortedMaildir THEN Idx(n) ELSE CodedOrder(n, place, ord)
IsPermutation(q, n) == Len(q) = n /\ {q[j] : j \in 1..Len(q)} = 1..n

(* ---- email.feedparser over this alphabet ----------------------------------------------- *)
IsHdrLine(s) == LET p == Find(s, ":") IN p > 1 /\ \A j \in 1..(p - 1) : Ch(s, j) \notin {" ", "\t"}
IsContLine(s) == Len(s) > 0 /\ Ch(s, 1) \in {" ", "\t"}
RECURSIVE ParseAcc(_, _, _)
ParseAcc(lines, j, hdrs) ==
    IF j > Len(lines) THEN [hdrs |-> hdrs, body |-> <<>>]
    ELSE LET l == lines[j] IN
         IF l.s = "" THEN [hdrs |-> hdrs, body |-> SubSeq(lines, j + 1, Len(lines))]
         ELSE IF IsContLine(l.s) /\ Len(hdrs) > 0
              THEN ParseAcc(lines, j + 1, [hdrs EXCEPT ![Len(hdrs)].ls = Append(@, l)])
         ELSE IF IsHdrLine(l.s)
              THEN ParseAcc(lines, j + 1, Append(hdrs, [name |-> SubSeq(l.s, 1, Find(l.s, ":") - 1), ls |-> <<l>>]))
         ELSE [hdrs |-> hdrs, body |-> SubSeq(lines, j, Len(lines))]
Parse(lines) == ParseAcc(lines, 1, <<>>)
FirstValue(h) == LStripSet(From(h.ls[1].s, Find(h.ls[1].s, ":") + 1), {" ", "\t"})
RECURSIVE JoinLines(_)
JoinLines(ls) == IF Len(ls) = 0 THEN "" ELSE ls[1].s \o NlChars(ls[1].nl) \o JoinLines(Tail(ls))
HeaderValue(h) == RStripSet(FirstValue(h) \o NlChars(h.ls[1].nl) \o JoinLines(Tail(h.ls)), {"\r", "\n"})
Headerless(p) == Len(p.hdrs) = 0

SubjectHdrs(p) == SelectSeq(p.hdrs, LAMBDA h : Lower(h.name) = "subject")
NameOf(p) ==
    IF Len(SubjectHdrs(p)) = 0 THEN NoSubject
    ELSE LET v == Sanitise(EightToRepl(HeaderValue(SubjectHdrs(p)[1]))) IN IF v = "" THEN NoSubject ELSE v

(* ---- message.as_bytes() ---------------------------------------------------------------- *)
\* Headers go through email.header.Header.encode (compat32 policy, 78 columns): short lines come back as they are
\* ("Name: value", continuation lines kept, every terminator LF); a line longer than 78 columns is folded again -
\* modelled for the only long shape of this alphabet, a value that is ONE token: it moves to a continuation line
\* (named deviation Refolds).  Values with 8-bit bytes are written back raw.
MaxLine == 78
OneToken(v) == Len(v) > 0 /\ \A j \in 1..Len(v) : Ch(v, j) \notin (ReSpace \cup {";", ","})
ServeHdr(h) ==
    LET n == Len(h.ls)
        v == FirstValue(h)
    IN IF n = 1 /\ Len(h.name) + 2 + Len(v) > MaxLine /\ OneToken(v) /\ ~Contains(v, "@")
       THEN <<Ln(h.name \o ": ", "lf"), Ln(" " \o v, "lf")>>
       ELSE <<Ln(h.name \o ": " \o v, "lf")>> \o [j \in 1..(n - 1) |-> Ln(h.ls[j + 1].s, "lf")]
Serve(p) ==
    Flatten([a \in 1..Len(p.hdrs) |-> ServeHdr(p.hdrs[a])]) \o <<BlankLf>>
    \o [j \in 1..Len(p.body) |-> Ln(p.body[j].s, IF p.body[j].nl = "" THEN "" ELSE "lf")]
Served(m) == Serve(Parse(m))
\* the equivalence "the same message": header fields equal up to folding and white space, body lines equal up to
\* their terminators and mboxo quoting, trailing blank lines ignored
RECURSIVE DropTrailingBlank(_)
DropTrailingBlank(ls) == IF Len(ls) > 0 /\ ls[Len(ls)].s = "" THEN DropTrailingBlank(SubSeq(ls, 1, Len(ls) - 1)) ELSE ls
CanonHdr(h) == Ln(h.name \o ": " \o Strip(Sanitise(HeaderValue(h))), "lf")
Canon(m) ==
    LET p == Parse(m) IN
    DropTrailingBlank([a \in 1..Len(p.hdrs) |-> CanonHdr(p.hdrs[a])] \o <<BlankLf>>
                      \o [j \in 1..Len(p.body) |-> Ln(MboxQuote(p.body[j].s), "lf")])
\* names compared up to surrounding blanks (a folded header unfolds with a leading blank)
SameName(a, b) == Strip(a) = Strip(b)

(* ---- folders, selectors, numbers -------------------------------------------------------- *)
Dir == "/c"
FolderSel(fl) == IF fl = "mbox" THEN Dir \o "/m.mbox" ELSE Dir \o "/md"
Flag(fl) == IF fl = "mbox" THEN "/MBOX-MESSAGE/" ELSE "/MAILDIR-MESSAGE/"
Other(fl) == IF fl = "mbox" THEN "maildir" ELSE "mbox"
NatStr(k) == IF k < 10 THEN Ch("0123456789", k + 1) ELSE Ch("0123456789", (k \div 10) + 1) \o Ch("0123456789", (k % 10) + 1)
MsgSel(fl, sep, numtext) == FolderSel(fl) \o sep \o Flag(fl) \o numtext

\* the messages of a folder in listing order, as line sequences
MboxMsgs(store) == ReadMbox(MboxLines(store))
MaildirMsgs(store, place, ord) ==
    LET o == MaildirOrder(Len(store), place, ord) IN [a \in 1..Len(o) |-> MdLines(store[o[a]], o[a])]
Row(fl, k, m) == [t |-> "0", name |-> NameOf(Parse(m)), sel |-> MsgSel(fl, "|", NatStr(k))]
Rows(fl, msgs) == [k \in 1..Len(msgs) |-> Row(fl, k, msgs[k])]

\* does the folder answer at all (the two crash deviations)
AnyHeaderless(msgs) == \E k \in 1..Len(msgs) : Headerless(Parse(msgs[k]))
HasEight(s) == Contains(s, "@")
\* position of the first From_ line (k-th message) with an 8-bit byte, 0 if none
FirstFrom8(store) ==
    LET fs == FromLinesOf(MboxLines(store))
        bad == {a \in 1..Len(fs) : HasEight(fs[a])}
    IN IF bad = {} THEN 0 ELSE CHOOSE a \in bad : \A b \in bad : a <= b
ListingAnswers(fl, store, msgs) ==
    /\ (HeaderlessListed \/ ~AnyHeaderless(msgs))
    /\ (From8Tolerated \/ fl # "mbox" \/ FirstFrom8(store) = 0)
MessageAnswers(fl, store, k) == From8Tolerated \/ fl # "mbox" \/ FirstFrom8(store) = 0 \/ k < FirstFrom8(store)

\* number texts, by name (the 5000-digit one is spelled by the harness)
NumNames == {"zero", "neg", "next", "far", "word", "empty", "mixed", "space", "dec", "plus", "lead0", "d20", "d5000", "first", "last"}
Huge == "<5000 nines>"
NumText(nm, n) ==
    CASE nm = "zero" -> "0" [] nm = "neg" -> "-1" [] nm = "next" -> NatStr(n + 1) [] nm = "far" -> "99"
      [] nm = "word" -> "x" [] nm = "empty" -> "" [] nm = "mixed" -> "1x" [] nm = "space" -> " 1"
      [] nm = "dec" -> "1.0" [] nm = "plus" -> "+1" [] nm = "lead0" -> "01" [] nm = "d20" -> Repeat("9", 20)
      [] nm = "d5000" -> Huge [] nm = "first" -> "1" [] nm = "last" -> NatStr(n)
\* canhandlerequest + getmessage: 0 = declined / no such message, k = the k-th message, -1 = no reply
RECURSIVE StripZeros(_)
StripZeros(s) == IF Len(s) > 1 /\ Ch(s, 1) = "0" THEN StripZeros(Tail1(s)) ELSE s
NumOutcome(text, n) ==
    IF text = Huge THEN (IF HugeNumberRefused THEN 0 ELSE 0 - 1)
    ELSE IF ~IsDigits(text) THEN 0
    ELSE LET z == StripZeros(text) IN
         IF Len(z) > 4 THEN 0
         ELSE LET v == ParseNat(z) IN IF v < 1 \/ v > n THEN 0 ELSE v

(* ---- recognition ------------------------------------------------------------------------ *)
RECURSIVE TokAcc(_, _, _, _)
TokAcc(s, i, cur, acc) ==
    IF i > Len(s) THEN (IF cur = "" THEN acc ELSE Append(acc, cur))
    ELSE IF Ch(s, i) \in ReSpace THEN TokAcc(s, i + 1, "", IF cur = "" THEN acc ELSE Append(acc, cur))
    ELSE TokAcc(s, i + 1, cur \o Ch(s, i), acc)
Tokens(s) == TokAcc(s, 1, "", <<>>)
AllIn(t, P(_)) == \A j \in 1..Len(t) : P(Ch(t, j))
IsDig(ch) == ch \in Digits
W3(t) == Len(t) = 3 /\ AllIn(t, IsWordCh)
D12(t) == Len(t) \in 1..2 /\ AllIn(t, IsDig)
TimeTok(t) ==
    LET parts == Split(t, ":") IN
    /\ Len(parts) \in 2..3
    /\ D12(parts[1])
    /\ \A j \in 2..Len(parts) : Len(parts[j]) = 2 /\ AllIn(parts[j], IsDig)
Year4(t) == Len(t) = 4 /\ AllIn(t, IsDig)
YearTok(t) == Len(t) >= 4 /\ AllIn(SubSeq(t, 1, 4), IsDig)
\* rb"From \s*[^\s]+\s+\w\w\w\s+\w\w\w\s+\d?\d\s+\d?\d:\d\d(:\d\d)?(\s+[^\s]+)?\s+\d\d\d\d\s*[^\s]*\s*$"
FromLineOk(s) ==
    /\ StartsWith(s, "From ")
    /\ LET ts == Tokens(From(s, 6))
           m == Len(ts)
       IN /\ m \in 6..8
          /\ W3(ts[2]) /\ W3(ts[3]) /\ D12(ts[4]) /\ TimeTok(ts[5])
          /\ \/ m = 6 /\ YearTok(ts[6])
             \/ m = 7 /\ (Year4(ts[6]) \/ YearTok(ts[7]))
             \/ m = 8 /\ Year4(ts[7])
IsMboxFile(lines) == Len(lines) > 0 /\ FromLineOk(lines[1].s)
IsMaildirDir(subs) == {"cur", "new"} \subseteq subs          \* subs = the sub-DIRECTORIES present
=============================================================================
