------------------------------- MODULE Render -------------------------------
(* Where pygopherd echoes data into generated HTML / WML / Gopher+ output     [C13]         *)
(*                                                                                          *)
(* Code abstracted: protocols/http.py renderdirstart / getrenderstr / renderdirend /        *)
(* filenotfound, protocols/wap.py renderdirstart / getrenderstr / handlerwrite /            *)
(* filenotfound, handlers/url.py HTMLURLHandler.isrequestsecure / write, handlers/html.py   *)
(* getentry, handlers/mbox.py MessageHandler.getentry, protocols/gopherp.py getblock /      *)
(* getinfoblock.                                                                            *)
(*                                                                                          *)
(* An ECHO SITE is a place of a generated page where a string taken from the request or     *)
(* from served content is written.  Each site has the CONTEXT the string lands in (element  *)
(* text, double-quoted attribute value, Gopher+ line) and the TRANSFORMATION the code       *)
(* applies there, transcribed as coded:                                                     *)
(*    esc     html.escape(s)            (& < > " ' -> entities)                            *)
(*    escesc  html.escape(html.escape(s))   (WML card title: escaped twice)                 *)
(*    quote   urllib.parse.quote(s)     (everything but letters, digits and _.-~/ -> %XX)   *)
(*    raw     nothing                                                                       *)
(*    prefix  " " + s                   (Gopher+ content line)                              *)
(* A COMBO is a page requested through a protocol with the data planted in one SOURCE       *)
(* (request selector, query, file name, directory name, HTML title, mail subject, abstract, *)
(* gophermap / link-file name, selector, URL and host, text file line).  It lists the sites *)
(* the data reaches, in page order, and how the source normalises the data on the way       *)
(* (whitespace collapse for titles and subjects, line splitting for line-based files).      *)
(*                                                                                          *)
(* Deviations of the code from "everything is escaped", modelled and named:                 *)
(*   HrefRaw       http.py/wap.py getrenderstr put the URL of `URL:` selectors and of        *)
(*                 remote-host entries (both content-derived: gophermap, link files) into   *)
(*                 HREF="..." / ACTION="..." / href="..." without any escaping              *)
(*   InfoLineRaw   the +INFO line (= plain Gopher menu line) carries names and selectors    *)
(*                 raw: a file or directory name containing LF continues on a new line      *)
(*   (TitleTwice, the double escaping of the WML card title, was repaired in /repo 26c9df2)  *)
(*   GetUrlLiteralRaw  geturl() returns the rest of a `URL:...://` selector as it is and      *)
(*                 renderdirstart / renderdirend paste it into HREF unescaped; unreachable  *)
(*                 for real directories (a name cannot contain "/"): LiteralUnreachable     *)
EXTENDS Naturals, Sequences, FiniteSets, TLC

TX == INSTANCE Text      \* shared string helpers (named instance: immune to later additions)

--------------------------------------------------------------------------------
(* Characters and contexts *)

Meta == {"<", ">", "&", "\"", "'", "\r", "\n"}
DataAlphabet == Meta \cup {"a"}
\* ENCODED forms of the metacharacters, as data: a decoder on the way from the source to an echo site (percent-decoding of
\* request paths, URL: selectors and search strings, entity decoding) must not turn them into live markup.  The code
\* decodes exactly once where the protocol says so (gamma encodes once more for transport), so every token below must
\* arrive - and be echoed - as the literal characters it is made of.
EncTokens == {"%3C", "%22", "%26", "%0A",           \* percent-encoded  < " & LF
              "%253C", "%2522",                     \* percent-encoded twice
              "&lt;", "&quot;", "&#60;"}            \* entity and numeric character reference
EncAlphabet == EncTokens \cup {"a"}

\* characters that must not appear raw in a context (a raw & is one not starting an entity)
RawOf(ctx) == CASE ctx = "text"   -> {"<", "&"}
                [] ctx = "dqattr" -> {"\"", "<", "&"}
                [] ctx = "header" -> {"\r", "\n"}
                [] ctx = "gline"  -> {"\n"}
                [] OTHER          -> DataAlphabet \cup {" "}        \* unknown context: nothing is safe

Entities == {"&amp;", "&lt;", "&gt;", "&quot;", "&#x27;", "&#39;", "&apos;"}
EntityAt(s) == {e \in Entities : TX!StartsWith(s, e)}

RECURSIVE EscapedOK(_, _)
EscapedOK(ctx, s) ==                       \* s is escaped text for ctx: no raw character of the context
    IF s = "" THEN TRUE
    ELSE LET c == TX!Ch(s, 1) IN
         IF c = "&" /\ ctx \in {"text", "dqattr"}
         THEN IF EntityAt(s) = {} THEN FALSE
              ELSE EscapedOK(ctx, SubSeq(s, Len(CHOOSE e \in EntityAt(s) : TRUE) + 1, Len(s)))
         ELSE IF c \in RawOf(ctx) THEN FALSE ELSE EscapedOK(ctx, TX!Tail1(s))

--------------------------------------------------------------------------------
(* Transformations as coded *)

EscChar(c) == CASE c = "&" -> "&amp;" [] c = "<" -> "&lt;" [] c = ">" -> "&gt;"
                [] c = "\"" -> "&quot;" [] c = "'" -> "&#x27;" [] OTHER -> c
QuoteChar(c) == CASE c = "&" -> "%26" [] c = "<" -> "%3C" [] c = ">" -> "%3E" [] c = "\"" -> "%22"
                  [] c = "'" -> "%27" [] c = "\r" -> "%0D" [] c = "\n" -> "%0A" [] c = " " -> "%20"
                  [] c = "%" -> "%25" [] c = "#" -> "%23" [] c = ";" -> "%3B"
                  [] OTHER -> c                      \* letters, digits (and _ . - ~ /) are safe
RECURSIVE HtmlEscape(_)
HtmlEscape(s) == IF s = "" THEN "" ELSE EscChar(TX!Ch(s, 1)) \o HtmlEscape(TX!Tail1(s))   \* html.escape(s, quote=True)
RECURSIVE UrlQuote(_)
UrlQuote(s) == IF s = "" THEN "" ELSE QuoteChar(TX!Ch(s, 1)) \o UrlQuote(TX!Tail1(s))     \* urllib.parse.quote(s), model alphabet

RECURSIVE WsCollapse(_)
WsCollapse(s) ==                                    \* re.sub(r"\s+", " ", s) on the model alphabet
    IF s = "" THEN ""
    ELSE IF TX!Ch(s, 1) \in {"\r", "\n", " "}
         THEN " " \o WsCollapse(TX!LStripSet(s, {"\r", "\n", " "}))
         ELSE TX!Ch(s, 1) \o WsCollapse(TX!Tail1(s))

Xf(xf, s) == CASE xf = "esc" -> HtmlEscape(s)
               [] xf = "escesc" -> HtmlEscape(HtmlEscape(s))
               [] xf = "quote" -> UrlQuote(s)
               [] xf = "prefix" -> s                 \* the space goes in front of the line, not inside the echo
               [] OTHER -> s                         \* "raw"

\* handlers/url.py isrequestsecure on the model alphabet (NUL and TAB are not in it)
UrlSecure(d) == TX!Chars(d) \cap {"\"", "\r", "\n"} = {}

--------------------------------------------------------------------------------
(* Echo sites: context and transformation, as coded *)

\* HrefRaw as coded today.  When the fix proposed in findings/C13.proposed.json (html.escape(url) at the top of both
\* getrenderstr) is committed, set HrefXf to "esc": the six sites become escaping sites and HrefRawSites empties.
HrefXf == "esc"

S(ctx, xf) == [ctx |-> ctx, xf |-> xf]
SiteTab == [
  http_title      |-> S("text", "esc"),        \* renderdirstart <TITLE>Gopher: name
  http_topper     |-> S("dqattr", "quote"),    \* pagetopper GOPHERURL substitution (geturl)
  http_h1         |-> S("text", "esc"),        \* renderdirstart <H1>
  http_href_local |-> S("dqattr", "quote"),    \* getrenderstr <A HREF> for local selectors
  http_href_url   |-> S("dqattr", HrefXf),      \* HrefRaw: URL: selectors
  http_href_host  |-> S("dqattr", HrefXf),      \* HrefRaw: gopher://HOST:port/... of remote entries
  http_name       |-> S("text", "esc"),        \* getrenderstr <TT>name</TT>
  http_act_local  |-> S("dqattr", "quote"),    \* type 7: <FORM ACTION>
  http_act_host   |-> S("dqattr", HrefXf),      \* HrefRaw
  http_gopherlink |-> S("dqattr", "quote"),    \* renderdirend [view with gopher]
  http_topper_lit     |-> S("dqattr", "raw"),  \* GetUrlLiteral branch of geturl(): the rest of the selector, pasted raw
  http_gopherlink_lit |-> S("dqattr", "raw"),  \*   (renderdirstart / renderdirend do not escape what geturl returns)
  http_404        |-> S("text", "esc"),        \* filenotfound
  url_meta        |-> S("dqattr", "esc"),      \* handlers/url.py: META refresh
  url_href        |-> S("dqattr", "esc"),      \*                  first link
  url_href2       |-> S("dqattr", "esc"),      \*                  second link
  url_text        |-> S("text", "esc"),        \*                  link text
  wap_title       |-> S("dqattr", "esc"),      \* renderdirstart card title (escaped once since fix 26c9df2;
  wap_b           |-> S("text", "esc"),        \*   before: "escesc", the harmless over-escaping TitleTwice)
  wap_href_local  |-> S("dqattr", "quote"),
  wap_href_url    |-> S("dqattr", HrefXf),      \* HrefRaw
  wap_href_host   |-> S("dqattr", HrefXf),      \* HrefRaw
  wap_href_local_nokey |-> S("dqattr", "quote"),  \* the same three links once the 12 access keys are spent: getrenderstr
  wap_href_url_nokey   |-> S("dqattr", HrefXf),   \*   takes its other branch ('<a href="%s">' without accesskey) for
  wap_href_host_nokey  |-> S("dqattr", HrefXf),   \*   the 13th and every later link of a menu
  wap_name        |-> S("text", "esc"),
  wap_go_local    |-> S("dqattr", "quote"),
  wap_go_host     |-> S("dqattr", HrefXf),      \* HrefRaw
  wap_line        |-> S("text", "esc"),        \* handlerwrite: text-to-WML lines
  wap_err         |-> S("text", "esc"),        \* filenotfound
  gp_info         |-> S("gline", "raw"),       \* InfoLineRaw
  gp_content      |-> S("gline", "prefix") ]   \* getblock: " " + line

\* sites where the code applies no escaping although the context needs it (named deviations)
HrefRawSites == IF HrefXf = "raw"
                THEN {"http_href_url", "http_href_host", "http_act_host", "wap_href_url", "wap_href_host", "wap_go_host"}
                ELSE {}
InfoLineRawSites == {"gp_info"}

--------------------------------------------------------------------------------
(* Combos: protocol x source -> sites reached, in page order *)

\* Reserved selector shapes: the code gives `URL:` at the start of a selector a meaning, and the two places that
\* look at it do not use the same test, so WHICH code path builds a link depends on the shape of the name.
StripSlash(sel) == IF TX!StartsWith(sel, "/") THEN TX!Tail1(sel) ELSE sel
\* http.py / wap.py renderobjinfo:  re.match("(/|)URL:", selector)  -> the link is the rest of the selector
UrlBranch(sel) == TX!StartsWith(StripSlash(sel), "URL:")
\* gopherentry.geturl:  re.search("^(/|)URL:.+://", selector)  -> the rest of the selector is returned as it is
GetUrlLiteral(sel) ==
    /\ UrlBranch(sel)
    /\ LET rest == SubSeq(StripSlash(sel), 5, Len(StripSlash(sel)))
       IN \E i \in 2..(Len(rest) - 2) : SubSeq(rest, i, i + 2) = "://"

\* prefixes put in front of planted NAMES (directory and file names at the document root) and what they select
NamePrefixes == {"", "URL:", "URL:x:"}
HrefSiteFor(proto, sel) == IF UrlBranch(sel) THEN proto \o "_href_url" ELSE proto \o "_href_local"
TopperSiteFor(sel) == IF GetUrlLiteral(sel) THEN "http_topper_lit" ELSE "http_topper"
GopherlinkSiteFor(sel) == IF GetUrlLiteral(sel) THEN "http_gopherlink_lit" ELSE "http_gopherlink"

C(id, proto, src, seps, norm, sites) ==
    [id |-> id, proto |-> proto, src |-> src, seps |-> seps, norm |-> norm, sites |-> sites,
     urlfilter |-> FALSE, refused |-> <<>>, rtwin |-> "", pfx |-> "", short |-> FALSE, pad |-> 0]
CU(id, proto, sites, refused, rtwin) ==      \* rtwin: the combo whose page a refused URL selector gets
    [id |-> id, proto |-> proto, src |-> "urlsel", seps |-> "none", norm |-> "id", sites |-> sites,
     urlfilter |-> TRUE, refused |-> refused, rtwin |-> rtwin, pfx |-> "", short |-> FALSE, pad |-> 0]
\* a name with a reserved prefix, planted at the document root (selector = "/" + pfx + name): the sites are derived
\* from the branch tests above, not listed by hand
CP(proto, src, pfx) ==
    LET sel == "/" \o pfx \o "n"
        sites == CASE proto = "http" /\ src = "dirname" ->
                        <<"http_title", TopperSiteFor(sel), "http_h1", HrefSiteFor("http", sel), GopherlinkSiteFor(sel)>>
                   [] proto = "http" /\ src = "filename" -> <<HrefSiteFor("http", sel), "http_name">>
                   [] proto = "wap" /\ src = "dirname" -> <<"wap_title", "wap_b", HrefSiteFor("wap", sel)>>
                   [] proto = "wap" /\ src = "filename" -> <<HrefSiteFor("wap", sel), "wap_name">>
                   [] OTHER -> <<"gp_info", "gp_info">>
    IN [id |-> proto \o "/" \o src \o "@" \o pfx, proto |-> proto, src |-> src, seps |-> "none", norm |-> "id",
        sites |-> sites, urlfilter |-> FALSE, refused |-> <<>>, rtwin |-> "", pfx |-> pfx, short |-> TRUE, pad |-> 0]
PrefixCombos == {CP(pr, sr, px) : pr \in {"http", "wap", "gplus"}, sr \in {"dirname", "filename"},
                                  px \in NamePrefixes \ {""}}

HttpCombos == {
  C("http/sel404", "http", "sel404", "none", "id", <<"http_404">>),
  C("http/query", "http", "query", "none", "id", <<>>),
  CU("http/urlsel", "http", <<"url_meta", "url_href", "url_href2", "url_text">>, <<"http_404">>, "http/sel404"),
  C("http/dirname", "http", "dirname", "none", "id",
    <<"http_title", "http_topper", "http_h1", "http_href_local", "http_gopherlink">>),
  C("http/filename", "http", "filename", "none", "id", <<"http_href_local", "http_name">>),
  C("http/htmltitle", "http", "htmltitle", "none", "ws", <<"http_name">>),
  C("http/subject", "http", "subject", "none", "ws", <<"http_name">>),
  C("http/subject2047", "http", "subject2047", "none", "opaque", <<>>),
  C("http/abstract", "http", "abstract", "crlf", "id", <<"http_name">>),
  C("http/gmapname", "http", "gmapname", "lf", "id", <<"http_name">>),
  C("http/gmapsel", "http", "gmapsel", "lf", "id", <<"http_href_local">>),
  C("http/gmapurl", "http", "gmapurl", "lf", "id", <<"http_href_url">>),
  C("http/gmaphost", "http", "gmaphost", "lf", "id", <<"http_href_host">>),
  C("http/gmap7", "http", "gmap7", "lf", "id", <<"http_act_local">>),
  C("http/gmap7host", "http", "gmap7host", "lf", "id", <<"http_act_host">>),
  C("http/linkname", "http", "linkname", "crlf", "id", <<"http_name">>),
  C("http/linkurl", "http", "linkurl", "crlf", "id", <<"http_href_url">>),
  C("http/linkhost", "http", "linkhost", "crlf", "id", <<"http_href_host">>),
  \* a link WITHOUT a display string: the empty name of a map line shows as nothing, the absent Name= of a link block
  \* makes the renderer label the link with its selector (escaped as text) - the data is a selector in both
  C("http/gmapnoname", "http", "gmapnoname", "lf", "id", <<"http_href_local">>),
  C("http/linknoname", "http", "linknoname", "crlf", "id", <<"http_href_local", "http_name">>) }

WapCombos == {
  C("wap/sel404", "wap", "sel404", "none", "id", <<"wap_err">>),
  C("wap/query", "wap", "query", "none", "id", <<>>),
  CU("wap/urlsel", "wap", <<"url_meta", "url_href", "url_href2", "url_text">>, <<"wap_err">>, "wap/sel404"),
  C("wap/dirname", "wap", "dirname", "none", "id", <<"wap_title", "wap_b", "wap_href_local">>),
  C("wap/filename", "wap", "filename", "none", "id", <<"wap_href_local", "wap_name">>),
  C("wap/htmltitle", "wap", "htmltitle", "none", "ws", <<"wap_name">>),
  C("wap/subject", "wap", "subject", "none", "ws", <<"wap_name">>),
  C("wap/subject2047", "wap", "subject2047", "none", "opaque", <<>>),
  C("wap/abstract", "wap", "abstract", "crlf", "id", <<"wap_name">>),
  C("wap/gmapname", "wap", "gmapname", "lf", "id", <<"wap_name">>),
  C("wap/gmapsel", "wap", "gmapsel", "lf", "id", <<"wap_href_local">>),
  C("wap/gmapurl", "wap", "gmapurl", "lf", "id", <<"wap_href_url">>),
  C("wap/gmaphost", "wap", "gmaphost", "lf", "id", <<"wap_href_host">>),
  C("wap/gmap7", "wap", "gmap7", "lf", "id", <<"wap_go_local">>),
  C("wap/gmap7host", "wap", "gmap7host", "lf", "id", <<"wap_go_host">>),
  C("wap/linkname", "wap", "linkname", "crlf", "id", <<"wap_name">>),
  C("wap/linkurl", "wap", "linkurl", "crlf", "id", <<"wap_href_url">>),
  C("wap/linkhost", "wap", "linkhost", "crlf", "id", <<"wap_href_host">>),
  C("wap/gmapnoname", "wap", "gmapnoname", "lf", "id", <<"wap_href_local">>),
  C("wap/linknoname", "wap", "linknoname", "crlf", "id", <<"wap_href_local", "wap_name">>),
  C("wap/textline", "wap", "textline", "lf", "id", <<"wap_line">>) }

GplusCombos == {
  C("gplus/dirname", "gplus", "dirname", "none", "id", <<"gp_info", "gp_info">>),      \* name and selector
  C("gplus/filename", "gplus", "filename", "none", "id", <<"gp_info", "gp_info">>),
  C("gplus/htmltitle", "gplus", "htmltitle", "none", "ws", <<"gp_info">>),
  C("gplus/subject", "gplus", "subject", "none", "ws", <<"gp_info">>),
  C("gplus/subject2047", "gplus", "subject2047", "none", "opaque", <<>>),
  C("gplus/abstract", "gplus", "abstract", "crlf", "id", <<"gp_content">>),
  C("gplus/keywords", "gplus", "keywords", "crlf", "id", <<"gp_content">>),
  C("gplus/ask", "gplus", "ask", "crlf", "id", <<"gp_content">>),
  C("gplus/3d", "gplus", "3d", "crlf", "id", <<"gp_content">>),
  C("gplus/gmapname", "gplus", "gmapname", "lf", "id", <<"gp_info">>),
  C("gplus/gmaphost", "gplus", "gmaphost", "lf", "id", <<"gp_info">>),
  C("gplus/linkname", "gplus", "linkname", "crlf", "id", <<"gp_info">>) }

\* POSITION of the data in a long menu: the same line-based sources with `pad` ordinary links in front, so that the
\* data is link number pad+1.  WAP hands out 12 access keys; later links are rendered by the other branch.
AccessKeys == 12
KeyedWapHrefs == {"wap_href_local", "wap_href_url", "wap_href_host"}
MenuSources == {"gmapnoname", "linknoname", "gmapname", "gmapsel", "gmapurl", "gmaphost", "gmap7", "gmap7host", "linkname", "linkurl", "linkhost"}
RECURSIVE NatStr(_)
NatStr(n) == IF n < 10 THEN SubSeq("0123456789", n + 1, n + 1) ELSE NatStr(n \div 10) \o NatStr(n % 10)
Padded(c, k) ==
    [c EXCEPT !.id = c.id \o "#" \o NatStr(k + 1), !.pad = k, !.short = TRUE,
              !.sites = [i \in 1..Len(c.sites) |->
                            IF c.proto = "wap" /\ k >= AccessKeys /\ c.sites[i] \in KeyedWapHrefs
                            THEN c.sites[i] \o "_nokey" ELSE c.sites[i]]]
Pads == {12, 19}                                   \* link number 13 (first without a key) and 20
PadCombos == {Padded(c, k) : c \in {x \in HttpCombos \cup WapCombos : x.src \in MenuSources}, k \in Pads}

\* STRUCTURE of the HTML title the name is taken from (handlers/html.py feeds the file line by line until the first
\* </title>, then closes the parser, which flushes text it still buffers; the collected text is whitespace-collapsed):
\*   htmltitleref    one title; CR / LF written as character references (&#13; &#10; &#x0a;)
\*   htmltitle2      a complete title followed ON THE SAME LINE by a second, unterminated one holding the data (refs):
\*                   its text reaches the parser's handler only at close() - and is collapsed like the rest
\*   htmltitleafter  the data follows </title> outside any title: not part of the name
\*   htmltitleopen   the only title is never closed: no title is taken
TitleCombo(proto, src, site) ==
    [C(proto \o "/" \o src, proto, src, "none", IF site = "" THEN "opaque" ELSE "ws", IF site = "" THEN <<>> ELSE <<site>>)
        EXCEPT !.short = TRUE]
NameSiteOf(proto) == CASE proto = "http" -> "http_name" [] proto = "wap" -> "wap_name" [] OTHER -> "gp_info"
TitleCombos == {TitleCombo(pr, sr, NameSiteOf(pr)) : pr \in {"http", "wap", "gplus"}, sr \in {"htmltitleref", "htmltitle2"}}
          \cup {TitleCombo(pr, sr, "") : pr \in {"http", "wap", "gplus"}, sr \in {"htmltitleafter", "htmltitleopen"}}

AllCombos == HttpCombos \cup WapCombos \cup GplusCombos \cup PrefixCombos \cup PadCombos \cup TitleCombos
ComboOf(id) == CHOOSE c \in AllCombos : c.id = id

--------------------------------------------------------------------------------
(* From the data to the echoes the code produces *)

SepSet(seps) == CASE seps = "lf" -> {"\n"} [] seps = "crlf" -> {"\r", "\n"} [] OTHER -> {}

RECURSIVE SplitOn(_, _)
SplitOn(s, seps) ==                                  \* segments between separator characters (always >= 1)
    LET ps == {i \in 1..Len(s) : TX!Ch(s, i) \in seps} IN
    IF ps = {} THEN <<s>>
    ELSE LET i == CHOOSE k \in ps : \A j \in ps : k <= j
         IN <<SubSeq(s, 1, i - 1)>> \o SplitOn(SubSeq(s, i + 1, Len(s)), seps)

Norm(n, s) == IF n = "ws" THEN WsCollapse(s) ELSE s
Segs(c, d) == IF c.seps = "none" THEN <<Norm(c.norm, d)>> ELSE SplitOn(d, SepSet(c.seps))
ActiveSites(c, d) == IF c.urlfilter /\ ~UrlSecure(d) THEN c.refused ELSE c.sites

\* echoes in page order: for every segment, every site the segment reaches
RECURSIVE EchoesOf(_, _)
EchoesOf(sites, segs) ==
    IF Len(segs) = 0 THEN <<>>
    ELSE [k \in 1..Len(sites) |-> [site |-> sites[k], ctx |-> SiteTab[sites[k]].ctx,
                                   s |-> Xf(SiteTab[sites[k]].xf, segs[1])]]
         \o EchoesOf(sites, Tail(segs))
ModelEchoes(c, d) == IF c.norm = "opaque" THEN <<>> ELSE EchoesOf(ActiveSites(c, d), Segs(c, d))

\* first site reached that applies no escaping ("" if none): identifies the call site of a recorded deviation
RawSiteOf(c, d) ==
    LET ss == ActiveSites(c, d)
        ks == {k \in 1..Len(ss) : SiteTab[ss[k]].xf = "raw"}
    IN IF ks = {} \/ c.norm = "opaque" THEN "" ELSE ss[CHOOSE k \in ks : \A j \in ks : k <= j]

\* the inert twin: same shape (separators of the source kept), every other metacharacter (and %) -> "a"
TwinMeta == Meta \cup {"%"}              \* "%" too: the twin must stay inert under any decoder
TwinChar(c, seps) == IF c \in seps THEN c ELSE IF c \in TwinMeta THEN "a" ELSE c
RECURSIVE TwinOf(_, _)
TwinOf(d, seps) == IF d = "" THEN "" ELSE TwinChar(TX!Ch(d, 1), seps) \o TwinOf(TX!Tail1(d), seps)

--------------------------------------------------------------------------------
(* Property clauses *)

\* Inert: every echo is escaped for its context (the named raw sites are the recorded deviations)
InertEchoes(es, except) == \A i \in 1..Len(es) : es[i].site \in except \/ EscapedOK(es[i].ctx, es[i].s)

\* judged on OBSERVED echoes (raw strings) against the contexts found in the inert twin
ObservedEscaped(ctxs, echoes) == Len(ctxs) = Len(echoes) /\ \A i \in 1..Len(echoes) : EscapedOK(ctxs[i], echoes[i])
=============================================================================
