------------------------------- MODULE MC_C09 -------------------------------
(* Bounded model for C09.  TLC enumerates gophermaps: every sequence (up to a length) of the *)
(* line shapes below x context (root / depth 1 / depth 2 directory, *.gophermap file) x line *)
(* terminator, computes both readings of Gophermap.tla and checks AsDocumented.  Every       *)
(* gophermap TLC evaluates is also a replay case for the real server in every protocol.      *)
EXTENDS Gophermap, TLC

CONSTANT Tier                      \* "quick" | "thorough"
VARIABLES gm, phase, res
mcvars == <<gm, phase, res>>

Srv == [host |-> "this.example", port |-> "7071"]

RECURSIVE Rep(_, _)
Rep(c, n) == IF n = 0 THEN "" ELSE IF n % 2 = 0 THEN (LET h == Rep(c, n \div 2) IN h \o h) ELSE c \o Rep(c, n - 1)

InfoShapes == {"", "hello world", "  padded text  ", "1NoTabHere /abs", "iLooks like a type"}
\* local links whose target cannot be stat()ed for a reason OTHER than "not there": the path runs through a
\* regular file (plain, and the virtual selectors of the mbox / PYG / ZIP handlers), a component is longer
\* than NAME_MAX, the selector carries a NUL or a non-UTF-8 byte.  Each is still one entry of the listing.
UnstatShapes == {
    "0Thru\tx/extra", "0MboxMsg\tm.mbox/MBOX-MESSAGE/2", "0PygExtra\ts.pyg/extra", "0ZipMember\t/abs/a.zip/member",
    "0LongComp\t" \o Rep("n", 300), "1LongAbs\t/abs/" \o Rep("n", 256) \o "/y",
    "0Nul\tx{NUL}y", "0High\t/abs/{HI}z"}
\* spellings of a WRITTEN port: it is listed as written (numerically), never replaced by this server's
PortShapes == {"3Gone\t/gone\terror.host\t0", "1Zero2\t/r\tr.example\t00", "1Lead\t/r\tr.example\t0070",
               "1PlusSign\t/r\tr.example\t+70", "1Max\t/r\tr.example\t65535", "1Big\t/r\tr.example\t70000",
               "iNote\tfake\t(NULL)\t00"}
LinkShapes == {
    "1src\t", "0read me\t",                                                        \* 1 field + TAB
    "1Abs\t/abs", "1Abs sub\t/abs/sub", "0Rel\tx", "1Rel dir\tsub", "0Deep\tsub/y", \* 2 fields
    "hWeb\tURL:http://h.example/p", "hMail\tURL:mailto:a@h.example", "hSlashURL\t/URL:http://h.example/",
    "1 Padded \t /abs ", "7Search\t/q", "1\t/noname", "iInfo as link\tfake\t(NULL)\t0",
    "1Remote\t/r\tr.example", "1RemoteRel\trel\tr.example", "1EmptyHost\t/abs\t", "1DescAsSel\t\tr.example",   \* 3 fields
    "1Full\t/r\tr.example\t7070", "1NoHost\t/abs\t\t7070", "1EmptyPort\t/r\tr.example\t", "1BothEmpty\t/abs\t\t",  \* 4 fields
    "1DescSel4\t\tr.example\t70", "1Padded4\t /r \t r.example \t 7070 ", "0RelFull\tx\tr.example\t7070",
    "7RemoteSearch\t/q\tr.example\t70", "1 a < b & c\t/abs"}
    \cup UnstatShapes \cup PortShapes

\* outside "well-formed" (E.2): replayed for the design-level comparison only
BadShapes == {"1Five\t/r\tr.example\t70\t+", "1BadPort\t/r\tr.example\tabc", "\t/notype", "1\t", " \t "}
Shapes == InfoShapes \cup LinkShapes \cup BadShapes

Ctx(kind, sel, d) == [kind |-> kind, sel |-> sel, dir |-> d]
Contexts == {Ctx("dir", "/", "/"), Ctx("dir", "/d", "/d"), Ctx("dir", "/d/e", "/d/e"),
             Ctx("file", "/d/m.gophermap", "/d"), Ctx("file", "/m.gophermap", "/")}
\* what the document root holds besides the map itself (materialised by the harness from this record)
Fix(c) == LET b == IF c.dir = "/" THEN "" ELSE c.dir IN
          << [p |-> b \o "/x", k |-> "file"], [p |-> b \o "/sub", k |-> "dir"], [p |-> b \o "/sub/y", k |-> "file"],
             [p |-> b \o "/m.mbox", k |-> "file"], [p |-> b \o "/s.pyg", k |-> "file"],
             [p |-> "/abs", k |-> "dir"], [p |-> "/abs/sub", k |-> "dir"], [p |-> "/abs/sub/z", k |-> "file"],
             [p |-> "/abs/a.zip", k |-> "file"] >>
GM(c, ls, eol) == [kind |-> c.kind, sel |-> c.sel, dir |-> c.dir, lines |-> ls, eol |-> eol, open |-> FALSE, srv |-> Srv, fixtures |-> Fix(c)]
\* the same map saved by an editor that does not terminate the final line (readline() returns it all the same)
Open(g) == [g EXCEPT !.open = TRUE]

Seq1 == {<<a>> : a \in Shapes}
Seq2(S) == {<<a, b>> : a \in S, b \in S}
Seq3(S) == {<<a, b, c>> : a \in S, b \in S, c \in S}
Good == InfoShapes \cup LinkShapes
\* triples (thorough) leave out shapes that repeat the case analysis of another shape
Core == Good \ {"0read me\t", "1Abs sub\t/abs/sub", "0Deep\tsub/y", "hSlashURL\t/URL:http://h.example/", "1Padded4\t /r \t r.example \t 7070 ",
                 "1DescSel4\t\tr.example\t70", "7RemoteSearch\t/q\tr.example\t70", "1EmptyPort\t/r\tr.example\t", "1BothEmpty\t/abs\t\t",
                 "1Zero2\t/r\tr.example\t00", "1Lead\t/r\tr.example\t0070", "1PlusSign\t/r\tr.example\t+70", "1Max\t/r\tr.example\t65535",
                 "1Big\t/r\tr.example\t70000", "iNote\tfake\t(NULL)\t00",
                 "0PygExtra\ts.pyg/extra", "0MboxMsg\tm.mbox/MBOX-MESSAGE/2", "1LongAbs\t/abs/" \o Rep("n", 256) \o "/y"}

Cases ==
    {GM(c, ls, eol) : c \in Contexts, ls \in Seq1 \cup {<<>>}, eol \in {"\n", "\r\n"}}
    \cup {GM(Ctx("dir", "/d", "/d"), ls, "\n") : ls \in Seq2(Shapes)}
    \cup {GM(Ctx("file", "/d/m.gophermap", "/d"), ls, "\n") : ls \in Seq2(IF Tier = "quick" THEN InfoShapes \cup {"0Rel\tx", "1Abs\t/abs", "0Thru\tx/extra"} ELSE Good)}
    \cup {Open(GM(c, ls, eol)) : c \in Contexts, ls \in {x \in Seq1 : x[1] # ""}, eol \in {"\n", "\r\n"}}
    \cup {Open(GM(Ctx("dir", "/d", "/d"), ls, "\n")) : ls \in {x \in Seq2(IF Tier = "quick" THEN InfoShapes \cup {"0Rel\tx", "1Abs\t/abs"} ELSE Good) : x[2] # ""}}
    \cup (IF Tier = "quick" THEN {}
          ELSE {GM(c, ls, "\r\n") : c \in {Ctx("dir", "/", "/"), Ctx("dir", "/d/e", "/d/e")}, ls \in Seq2(Good)}
               \cup {GM(Ctx("dir", "/d", "/d"), ls, "\n") : ls \in Seq3(Core)})

Init == gm \in Cases /\ phase = "case" /\ res = [judge |-> "", wf |-> FALSE, cls |-> ""]
Eval == /\ phase = "case"
        /\ phase' = "done" /\ UNCHANGED gm
        /\ res' = [judge |-> IF WellFormed(gm) THEN Judge(gm, "G", ImplGopherView(gm)) ELSE "n/a",
                   wf |-> WellFormed(gm), cls |-> DevClass(gm)]
Spec == Init /\ [][Eval]_mcvars

\* handlers/gophermap.py as transcribed renders every well-formed gophermap as documented, except
\* in the recorded deviation class whose quirk is in force
AsDocumented ==
    phase = "done" => ((res.wf /\ ~(res.cls = "relative-in-gophermap-file" /\ "FileMapBase" \in Quirks)) => res.judge = "ok")
=============================================================================
