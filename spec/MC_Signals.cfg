SPECIFICATION FairSpec
CONSTANTS
  Children = {"c1", "c2"}
  Outsiders = {"shell"}
INVARIANT ExitCodes
INVARIANT MasterExit6OnlyByTerm
INVARIANT NoCollateral
PROPERTY OrderlyShutdown
CHECK_DEADLOCK FALSE
