----------------------------- MODULE Gophermap -----------------------------
(* Bucktooth-style gophermap files (C09).                                                    *)
(*                                                                                          *)
(* A gophermap `gm` is a record: kind ("dir": the file `gophermap` of a directory; "file": a *)
(* `*.gophermap` file), sel (the selector requested), dir (the selector of the directory    *)
(* that holds the file), lines (the text lines, without terminators), eol (the terminator   *)
(* written after every line), srv (this server's advertised name and port), fixtures (what   *)
(* exists in the document root besides the map: <<[p |-> selector, k |-> "file" | "dir"]>>). *)
(* In line text the tokens {NUL} and {HI} stand for the byte 0x00 and for a byte >= 0x80     *)
(* that is not UTF-8 (gamma/alpha substitute them; TLA+ strings cannot spell them).          *)
(*                                                                                          *)
(*   ImplEntries(gm)  handlers/gophermap.py BuckGophermapHandler.prepare AS CODED (tab test *)
(*                    on the raw line, split/strip, field defaults, the crashes on an empty *)
(*                    selector / empty first field / non-numeric port); named quirks are in *)
(*                    force iff their name is in the constant Quirks.                       *)
(*   RefEntries(gm)   the reading pinned in DESIGN.md Appendix E.2 (property text, manual   *)
(*                    section GOPHERMAP.BUCKGOPHERMAPHANDLER, doc/standards/gophermap.txt). *)
(*   Expected(r,srv)  the protocol-independent canonical row (kind, type, name, target) a   *)
(*                    listing in ANY protocol must show for entry r; CanonObs maps what     *)
(*                    alpha lexed from one protocol's listing to the same shape.            *)
EXTENDS Naturals, Integers, Sequences, FiniteSets, Text

CONSTANT Quirks
AllQuirks == {"FileMapBase",        \* a *.gophermap file resolves relative selectors against ITSELF, not its directory
              "NonGopherPort70"}    \* HTTP/WAP/Gemini/Spartan render a missing port of a remote link as 70, not this server's

NoS == [s |-> FALSE, v |-> ""]
SomeS(x) == [s |-> TRUE, v |-> x]
Range(q) == {q[i] : i \in 1..Len(q)}

RECURSIVE NatToStr(_)
NatToStr(n) == IF n < 10 THEN Ch("0123456789", n + 1) ELSE NatToStr(n \div 10) \o Ch("0123456789", (n % 10) + 1)

InfoEntry(text) == [type |-> "i", name |-> text, sel |-> "fake", host |-> SomeS("(NULL)"), port |-> SomeS("0"),
                    plus |-> FALSE]

\* vfs.exists(selector): os.path.exists of root + selector.  FALSE for every reason stat() can fail:
\* nothing there (ENOENT), the path runs THROUGH a regular file (ENOTDIR: "x/extra", the virtual
\* selectors of the mbox / ZIP / PYG handlers), a component longer than NAME_MAX (ENAMETOOLONG),
\* an embedded NUL (ValueError), a name that is not there because of an odd byte.  The models only
\* use selectors without "." / ".." / "//" / trailing "/", so existence is a literal look-up.
NameMax == 255
Exists(gm, sel) == \E i \in 1..Len(gm.fixtures) : gm.fixtures[i].p = sel
StatClass(gm, sel) ==           \* why stat() fails (design level; every class but "ok" means "does not exist")
    IF Exists(gm, sel) THEN "ok"
    ELSE IF Contains(sel, "{NUL}") THEN "nul"
    ELSE IF \E c \in Range(Split(sel, "/")) : Len(c) > NameMax THEN "enametoolong"
    ELSE IF \E i \in 1..Len(gm.fixtures) : gm.fixtures[i].k = "file" /\ StartsWith(sel, gm.fixtures[i].p \o "/") THEN "enotdir"
    ELSE "enoent"

(* ======================================================================================= *)
(*                               I M P L E M E N T A T I O N                                *)
(* ======================================================================================= *)
\* self.selectorbase: the REQUESTED selector (for a *.gophermap file: the file's own selector)
ImplBase(gm) ==
    LET s == IF gm.kind = "file" /\ "FileMapBase" \notin Quirks THEN gm.dir ELSE gm.sel IN
    IF s = "/" THEN "" ELSE s

StripAll(q) == [i \in 1..Len(q) |-> Strip(q[i])]

\* one iteration of the readline loop; `raw` is the line without terminator
\* `term` is the line's terminator: gm.eol, or nothing for the last line of a map whose final line is unterminated (gm.open)
ImplLine(gm, raw, term) ==
    LET line == raw \o term IN
    IF Contains(line, "\t")                                   \* re.search("\t", line): gophermap link
    THEN LET args0 == StripAll(Split(line, "\t"))
             args  == IF Len(args0) < 2 \/ Len(args0[2]) = 0 THEN [args0 EXCEPT ![2] = From(args0[1], 2)] ELSE args0
             selector == args[2]
         IN IF Len(selector) = 0 THEN [crash |-> TRUE, e |-> InfoEntry("")]                  \* selector[0]: IndexError
            ELSE IF Len(args[1]) = 0 THEN [crash |-> TRUE, e |-> InfoEntry("")]             \* args[0][0]: IndexError
            ELSE IF Len(args) >= 4 /\ Len(args[4]) > 0 /\ ~IsInt(args[4]) THEN [crash |-> TRUE, e |-> InfoEntry("")]   \* int(): ValueError
            ELSE [crash |-> FALSE,
                  e |-> [type |-> Ch(args[1], 1), name |-> From(args[1], 2),
                         sel  |-> IF Ch(selector, 1) # "/" /\ ~StartsWith(selector, "URL:")
                                  THEN ImplBase(gm) \o "/" \o selector ELSE selector,           \* relative link
                         host |-> IF Len(args) >= 3 /\ Len(args[3]) > 0 THEN SomeS(args[3]) ELSE NoS,
                         port |-> IF Len(args) >= 4 /\ Len(args[4]) > 0
                                  THEN SomeS(IF ParseInt(args[4]) < 0 THEN "-" \o NatToStr(0 - ParseInt(args[4]))
                                             ELSE NatToStr(ParseInt(args[4])))
                                  ELSE NoS,
                         \* a link on THIS server whose target exists is populated from the file system
                         \* (gopherpsupport: the "+" of the menu line); a target that cannot be stat()ed
                         \* for whatever reason is simply not populated - the entry is listed all the same
                         plus |-> ~(Len(args) >= 3 /\ Len(args[3]) > 0) /\ ~(Len(args) >= 4 /\ Len(args[4]) > 0)
                                  /\ StatClass(gm, IF Ch(selector, 1) # "/" /\ ~StartsWith(selector, "URL:")
                                                   THEN ImplBase(gm) \o "/" \o selector ELSE selector) = "ok"]]
    ELSE [crash |-> FALSE, e |-> InfoEntry(Strip(line))]

\* an exception in prepare() is not an IOError: no listing at all
ImplEntries(gm) ==
    LET rs == [i \in 1..Len(gm.lines) |-> ImplLine(gm, gm.lines[i], IF gm.open /\ i = Len(gm.lines) THEN "" ELSE gm.eol)] IN
    IF \E i \in 1..Len(rs) : rs[i].crash THEN [ok |-> FALSE, es |-> <<>>]
    ELSE [ok |-> TRUE, es |-> [i \in 1..Len(rs) |-> rs[i].e]]

\* rfc1436.renderobjinfo as lexed by alpha: the five fields of a menu line
GopherRow(e, srv) ==
    [kind |-> "menu", type |-> e.type, name |-> e.name, form |-> "fields", sel |-> e.sel,
     host |-> IF e.host.s THEN e.host.v ELSE srv.host, port |-> IF e.port.s THEN e.port.v ELSE srv.port, url |-> "",
     plus |-> e.plus]
ImplGopherView(gm) ==
    LET r == ImplEntries(gm) IN [ok |-> r.ok, rows |-> [i \in 1..Len(r.es) |-> GopherRow(r.es[i], gm.srv)]]

(* ======================================================================================= *)
(*                     R E F E R E N C E   (DESIGN.md Appendix E.2)                         *)
(* ======================================================================================= *)
RefBase(gm) == IF gm.dir = "/" THEN "" ELSE gm.dir           \* the directory the gophermap file is in

Fields(raw) == StripAll(Split(raw, "\t"))
IsLink(raw) == Contains(raw, "\t")
Field(raw, k) == IF Len(Fields(raw)) >= k THEN Fields(raw)[k] ELSE ""
IsRelativeSel(s) == Len(s) > 0 /\ Ch(s, 1) # "/" /\ ~StartsWith(s, "URL:")

\* "well-formed gophermap files": what E.2 excludes, plus a link line without any item type
IsDecimalPort(t) == IsDigits(t) \/ (Len(t) > 1 /\ Ch(t, 1) = "+" /\ IsDigits(Tail1(t)))
WellFormedLine(raw) ==
    IsLink(raw) =>
        /\ Len(Fields(raw)) <= 4
        /\ Len(Field(raw, 1)) > 0                                          \* there is an item type
        /\ ~(Len(Field(raw, 1)) = 1 /\ Len(Field(raw, 2)) = 0)             \* name and selector both empty
        /\ (Len(Field(raw, 4)) = 0 \/ IsDecimalPort(Field(raw, 4)))       \* decimal port (any spelling: 0, 00, 0070, +70)
WellFormed(gm) == \A i \in 1..Len(gm.lines) : WellFormedLine(gm.lines[i])

RefLine(gm, raw) ==
    IF ~IsLink(raw) THEN InfoEntry(Strip(raw))
    ELSE LET name == From(Field(raw, 1), 2)
             s0 == IF Len(Field(raw, 2)) = 0 THEN name ELSE Field(raw, 2)     \* missing selector: the description
         IN [type |-> Ch(Field(raw, 1), 1), name |-> name,
             sel  |-> IF IsRelativeSel(s0) THEN RefBase(gm) \o "/" \o s0 ELSE s0,
             host |-> IF Len(Field(raw, 3)) > 0 THEN SomeS(Field(raw, 3)) ELSE NoS,
             \* a WRITTEN port is listed as written (numerically: 0, 00 -> 0; 0070, +70 -> 70); only an EMPTY or
             \* absent field means this server's port
             port |-> IF Len(Field(raw, 4)) > 0 THEN SomeS(NatToStr(ParseInt(Field(raw, 4)))) ELSE NoS]
RefEntries(gm) == [i \in 1..Len(gm.lines) |-> RefLine(gm, gm.lines[i])]

(* ------------------------- protocol-independent canonical rows ------------------------- *)
IsURLSel(s) == StartsWith(s, "URL:") \/ StartsWith(s, "/URL:")
URLOf(s) == IF StartsWith(s, "URL:") THEN From(s, 5) ELSE From(s, 6)
KindOf(t) == IF t = "i" THEN "info" ELSE IF t = "7" THEN "search" ELSE "link"
Row(kind, type, name, form, host, port, sel, url) ==
    [kind |-> kind, type |-> type, name |-> name, form |-> form, host |-> host, port |-> port, sel |-> sel, url |-> url]

\* what every protocol must show for reference entry r: missing host / port mean THIS server
\* In the Gopher views an info line shows all five fields too (E.2: fake selector, host (NULL), port 0 for a
\* tab-less line; the written fields for an explicit `i` link line); the other protocols show its text only.
Expected(r, srv, p) ==
    IF r.type = "i"
    THEN (IF p \in {"G", "GP"}
          THEN Row("info", "i", r.name, "none", IF r.host.s THEN r.host.v ELSE srv.host,
                   IF r.port.s THEN r.port.v ELSE srv.port, r.sel, "")
          ELSE Row("info", "i", r.name, "none", "", "", "", ""))
    ELSE IF IsURLSel(r.sel) THEN Row(KindOf(r.type), r.type, r.name, "url", "", "", "", URLOf(r.sel))
    ELSE Row(KindOf(r.type), r.type, r.name, "gopher",
             IF r.host.s THEN r.host.v ELSE srv.host, IF r.port.s THEN r.port.v ELSE srv.port, r.sel, "")

\* what alpha lexed, brought to the same shape.  form "fields" = a Gopher menu line; "local" = a
\* link relative to this server (href="/sel"); "gopher" = a gopher:// URL; "url" = any other URL
CanonObs(o, srv) ==
    IF o.form = "fields"
    THEN (IF o.type = "i" THEN Row("info", "i", o.name, "none", o.host, o.port, o.sel, "")
          ELSE IF IsURLSel(o.sel) THEN Row(KindOf(o.type), o.type, o.name, "url", "", "", "", URLOf(o.sel))
          ELSE Row(KindOf(o.type), o.type, o.name, "gopher", o.host, o.port, o.sel, ""))
    ELSE IF o.form = "none" THEN Row("info", "i", o.name, "none", "", "", "", "")
    ELSE IF o.form = "local" THEN Row(o.kind, "?", o.name, "gopher", srv.host, srv.port, o.sel, "")
    ELSE IF o.form = "gopher" THEN Row(KindOf(o.type), o.type, o.name, "gopher", o.host, o.port, o.sel, "")   \* the URL carries the type
    ELSE Row(o.kind, "?", o.name, "url", "", "", "", o.url)

TypeAgrees(c, x) == c.type = "?" \/ c.type = x.type
SameTarget(c, x) == c.form = x.form /\ c.host = x.host /\ c.port = x.port /\ c.sel = x.sel /\ c.url = x.url
RowAgrees(c, x) == c.kind = x.kind /\ TypeAgrees(c, x) /\ c.name = x.name /\ SameTarget(c, x)

(* ------------------------------------ clauses ------------------------------------ *)
\* first clause that row c (canonical, observed) fails against gophermap line `raw` read as x
LineClause(c, x, raw) ==
    IF c.kind # x.kind /\ (c.kind = "info" \/ x.kind = "info") THEN "InfoIffNoTab"
    ELSE IF c.kind # x.kind \/ ~TypeAgrees(c, x) \/ c.name # x.name THEN "TypeAndDescription"
    ELSE IF ~IsLink(raw) /\ ~SameTarget(c, x) THEN "InfoLineFields"
    ELSE IF c.form # x.form \/ c.sel # x.sel \/ c.url # x.url
    THEN (IF Len(Field(raw, 2)) = 0 THEN "SelectorDefaultsToDescription"
          ELSE IF IsRelativeSel(Field(raw, 2)) THEN "RelativeResolved" ELSE "SelectorVerbatim")
    \* a field that is WRITTEN is listed as written; only an empty / absent one means this server
    ELSE IF c.host # x.host THEN (IF Len(Field(raw, 3)) = 0 THEN "MissingHostPortMeanThisServer" ELSE "HostPortVerbatim")
    ELSE IF c.port # x.port THEN (IF Len(Field(raw, 4)) = 0 THEN "MissingHostPortMeanThisServer" ELSE "HostPortVerbatim")
    ELSE "ok"

\* O: [ok, rows] lexed from protocol p's listing.  The Gopher view names the clause of the line that
\* fails; a view of another protocol that differs from the reference fails SameInEveryProtocol.
Judge(gm, p, O) ==
    LET R == RefEntries(gm)
        bad == {i \in 1..Len(R) : ~RowAgrees(CanonObs(O.rows[i], gm.srv), Expected(R[i], gm.srv, p))}
    IN IF ~O.ok THEN "Answered"
       ELSE IF Len(O.rows) # Len(gm.lines) THEN "LineForLine"
       ELSE IF bad = {} THEN "ok"
       ELSE IF p \notin {"G", "GP"} THEN "SameInEveryProtocol"
       ELSE LET i == CHOOSE k \in bad : \A j \in bad : k <= j IN
            LineClause(CanonObs(O.rows[i], gm.srv), Expected(R[i], gm.srv, p), gm.lines[i])

(* --------------- input classes on which a coded deviation can show (for triage) --------------- *)
HasRelative(gm) == \E i \in 1..Len(gm.lines) : LET raw == gm.lines[i] IN
                       IsLink(raw) /\ IsRelativeSel(IF Len(Field(raw, 2)) = 0 THEN From(Field(raw, 1), 2) ELSE Field(raw, 2))
                       /\ Len(Field(raw, 1)) > 0 /\ Ch(Field(raw, 1), 1) # "i"     \* the selector of an info entry is not shown
HasHostNoPort(gm) == \E i \in 1..Len(gm.lines) : LET raw == gm.lines[i] IN
                       IsLink(raw) /\ Len(Field(raw, 3)) > 0 /\ Len(Field(raw, 4)) = 0
                       /\ Len(Field(raw, 1)) > 0 /\ Ch(Field(raw, 1), 1) # "i"
                       /\ ~IsURLSel(IF Len(Field(raw, 2)) = 0 THEN From(Field(raw, 1), 2) ELSE Field(raw, 2))
DevClass(gm) ==
    IF gm.kind = "file" /\ HasRelative(gm) THEN "relative-in-gophermap-file"
    ELSE IF HasHostNoPort(gm) /\ gm.srv.port # "70" THEN "host-without-port"
    ELSE "none"
QuirkOfClass(c) == CASE c = "relative-in-gophermap-file" -> "FileMapBase"
                     [] c = "host-without-port" -> "NonGopherPort70"
                     [] OTHER -> "none"

\* the design (as coded) against the documentation: the Gopher view of every well-formed gophermap
AsDocumentedOn(gm) ==
    (WellFormed(gm) /\ DevClass(gm) # "relative-in-gophermap-file") => Judge(gm, "G", ImplGopherView(gm)) = "ok"
=============================================================================
