SPECIFICATION MSpec
CONSTANTS
  Names = {"a", "b"}
  Workers = {1}
  Full = 2
  Lifetimes = {0, 4}
  MaxClock = 14
  MaxHist = 6
  MaxLen = 4
CONSTRAINT GenBound
CHECK_DEADLOCK FALSE
