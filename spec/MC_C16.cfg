SPECIFICATION Spec
CONSTANTS
  StaleNegativeMemo = FALSE
  GuardIsInstance = FALSE
  RawNames = {}
  LinkDirnameUntranscoded = FALSE
  FullLen = 2
  MetaLen = 2
  CoreLen = 3
  UnivFull <- UFullQ
  UnivCore <- UCoreQ
  Known = {}
INVARIANT SameFresh
INVARIANT SameCached
INVARIANT Inside
INVARIANT RealOnlyInv
INVARIANT StepwiseEqualsFunction
INVARIANT PassBound
CHECK_DEADLOCK FALSE
