------------------------------- MODULE MC_C01 -------------------------------
(* Bounded design model for C01.  TLC enumerates every (handler list, frame, selector       *)
(* string) within the bounds - selector strings are either ALL strings over a hostile       *)
(* character alphabet up to MaxLen characters (Mode = "chars") or all concatenations of up  *)
(* to MaxLen hostile tokens (Mode = "tokens") - pushes each through the pipeline of         *)
(* Handlers.tla on the tree of FS.tla, and checks the design argument clause by clause.     *)
(* Every "done" state is also one replay case for the real server (binding B2): the harness *)
(* reads (hl, frame, raw) and the model's predictions from the state dump.                  *)
EXTENDS Handlers

CONSTANTS Mode, MaxLen, Frames, Lists,
          ExtraTokens,     \* further token strings for this run (members of the archive: only with the full list)
          Pres             \* prior world states: cache artefacts already lying in the root before the request

VARIABLES phase, hl, frame, raw, pre, \* the case (pre: see Handlers!PreStates)
          res                        \* what the model says about it (see Result)
vars == <<phase, hl, frame, raw, pre, res>>

CharAlphabet == {"/", ".", "\\", NUL, "%", "|", "?", "g", "0", "2", "5", "c", "e", "f"}
\* (26 tokens; the four look-alike classes replaced the low-value tokens .\ %5c %25 %7c, whose
\*  substrings/decodings the remaining tokens still produce: "/." \o "\", raw "\", "%252e", raw "|")
TokenStrings == {"/g", "/k", "/z.zip", "/m.mbox", "/s.sh", "/md", "/lk",
                 "/..", "/.", "//", "\\", "|", "?", "..", NUL,
                 "%2e", "%2f", "%00", "%252e",
                 LkDot, LkSlash, LkBack, LkTwoDot,
                 "URL:x://", "/MAILDIR-MESSAGE/1", "/MBOX-MESSAGE/1"}
Tokens == {Q(t) : t \in TokenStrings \cup ExtraTokens}

RECURSIVE TokStrings(_)
TokStrings(n) == IF n = 0 THEN {<<>>}
                 ELSE LET S == TokStrings(n - 1) IN S \cup {s \o t : s \in S, t \in Tokens}

\* (chars: enumerated per length straight from the function sets - TLC refuses to BUILD a set of more
\*  than 10^6 elements, and 14^6 strings are 7.5 million)
RawOk(r) == IF Mode = "chars" THEN \E n \in 0..MaxLen : r \in [1..n -> CharAlphabet] ELSE r \in TokStrings(MaxLen)

\* d: decoded selector; cls/url/hostile: its classification; oh/oroute/oresp/olsel: predicted
\* outcome (Handlers!Dispatch); mv: first model-level clause that fails for this case, or "ok".
\* (One operator in expression context: TLC caches the LET values; spread over several primed
\* conjuncts of an action it re-evaluated them for every use - measured 10x slower.)
Result(h, fr, r) ==
    LET dd == DecodeSelector(fr, r)
        o  == Serve(dd, h)
    IN [d |-> dd, cls |-> SelClass(dd), url |-> UrlShaped(dd), hostile |-> Hostile(dd),
        oh |-> o.h, oroute |-> o.route, oresp |-> FrameResp(fr, o), olsel |-> o.lsel,
        fold |-> FoldWouldEscape(dd),
        mv |-> IF ~NormalFormC(dd) THEN "NormalFormM"
               ELSE IF ~ContainmentC(dd) THEN "ContainmentM"
               ELSE IF ~PrefixClosedC(dd) THEN "PrefixClosedM"
               ELSE IF ~UntaintedC(o) THEN "UntaintedM"
               ELSE IF ~FilterGatesC(dd, o) THEN "FilterGatesM"
               ELSE IF ~ClimbIsNotFoundC(dd, o) THEN "ClimbIsNotFoundM"
               ELSE IF ~NoCwdRelativeC(o) THEN "NoCwdRelativeM"
               ELSE IF ~LiteralPathC(dd) THEN "LiteralPathM"
               ELSE IF ~CachePathsC(dd, h) THEN "CachePathsM"
               ELSE "ok"]

NoResult == [d |-> <<>>, cls |-> "", url |-> FALSE, hostile |-> FALSE, oh |-> "", oroute |-> "", oresp |-> "",
             olsel |-> <<>>, fold |-> FALSE, mv |-> "ok"]

Init == /\ phase = "new" /\ hl \in Lists /\ frame \in Frames /\ RawOk(raw) /\ pre \in Pres /\ res = NoResult

Compute ==
    /\ phase = "new" /\ phase' = "done"
    /\ UNCHANGED <<hl, frame, raw, pre>>
    /\ res' = Result(hl, frame, raw)

Next == Compute
Spec == Init /\ [][Next]_vars

\* The design argument proper: must hold whatever the code's recorded deviations are.
DesignHolds == res.mv \notin {"NormalFormM", "ContainmentM", "PrefixClosedM", "UntaintedM", "FilterGatesM", "LiteralPathM", "CachePathsM"}
\* Clauses that the code's named deviations (NulRaises, ZipCountsAsReal) can falsify are NOT
\* TLC invariants (TLC would stop at the first of thousands of NUL selectors): their verdict
\* is the field res.mv, relayed per case by the harness like a trace verdict.
=============================================================================
