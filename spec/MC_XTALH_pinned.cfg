SPECIFICATION Spec
CONSTANTS
  KeyChecked = FALSE
  CompileInPrepare = FALSE
  SizeUnknown = FALSE
  InnerTypeOptional = FALSE
  Tier = "quick"
INVARIANT ModelClaimRule
INVARIANT ModelContained
INVARIANT ModelTerminates
INVARIANT ModelOneReply
INVARIANT ModelLengthHonest
INVARIANT ModelListing
INVARIANT ModelAgrees
INVARIANT ModelNearestWins
CHECK_DEADLOCK FALSE
