------------------------------- MODULE MC_C04 -------------------------------
(* Bounded design model for C04.  One behaviour = one delivery of one file:                  *)
(*   case c = [n, kind, name, hl, fam, plen, prev, via]  size class (B is the model's block size; gamma maps   *)
(*           q*B+r to q*4096+r), content class (label for gamma), name class (a row of the    *)
(*           configured MIME tables, MC_C04_Data), handler list ("default", "full", and       *)
(*           "altenc" = default handlers under a second configuration of the tables),         *)
(*           request family                                                                   *)
(*           (protocol x TLS; HTTP and WAP families are requested with GET and HEAD)          *)
(*   Read(k) / Eof   the copy loop; with Schedules = "all" every read-size schedule (short    *)
(*           reads) is explored, with "full" only full blocks (what a regular file gives)     *)
(*   MkFrame  entry, optional decompression, framing per protocol                             *)
(* Every "done" state is a replay case for the real server (binding B2); `h` is the read      *)
(* schedule that the harness imposes on the real copy loop through a substituted open().      *)
EXTENDS Deliver, MC_C04_Data, TLC

CONSTANTS B, Schedules, Kinds, Fams, Lists,
          LineCap,            \* longest request line the connection handler reads ("none" = unbounded, as pinned)
          LongOn, HistOn,     \* include the path-length slice / the history slice of the case space
          DecSizeStored,      \* CompressedFileHandler leaves entry.size = size of the COMPRESSED file (as pinned)
          Known               \* ids of recorded defects

VARIABLES c, st, h, fr, phase, isdec
vars == <<c, st, h, fr, phase, isdec>>

ProtoOf(f) == CASE f \in {"G", "Gs"} -> "G" [] f \in {"GP", "GPs"} -> "GP" [] f \in {"H", "Hs"} -> "H"
                [] f = "W" -> "W" [] f = "GEM" -> "GEM" [] f = "SP" -> "SP"
NullFrame == [headers |-> <<>>, len |-> NoLen, body |-> <<>>]

\* A case also says how long the file's PATH is (plen) and which other name was requested (via = "fetch")
\* or listed (via = "list") just before IN THE SAME SERVER PROCESS (prev; "none" = nothing before).
\* the alternative table configuration ("altenc") varies the TABLES, not the delivery: two sizes, one content class
BaseCases == {[n |-> x.n, kind |-> x.kind, name |-> x.name, hl |-> x.hl, fam |-> x.fam, plen |-> "p0", prev |-> "none", via |-> "none"] :
                 x \in {y \in [n : SizeClasses(B), kind : Kinds, name : Names, hl : Lists, fam : Fams] :
                            y.hl = "altenc" => (y.n \in {1, B + 1} /\ y.kind = "bin")}}
\* path length varies the REQUEST LINE, not the delivery: one size, one content class, every family
LongCases == IF ~LongOn THEN {} ELSE
             {[n |-> B + 1, kind |-> "text", name |-> nm, hl |-> "default", fam |-> f, plen |-> p, prev |-> "none", via |-> "none"] :
                 nm \in LongNames, f \in Fams, p \in PLens \ {"p0"}}
\* histories vary what the process served BEFORE: every ordered pair of names, fetched or listed first, and each name alone
HistCases == IF ~HistOn THEN {} ELSE
             {[n |-> 1, kind |-> "bin", name |-> nm, hl |-> "default", fam |-> f, plen |-> "p0", prev |-> pv, via |-> v] :
                 nm \in HistNames, f \in HistFams, pv \in HistNames, v \in {"fetch", "list"}}
             \cup {[n |-> 1, kind |-> "bin", name |-> nm, hl |-> "default", fam |-> f, plen |-> "p0", prev |-> "none", via |-> "none"] :
                 nm \in HistNames, f \in HistFams}
Cases == BaseCases \cup LongCases \cup {x \in HistCases : x.prev # x.name}

Decs(x) == IF x.hl = "full" THEN Decompressors ELSE {}
IsDec(x) == Decompresses(Row(x.hl, x.name), Decs(x))
EntryFor(x) ==
    LET e0 == EntryOf(Row(x.hl, x.name), x.n) IN
    IF IsDec(x) THEN (IF DecSizeStored THEN Decompressed(e0) ELSE [Decompressed(e0) EXCEPT !.size = NoLen]) ELSE e0
\* what handler.write() produces: the copied bytes, or (decompression) some other byte string
BodyFor(x, out) == IF IsDec(x) THEN Iota(x.n + 2) ELSE out

Init == c \in Cases /\ st = LoopInit(c.n) /\ h = <<>> /\ fr = NullFrame /\ phase = "copy" /\ isdec = IsDec(c)
Read(k) == /\ phase = "copy" /\ CanRead(st, B, k)
           /\ (Schedules = "full" => k = Min(B, st.n - st.pos))
           /\ st' = ReadStep(st, k) /\ h' = Append(h, k) /\ UNCHANGED <<c, fr, phase, isdec>>
Eof == /\ phase = "copy" /\ AtEOF(st)
       /\ st' = ReadEOF(st) /\ phase' = "frame" /\ UNCHANGED <<c, h, fr, isdec>>
MkFrame == /\ phase = "frame"
           /\ fr' = Frame(ProtoOf(c.fam), "GET", EntryFor(c), BodyFor(c, st.out))
           /\ phase' = "done" /\ UNCHANGED <<c, st, h, isdec>>
Next == (\E k \in 1..B : Read(k)) \/ Eof \/ MkFrame
Spec == Init /\ [][Next]_vars

Done == phase = "done"
Loop == LoopCorrect(st) /\ LoopPrefix(st)
BodyExact == (Done /\ ~IsDec(c)) => fr.body = Iota(c.n)
LenTruthful == Done => (LenTruthfulF(fr, ~IsDec(c)) \/ ("declen" \in Known /\ IsDec(c)))
HeadIsGetHeaders ==
    (Done /\ ProtoOf(c.fam) \in {"H", "W"}) =>
        HeadIsGetHeadersF(Frame(ProtoOf(c.fam), "HEAD", EntryFor(c), BodyFor(c, st.out)), fr)
\* the whole request line reaches the protocol, however long the path
Delivered == Done => WholeLine(c.plen, LineCap)
\* the entry (size, type, encoding) does not depend on what the process served before
HistoryFree == Done => EntryFor(c) = EntryFor([c EXCEPT !.prev = "none", !.via = "none"])
TypeTruthful ==
    Done => fr.headers = Headers(ProtoOf(c.fam), [EntryFor(c) EXCEPT !.mime = TableMime(Row(c.hl, c.name), Decs(c))])

\* WAP conversion: the inverse recovers every line up to trailing white space, whatever the line is
WAlpha == {"x", "SP", "CR", "VT", "NEL", "LS", "LT", "AMP", "QUOT", "HI", "NUL"}
WLines == UNION {[1..k -> [c : WAlpha, n : {1}]] : k \in 0..3}
ASSUME \A l1 \in WLines : WmlInvertible(<<l1>>, WmlOf(<<l1>>)) /\ WmlClean(WmlOf(<<l1>>))
ASSUME \A l1 \in UNION {[1..k -> [c : {"x", "SP", "LT"}, n : {1, 2}]] : k \in 0..2} :
       \A l2 \in UNION {[1..k -> [c : {"x", "CR", "AMP"}, n : {1}]] : k \in 0..2} :
           WmlInvertible(<<l1, l2, l1>>, WmlOf(<<l1, l2, l1>>))

\* reachability witnesses (vacuity): must be VIOLATED
W_NoShortRead == ~(Done /\ Len(h) > 3 /\ c.n = B + 1)
=============================================================================
