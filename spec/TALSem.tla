------------------------------- MODULE TALSem -------------------------------
(* Reference semantics of TAL / TALES / METAL (DESIGN.md Appendix E.4): an INDEPENDENT       *)
(* tree-walking evaluator - no program, no program counter, no scope stack.  It is the       *)
(* oracle of C17 (Refines) and predicts the element skeleton for C18 (Escaped).              *)
(*                                                                                          *)
(* The result of expanding is a TOKEN STREAM; every token is tagged with its provenance:     *)
(*   start name atts | end name | text s | raw s          src = "tpl" (the template's own    *)
(*   markup and text) or "data" (a value of the context substituted by content / replace;    *)
(*   `raw` + "data" = a value written unescaped because the template says `structure`).      *)
(* Doc(tokens) is the document (html.escape conventions for text and attribute values).      *)
(*                                                                                          *)
(* Order of operations on one element (E.4 1-6): define, condition, repeat, content |        *)
(* replace, attributes, omit-tag; METAL: use-macro before everything, define-slot filled     *)
(* by the caller's fill-slot.  Locals are lexical (they simply are not returned); global     *)
(* defines are threaded through the walk in document order.                                  *)
EXTENDS TALES

CONSTANT VoidTags

Tok(t, name, atts, s, src) == [t |-> t, name |-> name, atts |-> atts, s |-> s, src |-> src]
StartT(name, atts) == Tok("start", name, atts, "", "tpl")
EndT(name)         == Tok("end", name, <<>>, "", "tpl")
TextT(s, src)      == Tok("text", "", <<>>, s, src)
RTextT(s)          == Tok("rtext", "", <<>>, s, "tpl")      \* content of a raw-text element: no references, no markup
RawTextTags == {"script", "style"}
RawT(s, src)       == Tok("raw", "", <<>>, s, src)

R(toks, g) == [t |-> toks, g |-> g]

\* ---- macro and slot tables, read off the tree -------------------------------------------------
RECURSIVE MacroList(_, _), FillList(_, _)
MacroList(nodes, i) ==
    IF i > Len(nodes) THEN <<>>
    ELSE LET nd == nodes[i] IN
         (IF nd.k = "el" /\ HasCmd(nd, "defmacro") THEN <<[name |-> CmdOf(nd, "defmacro").name, node |-> nd]>> ELSE <<>>)
         \o (IF nd.k = "el" THEN MacroList(nd.kids, 1) ELSE <<>>) \o MacroList(nodes, i + 1)
\* the fill-slot elements below a use-macro element (those of a nested use-macro belong to it)
FillList(nodes, i) ==
    IF i > Len(nodes) THEN <<>>
    ELSE LET nd == nodes[i] IN
         (IF nd.k # "el" THEN <<>>
          ELSE IF HasCmd(nd, "fillslot") THEN <<[name |-> CmdOf(nd, "fillslot").name, node |-> nd]>>
          ELSE IF HasCmd(nd, "usemacro") THEN <<>>
          ELSE FillList(nd.kids, 1)) \o FillList(nodes, i + 1)
AsTable(lst) == [n \in {lst[i].name : i \in DOMAIN lst} |-> lst[CHOOSE i \in DOMAIN lst : lst[i].name = n /\ \A j \in DOMAIN lst : lst[j].name = n => i <= j].node]

\* ---- 1. define -----------------------------------------------------------------------------------
RECURSIVE DefFold(_, _, _)
DefFold(items, i, cx) ==
    IF i > Len(items) THEN cx
    ELSE LET v == EvalTop(items[i].e, cx) IN
         DefFold(items, i + 1, IF items[i].g THEN [cx EXCEPT !.g = Put(@, items[i].name, v)]
                                             ELSE [cx EXCEPT !.l = Put(@, items[i].name, v)])

\* ---- 5. attributes: TAL-set attributes first (statement order), then the remaining originals ---------
RECURSIVE SetAtts(_, _, _), Touched(_, _, _)
SetAtts(items, i, cx) ==
    IF i > Len(items) THEN <<>>
    ELSE LET v == EvalTop(items[i].e, cx) IN
         (IF v.k \in {"none", "default"} THEN <<>> ELSE <<At(items[i].name, PyStr(v))>>) \o SetAtts(items, i + 1, cx)
Touched(items, i, cx) ==
    IF i > Len(items) THEN {}
    ELSE (IF EvalTop(items[i].e, cx).k = "default" THEN {} ELSE {items[i].name}) \cup Touched(items, i + 1, cx)
NewAtts(nd, cx) ==
    IF ~HasCmd(nd, "attributes") THEN nd.atts
    ELSE LET its == CmdOf(nd, "attributes").items IN
         SetAtts(its, 1, cx) \o SelectSeq(nd.atts, LAMBDA a : a.n \notin Touched(its, 1, cx))

CharsOf(s) == [i \in 1..Len(s) |-> Str(TX!Ch(s, i))]

RECURSIVE XNode(_, _), XKids(_, _, _), XIter(_, _, _, _, _, _), XBody(_, _), XTal(_, _), XEl(_, _)

XKids(kids, i, cx) ==
    IF i > Len(kids) THEN R(<<>>, cx.g)
    ELSE LET a == XNode(kids[i], cx)
             b == XKids(kids, i + 1, [cx EXCEPT !.g = a.g])
         IN R(a.t \o b.t, b.g)

\* ---- 4-6. content | replace, attributes, omit-tag ----------------------------------------------------
XBody(nd, cx) ==
    LET hasC  == HasCmd(nd, "content")
        hasR  == HasCmd(nd, "replace")
        cc    == IF hasC THEN CmdOf(nd, "content") ELSE IF hasR THEN CmdOf(nd, "replace") ELSE CContent(Path("default"), FALSE)
        cv    == EvalTop(cc.e, cx)
        omit  == HasCmd(nd, "omit") /\ (CmdOf(nd, "omit").e.k = "none" \/ Truthy(EvalTop(CmdOf(nd, "omit").e, cx)))
        tags  == ~omit /\ ~(hasR /\ cv.k # "default")
        inner == IF cv.k = "default" THEN XKids(nd.kids, 1, cx)                       \* template content as it is
                 ELSE IF cv.k = "none" THEN R(<<>>, cx.g)                              \* nothing: empty
                 ELSE IF cv.k = "macro" /\ cc.flag THEN XNode(cx.mac[cv.s], [cx EXCEPT !.slots = EmptyF])
                 ELSE R(<<IF cc.flag THEN RawT(PyStr(cv), "data") ELSE TextT(PyStr(cv), "data")>>, cx.g)
    IN R((IF tags THEN <<StartT(nd.tag, NewAtts(nd, cx))>> ELSE <<>>) \o inner.t
         \o (IF tags /\ nd.tag \notin VoidTags THEN <<EndT(nd.tag)>> ELSE <<>>), inner.g)

\* ---- 3. repeat: steps 4-6 once per item ---------------------------------------------------------------
XIter(nd, cx, name, items, i, it) ==
    IF i > Len(items) THEN R(<<>>, cx.g)
    ELSE LET a == XBody(nd, [cx EXCEPT !.l = Put(@, name, items[i]), !.rm = Put(@, name, RV(items, i - 1, it))])
             b == XIter(nd, [cx EXCEPT !.g = a.g], name, items, i + 1, it)
         IN R(a.t \o b.t, b.g)

\* ---- 1-3 --------------------------------------------------------------------------------------------
XTal(nd, cx) ==
    LET d == IF HasCmd(nd, "define") THEN DefFold(CmdOf(nd, "define").items, 1, cx) ELSE cx IN
    IF HasCmd(nd, "condition") /\ ~Truthy(EvalTop(CmdOf(nd, "condition").e, d)) THEN R(<<>>, d.g)
    ELSE IF ~HasCmd(nd, "repeat") THEN XBody(nd, d)
    ELSE LET rp == CmdOf(nd, "repeat")
             v  == EvalTop(rp.e, d)
         IN IF v.k = "default" THEN XBody(nd, d)            \* processed once, untouched by the repeat
            ELSE XIter(nd, d, rp.name,
                       CASE v.k \in {"seq", "iter"} -> v.q [] v.k = "str" -> CharsOf(v.s) [] OTHER -> <<>>,
                       1, v.k = "iter")

\* ---- METAL ---------------------------------------------------------------------------------------------
XEl(nd, cx0) ==
    LET cx == [cx0 EXCEPT !.at = nd.atts]
        um == IF HasCmd(nd, "usemacro") THEN EvalTop(CmdOf(nd, "usemacro").e, cx) ELSE Default
    IN IF um.k = "none" THEN R(<<>>, cx.g)
       ELSE IF um.k = "macro"       \* replaced by the macro's subtree; no other command of the element counts
       THEN XNode(cx.mac[um.s], [cx EXCEPT !.slots = AsTable(FillList(nd.kids, 1))])
       ELSE IF HasCmd(nd, "defslot") /\ CmdOf(nd, "defslot").name \in DOMAIN cx.slots
       THEN XNode(cx.slots[CmdOf(nd, "defslot").name], [cx EXCEPT !.slots = EmptyF])
       ELSE XTal(nd, cx)

XNode(nd, cx) ==
    IF nd.k = "text" THEN R(<<IF cx.rt THEN RTextT(nd.text) ELSE TextT(nd.text, "tpl")>>, cx.g)
    ELSE IF nd.k = "raw" THEN R(<<RawT(nd.text, "tpl")>>, cx.g)
    ELSE IF Len(nd.tal) > 0 THEN XEl(nd, cx)
    ELSE LET k == XKids(nd.kids, 1, [cx EXCEPT !.rt = nd.tag \in RawTextTags]) IN
         R(<<StartT(nd.tag, nd.atts)>> \o k.t \o (IF nd.tag \in VoidTags THEN <<>> ELSE <<EndT(nd.tag)>>), k.g)

\* the globals the caller hands over: the context entries plus `macros` = the template's macro table
RECURSIVE EntsToFn(_, _)
EntsToFn(ents, i) == IF i > Len(ents) THEN EmptyF ELSE Put(EntsToFn(ents, i + 1), ents[i].s, ents[i].q[1])
MacroNames(nodes) == LET ml == MacroList(nodes, 1) IN [i \in DOMAIN ml |-> ml[i].name]
GlobalsOf(ents, nodes) ==
    Put(EntsToFn(ents, 1), "macros", MapV([i \in DOMAIN MacroNames(nodes) |-> Ent(MacroNames(nodes)[i], MacroV(MacroNames(nodes)[i]))]))
\* names bound by `global` defines anywhere in the template
RECURSIVE GlobalDefines(_, _)
GlobalDefines(nodes, i) ==
    IF i > Len(nodes) THEN {}
    ELSE LET nd == nodes[i] IN
         (IF nd.k = "el" /\ HasCmd(nd, "define")
          THEN {CmdOf(nd, "define").items[j].name : j \in {j \in DOMAIN CmdOf(nd, "define").items : CmdOf(nd, "define").items[j].g}}
          ELSE {}) \cup (IF nd.k = "el" THEN GlobalDefines(nd.kids, 1) ELSE {}) \cup GlobalDefines(nodes, i + 1)

\* expanding a template (a sequence of top-level nodes) with globals g0
Expand(nodes, g0, py) ==
    XKids(nodes, 1, [g |-> g0, l |-> EmptyF, rm |-> EmptyF, at |-> <<>>, py |-> py,
                     mac |-> AsTable(MacroList(nodes, 1)), slots |-> EmptyF, rt |-> FALSE])

\* ---- the document and its skeleton ----------------------------------------------------------------------
TokText(k) == CASE k.t = "start" -> TagText(k.name, k.atts, FALSE)
                [] k.t = "end"   -> "</" \o k.name \o ">"
                [] k.t = "text"  -> EscText(k.s)
                [] k.t = "raw"   -> k.s
                [] k.t = "rtext" -> k.s
RECURSIVE DocFrom(_, _)
DocFrom(toks, i) == IF i > Len(toks) THEN "" ELSE TokText(toks[i]) \o DocFrom(toks, i + 1)
Doc(toks) == DocFrom(toks, 1)

IsTag(k) == k.t \in {"start", "end"}
\* element skeleton: the start/end tags; attribute skeleton: the attribute lists (names and values) of the start tags
Skel(toks) == LET tg == SelectSeq(toks, IsTag) IN [i \in DOMAIN tg |-> [t |-> tg[i].t, name |-> tg[i].name]]
AttrSkel(toks) == LET tg == SelectSeq(toks, IsTag) IN [i \in DOMAIN tg |-> [t |-> tg[i].t, name |-> tg[i].name, atts |-> tg[i].atts]]
RECURSIVE TextFrom(_, _)
TextFrom(toks, i) ==      \* character data: text tokens, and values written raw on request (`structure`)
    IF i > Len(toks) THEN ""
    ELSE (IF toks[i].t = "text" \/ (toks[i].t = "raw" /\ toks[i].src = "data") THEN toks[i].s ELSE "") \o TextFrom(toks, i + 1)
AllText(toks) == TextFrom(toks, 1)
Markup == {"<", ">", "&", "\"", "'"}
\* the template has a raw-text element (script, style) whose content contains a character html.escape rewrites
RECURSIVE HasRawMarkup(_, _)
HasRawMarkup(nodes, i) ==
    IF i > Len(nodes) THEN FALSE
    ELSE LET nd == nodes[i] IN
         \/ (nd.k = "el" /\ nd.tag \in RawTextTags /\ \E j \in DOMAIN nd.kids : nd.kids[j].k = "text" /\ TX!Chars(nd.kids[j].text) \cap {"<", ">", "&"} # {})
         \/ (nd.k = "el" /\ HasRawMarkup(nd.kids, 1)) \/ HasRawMarkup(nodes, i + 1)
\* the template asked for structure with a value that carries markup: skeletons are not comparable
AsksStructure(toks) == \E i \in DOMAIN toks : toks[i].t = "raw" /\ toks[i].src = "data" /\ TX!Chars(toks[i].s) \cap Markup # {}
=============================================================================
