------------------------------ MODULE MC_XTALH ------------------------------
(* Bounded instance of TalHandler: TLC enumerates directory trees (which directories hold m.html.tal, the   *)
(* optional directory /a/m) x template place x file name / kind x template shape x loader walk x request    *)
(* form x configuration; every state with pc = "done" is replayed on the real server (harness/xtalh.py).    *)
EXTENDS TalHandler

CONSTANTS Tier          \* "quick" | "thorough"

Keys == {"m", "a", "b", "..", "getparent"}
SeqsOf(n) == [1..n -> Keys]
WalksUpTo(n) == UNION {SeqsOf(k) : k \in 1..n}
EndsInM(w) == w[Len(w)] = "m"
Walks == IF Tier = "witness" THEN WalksUpTo(2) ELSE IF Tier = "quick" THEN WalksUpTo(2) \cup {w \in SeqsOf(3) : EndsInM(w)}
         ELSE WalksUpTo(3) \cup {w \in SeqsOf(4) : EndsInM(w)}

Base == [loc |-> LocA, name |-> "t.html.tal", kind |-> "file", shape |-> "vars", fe |-> "g", cfg |-> "absent",
         macroAt |-> {}, dirm |-> FALSE, ldr |-> "root", walk |-> <<>>]
Fes == {"g", "gp", "gi", "http", "ls", "lsp"}
Names == {"t.html.tal", "t.txt.tal", "t.gif.tal", "t.tal", "t.zz.tal", "t.html", "t.tal.txt"}

FamNames == {[Base EXCEPT !.name = n, !.fe = f, !.loc = l, !.shape = (IF Claims([kind |-> "file", name |-> n]) THEN "vars" ELSE "raw")]
                : n \in Names, f \in Fes, l \in (IF Tier # "thorough" THEN {LocA} ELSE Locs)}
            \cup {[Base EXCEPT !.kind = k, !.fe = f] : k \in {"dir", "none"}, f \in Fes}
FamVars  == {[Base EXCEPT !.name = n, !.fe = f, !.loc = l, !.cfg = g, !.macroAt = ma, !.dirm = dm]
                : n \in {"t.html.tal", "t.txt.tal"}, f \in {"g", "gp", "http"}, l \in Locs, g \in {"absent", "yes", "no"},
                  ma \in {{}, {LocA}}, dm \in BOOLEAN}
FamErr   == {[Base EXCEPT !.shape = s, !.fe = f, !.cfg = g, !.loc = l]
                : s \in {"syntax", "pyexc", "nomacro"}, f \in Fes, g \in {"absent", "yes", "no"},
                  l \in (IF Tier # "thorough" THEN {LocA} ELSE Locs)}
QuickWalks == WalksUpTo(2) \cup {w \in SeqsOf(3) : EndsInM(w)}
FamUse   == {[Base EXCEPT !.shape = "use", !.loc = l, !.ldr = d, !.macroAt = ma, !.walk = w]
                : l \in Locs, d \in {"root", "rroot", "dir", "rdir"}, ma \in (IF Tier = "witness" THEN {{}} ELSE SUBSET Locs), w \in Walks}
            \cup (IF Tier # "thorough" THEN {} ELSE
                  {[Base EXCEPT !.shape = "use", !.loc = l, !.ldr = d, !.macroAt = ma, !.walk = w, !.fe = f]
                     : l \in Locs, d \in {"root", "rroot", "dir", "rdir"}, ma \in SUBSET Locs, w \in QuickWalks, f \in {"gp", "http"}})
FamUseM  == {[Base EXCEPT !.shape = "use", !.loc = l, !.ldr = d, !.macroAt = ma, !.walk = w, !.dirm = TRUE]
                : l \in Locs, d \in {"root", "rroot", "dir", "rdir"},
                  ma \in (IF Tier # "thorough" THEN {{}, {LocA}} ELSE {{}, {LocA}, {Root}, {LocA, LocB}}), w \in Walks}
Cases == IF Tier = "witness" THEN FamNames \cup FamErr \cup FamUse ELSE FamNames \cup FamVars \cup FamErr \cup FamUse \cup FamUseM

Init == InitWith(Cases)
Spec == SpecWith(Cases)
=============================================================================
