-------------------------------- MODULE Dir --------------------------------
(* The directory pipeline of pygopherd as a state machine                      [C07, C12]  *)
(*                                                                                          *)
(* Code abstracted (/repo HEAD, i.e. with the fixes 6c16d15, 3517cd4, 5b6ecc2):             *)
(*   handlers/dir.py   DirHandler.prepare: prep_initfiles (vfs.listdir, ignore pattern      *)
(*                     searched in selectorbase/name) -> files.sort() -> prep_entries (one  *)
(*                     HandlerMultiplexer.getHandler + getentry per child; a child that     *)
(*                     raises FileNotFound / OSError is skipped)                            *)
(*   handlers/UMN.py   UMNDirHandler: prep_initfiles_canaddfile keeps dot-names out of the  *)
(*                     list DURING the enumeration loop and remembers regular dot-files as  *)
(*                     link files, prep_initfiles reads them (in name order) after the      *)
(*                     loop, prep_entriesappend applies .cap/<name>, MergeLinkFiles, final  *)
(*                     stable sort with entrycmp                                            *)
(*   handlers/HandlerMultiplexer.py getHandler: stat BEFORE any filter, OSError swallowed,  *)
(*                     first handler with isrequestsecure() and canhandlerequest() wins,    *)
(*                     otherwise GopherExceptions.FileNotFound                              *)
(*   handlers/base.py  isrequestsecure: five forbidden substrings (NUL cannot be in a name) *)
(*                                                                                          *)
(* One action per environment interaction: ListDir (the OS chooses the enumeration order),  *)
(* FilterStep (one name; UMN remembers the link files it meets), ReadLinks (UMN reads the   *)
(* link files), SortNames, ResolveStep (one child: stat through the handler chain, content  *)
(* sniffing; can fault), MergeLinks, FinalSort, Finish.  Every action applies a pure        *)
(* per-step operator to the pipeline record `p`; the same operators, folded, give           *)
(* Pipeline(d, o), used by OrderFree (all enumeration orders) and by the trace              *)
(* specifications (design level).                                                           *)
(*                                                                                          *)
(* Deviations of the code from the property are modelled and NAMED by constants; FALSE is   *)
(* the tree as it was pinned (before the fixes), TRUE the tree since:                       *)
(*   SkipUnservable = FALSE  prep_entries lets FileNotFound / OSError of one child escape   *)
(*                           (and UMN opens dot-named special files unguarded)       [C12]  *)
(*   SortedLinks    = FALSE  link files are read in OS enumeration order             [C07]  *)
(* The checked configurations use TRUE; the *_pinned configurations (and the witness runs   *)
(* of the harnesses) show that TLC finds both defects in the model of the code as it was.   *)
EXTENDS Text, Integers, FiniteSets

CONSTANTS
    IgnorePatterns,   \* B1: pattern id -> the ignore pattern as DATA: sequence of alternatives
                      \*     [lit : string, any : set of positions of an unescaped '.', end : BOOLEAN ($)]
    SkipUnservable,   \* TRUE: one unservable child is skipped (since 6c16d15/3517cd4); FALSE: it aborts the listing
    SortedLinks,      \* TRUE: the link files met by the filter loop are read in name order afterwards (5b6ecc2);
                      \* FALSE: in the order the OS enumerated them (before)
    EaExts,           \* B1: sequence of the sidecar extensions of [GopherEntry] eaexts (".abstract", ...)
    DotRuleAll        \* TRUE: literal reading - dot-files are never visible, whatever the handler;
                      \* FALSE: only UMNDirHandler hides dot-files (the documented configuration semantics)

VARIABLES
    d,      \* the directory being listed (input; never changes):
            \*   [sb : selector base ("" for the root), handler : "umn" | "dir", ign : pattern id,
            \*    sniff : [mbox, html : BOOLEAN] (content-sniffing handlers in the chain, B1),
            \*    kids : set of Kid]
    raw,    \* the enumeration as the filter loop sees it
    pc,     \* "start" | "filter" | "links" | "sort" | "resolve" | "merge" | "fsort" | "finish" | "done"
    j,      \* loop index (filter loop over raw, resolve loop over p.files)
    p       \* pipeline record [files, lnames, links, ents, out]

dvars == <<d, raw, pc, j, p>>

(* Kid   = [name, kind : "file"|"dir"|"dirabs"|"dangling"|"loop"|"thrufile"|"fifo"|"socket", *)
(*          fault : "none"|"vanish1"|"vanish2"|"estat"|"eopen"|"esub",                      *)
(*          errno : "" | "EACCES" | "EIO" | "ENAMETOOLONG" ... (of an injected fault),      *)
(*          capx : BOOLEAN  (a .cap/<name> file with Type=X exists),                        *)
(*          blocks : sequence of Block (content of a link file; <<>> otherwise)]            *)
(* Block = [merge : BOOLEAN (Path=./tgt), tgt, title ("" = no Name=), num (0 = no Numb=),   *)
(*          x : BOOLEAN (Type=X), host ("" = this server)]                                  *)
(* (a second Type=X block for an already hidden entry is harmless since fix 1fe5e21)        *)
(* kind: dirabs = a directory that contains a DIRECTORY named `.abstract` (side-car-shaped);  *)
(* loop = symlink to itself (stat: ELOOP); thrufile = symlink through a regular file (stat:  *)
(* ENOTDIR); dangling = symlink to nothing (ENOENT).  esub = the child's own stat works but   *)
(* every probe of a path UNDER it (child/gophermap, child/new, child/cur) fails with errno.    *)
(* fault: vanish1 = deleted after enumeration, before the first inspection; vanish2 =       *)
(* deleted after the multiplexer's stat, before a handler opens it; estat = stat fails      *)
(* with EACCES; eopen = open fails with EACCES.                                             *)
--------------------------------------------------------------------------------
(* Python string order (code points) for the printable ASCII the alphabets use.            *)
AsciiOrder == " !\"#$%&'()*+,-./0123456789:;<=>?@ABCDEFGHIJKLMNOPQRSTUVWXYZ[\\]^_`abcdefghijklmnopqrstuvwxyz{|}~"
OrdOf == [c \in {Ch(AsciiOrder, i) : i \in 1..Len(AsciiOrder)} |->
             CHOOSE i \in 1..Len(AsciiOrder) : Ch(AsciiOrder, i) = c]

RECURSIVE StrLessFrom(_, _, _)
StrLessFrom(a, b, i) ==
    IF i > Len(a) THEN i <= Len(b)
    ELSE IF i > Len(b) THEN FALSE
    ELSE IF Ch(a, i) = Ch(b, i) THEN StrLessFrom(a, b, i + 1)
    ELSE OrdOf[Ch(a, i)] < OrdOf[Ch(b, i)]
StrLess(a, b) == StrLessFrom(a, b, 1)

\* list.sort() on strings (stable insertion sort; any stable sort gives the same result)
RECURSIVE InsStr(_, _)
InsStr(s, x) == IF s = <<>> THEN <<x>>
                ELSE IF StrLess(x, Head(s)) THEN <<x>> \o s
                ELSE <<Head(s)>> \o InsStr(Tail(s), x)
RECURSIVE SortStrSeq(_)
SortStrSeq(s) == IF s = <<>> THEN <<>> ELSE InsStr(SortStrSeq(SubSeq(s, 1, Len(s) - 1)), s[Len(s)])

Range(s) == {s[i] : i \in DOMAIN s}
NoDupSeq(s) == \A a, b \in DOMAIN s : s[a] = s[b] => a = b
--------------------------------------------------------------------------------
(* re.search(ignorepatt, s) for the regex subset of the shipped pattern.                   *)
AltMatchesAt(a, s, i) ==
    /\ i >= 1 /\ i + Len(a.lit) - 1 <= Len(s)
    /\ IF a.any = {} THEN SubSeq(s, i, i + Len(a.lit) - 1) = a.lit
       ELSE \A q \in 1..Len(a.lit) : q \in a.any \/ Ch(s, i + q - 1) = Ch(a.lit, q)
    /\ a.end => i + Len(a.lit) - 1 = Len(s)
AltMatches(a, s) ==
    IF a.end THEN AltMatchesAt(a, s, Len(s) - Len(a.lit) + 1)
    ELSE \E i \in 1..(Len(s) - Len(a.lit) + 1) : AltMatchesAt(a, s, i)
PatternMatch(alts, s) == \E k \in DOMAIN alts : AltMatches(alts[k], s)

\* handlers/base.py isrequestsecure (a file name cannot contain NUL or "/")
BadSubstrings == {"./", "..", "//", ".\\", "\\\\"}
IsSecure(s) == (\A bad \in BadSubstrings : ~Contains(s, bad)) /\ ~EndsWith(s, "/.")
--------------------------------------------------------------------------------
Names(dd)      == {k.name : k \in dd.kids}
KidOf(dd, n)   == CHOOSE k \in dd.kids : k.name = n
PathOf(dd, n)  == dd.sb \o "/" \o n                 \* selectorbase + "/" + file
Ignored(dd, n) == PatternMatch(IgnorePatterns[dd.ign], PathOf(dd, n))
IsDot(n)       == Len(n) > 0 /\ Ch(n, 1) = "."
IsHtmlName(n)  == EndsWith(n, ".html") \/ EndsWith(n, ".htm")
WellFormedDir(dd) == \A a, b \in dd.kids : a.name = b.name => a = b

\* pygopherd.fileext.extstrip under extstrip = nonencoded, for the extensions of the alphabets
StripExts == {".txt", ".pdf", ".html", ".gif", ".cache", ".cap"}   \* known to conf/mime.types
ExtStrip(n) == IF \E e \in StripExts : EndsWith(n, e)
               THEN LET e == CHOOSE x \in StripExts : EndsWith(n, x) IN SubSeq(n, 1, Len(n) - Len(e))
               ELSE n

\* which environment calls touch the child's own path while the parent is listed
LinkReadable(k) == k.kind = "file" /\ k.fault \notin {"vanish1", "vanish2", "eopen"}
BrokenLinks     == {"dangling", "loop", "thrufile"}
IsDirKind(k)    == k.kind \in {"dir", "dirabs"}
StatOK(k)       == k.kind \notin BrokenLinks /\ k.fault \notin {"vanish1", "estat"}
OpenFails(k)    == k.fault \in {"vanish2", "eopen"}
NTouches(dd, k) ==      \* non-dot child: stat by the multiplexer (+ open by a sniffing handler)
    IF k.kind = "file" /\ StatOK(k) /\ IsSecure(PathOf(dd, k.name))
       /\ ((dd.sniff.html /\ IsHtmlName(k.name)) \/ dd.sniff.mbox)
    THEN 2 ELSE 1

NoOut == [kind |-> "none", listing |-> <<>>, culprit |-> ""]
P0    == [files |-> <<>>, lnames |-> <<>>, links |-> <<>>, ents |-> <<>>, out |-> NoOut]
Abort(pp, kind, n) == [pp EXCEPT !.out = [kind |-> kind, listing |-> <<>>, culprit |-> n]]
Running(pp) == pp.out.kind = "none"

\* prep_initfiles loop body (DirHandler / UMNDirHandler.prep_initfiles_canaddfile)
FilterOne(dd, n, pp) ==
    LET k == KidOf(dd, n) IN
    IF ~Running(pp) THEN pp
    ELSE IF Ignored(dd, n) THEN pp
    ELSE IF dd.handler = "umn" /\ IsDot(n)
    THEN IF SkipUnservable
         THEN \* since 3517cd4: only a regular dot-file (vfs.isfile) is a link file; it is remembered, never listed
              (IF k.kind = "file" /\ StatOK(k) THEN [pp EXCEPT !.lnames = Append(@, n)] ELSE pp)
         ELSE \* before: every dot-named non-directory was opened as a link file on the spot
              (IF IsDirKind(k) /\ StatOK(k) THEN pp
               ELSE IF LinkReadable(k) THEN [pp EXCEPT !.lnames = Append(@, n)]
               ELSE Abort(pp, IF k.kind = "fifo" /\ StatOK(k) THEN "hang" ELSE "error", n))
    ELSE [pp EXCEPT !.files = Append(@, n)]

\* UMNDirHandler.prep_initfiles after the loop: read the link files (an unreadable one is skipped)
RECURSIVE BlocksOf(_, _)
BlocksOf(dd, ns) == IF ns = <<>> THEN <<>>
                    ELSE (IF LinkReadable(KidOf(dd, Head(ns))) THEN KidOf(dd, Head(ns)).blocks ELSE <<>>) \o BlocksOf(dd, Tail(ns))
ReadLinksOp(dd, pp, sl) ==
    IF ~Running(pp) THEN pp
    ELSE [pp EXCEPT !.links = BlocksOf(dd, IF sl THEN SortStrSeq(pp.lnames) ELSE pp.lnames)]

\* class of the handler the multiplexer finds for a child ("none": FileNotFound)
HandlerClass(dd, k) ==
    IF ~StatOK(k) \/ ~IsSecure(PathOf(dd, k.name)) THEN "none"
    ELSE IF IsDirKind(k) THEN "dir"
    ELSE IF k.kind = "file" THEN (IF dd.sniff.html /\ IsHtmlName(k.name) THEN "html" ELSE "file")
    ELSE "none"

FsEntry(dd, n, cls) ==
    [sel |-> PathOf(dd, n),
     title |-> IF dd.handler = "umn" /\ cls \in {"file", "html"} THEN ExtStrip(n) ELSE n,
     num |-> 0, fs |-> TRUE]

\* prep_entries loop body
ResolveOne(dd, n, pp) ==
    LET k == KidOf(dd, n)
        cls == HandlerClass(dd, k)
    IN IF ~Running(pp) THEN pp
       ELSE IF cls = "none" THEN (IF SkipUnservable THEN pp ELSE Abort(pp, "notfound", n))
       ELSE IF cls = "html" /\ OpenFails(k) THEN (IF SkipUnservable THEN pp ELSE Abort(pp, "error", n))
       ELSE IF dd.handler = "umn" /\ k.capx THEN pp                     \* .cap/<name>: Type=X
       ELSE [pp EXCEPT !.ents = Append(@, FsEntry(dd, n, cls))]

\* MergeLinkFiles loop body; dict = selectors of the entries obtained by walking the directory
MergeOne(dd, dict, E, b) ==
    LET sel == IF b.merge THEN dd.sb \o "/" \o b.tgt ELSE b.tgt
        le  == [sel |-> sel, title |-> b.title, num |-> b.num, fs |-> FALSE]
    IN IF ~b.merge \/ sel \notin dict THEN Append(E, le)
       ELSE IF b.x THEN SelectSeq(E, LAMBDA e : ~(e.fs /\ e.sel = sel))
       ELSE [i \in DOMAIN E |->
               IF E[i].fs /\ E[i].sel = sel
               THEN [E[i] EXCEPT !.title = IF b.title = "" THEN @ ELSE b.title,
                                 !.num = IF b.num = 0 THEN @ ELSE b.num]   \* only fields the block sets (fix 7c19da0)
               ELSE E[i]]
RECURSIVE MergeFold(_, _, _, _)
MergeFold(dd, dict, E, bs) ==
    IF bs = <<>> THEN E ELSE MergeFold(dd, dict, MergeOne(dd, dict, E, Head(bs)), Tail(bs))
MergeAll(dd, pp) ==
    IF ~Running(pp) \/ dd.handler # "umn" THEN pp
    ELSE [pp EXCEPT !.ents = MergeFold(dd, {pp.ents[i].sel : i \in DOMAIN pp.ents}, pp.ents, pp.links)]

\* UMNDirHandler.entrycmp(a, b) < 0 (every modelled entry has a title)
Sgn(x) == IF x = 0 THEN 0 ELSE IF x < 0 THEN -1 ELSE 1
EntryLess(a, b) ==
    IF a.num = b.num THEN StrLess(a.title, b.title)
    ELSE IF Sgn(a.num) = Sgn(b.num) THEN a.num < b.num
    ELSE a.num > b.num
RECURSIVE InsEnt(_, _)
InsEnt(s, x) == IF s = <<>> THEN <<x>>
                ELSE IF EntryLess(x, Head(s)) THEN <<x>> \o s
                ELSE <<Head(s)>> \o InsEnt(Tail(s), x)
RECURSIVE SortEnts(_)
SortEnts(s) == IF s = <<>> THEN <<>> ELSE InsEnt(SortEnts(SubSeq(s, 1, Len(s) - 1)), s[Len(s)])
FinalSortOp(dd, pp) ==
    IF ~Running(pp) \/ dd.handler # "umn" THEN pp ELSE [pp EXCEPT !.ents = SortEnts(@)]

FinishOp(pp) ==
    IF ~Running(pp) THEN pp
    ELSE [pp EXCEPT !.out = [kind |-> "ok", culprit |-> "",
                             listing |-> [i \in DOMAIN pp.ents |-> [sel |-> pp.ents[i].sel, title |-> pp.ents[i].title]]]]

IsEnumOf(dd, o) == Range(o) = Names(dd) /\ NoDupSeq(o)

RECURSIVE FilterFold(_, _, _)
FilterFold(dd, ns, pp) == IF ns = <<>> THEN pp ELSE FilterFold(dd, Tail(ns), FilterOne(dd, Head(ns), pp))
RECURSIVE ResolveFold(_, _, _)
ResolveFold(dd, ns, pp) == IF ns = <<>> THEN pp ELSE ResolveFold(dd, Tail(ns), ResolveOne(dd, Head(ns), pp))
SortNamesOp(pp) == [pp EXCEPT !.files = SortStrSeq(@)]

\* the whole listing request as a function of the directory and the OS enumeration order
\* (sl: link files read in name order - since 5b6ecc2 - or in enumeration order - before)
PipelineM(dd, o, sl) ==
    LET p1 == ReadLinksOp(dd, FilterFold(dd, o, P0), sl)
        p2 == SortNamesOp(p1)
        p3 == ResolveFold(dd, p2.files, p2)
    IN FinishOp(FinalSortOp(dd, MergeAll(dd, p3))).out
Pipeline(dd, o) == PipelineM(dd, o, SortedLinks)

\* populating the entry of a regular file looks for its sidecars <name><ext>: a child of that very name is touched
SidecarTouches(dd, n) ==
    IF HandlerClass(dd, KidOf(dd, n)) \in {"file", "html"}
    THEN SelectSeq([i \in DOMAIN EaExts |-> n \o EaExts[i]], LAMBDA x : x \in Names(dd))
    ELSE <<>>
\* names whose own path the pipeline touches (stat/open), up to an abort: the dot-names the filter loop
\* inspects (enumeration order), then the kept names (sorted) with their sidecars
RECURSIVE TouchFold(_, _, _, _)
TouchFold(dd, ns, pp, acc) ==
    IF ns = <<>> \/ ~Running(pp) THEN acc
    ELSE TouchFold(dd, Tail(ns), ResolveOne(dd, Head(ns), pp), Append(acc, Head(ns)) \o SidecarTouches(dd, Head(ns)))
RECURSIVE DotTouchFold(_, _, _, _)
DotTouchFold(dd, ns, pp, acc) ==
    IF ns = <<>> \/ ~Running(pp) THEN acc
    ELSE DotTouchFold(dd, Tail(ns), FilterOne(dd, Head(ns), pp),
                      IF dd.handler = "umn" /\ IsDot(Head(ns)) /\ ~Ignored(dd, Head(ns)) THEN Append(acc, Head(ns)) ELSE acc)
RECURSIVE FirstOccurrences(_, _)
FirstOccurrences(s, acc) == IF s = <<>> THEN acc
                            ELSE FirstOccurrences(Tail(s), IF Head(s) \in Range(acc) THEN acc ELSE Append(acc, Head(s)))
\* the order in which the children are FIRST inspected
PredictedTouches(dd, o) ==
    LET p1 == ReadLinksOp(dd, FilterFold(dd, o, P0), SortedLinks)
        p2 == SortNamesOp(p1)
    IN FirstOccurrences(TouchFold(dd, p2.files, p2, DotTouchFold(dd, o, P0, <<>>)), <<>>)

\* design-level expectation of the trace specifications: what the code does is what the model predicts for
\* link files read in name order OR in enumeration order (so the same trace spec fits the tree before and after 5b6ecc2)
Expect(dd, o) ==
    [touches |-> {PredictedTouches(dd, o)},
     outs    |-> {[kind |-> PipelineM(dd, o, sl).kind, listing |-> PipelineM(dd, o, sl).listing] : sl \in BOOLEAN}]
NoExpect == [touches |-> {}, outs |-> {}]
--------------------------------------------------------------------------------
(* The state machine.                                                                       *)
DirInit(dd) == d = dd /\ raw = <<>> /\ pc = "start" /\ j = 0 /\ p = P0

\* a listing request starts: the OS hands out the names in an order of its choosing
\* (from "done": the next request for the same directory; nothing is kept between requests
\* because the directory cache is switched off in every configuration driven here)
ListDir(o) ==
    /\ pc \in {"start", "done"} /\ IsEnumOf(d, o)
    /\ raw' = o /\ pc' = "filter" /\ j' = 1 /\ p' = P0 /\ UNCHANGED d

FilterStep ==
    /\ pc = "filter"
    /\ IF ~Running(p) THEN pc' = "done" /\ UNCHANGED <<d, raw, j, p>>
       ELSE IF j <= Len(raw) THEN p' = FilterOne(d, raw[j], p) /\ j' = j + 1 /\ UNCHANGED <<d, raw, pc>>
       ELSE pc' = "links" /\ UNCHANGED <<d, raw, j, p>>

ReadLinks ==
    /\ pc = "links" /\ p' = ReadLinksOp(d, p, SortedLinks) /\ pc' = "sort" /\ UNCHANGED <<d, raw, j>>

SortNames ==
    /\ pc = "sort" /\ p' = SortNamesOp(p) /\ pc' = "resolve" /\ j' = 1 /\ UNCHANGED <<d, raw>>

ResolveStep ==
    /\ pc = "resolve"
    /\ IF ~Running(p) THEN pc' = "done" /\ UNCHANGED <<d, raw, j, p>>
       ELSE IF j <= Len(p.files) THEN p' = ResolveOne(d, p.files[j], p) /\ j' = j + 1 /\ UNCHANGED <<d, raw, pc>>
       ELSE pc' = "merge" /\ UNCHANGED <<d, raw, j, p>>

MergeLinks == pc = "merge" /\ p' = MergeAll(d, p) /\ pc' = "fsort" /\ UNCHANGED <<d, raw, j>>
FinalSort  == pc = "fsort" /\ p' = FinalSortOp(d, p) /\ pc' = "finish" /\ UNCHANGED <<d, raw, j>>
Finish     == pc = "finish" /\ p' = FinishOp(p) /\ pc' = "done" /\ UNCHANGED <<d, raw, j>>

DirStep == FilterStep \/ ReadLinks \/ SortNames \/ ResolveStep \/ MergeLinks \/ FinalSort \/ Finish
--------------------------------------------------------------------------------
(* The specification of what must be listed.                                                *)
DotHides(dd) == DotRuleAll \/ dd.handler = "umn"

LinkFiles(dd) == {k \in dd.kids : dd.handler = "umn" /\ IsDot(k.name) /\ ~Ignored(dd, k.name) /\ LinkReadable(k)}
MetaHidden(dd, n) ==
    /\ dd.handler = "umn"
    /\ \/ KidOf(dd, n).capx
       \/ \E f \in LinkFiles(dd) : \E i \in DOMAIN f.blocks :
              f.blocks[i].merge /\ f.blocks[i].tgt = n /\ f.blocks[i].x

Visible(dd) == {n \in Names(dd) : ~Ignored(dd, n) /\ ~(DotHides(dd) /\ IsDot(n)) /\ ~MetaHidden(dd, n)}

Unservable(dd, k) == k.kind \notin {"file", "dir", "dirabs"} \/ k.fault # "none" \/ ~IsSecure(PathOf(dd, k.name))
Healthy(dd) == {n \in Visible(dd) : ~Unservable(dd, KidOf(dd, n))}

ListedNames(dd, L) == {n \in Names(dd) : \E i \in DOMAIN L : L[i].sel = PathOf(dd, n)}
Copies(dd, L, n)   == Cardinality({i \in DOMAIN L : L[i].sel = PathOf(dd, n)})

\* selectors that look like children of this directory
LooksLocal(dd, s) == StartsWith(s, dd.sb \o "/") /\ ~Contains(SubSeq(s, Len(dd.sb) + 2, Len(s)), "/")
LinkAdded(dd) == UNION {{IF f.blocks[i].merge THEN dd.sb \o "/" \o f.blocks[i].tgt ELSE f.blocks[i].tgt
                            : i \in DOMAIN f.blocks} : f \in LinkFiles(dd)}

\* C07 Exact: the first failing sub-clause, or "ok"
ExactClause(dd, L) ==
    LET listed == ListedNames(dd, L) IN
    IF Visible(dd) \ listed # {} THEN "Exact.Missing"
    ELSE IF \E n \in listed : Copies(dd, L, n) > 1 THEN "Exact.Duplicate"
    ELSE IF \E n \in listed : Ignored(dd, n) THEN "Exact.IgnoredListed"
    ELSE IF \E n \in listed : IsDot(n) /\ DotHides(dd) THEN "Exact.DotFileListed"
    ELSE IF \E n \in listed : MetaHidden(dd, n) THEN "Exact.HiddenListed"
    ELSE IF \E i \in DOMAIN L : LooksLocal(dd, L[i].sel) /\ L[i].sel \notin LinkAdded(dd)
                                /\ ~(\E n \in Names(dd) : L[i].sel = PathOf(dd, n)) THEN "Exact.Phantom"
    ELSE "ok"

\* C12 Robust: the first failing sub-clause, or "ok"
\* menu items DEFINED BY the readable link files (blocks that do not hide): they are entries of the listing as well, and
\* an unreadable link file may take away only its own
HealthyLinkItems(dd) ==
    UNION {{IF f.blocks[i].merge THEN dd.sb \o "/" \o f.blocks[i].tgt ELSE f.blocks[i].tgt
               : i \in {q \in DOMAIN f.blocks : ~f.blocks[q].x /\ ~(f.blocks[q].merge /\ f.blocks[q].tgt \in Names(dd))}}
           : f \in LinkFiles(dd)}
LinkItemsListed(dd, L) == HealthyLinkItems(dd) \subseteq {L[i].sel : i \in DOMAIN L}

RobustClause(dd, out) ==
    IF out.kind # "ok" THEN "Robust.Answered"
    ELSE IF ~(Healthy(dd) \subseteq ListedNames(dd, out.listing)) THEN "Robust.HealthyListed"
    ELSE IF ~LinkItemsListed(dd, out.listing) THEN "Robust.HealthyListed"
    ELSE IF ~(ListedNames(dd, out.listing) \subseteq Visible(dd)) THEN "Robust.OnlyVisible"
    ELSE "ok"

\* invariants of the design model
ModelExact     == pc = "done" /\ p.out.kind = "ok" => ExactClause(d, p.out.listing) = "ok"
ModelRobust    == pc = "done" => RobustClause(d, p.out) = "ok"
\* the stepwise actions compute exactly the folded pipeline
StepsAreFolds  == pc = "done" => p.out = Pipeline(d, raw)
=============================================================================
