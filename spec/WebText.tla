------------------------------- MODULE WebText -------------------------------
(* Percent quoting, reference resolution and request construction for the URL front ends,   *)
(* over ASCII text.  Re-stated from spec/Links.tla (C05: PctQuote/PctUnquote, FormDecode,    *)
(* SlashNorm, Target, Follow, GemSplit, HttpSearch - same definitions, minus the byte-class  *)
(* characters and the content-tree part) so that the XWEB modules carry no constants of the  *)
(* C05/C06 models.                                                                            *)
EXTENDS Naturals, Sequences, FiniteSets, TLC, Text

CONSTANTS WapTop,         \* B1: [protocols.wap.WAPProtocol] waptop
          QueryPrefix,    \* B1: GeminiProtocol.query_prefix
          ServerName      \* server.server_name

cTAB  == "\t"
cCR   == "\r"
cLF   == "\n"
cCRLF == "\r\n"

(* urllib.parse.quote(s) (safe = "/") and unquote(s) *)
SafeChars == {"a","b","c","d","e","f","g","h","i","j","k","l","m","n","o","p","q","r","s","t","u","v","w","x","y","z",
              "A","B","C","D","E","F","G","H","I","J","K","L","M","N","O","P","Q","R","S","T","U","V","W","X","Y","Z",
              "0","1","2","3","4","5","6","7","8","9","_",".","-","~","/"}
Coded == {" ", "!", "\"", "#", "$", "%", "&", "'", "(", ")", "*", "+", ",", ":", ";", "<", "=", ">", "?", "@", "[", "\\", "]", "{", "|", "}", "^", "`", "\t", "\n", "\r"}
CodeOf(c) ==
    CASE
         c = " " -> "20"
      [] c = "!" -> "21"
      [] c = "\"" -> "22"
      [] c = "#" -> "23"
      [] c = "$" -> "24"
      [] c = "%" -> "25"
      [] c = "&" -> "26"
      [] c = "'" -> "27"
      [] c = "(" -> "28"
      [] c = ")" -> "29"
      [] c = "*" -> "2A"
      [] c = "+" -> "2B"
      [] c = "," -> "2C"
      [] c = ":" -> "3A"
      [] c = ";" -> "3B"
      [] c = "<" -> "3C"
      [] c = "=" -> "3D"
      [] c = ">" -> "3E"
      [] c = "?" -> "3F"
      [] c = "@" -> "40"
      [] c = "[" -> "5B"
      [] c = "\\" -> "5C"
      [] c = "]" -> "5D"
      [] c = "{" -> "7B"
      [] c = "|" -> "7C"
      [] c = "}" -> "7D"
      [] c = "^" -> "5E"
      [] c = "`" -> "60"
      [] c = "\t" -> "09"
      [] c = "\n" -> "0A"
      [] c = "\r" -> "0D"
Decodable(h) == h \in {"09", "0A", "0D", "0a", "0d", "20", "21", "22", "23", "24", "25", "26", "27", "28", "29", "2A", "2B", "2C", "2D", "2E", "2F", "2a", "2b", "2c", "2d", "2e", "2f", "30", "31", "3A", "3B", "3C", "3D", "3E", "3F", "3a", "3b", "3c", "3d", "3e", "3f", "40", "41", "5B", "5C", "5D", "5E", "5F", "5b", "5c", "5d", "5e", "5f", "60", "61", "62", "67", "7B", "7C", "7D", "7E", "7b", "7c", "7d", "7e"}
DecodeOf(h) ==
    CASE
         h = "09" -> "\t"
      [] h = "0A" -> "\n"
      [] h = "0D" -> "\r"
      [] h = "0a" -> "\n"
      [] h = "0d" -> "\r"
      [] h = "20" -> " "
      [] h = "21" -> "!"
      [] h = "22" -> "\""
      [] h = "23" -> "#"
      [] h = "24" -> "$"
      [] h = "25" -> "%"
      [] h = "26" -> "&"
      [] h = "27" -> "'"
      [] h = "28" -> "("
      [] h = "29" -> ")"
      [] h = "2A" -> "*"
      [] h = "2B" -> "+"
      [] h = "2C" -> ","
      [] h = "2D" -> "-"
      [] h = "2E" -> "."
      [] h = "2F" -> "/"
      [] h = "2a" -> "*"
      [] h = "2b" -> "+"
      [] h = "2c" -> ","
      [] h = "2d" -> "-"
      [] h = "2e" -> "."
      [] h = "2f" -> "/"
      [] h = "30" -> "0"
      [] h = "31" -> "1"
      [] h = "3A" -> ":"
      [] h = "3B" -> ";"
      [] h = "3C" -> "<"
      [] h = "3D" -> "="
      [] h = "3E" -> ">"
      [] h = "3F" -> "?"
      [] h = "3a" -> ":"
      [] h = "3b" -> ";"
      [] h = "3c" -> "<"
      [] h = "3d" -> "="
      [] h = "3e" -> ">"
      [] h = "3f" -> "?"
      [] h = "40" -> "@"
      [] h = "41" -> "A"
      [] h = "5B" -> "["
      [] h = "5C" -> "\\"
      [] h = "5D" -> "]"
      [] h = "5E" -> "^"
      [] h = "5F" -> "_"
      [] h = "5b" -> "["
      [] h = "5c" -> "\\"
      [] h = "5d" -> "]"
      [] h = "5e" -> "^"
      [] h = "5f" -> "_"
      [] h = "60" -> "`"
      [] h = "61" -> "a"
      [] h = "62" -> "b"
      [] h = "67" -> "g"
      [] h = "7B" -> "{"
      [] h = "7C" -> "|"
      [] h = "7D" -> "}"
      [] h = "7E" -> "~"
      [] h = "7b" -> "{"
      [] h = "7c" -> "|"
      [] h = "7d" -> "}"
      [] h = "7e" -> "~"
RECURSIVE PctQuote(_)
PctQuote(s) == IF s = "" THEN ""
               ELSE LET c == Ch(s, 1) IN
                    (IF c \in SafeChars THEN c ELSE IF c \in Coded THEN "%" \o CodeOf(c) ELSE "%3F") \o PctQuote(Tail1(s))
RECURSIVE PctUnquote(_)
PctUnquote(s) == IF s = "" THEN ""
                 ELSE IF Ch(s, 1) = "%" /\ Len(s) >= 3 /\ Decodable(SubSeq(s, 2, 3))
                      THEN DecodeOf(SubSeq(s, 2, 3)) \o PctUnquote(SubSeq(s, 4, Len(s)))
                      ELSE Ch(s, 1) \o PctUnquote(Tail1(s))
QuoteLemma(s) == PctUnquote(PctQuote(s)) = s
\* parse_qs value decoding: "+" is a blank, then unquote; quote_plus as a form-submitting client encodes
FormDecode(s) == PctUnquote(ReplaceAll(s, "+", " "))
FormEncode(s) == ReplaceAll(ReplaceAll(PctQuote(s), "/", "%2F"), "%20", "+")
QueryEncode(s) == ReplaceAll(PctQuote(s), "/", "%2F")          \* query component as a Gemini client sends it

\* protocols/base.py slashnormalize (since fix 5eb47a4: every trailing slash)
SlashNorm(s) == LET a == RStripSet(s, {"/"}) IN IF Len(a) = 0 \/ Ch(a, 1) # "/" THEN "/" \o a ELSE a

IsUrlSel(sel) == StartsWith(sel, "URL:") \/ StartsWith(sel, "/URL:")         \* re.match("(/|)URL:", sel)
UrlOf(sel) == IF StartsWith(sel, "/") THEN SubSeq(sel, 6, Len(sel)) ELSE SubSeq(sel, 5, Len(sel))
HasScheme(h) == LET i == Find(h, ":") IN i > 1 /\ \A j \in 1..(i - 1) : Ch(h, j) \notin {"/", "?", "#"}

\* renderobjinfo of http.py (H, HS), wap.py (W), gemini.py (M) for an entry of THIS server (no host, no port):
\* the reference a row carries; info rows carry none
Target(p, e) ==
    IF e.type = "i" THEN [href |-> ""]
    ELSE LET q    == PctQuote(e.sel)
             loc  == IF p = "M" THEN (IF e.type = "7" THEN QueryPrefix ELSE "") \o (IF q = "" THEN "/" ELSE q)
                     ELSE (IF q = "" THEN "/" ELSE q)
             url0 == IF IsUrlSel(e.sel) THEN UrlOf(e.sel) ELSE loc
         IN [href |-> IF p = "W" /\ StartsWith(url0, "/") THEN WapTop \o url0 ELSE url0]

DirPart(b) == LET ps == {i \in 1..Len(b) : Ch(b, i) = "/"} IN
              IF ps = {} THEN "/" ELSE SubSeq(b, 1, CHOOSE i \in ps : \A j \in ps : j <= i)
RefPath(base, href) == IF StartsWith(href, "/") THEN href ELSE DirPart(base) \o href

\* a request: first line (with CRLF), what follows it, transport
Rq(line, rest, tls) == [line |-> line, rest |-> rest, tls |-> tls]
\* the request a client of p sends for reference href; q = string typed into a search item ("" = none)
Follow(p, href, q) ==
    IF p = "M" THEN Rq("gemini://" \o ServerName \o href \o (IF q # "" THEN "?" \o QueryEncode(q) ELSE "") \o cCRLF, "", TRUE)
    ELSE Rq("GET " \o href \o (IF q # "" THEN "?searchrequest=" \o FormEncode(q) ELSE "") \o " HTTP/1.0" \o cCRLF, cCRLF, p = "HS")

CutAt(s, cs) == LET ps == {i \in 1..Len(s) : Ch(s, i) \in cs} IN
                IF ps = {} THEN Len(s) + 1 ELSE CHOOSE i \in ps : \A j \in ps : i <= j
\* urllib.parse.urlparse of "gemini://authority/path?query#fragment"
GemSplit(url) ==
    LET r    == SubSeq(url, Len("gemini://") + 1, Len(url))
        a    == CutAt(r, {"/", "?", "#"})
        r2   == SubSeq(r, a, Len(r))
        nf   == SubSeq(r2, 1, CutAt(r2, {"#"}) - 1)
        qpos == CutAt(nf, {"?"})
    IN [path |-> SubSeq(nf, 1, qpos - 1), query |-> SubSeq(nf, qpos + 1, Len(nf))]

\* searchrequest of an HTTP query string (parse_qs: blank values dropped, first value wins)
RECURSIVE FirstSearch(_)
FirstSearch(pairs) ==
    IF Len(pairs) = 0 THEN ""
    ELSE LET kv == pairs[1]
             i  == Find(kv, "=")
         IN IF i > 0 /\ FormDecode(SubSeq(kv, 1, i - 1)) = "searchrequest" /\ i < Len(kv)
            THEN FormDecode(SubSeq(kv, i + 1, Len(kv)))
            ELSE FirstSearch(Tail(pairs))
HttpSearch(qs) == FirstSearch(Split(qs, "&"))
\* path of an HTTP request line: [arg.strip() for arg in request.split(" ")][1]
HttpPathOf(line) == Strip(Split(line, " ")[2])
=============================================================================
