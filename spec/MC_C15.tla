------------------------------- MODULE MC_C15 -------------------------------
(* Bounded design model for C15.  TLC enumerates the abstract cases                         *)
(*   item kind x sidecar combination / sidecar content / size x request form                *)
(* computes for each what the code (as transcribed in GopherPlus) puts into the blocks, and *)
(* checks the property clauses on that.  Every state with st = "done" is one replay case    *)
(* for the real server (binding B2): the harness writes the item and its sidecars, sends    *)
(* the request, lexes the answer and lets TraceC15 judge it.                                *)
EXTENDS GopherPlus, MC_C15_B1

CONSTANTS MaxLines,     \* sidecar contents: up to this many lines
          Tokens,       \* line alphabet
          Kinds,        \* item kinds that can have sidecars: subset of {"file","dir","zipfile","zipdir","mapfile","mapdir"}
          ContentKinds, \* item kinds over which sidecar CONTENTS are enumerated
          ContentIdx,   \* indexes into EaExts of the sidecars whose content is enumerated
          MsgSizes,     \* approximate body sizes of mail messages
          Exts, Sizes   \* file-name extensions / document sizes for the +VIEWS and + families

\* line alphabets (defined here: TLC cfg files do not interpret \t inside strings)
\*   a | empty | leading SP | trailing SP | + and : | TAB | SP only | a forged +INFO header
C15_Tokens == {"a", "", " a", "a ", "+ADMIN:", "a\tb", " ", "+INFO: 0x"}
C15_TokensFF == C15_Tokens \cup {"a\fb"}          \* + form feed (not printable: SplitlinesExtra)

VARIABLES c, st, out
mcvars == <<c, st, out>>

NExt == Len(EaExts)
Absent == [p |-> FALSE, lines |-> <<>>, nl |-> TRUE]
NoSc == [i \in 1..NExt |-> Absent]

DefaultContent(i) == [p |-> TRUE, lines |-> <<"text of " \o EaExts[i].name, "  second line">>, nl |-> TRUE]

BigLines == [i \in 1..620 |-> "line " \o ToString(i) \o " ........................"]     \* about 22 KB
Forms == {"bang", "dollar"}
AllForms == Forms \cup {"plus"}
FileKinds == Kinds \cap {"file", "zipfile"}
ExtFor(k) == IF k \in {"file", "zipfile"} THEN "q1" ELSE ""
\* body: what the document's bytes are made of - "ascii", "8bit" (UTF-8 text, for messages with a declared charset and
\* Content-Transfer-Encoding: 8bit), "8bithdr" (messages only: a raw 8-bit Subject header)
CaseOf(fam, k, e, n, f, sc) == [fam |-> fam, kind |-> k, ext |-> e, size |-> n, form |-> f, sc |-> sc, body |-> "ascii", link |-> "none"]
DocCase(fam, k, e, n, f, b) == [fam |-> fam, kind |-> k, ext |-> e, size |-> n, form |-> f, sc |-> NoSc, body |-> b, link |-> "none"]

\* the case families, enumerated by nested quantifiers (no big set is built)
InitCase ==
    \/ \E k \in Kinds, f \in Forms, S \in SUBSET (1..NExt) :
          c = CaseOf("subsets", k, ExtFor(k), 6, f, [i \in 1..NExt |-> IF i \in S THEN DefaultContent(i) ELSE Absent])
    \/ \E k \in ContentKinds, f \in Forms, j \in ContentIdx, n \in 0..MaxLines, b \in BOOLEAN :
          \E ls \in [1..n -> Tokens] :
             /\ WellFormedContent(ls, b) /\ (n = 0 => b)
             /\ c = CaseOf("content", k, ExtFor(k), 6, f,
                          [i \in 1..NExt |-> IF i = j THEN [p |-> TRUE, lines |-> ls, nl |-> b] ELSE Absent])
    \* items that have side-car files AND an entry in a link file / .cap file of their directory
    \/ \E k \in Kinds \cap {"file", "dir"}, f \in Forms, S \in SUBSET (1..NExt), lk \in LinkKinds \ {"none"} :
          c = [CaseOf("linked", k, ExtFor(k), 6, f, [i \in 1..NExt |-> IF i \in S THEN DefaultContent(i) ELSE Absent])
                  EXCEPT !.link = lk]
    \* documents of every size and make-up, through `!`, `$` and `+`
    \/ \E k \in FileKinds, e \in Exts, n \in Sizes, f \in AllForms, b \in {"ascii", "8bit"} : c = DocCase("size", k, e, n, f, b)
    \/ \E n \in Sizes, f \in AllForms, b \in {"ascii", "8bit"} : c = DocCase("size", "gzfile", "txt", n, f, b)
    \* virtual items: n is the approximate size of the message body
    \/ \E k \in MsgKinds, n \in MsgSizes, f \in AllForms, b \in {"ascii", "8bit", "8bithdr"} : c = DocCase("msg", k, "", n, f, b)
    \* menus, through all three forms: a `+` answer is judged whatever kind of item it is for
    \/ \E k \in MenuKinds \cap (Kinds \cup {"dir"}), f \in AllForms : c = DocCase("menu", k, "", 0, f, "ascii")
    \/ \E k \in FileKinds, f \in Forms :        \* one sidecar beyond the 20 KB readlines() hint (Cap20K)
          c = CaseOf("big", k, ExtFor(k), 6, f, [i \in 1..NExt |-> IF i = 1 THEN [p |-> TRUE, lines |-> BigLines, nl |-> TRUE] ELSE Absent])

Stripped(k, e) == k \in {"file", "zipfile", "gzfile"} /\ B1_ExtStrip # "none" /\ MimeOf(e) # ""   \* UMN.prep_entriesappend
SizeOf(x) == IF KnownSize(x.kind) THEN x.size ELSE -1
Front(s) == SubSeq(s, 1, Len(s) - 1)
Present(x) == {i \in 1..NExt : x.sc[i].p}

Init == InitCase /\ st = "new" /\ out = [names |-> <<>>, iblocks |-> <<>>, sblocks |-> <<>>, views |-> "", len |-> "",
                                            tags |-> [stripped |-> FALSE, lastblank |-> FALSE, printable |-> TRUE, capped |-> FALSE]]
Compute ==
    /\ st = "new" /\ st' = "done" /\ UNCHANGED c
    /\ out' = [names |-> CodeBlockNames(c.kind, c.sc, c.form, c.link),
               iblocks |-> ItemBlocks(c.kind, c.sc, c.form, c.link),
               sblocks |-> SidecarBlocks(c.kind, c.sc),
               views |-> ViewsLine(CodeMime(c.kind, c.ext), SizeOf(c)),
               len |-> LenHeader(SizeOf(c)),
               tags |-> [stripped |-> Stripped(c.kind, c.ext),
                         lastblank |-> \E i \in Present(c) : LastBlank(c.sc[i].lines),
                         printable |-> \A i \in Present(c) : Printable(c.sc[i].lines),
                         capped |-> \E i \in Present(c) : Capped(c.kind, c.sc[i].lines)]]
Next == Compute
Spec == Init /\ [][Next]_mcvars

Done == st = "done"
\* k-th sidecar block belongs to the k-th present sidecar
PresentSeq == SelectSeq([i \in 1..NExt |-> i], LAMBDA i : c.sc[i].p)

M_GammaFaithful == \A i \in Present(c) : (Printable(c.sc[i].lines) /\ TotalLen(c.sc[i].lines) < Hint) =>
                        PhysLines(TextOf(c.sc[i].lines, c.sc[i].nl)) = c.sc[i].lines
M_OneBlockPerSidecar == Done => /\ Len(out.sblocks) = Len(PresentSeq)
                                /\ \A k \in 1..Len(PresentSeq) : out.sblocks[k].name = "+" \o EaExts[PresentSeq[k]].name
M_ContentPrefixed == Done => \A k \in 1..Len(out.sblocks) : \A j \in 1..Len(out.sblocks[k].lines) :
                                TX!StartsWith(out.sblocks[k].lines[j], " ")
M_SidecarExact == Done => \A k \in 1..Len(PresentSeq) :
                     LET s == c.sc[PresentSeq[k]] IN
                     (Printable(s.lines) /\ ~LastBlank(s.lines) /\ ~Capped(c.kind, s.lines))
                        => out.sblocks[k].lines = Prefixed(RefLines(s.lines))
\* the named deviation Cap20K, stated exactly (recorded finding C15-sidecar-capped-20k): a proper prefix of the lines
M_Cap20K == Done => \A k \in 1..Len(PresentSeq) :
                     LET s == c.sc[PresentSeq[k]] IN
                     Capped(c.kind, s.lines) =>
                        /\ Len(out.sblocks[k].lines) < Len(s.lines)
                        /\ out.sblocks[k].lines = SubSeq(Prefixed(RefLines(s.lines)), 1, Len(out.sblocks[k].lines))
                        /\ TotalLen(SubSeq(s.lines, 1, Len(out.sblocks[k].lines))) >= Hint
\* contents at or beyond the hint are only the well-shaped ones the line-level shortcut of CodeLinesOf is valid for
M_BigShape == \A i \in Present(c) : TotalLen(c.sc[i].lines) >= Hint =>
                     Printable(c.sc[i].lines) /\ ~LastBlank(c.sc[i].lines) /\ c.sc[i].nl
\* the named deviation, stated exactly (recorded finding C15-last-blank-line-lost)
M_LastBlankLineLost == Done => \A k \in 1..Len(PresentSeq) :
                     LET s == c.sc[PresentSeq[k]] IN
                     (Printable(s.lines) /\ LastBlank(s.lines)) => out.sblocks[k].lines = Prefixed(Front(RefLines(s.lines)))
\* a link-file entry never takes a side-car block away: every block read from a side-car file is among the item's
\* blocks, except that an Abstract= of the link entry stands in for the .abstract file
M_LinkKeepsSidecars == Done => \A k \in 1..Len(out.sblocks) :
                          out.sblocks[k].name # "+ABSTRACT" => \E j \in 1..Len(out.iblocks) : out.iblocks[j] = out.sblocks[k]
M_ViewsTruthful == Done => ViewsLineOk(out.views, MimesOf(c.kind, c.ext), SizeOf(c), KnownSize(c.kind))
\* an entry without a size never states one and never announces a length (virtual items, decompressed files, menus)
M_NoSizeNoClaim == Done => (~KnownSize(c.kind) => (out.len = "+-2" /\ ~TX!Contains(out.views, "<")))
M_LenOrMarker == Done => LenOrMarker(out.len, IF SizeOf(c) >= 0 THEN SizeOf(c) ELSE 0, SizeOf(c))
M_InfoFirst == Done => Len(out.names) >= 3 /\ out.names[1] = "+INFO" /\ out.names[2] = "+ADMIN"

ASSUME CapCount(<<10, 10, 10>>, 15) = 2 /\ CapCount(<<10, 10>>, 100) = 2 /\ CapCount(<<>>, 5) = 0 /\ CapCount(<<10, 10, 10>>, 5) = 1
ASSUME SplitLines("a\n\nb\n") = <<"a", "", "b">> /\ SplitLines("") = <<>> /\ SplitLines("\n") = <<"">>
ASSUME SplitLines("a\r\nb\fc") = <<"a", "b", "c">>
ASSUME PhysLines("a\n\n") = <<"a", "">> /\ PhysLines("") = <<>> /\ PhysLines("a") = <<"a">>
=============================================================================
