--------------------------------- MODULE Zip ---------------------------------
(* C16 - ZIP archives are transparent.                                                      *)
(*                                                                                          *)
(* Design model of pygopherd/handlers/ZIP.py (pinned tree), structured like the code:       *)
(*   AddMemberStep   one iteration of `for info in self.zip.infolist()` of                  *)
(*                   VFSZip.populate_cache: directory synthesis for every parent component, *)
(*                   explicit directory members, file inodes, symlink members put aside     *)
(*   LinkPassStep    one iteration of the `while len(symlinkinodes) and ... != lastsymlinklen`*)
(*                   fix-point loop (items in order; the index grows while the pass runs)   *)
(*   GetInode        VFSZip._getcacheinode WITH its two memo tables (entrycache,            *)
(*                   invalid_paths), because populate_cache itself looks targets up through *)
(*                   it while the index is still growing                                    *)
(*   ZipOp           stat / isdir / isfile / listdir / open of VFSZip on the finished index *)
(*   WalkUp          ZIPHandler.canhandlerequest: selector -> (archive, member path)        *)
(*   HandlerFor      the part of the handler chain that decides whether a real-file-only    *)
(*                   handler (mailbox, PYG, script) takes an entry of a given VFS           *)
(* and the REFERENCE the property compares with:                                            *)
(*   Ref / TreeOp    the same member list extracted on disk, symbolic links resolved the    *)
(*                   way a kernel resolves them (component by component, relative to the    *)
(*                   directory that really contains the link) but AMONG MEMBERS ONLY: a     *)
(*                   link that leaves the archive root, dangles or loops does not exist.    *)
(*                                                                                          *)
(* Paths are sequences of components (<<"d", "e", "f">> is d/e/f, <<>> the archive root).   *)
(* A member is [p, k, dest, tag, md] (md: class of its header fields, see MetaClasses): k = "f" file, "d" explicit directory member (name ending  *)
(* in "/"), "l" symbolic link with target dest = [abs, c]; tag names the content class      *)
(* (plain, mbox, exec, pyg, abstract, gophermap, links) and is data for gamma.              *)
(*                                                                                          *)
(* Named deviations of the code from the reference (modelled, not idealised away):          *)
(*   AbsIsArchiveRoot   an absolute target "/x" is looked up as member x (dest[1:]); the    *)
(*                      reference reads absolute targets the same way (chroot-like), which  *)
(*                      keeps them among members as the property demands                    *)
(*   LexicalDotDot      relative targets are normalised lexically (os.path.normpath) before *)
(*                      the lookup; a kernel applies ".." after following links             *)
(*   StaleNegativeMemo  invalid_paths filled by failed look-ups DURING populate_cache is    *)
(*                      consulted by later look-ups although the index has grown since      *)
(*   LinkDirnameUntranscoded  the directory of a link member is read from the untranscoded   *)
(*                      member name, so relative links inside directories whose names are     *)
(*                      raw non-ASCII bytes are looked up under a name the index does not have*)
(*   GuardIsInstance    VFSZip subclasses VFS_Real, so isinstance(vfs, VFS_Real) is TRUE for*)
(*                      archive members; executables are kept from ExecHandler/PYGHandler   *)
(*                      only by VFSZip.stat's constant mode 0644 (ConstMode)                *)
(* The boolean constants below select the code AS PINNED (TRUE) or as repaired (FALSE).     *)
EXTENDS Naturals, Sequences, FiniteSets

CONSTANTS StaleNegativeMemo,     \* invalid_paths consulted while the index is still growing
          GuardIsInstance,       \* real-file-only guards written as isinstance(vfs, VFS_Real)
          RawNames,              \* components stored as non-UTF-8 bytes without the UTF-8 flag (what zip(1) writes)
          LinkDirnameUntranscoded \* a link's own directory is taken from info.filename (Python's cp437 reading),
                                 \* not from the transcoded name the index is keyed by

Front(s) == SubSeq(s, 1, Len(s) - 1)
LastOf(s) == s[Len(s)]
IsPrefix(p, q) == Len(p) <= Len(q) /\ SubSeq(q, 1, Len(p)) = p
Range(s) == {s[j] : j \in 1..Len(s)}

None == [k |-> "none", p |-> <<>>]
Fuel == 6                        \* symlinks followed per look-up in the reference (kernel: 40)

\* ---------------------------------------------------------------------------------------
\* os.path.normpath on a relative path given as components ("" and "." dropped, ".." pops,
\* leading ".." kept, empty result is ".")
RECURSIVE NormAcc(_, _)
NormAcc(acc, c) ==
    IF c = <<>> THEN acc
    ELSE LET h == Head(c) IN
         IF h = "" \/ h = "." THEN NormAcc(acc, Tail(c))
         ELSE IF h = ".."
              THEN (IF acc # <<>> /\ LastOf(acc) # ".." THEN NormAcc(Front(acc), Tail(c))
                    ELSE NormAcc(Append(acc, ".."), Tail(c)))
              ELSE NormAcc(Append(acc, h), Tail(c))
NormPath(c) == LET r == NormAcc(<<>>, c) IN IF r = <<>> THEN <<".">> ELSE r

\* ---------------------------------------------------------------------------------------
\* The index ("dircache"): inode i is nodes[i]; inode 1 is the root directory ("0" in the
\* code).  A directory node maps names to inodes (ents, in insertion order as a dict does),
\* a file node holds the member it stands for.
DirNode == [k |-> "d", ents |-> <<>>, m |-> <<>>, md |-> "std"]
FileNode(p, md) == [k |-> "f", ents |-> <<>>, m |-> p, md |-> md]

\* Per-member HEADER fields (member field md; gamma writes them into the real archive):
\*   std     ordinary: Unix attributes, deflated, date 2020-01-01
\*   dt0     stored DOS date/time all zero (1980-00-00 00:00:00: not a calendar date)
\*   dtoor   fields outside a calendar date (month 15, day 31, hour 31, minute 63, second 62)
\*   dt2107  the last year a DOS date can hold
\*   stored  compress_type STORED          empty  zero bytes of content
\*   dos     create_system 0 and no Unix attributes at all      mode0  Unix mode 000
\* The index never looks at them.  VFSZip.stat does: it turns date_time into a time with
\* time.mktime(zt + (0, 0, -1)), which NORMALISES any field combination (StatDefined is total), and
\* reports a constant mode; so a member exists for stat whatever its header says.
\* For TEXT METADATA members (UMN link files .Links/.names, .cap/<name> files, side-cars) md also names the
\* class of LINE ENDS of the content; these members are read through VFSZip.open(mode="r") while their twins on
\* disk are read in text mode with universal newlines:
\*   le_crlf  CR LF        le_cr  bare CR (classic Mac)        le_mixed  LF, CR LF and CR in one file
\*   le_nofinal  LF, last line unterminated
\*   le_seps  LF line ends, and FF / VT / U+0085 / U+2028 INSIDE lines (line ends for str.splitlines(), not for
\*            universal newlines)
\* VFSZip.open(mode="r") wraps the member in io.TextIOWrapper(encoding="utf-8", errors=errors): exactly the line
\* semantics of a text file on disk (universal newlines; FF, VT, U+0085, U+2028 are ordinary characters), so every
\* class reads the same inside the archive and in the twin.  (Pinned tree: a codecs.StreamReader, which cuts lines
\* with str.splitlines() - finding C16-text-member-splitlines, repaired in /repo 9d1e32d; mutants/C16-text-open-streamreader
\* puts it back.)
LineEndClasses == {"le_crlf", "le_cr", "le_mixed", "le_nofinal", "le_seps"}
MetaClasses == {"std", "dt0", "dtoor", "dt2107", "stored", "empty", "dos", "mode0"} \cup LineEndClasses
StatDefined(md) == md \in MetaClasses

EntLookup(ents, n) ==
    LET S == {j \in 1..Len(ents) : ents[j].n = n}
    IN IF S = {} THEN 0 ELSE ents[CHOOSE j \in S : TRUE].i
EntPut(ents, n, i) ==
    IF EntLookup(ents, n) = 0 THEN Append(ents, [n |-> n, i |-> i])
    ELSE [j \in 1..Len(ents) |-> IF ents[j].n = n THEN [n |-> n, i |-> i] ELSE ents[j]]
EntNames(ents) == {ents[j].n : j \in 1..Len(ents)}

NoMemo == [ec |-> {}, inv |-> {}]       \* entrycache: {[p, i]}, invalid_paths: {path}

\* the `for item in fspath.split("/")` loop of _getcacheinode
RECURSIVE Walk(_, _, _, _, _)
Walk(nodes, memo, rest, inode, wd) ==
    IF rest = <<>> THEN [ok |-> TRUE, i |-> inode, memo |-> memo]
    ELSE IF nodes[inode].k # "d" THEN [ok |-> FALSE, i |-> 0, memo |-> memo]
    ELSE LET m2 == [memo EXCEPT !.ec = @ \cup {[p |-> wd, i |-> inode]}]
             wd2 == Append(wd, Head(rest))
             nxt == EntLookup(nodes[inode].ents, Head(rest))
         IN IF nxt = 0 THEN [ok |-> FALSE, i |-> 0, memo |-> [m2 EXCEPT !.inv = @ \cup {wd2}]]
            ELSE Walk(nodes, m2, Tail(rest), nxt, wd2)

\* VFSZip._getcacheinode(fspath): memo hit on the parent, negative memo, else walk
GetInode(nodes, memo, path) ==
    IF path = <<>> THEN [ok |-> TRUE, i |-> 1, memo |-> memo]
    ELSE LET hit == {e \in memo.ec : e.p = Front(path)} IN
         IF hit # {}
         THEN LET i == EntLookup(nodes[(CHOOSE e \in hit : TRUE).i].ents, LastOf(path))
              IN [ok |-> i # 0, i |-> i, memo |-> memo]
         ELSE IF StaleNegativeMemo /\ Front(path) \in memo.inv
              THEN [ok |-> FALSE, i |-> 0, memo |-> memo]
              ELSE Walk(nodes, memo, path, 1, <<>>)

\* ---------------------------------------------------------------------------------------
\* populate_cache, first loop.  st = [nodes, pend, memo, last]
Init0 == [nodes |-> <<DirNode>>, pend |-> <<>>, memo |-> NoMemo, last |-> 0]

\* `for level in dir_.split("/")`: descend, creating missing directory inodes
RECURSIVE MkDirs(_, _, _)
MkDirs(nodes, at, comps) ==
    IF comps = <<>> THEN [nodes |-> nodes, at |-> at]
    ELSE LET i == EntLookup(nodes[at].ents, Head(comps)) IN
         IF i = 0
         THEN LET new == Len(nodes) + 1
                  n2 == Append([nodes EXCEPT ![at].ents = Append(@, [n |-> Head(comps), i |-> new])], DirNode)
              IN MkDirs(n2, new, Tail(comps))
         ELSE MkDirs(nodes, i, Tail(comps))

\* os.path.split of the member name: "d/" -> ("d", ""), "d/e/f" -> ("d/e", "f")
SplitDir(m) == IF m.k = "d" THEN m.p ELSE Front(m.p)
SplitBase(m) == IF m.k = "d" THEN "" ELSE LastOf(m.p)

AddMemberStep(st, m) ==
    LET w == MkDirs(st.nodes, 1, SplitDir(m)) IN
    IF SplitBase(m) = "" THEN [st EXCEPT !.nodes = w.nodes]
    ELSE IF m.k = "l"
    THEN [st EXCEPT !.nodes = w.nodes,
                    !.pend = Append(@, [dir |-> w.at, name |-> SplitBase(m), path |-> m.p, dest |-> m.dest])]
    ELSE LET new == Len(w.nodes) + 1 IN
         [st EXCEPT !.nodes = Append([w.nodes EXCEPT ![w.at].ents = EntPut(@, SplitBase(m), new)], FileNode(m.p, m.md))]

\* second loop: the target as the code computes it (AbsIsArchiveRoot, LexicalDotDot).  The index is
\* keyed by names transcoded back to bytes-with-surrogates; os.path.dirname(item["pathname"]) is the
\* name as Python decoded it (cp437): for a raw non-ASCII component the two differ (written c?).
Untrans(c) == IF LinkDirnameUntranscoded /\ c \in RawNames THEN c \o "?" ELSE c
DestPath(it) ==
    IF it.dest.abs THEN it.dest.c
    ELSE NormPath([j \in 1..(Len(it.path) - 1) |-> Untrans(it.path[j])] \o it.dest.c)
\* input class: relative links stored inside a directory with a raw non-ASCII name
RawDirLinks(ms) == {k \in Range(ms) : k.k = "l" /\ ~k.dest.abs /\ \E j \in 1..(Len(k.p) - 1) : k.p[j] \in RawNames}

RECURSIVE PassFold(_, _, _, _)
PassFold(nodes, memo, items, keep) ==
    IF items = <<>> THEN [nodes |-> nodes, memo |-> memo, pend |-> keep]
    ELSE LET it == Head(items)
             r == GetInode(nodes, memo, DestPath(it))           \* _isentryincache(dest)
         IN IF r.ok
            THEN LET r2 == GetInode(nodes, r.memo, DestPath(it)) \* _getcacheinode(dest)
                 IN PassFold([nodes EXCEPT ![it.dir].ents = EntPut(@, it.name, r2.i)], r2.memo, Tail(items), keep)
            ELSE PassFold(nodes, r.memo, Tail(items), Append(keep, it))

LinkLoopContinues(st) == Len(st.pend) # 0 /\ Len(st.pend) # st.last
LinkPassStep(st) ==
    LET f == PassFold(st.nodes, st.memo, st.pend, <<>>) IN
    [nodes |-> f.nodes, pend |-> f.pend, memo |-> f.memo, last |-> Len(st.pend)]

RECURSIVE AddAll(_, _)
AddAll(st, ms) == IF ms = <<>> THEN st ELSE AddAll(AddMemberStep(st, Head(ms)), Tail(ms))
RECURSIVE LinkLoop(_)
LinkLoop(st) == IF LinkLoopContinues(st) THEN LinkLoop(LinkPassStep(st)) ELSE st
Populate(ms) == LinkLoop(AddAll(Init0, ms))

\* ---------------------------------------------------------------------------------------
\* VFSZip operations on a finished index.  `memo` is what the VFS object carries: the tables
\* left behind by populate_cache for the object that built the index ("fresh"), empty tables
\* for an object that opened the saved shelve ("cached").
ZipLook(st, memo, sel) ==
    LET r == GetInode(st.nodes, memo, sel) IN
    IF ~r.ok THEN [k |-> "none", m |-> <<>>, names |-> {}, md |-> "std"]
    ELSE LET n == st.nodes[r.i] IN
         [k |-> n.k, m |-> n.m, names |-> IF n.k = "d" THEN EntNames(n.ents) ELSE {}, md |-> n.md]

Ops == {"stat", "isdir", "isfile", "listdir", "open"}
\* uniformly shaped results: [ok, v (a kind / truth value as a string), names, m]
ZipOp(st, memo, op, sel) ==
    LET z == ZipLook(st, memo, sel) IN
    CASE op = "stat"    -> IF z.k # "none" /\ (z.k = "f" => StatDefined(z.md))
                           THEN [ok |-> TRUE, v |-> z.k, names |-> {}, m |-> <<>>]
                           ELSE [ok |-> FALSE, v |-> "none", names |-> {}, m |-> <<>>]
      [] op = "isdir"   -> [ok |-> TRUE, v |-> IF z.k = "d" THEN "T" ELSE "F", names |-> {}, m |-> <<>>]
      [] op = "isfile"  -> [ok |-> TRUE, v |-> IF z.k = "f" THEN "T" ELSE "F", names |-> {}, m |-> <<>>]
      [] op = "listdir" -> [ok |-> z.k = "d", v |-> "", names |-> z.names, m |-> <<>>]
      [] op = "open"    -> [ok |-> z.k = "f", v |-> "", names |-> {}, m |-> z.m]

\* ---------------------------------------------------------------------------------------
\* The reference: the member list as a tree on disk, links resolved among members only.
Members(ms) == Range(ms)
IsLinkAt(ms, p) == \E m \in Members(ms) : m.k = "l" /\ m.p = p
LinkAt(ms, p) == CHOOSE m \in Members(ms) : m.k = "l" /\ m.p = p
IsFileAt(ms, p) == \E m \in Members(ms) : m.k = "f" /\ m.p = p
IsDirAt(ms, p) == p = <<>> \/ \E m \in Members(ms) : (m.k = "d" /\ m.p = p) \/ (Len(m.p) > Len(p) /\ IsPrefix(p, m.p))

RECURSIVE Ref(_, _, _, _)
Ref(ms, cur, rest, fuel) ==          \* cur: the real directory reached so far
    IF rest = <<>> THEN [k |-> "d", p |-> cur]
    ELSE LET c == Head(rest)  t == Tail(rest) IN
         IF c = "" \/ c = "." THEN Ref(ms, cur, t, fuel)
         ELSE IF c = ".." THEN (IF cur = <<>> THEN None ELSE Ref(ms, Front(cur), t, fuel))
         ELSE LET e == Append(cur, c) IN
              IF IsLinkAt(ms, e)
              THEN (IF fuel = 0 THEN None
                    ELSE LET d == LinkAt(ms, e).dest IN
                         IF d.abs THEN Ref(ms, <<>>, d.c \o t, fuel - 1)
                                  ELSE Ref(ms, cur, d.c \o t, fuel - 1))
              ELSE IF IsFileAt(ms, e) THEN (IF t = <<>> THEN [k |-> "f", p |-> e] ELSE None)
              ELSE IF IsDirAt(ms, e) THEN Ref(ms, e, t, fuel)
              ELSE None
RefOf(ms, sel) == Ref(ms, <<>>, sel, Fuel)

ChildNames(ms, d) == {m.p[Len(d) + 1] : m \in {x \in Members(ms) : Len(x.p) > Len(d) /\ IsPrefix(d, x.p)}}
TreeNames(ms, d) == {c \in ChildNames(ms, d) : Ref(ms, d, <<c>>, Fuel).k # "none"}
Unresolvable(ms) == {m \in Members(ms) : m.k = "l" /\ RefOf(ms, m.p).k = "none"}

TreeOp(ms, op, sel) ==
    LET t == RefOf(ms, sel) IN
    CASE op = "stat"    -> [ok |-> t.k # "none", v |-> t.k, names |-> {}, m |-> <<>>]
      [] op = "isdir"   -> [ok |-> TRUE, v |-> IF t.k = "d" THEN "T" ELSE "F", names |-> {}, m |-> <<>>]
      [] op = "isfile"  -> [ok |-> TRUE, v |-> IF t.k = "f" THEN "T" ELSE "F", names |-> {}, m |-> <<>>]
      [] op = "listdir" -> [ok |-> t.k = "d", v |-> "", names |-> IF t.k = "d" THEN TreeNames(ms, t.p) ELSE {}, m |-> <<>>]
      [] op = "open"    -> [ok |-> t.k = "f", v |-> "", names |-> {}, m |-> IF t.k = "f" THEN t.p ELSE <<>>]

Same(ms, st, memo, sel) == \A op \in Ops : ZipOp(st, memo, op, sel) = TreeOp(ms, op, sel)

\* every name the index can reach stands for a member or a synthesised directory of members:
\* file inodes name members, link entries point at existing inodes
LinksStayInside(ms, st) ==
    /\ \A i \in 1..Len(st.nodes) : st.nodes[i].k = "f" => IsFileAt(ms, st.nodes[i].m)
    /\ \A i \in 1..Len(st.nodes) : \A j \in 1..Len(st.nodes[i].ents) : st.nodes[i].ents[j].i \in 1..Len(st.nodes)

\* ---------------------------------------------------------------------------------------
\* Input classes used to key known findings (syntactic, on the member list)
Pos(ms, m) == CHOOSE j \in 1..Len(ms) : ms[j] = m
\* a link whose target path passes THROUGH another link stored later in the archive
ForwardThroughLink(ms) ==
    {k \in Members(ms) : k.k = "l" /\ \E l \in Members(ms) :
        /\ l.k = "l" /\ l # k /\ Pos(ms, k) < Pos(ms, l)
        /\ LET d == DestPath([path |-> k.p, dest |-> k.dest]) IN Len(d) > Len(l.p) /\ IsPrefix(l.p, d)}
\* a relative target with ".." directly after an ordinary component (LexicalDotDot applies)
CancellingDotDot(ms) ==
    {k \in Members(ms) : k.k = "l" /\ ~k.dest.abs /\ \E j \in 2..Len(k.dest.c) :
        k.dest.c[j] = ".." /\ k.dest.c[j - 1] \notin {"..", ".", ""}}

\* ---------------------------------------------------------------------------------------
\* Real-file-only handlers (mbox.py:130,175, pyg.py:12, scriptexec.py:14) in the chain that
\* ZIPHandler._makehandler re-runs on the virtual file system.
RealOnlyTags == {"mbox", "exec", "pyg"}
IsRealVfs(vfs) == IF GuardIsInstance THEN TRUE ELSE vfs = "real"      \* VFSZip IS-A VFS_Real
ModeX(vfs, m) == vfs = "real" /\ m.tag \in {"exec", "pyg"}             \* ConstMode: VFSZip.stat says 0644
HandlerFor(vfs, m) ==
    IF m.tag = "mbox" /\ IsRealVfs(vfs) THEN "MBoxFolderHandler"
    ELSE IF m.tag = "pyg" /\ IsRealVfs(vfs) /\ ModeX(vfs, m) THEN "PYGHandler"
    ELSE IF IsRealVfs(vfs) /\ ModeX(vfs, m) THEN "ExecHandler"
    ELSE "FileHandler"
RealOnly(ms) == \A m \in Members(ms) : (m.k = "f" /\ m.tag \in RealOnlyTags) => HandlerFor("zip", m) = "FileHandler"

\* does answering `sel` involve a member with one of `tags`: the member itself or a listing that shows it
TagAt(ms, p) == (CHOOSE m \in Members(ms) : m.k = "f" /\ m.p = p).tag
InvolvesTag(ms, sel, tags) ==
    LET t == RefOf(ms, sel) IN
    \/ t.k = "f" /\ TagAt(ms, t.p) \in tags
    \/ t.k = "d" /\ \E c \in TreeNames(ms, t.p) :
           LET u == Ref(ms, t.p, <<c>>, Fuel) IN u.k = "f" /\ TagAt(ms, u.p) \in tags
\* ... a real-file-only member (isargs: a virtual-argument form "member|args" of one)
InvolvesRealOnly(ms, sel, isargs) == isargs \/ InvolvesTag(ms, sel, RealOnlyTags)

\* ---------------------------------------------------------------------------------------
\* ZIPHandler.canhandlerequest: walk up with os.path.split until a selector prefix matches the
\* pattern (\.zip$), is a regular file and is a ZIP file.  `sel` is the selector as components
\* below "/", zips the set of such prefixes that are ZIP files.  Result [ok, base, app].
IsZipName(c) == Len(c) >= 4 /\ SubSeq(c, Len(c) - 3, Len(c)) = ".zip"
RECURSIVE WalkUpFrom(_, _, _)
WalkUpFrom(base, app, zips) ==
    IF base # <<>> /\ IsZipName(LastOf(base)) /\ base \in zips THEN [ok |-> TRUE, base |-> base, app |-> app]
    ELSE IF base = <<>> THEN [ok |-> FALSE, base |-> <<>>, app |-> <<>>]
    ELSE WalkUpFrom(Front(base), <<LastOf(base)>> \o app, zips)
WalkUp(sel, zips) == WalkUpFrom(sel, <<>>, zips)
\* the split is right: the LONGEST prefix that is an archive, and the rest is the member path
WalkUpRight(sel, zips) ==
    LET w == WalkUp(sel, zips)
        cand == {n \in 1..Len(sel) : IsZipName(sel[n]) /\ SubSeq(sel, 1, n) \in zips}
    IN IF cand = {} THEN ~w.ok
       ELSE LET n == CHOOSE x \in cand : \A y \in cand : y <= x IN
            w.ok /\ w.base = SubSeq(sel, 1, n) /\ w.app = SubSeq(sel, n + 1, Len(sel))
=============================================================================
