---------------------------- MODULE MC_C02_sniff ----------------------------
(* Bounded design model for C02 (sniffing): all 256 first bytes and the empty connection,   *)
(* with and without a configured TLS context, followed by nothing / a request / another 0x16. *)
(* Every initial state is one replay case for the real BaseServer.wrap_socket (binding B2).   *)
EXTENDS WireSniff, TLC

Rest == {<<>>, <<47, 13, 10>>, <<22>>}            \* what follows the first byte: "/" CR LF; another 0x16
Init == \E c \in BOOLEAN :
          \/ SInit(c, <<>>)
          \/ \E b \in 0..255, r \in Rest : SInit(c, <<b>> \o r)
Spec == Init /\ [][SNext]_svars
PureStep == [][sbuf' = sbuf]_svars
=============================================================================
