------------------------------- MODULE TALES -------------------------------
(* TALES: the value universe, the expression AST and the evaluator of simpleTALES.Context   *)
(* (evaluate / evaluatePath / evaluateExists / evaluateNoCall / evaluateNot /               *)
(* evaluateString / evaluatePython / traversePath), plus the HTML escaping used by          *)
(* simpleTAL.  Used by TALVM (the interpreter model), by TALSem (the reference semantics,   *)
(* Appendix E.4 of DESIGN.md) and by the C17/C18 trace specifications.                      *)
(*                                                                                          *)
(* VALUES are uniformly tagged records V(k, s, n, q) (TLC refuses `=` between differently   *)
(* shaped values):                                                                          *)
(*   none      Python None / TALES `nothing`                                                *)
(*   default   the TALES `default` marker (simpleTALES.DEFAULTVALUE)                        *)
(*   str  s    a string                      num  n   an integer                            *)
(*   seq  q    a sequence with len()         iter q   an iterable WITHOUT len()             *)
(*   map  q    a mapping; q = <<Ent(key, value), ...>>                                      *)
(*   call q    a callable; q = <<value it returns>>                                         *)
(*   macro s   a METAL macro (simpleTAL.SubTemplate) named s                                *)
(*   tmpl      a sub-template given by its program range (slot fillers): n = start,         *)
(*             q = <<Num(end symbol)>>                                                      *)
(*   nf        "PathNotFoundException" (never stored anywhere: the result of a failed path) *)
(*   rmap / attrs / rv   transient values met while traversing repeat/... and attrs/...     *)
(*                                                                                          *)
(* EXPRESSIONS are records E(k, s, a):                                                      *)
(*   path s            a '/'-separated path                                                 *)
(*   alt  a            p1 | p2 | ... (each alternative is again an expression)              *)
(*   exists / nocall / not   a = <<argument>>                                               *)
(*   string a          a = parts: lit s | dd ($$) | var s ($path) | sub <<e>> (${e})        *)
(*   python s          opaque python: expression (gated by allowPythonPath)                 *)
(* Rendering an expression to TALES source text is gamma (harness/c17_tal.py).              *)
EXTENDS Naturals, Integers, Sequences, FiniteSets

TX == INSTANCE Text        \* qualified: the shared module keeps growing, no name may clash

V(k, s, n, q) == [k |-> k, s |-> s, n |-> n, q |-> q]
None       == V("none", "", 0, <<>>)
Default    == V("default", "", 0, <<>>)
NF         == V("nf", "", 0, <<>>)
Str(s)     == V("str", s, 0, <<>>)
Num(n)     == V("num", "", n, <<>>)
SeqV(q)    == V("seq", "", 0, q)
IterV(q)   == V("iter", "", 0, q)
Ent(key, v) == V("ent", key, 0, <<v>>)
MapV(ents) == V("map", "", 0, ents)
CallV(v)   == V("call", "", 0, <<v>>)
MacroV(nm) == V("macro", nm, 0, <<>>)
TmplV(nm, start, endsym) == V("tmpl", nm, start, <<Num(endsym)>>)

E(k, s, a) == [k |-> k, s |-> s, a |-> a]
Path(p)    == E("path", p, <<>>)
Alt(es)    == E("alt", "", es)
Exists(e)  == E("exists", "", <<e>>)
NoCall(e)  == E("nocall", "", <<e>>)
Not(e)     == E("not", "", <<e>>)
StringE(ps) == E("string", "", ps)
Lit(s)     == E("lit", s, <<>>)
DD         == E("dd", "", <<>>)
Var(p)     == E("var", p, <<>>)
Sub(e)     == E("sub", "", <<e>>)
Python(s)  == E("python", s, <<>>)
NoE        == E("none", "", <<>>)

\* ---- functions with string domains (globals, locals, repeat map) ---------------------------
EmptyF == [x \in {} |-> None]
Put(f, key, v) == [x \in (DOMAIN f) \cup {key} |-> IF x = key THEN v ELSE f[x]]

\* ---- text helpers ---------------------------------------------------------------------------
DigitStr == <<"0", "1", "2", "3", "4", "5", "6", "7", "8", "9">>
RECURSIVE NatStr(_)
NatStr(n) == IF n < 10 THEN DigitStr[n + 1] ELSE NatStr(n \div 10) \o DigitStr[(n % 10) + 1]
IntStr(n) == IF n < 0 THEN "-" \o NatStr(0 - n) ELSE NatStr(n)          \* Python str(int)
ToNat(s) == TX!ParseNat(s)

\* html.escape(s, quote=False) and html.escape(s, quote=True)
EscCharText(c) == CASE c = "&" -> "&amp;" [] c = "<" -> "&lt;" [] c = ">" -> "&gt;" [] OTHER -> c
EscCharAttr(c) == CASE c = "&" -> "&amp;" [] c = "<" -> "&lt;" [] c = ">" -> "&gt;"
                    [] c = "\"" -> "&quot;" [] c = "'" -> "&#x27;" [] OTHER -> c
RECURSIVE EscText(_), EscAttr(_)
EscText(s) == IF Len(s) = 0 THEN "" ELSE EscCharText(TX!Ch(s, 1)) \o EscText(TX!Tail1(s))
EscAttr(s) == IF Len(s) = 0 THEN "" ELSE EscCharAttr(TX!Ch(s, 1)) \o EscAttr(TX!Tail1(s))

\* tagAsText: <tag a="v" ...> ; atts is a sequence of [n |-> name, v |-> value]
RECURSIVE AttsText(_, _)
AttsText(atts, i) == IF i > Len(atts) THEN ""
                     ELSE " " \o atts[i].n \o "=\"" \o EscAttr(atts[i].v) \o "\"" \o AttsText(atts, i + 1)
TagText(tag, atts, singleton) == "<" \o tag \o AttsText(atts, 1) \o (IF singleton THEN " />" ELSE ">")

\* ---- Python str() and truth ---------------------------------------------------------------
\* gamma gives sequences, mappings, iterables and callables a fixed __str__ so that str() of every
\* value of the universe is defined (the text Python prints for a plain list/dict is outside E.4)
DefaultText == "This represents a Default value."
PyStr(v) == CASE v.k = "str" -> v.s
              [] v.k = "num" -> IntStr(v.n)
              [] v.k = "default" -> DefaultText
              [] v.k = "seq" -> "SEQ" [] v.k = "map" -> "MAP" [] v.k = "iter" -> "ITER"
              [] v.k = "call" -> "<FN>" [] OTHER -> "?" \o v.k
\* TAL truth (cmdCondition, evaluateNot, cmdOmitTag): nothing, zero, empty string, empty sequence
\* and empty mapping are false; everything else - including `default` - is true
Truthy(v) == CASE v.k \in {"none", "nf"} -> FALSE
               [] v.k = "num" -> v.n # 0
               [] v.k = "str" -> v.s # ""
               [] v.k \in {"seq", "map"} -> v.q # <<>>
               [] OTHER -> TRUE

\* ---- repeat variables ------------------------------------------------------------------------
\* a repeat variable: [q |-> items, pos |-> 0-based position, it |-> TRUE for an iterator]
RV(q, pos, it) == [q |-> q, pos |-> pos, it |-> it]
LetterOf(pos) == IF pos < 26 THEN TX!Ch("abcdefghijklmnopqrstuvwxyz", pos + 1) ELSE "?"
RomanOf(pos) == IF pos < 8 THEN <<"i", "ii", "iii", "iv", "v", "vi", "vii", "viii">>[pos + 1] ELSE "?"
BigLength == 0 - 1        \* stands for sys.maxsize (the documented `length` of an iterator repeat)
RepeatAttr(r, seg) ==
    CASE seg = "index"  -> Num(r.pos)
      [] seg = "number" -> Num(r.pos + 1)
      [] seg = "even"   -> Num(IF r.pos % 2 = 0 THEN 1 ELSE 0)
      [] seg = "odd"    -> Num(IF r.pos % 2 = 0 THEN 0 ELSE 1)
      [] seg = "start"  -> Num(IF r.pos = 0 THEN 1 ELSE 0)
      \* documented dialect: an iterator cannot know that it is at its last item
      [] seg = "end"    -> Num(IF ~r.it /\ r.pos = Len(r.q) - 1 THEN 1 ELSE 0)
      [] seg = "length" -> Num(IF r.it THEN BigLength ELSE Len(r.q))
      [] seg = "letter" -> Str(LetterOf(r.pos))
      [] seg = "roman"  -> Str(RomanOf(r.pos))
      [] OTHER -> NF

\* ---- evaluation context: [g |-> globals, l |-> locals, rm |-> repeat map, at |-> original   ----
\* attributes of the current element (the `attrs` built-in), py |-> allowPythonPath]
Root(name, cx) ==
    IF name \in DOMAIN cx.l THEN cx.l[name]
    ELSE IF name \in DOMAIN cx.g THEN cx.g[name]
    ELSE CASE name = "nothing" -> None
           [] name = "default" -> Default
           [] name = "repeat"  -> V("rmap", "", 0, <<>>)
           [] name = "attrs"   -> V("attrs", "", 0, <<>>)
           [] OTHER -> NF

CallIf(v) == IF v.k = "call" THEN v.q[1] ELSE v

LastAttr(atts, name) ==        \* a Python dict keeps the last of duplicate keys
    LET is == {i \in DOMAIN atts : atts[i].n = name} IN
    IF is = {} THEN NF ELSE Str(atts[CHOOSE i \in is : \A j \in is : j <= i].v)

\* one path step on the (already called) value temp: attribute, then key, then integer index
StepOn(temp, seg, cx) ==
    CASE temp.k = "rmap"  -> IF seg \in DOMAIN cx.rm
                             THEN V("rv", "", cx.rm[seg].pos, <<IF cx.rm[seg].it THEN IterV(cx.rm[seg].q) ELSE SeqV(cx.rm[seg].q)>>)
                             ELSE NF
      [] temp.k = "rv"    -> RepeatAttr(RV(temp.q[1].q, temp.n, temp.q[1].k = "iter"), seg)
      [] temp.k = "attrs" -> LastAttr(cx.at, seg)
      [] temp.k = "map"   -> LET is == {i \in DOMAIN temp.q : temp.q[i].s = seg} IN
                             IF is = {} THEN NF ELSE temp.q[CHOOSE i \in is : \A j \in is : j <= i].q[1]
      [] temp.k = "seq"   -> IF TX!IsDigits(seg) /\ ToNat(seg) < Len(temp.q) THEN temp.q[ToNat(seg) + 1] ELSE NF
      [] temp.k = "str"   -> IF TX!IsDigits(seg) /\ ToNat(seg) < Len(temp.s) THEN Str(TX!Ch(temp.s, ToNat(seg) + 1)) ELSE NF
      [] OTHER -> NF

RECURSIVE Walk(_, _, _, _)
Walk(val, segs, i, cx) ==
    IF val.k = "nf" \/ i > Len(segs) THEN val
    ELSE Walk(StepOn(CallIf(val), segs[i], cx), segs, i + 1, cx)

\* traversePath(expr, canCall): canCall only applies to the FINAL object
Traverse(path, cx, canCall) ==
    LET segs == TX!Split(path, "/")
        v    == Walk(Root(segs[1], cx), segs, 2, cx)
    IN IF canCall THEN CallIf(v) ELSE v

StrOrEmpty(v) == IF v.k \in {"nf", "none"} THEN "" ELSE PyStr(v)

RECURSIVE Ev(_, _), AltFrom(_, _, _), TruthyFrom(_, _, _), StringFrom(_, _, _)
\* evaluatePath: the first alternative that EXISTS (a path that exists and is None wins)
AltFrom(es, i, cx) == IF i > Len(es) THEN NF
                      ELSE LET v == Ev(es[i], cx) IN IF v.k # "nf" THEN v ELSE AltFrom(es, i + 1, cx)
\* evaluateExists, alternatives after the first: "exists" means evaluates to a true value there
\* (deviation of the dialect, named ExistsAltTruth; E.4 is silent on alternation under exists:)
TruthyFrom(es, i, cx) == IF i > Len(es) THEN FALSE
                         ELSE Truthy(Ev(es[i], cx)) \/ TruthyFrom(es, i + 1, cx)
StringFrom(ps, i, cx) ==
    IF i > Len(ps) THEN ""
    ELSE LET p == ps[i] IN
         (CASE p.k = "lit" -> p.s
            [] p.k = "dd"  -> "$"
            [] p.k = "var" -> StrOrEmpty(Traverse(p.s, cx, TRUE))
            [] p.k = "sub" -> StrOrEmpty(Ev(p.a[1], cx))) \o StringFrom(ps, i + 1, cx)

FirstNoCall(arg, cx) ==      \* the first alternative of exists:/nocall: is traversed without calling
    IF arg.k = "alt" THEN (IF arg.a[1].k = "path" THEN Traverse(arg.a[1].s, cx, FALSE) ELSE NF)
    ELSE IF arg.k = "path" THEN Traverse(arg.s, cx, FALSE) ELSE NF

Ev(e, cx) ==
    CASE e.k = "path"   -> Traverse(e.s, cx, TRUE)
      [] e.k = "alt"    -> AltFrom(e.a, 1, cx)
      [] e.k = "exists" -> IF FirstNoCall(e.a[1], cx).k # "nf" THEN Num(1)
                           ELSE IF e.a[1].k = "alt" /\ TruthyFrom(e.a[1].a, 2, cx) THEN Num(1) ELSE Num(0)
      [] e.k = "nocall" -> LET v == FirstNoCall(e.a[1], cx) IN
                           IF v.k # "nf" THEN v
                           ELSE IF e.a[1].k = "alt" THEN AltFrom(e.a[1].a, 2, cx) ELSE NF
      [] e.k = "not"    -> IF Truthy(Ev(e.a[1], cx)) THEN Num(0) ELSE Num(1)    \* missing path: true
      [] e.k = "string" -> Str(StringFrom(e.a, 1, cx))
      [] e.k = "python" -> IF cx.py THEN Str("PY") ELSE Num(0)    \* gate: evaluatePython returns self.false
      [] OTHER -> NF

\* Context.evaluate(expr, originalAtts) as the interpreter calls it: a missing path is None
EvalTop(e, cx) == LET v == Ev(e, cx) IN IF v.k = "nf" THEN None ELSE v

\* ---- template trees ---------------------------------------------------------------------------
\* node: text (escaped on output), raw (comment / doctype, copied), el (element).  `tal` lists the
\* TAL/METAL commands of an element IN THE ORDER WRITTEN; a command is C(c, name, e, items, flag):
\*   define items=<<[g, name, e]>>   condition e   repeat name e   content|replace flag=structure e
\*   attributes items=<<[g |-> FALSE, name, e]>>   omit e (NoE = empty attribute)
\*   usemacro e   defmacro name   defslot name   fillslot name
Node(k, tag, text, atts, tal, kids) == [k |-> k, tag |-> tag, text |-> text, atts |-> atts, tal |-> tal, kids |-> kids]
TextN(t) == Node("text", "", t, <<>>, <<>>, <<>>)
RawN(t)  == Node("raw", "", t, <<>>, <<>>, <<>>)
El(tag, atts, tal, kids) == Node("el", tag, "", atts, tal, kids)
At(n, v) == [n |-> n, v |-> v]
C(c, name, e, items, flag) == [c |-> c, name |-> name, e |-> e, items |-> items, flag |-> flag]
Item(g, name, e) == [g |-> g, name |-> name, e |-> e]
CDefine(items)   == C("define", "", NoE, items, FALSE)
CCondition(e)    == C("condition", "", e, <<>>, FALSE)
CRepeat(name, e) == C("repeat", name, e, <<>>, FALSE)
CContent(e, st)  == C("content", "", e, <<>>, st)
CReplace(e, st)  == C("replace", "", e, <<>>, st)
CAttributes(its) == C("attributes", "", NoE, its, FALSE)
COmit(e)         == C("omit", "", e, <<>>, FALSE)
CUseMacro(e)     == C("usemacro", "", e, <<>>, FALSE)
CDefMacro(name)  == C("defmacro", name, NoE, <<>>, FALSE)
CDefSlot(name)   == C("defslot", name, NoE, <<>>, FALSE)
CFillSlot(name)  == C("fillslot", name, NoE, <<>>, FALSE)
\* elements that never have an end tag (HTML_FORBIDDEN_ENDTAG, lower-cased; imported: binding B1)
HasCmd(nd, c) == \E i \in DOMAIN nd.tal : nd.tal[i].c = c
CmdOf(nd, c) == nd.tal[CHOOSE i \in DOMAIN nd.tal : nd.tal[i].c = c]

\* does evaluating e (in cx) reach a python: expression?  (for the PythonGated canary)
RECURSIVE HasPython(_)
HasPython(e) == e.k = "python" \/ \E i \in DOMAIN e.a : HasPython(e.a[i])
=============================================================================
