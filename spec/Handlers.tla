------------------------------ MODULE Handlers ------------------------------
(* From request line to file-system accesses, AS CODED in pygopherd (C01).                  *)
(*                                                                                          *)
(*  DecodeSelector   protocols/base.py __init__ + slashnormalize; http.py/gemini.py/        *)
(*                   spartan.py handle(): cut at "?", percent-decode ONCE, THEN normalise   *)
(*  StatSel          HandlerMultiplexer.getHandler: os.stat(root + selector) BEFORE any     *)
(*                   filter ("StatBeforeFilter"); the pinned code swallowed OSError only, so *)
(*                   the ValueError for a NUL escaped ("NulRaises"; repaired in deb1f92)    *)
(*  IsSecure         handlers/base.py isrequestsecure: six forbidden substrings             *)
(*  UrlShaped/UrlSecure  handlers/url.py: own, weaker filter; never touches the file system *)
(*  VSplit           handlers/virtual.py: split at the first "?" else the first "|" and     *)
(*                   RE-STAT the real part in the constructor (again before the filter)     *)
(*  ZipHeads         handlers/ZIP.py canhandlerequest: os.path.split walk-up                *)
(*  Dispatch         first handler of the configured list with IsSecure /\ its own test;    *)
(*                   ZIPHandler re-dispatches the same selector on the archive's in-memory  *)
(*                   index; URLTypeRewriter re-dispatches selector[2:] on the real tree     *)
(*  RealOnlyGuard    mbox/pyg/scriptexec must only act on the real tree; the pinned code     *)
(*                   tested isinstance(self.vfs, VFS_Real), which a VFSZip (a subclass)     *)
(*                   passes ("ZipCountsAsReal"): such a handler then hands the archive-     *)
(*                   internal RELATIVE path to the operating system.  Repaired in /repo     *)
(*                   (0db1dbc: exact type test); the probe now binds ZipCountsAsReal=FALSE  *)
(*                                                                                          *)
(*  NestedZipProbesCwd  ZIPHandler on an archive's index probes <cwd>/<member>.zip            *)
(*                                                                                          *)
(* Deviations of the code from the ideal are constants bound from the working tree by       *)
(* probes in harness/c01.py (binding B1), never idealised away.                             *)
(* Text = sequences of one-character strings (see FS.tla).                                  *)
EXTENDS FS, MC_C01_consts
\* MC_C01_consts supplies: NulRaises, ZipCountsAsReal, NestedZipProbesCwd (BOOLEAN), DefaultList,
\* FullList (sequences of handler class names read from the working tree)

NUL == "^"         \* stands for the byte 0x00 (harness gamma/alpha translate)
Oth == "~"         \* stands for "some other byte without meaning to filter or path lookup"
\* Characters that mean nothing to the filter or to the kernel, but that a LATER normalisation /
\* folding / lenient decoding step would turn into a dot or a separator (harness gamma: the
\* Unicode compatibility characters U+FF0E, U+FF0F, U+FF3C, U+2025; raw UTF-8 in Gopher frames,
\* percent-encoded in URL frames).  LkOverDot (overlong UTF-8 C0 AE) is defined for Fold but NOT in
\* the token alphabet: it is two characters after decoding, which the one-character classes of
\* this model cannot express faithfully (URLTypeRewriter indexes characters).
LkDot == "Q"       \* look-alike of "."   (NFKC: ".")
LkSlash == "J"     \* look-alike of "/"   (NFKC: "/")
LkBack == "Y"      \* look-alike of "\"   (NFKC: "\")
LkTwoDot == "T"    \* two-dot leader      (NFKC: "..")
LkOverDot == "V"   \* overlong encoding of "." (a lenient decoder: ".")

---------------------------------------------------------------------------------
(* Text *)

HexDigits == {"0","1","2","3","4","5","6","7","8","9","a","b","c","d","e","f","A","B","C","D","E","F"}
LowerHex(c) == CASE c = "A" -> "a" [] c = "B" -> "b" [] c = "C" -> "c" [] c = "D" -> "d"
                 [] c = "E" -> "e" [] c = "F" -> "f" [] OTHER -> c
PairVal(a, b) == LET q == <<LowerHex(a), LowerHex(b)>> IN
                 CASE q = <<"0", "0">> -> NUL [] q = <<"2", "5">> -> "%" [] q = <<"2", "e">> -> "."
                   [] q = <<"2", "f">> -> "/" [] q = <<"5", "c">> -> "\\" [] q = <<"7", "c">> -> "|"
                   [] q = <<"3", "f">> -> "?" [] OTHER -> Oth

\* urllib.parse.unquote: one left-to-right pass, "%" + two hex digits -> byte, anything else literal
RECURSIVE Unquote(_)
Unquote(s) ==
    LET i == FindChar(s, "%") IN
    IF i = 0 THEN s
    ELSE IF i + 2 <= Len(s) /\ s[i + 1] \in HexDigits /\ s[i + 2] \in HexDigits
         THEN SubSeq(s, 1, i - 1) \o <<PairVal(s[i + 1], s[i + 2])>> \o Unquote(SubSeq(s, i + 3, Len(s)))
         ELSE SubSeq(s, 1, i) \o Unquote(SubSeq(s, i + 1, Len(s)))

\* protocols/base.py slashnormalize
RECURSIVE RStripSlash(_)
RStripSlash(s) == IF Len(s) > 0 /\ s[Len(s)] = "/" THEN RStripSlash(SubSeq(s, 1, Len(s) - 1)) ELSE s
SlashNormalize(s) ==
    LET a == RStripSlash(s)           \* selector.rstrip("/") since fix 5eb47a4 (one slash only before)
    IN IF Len(a) = 0 \/ a[1] # "/" THEN <<"/">> \o a ELSE a

LeadSlash(s) == IF Len(s) > 0 /\ s[1] = "/" THEN s ELSE <<"/">> \o s
BeforeQ(s)   == LET i == FindChar(s, "?") IN IF i = 0 THEN s ELSE SubSeq(s, 1, i - 1)

---------------------------------------------------------------------------------
(* Frames: how a selector string travels in a request line of each protocol.  For the URL-   *)
(* carrying protocols the harness always sends a path that starts with "/" (LeadSlash).      *)
RawFrames == {"G", "GP", "GPI", "GPD", "GS", "GPS"}   \* Gopher, Gopher+ (+ ! $), and their TLS forms
QFrames   == {"H", "HH", "HS", "W", "GEM"}            \* HTTP GET/HEAD, HTTPS, WAP, Gemini: path ends at "?"
SpFrames  == {"SP"}                                   \* Spartan: no query part
AllFrames == RawFrames \cup QFrames \cup SpFrames

DecodeSelector(fr, raw) ==
    IF fr \in RawFrames THEN SlashNormalize(raw)
    ELSE IF fr \in QFrames THEN SlashNormalize(Unquote(BeforeQ(LeadSlash(raw))))
    ELSE SlashNormalize(Unquote(LeadSlash(raw)))

---------------------------------------------------------------------------------
(* Filters *)
BadSubstrings == <<Q("./"), Q(".."), Q("//"), Q(".\\"), Q("\\\\")>>       \* ... and NUL
BadNames      == <<"dotslash", "dotdot", "dblslash", "dotbackslash", "dblbackslash">>
\* the substring part of the filter: what containment rests on, and what is closed under the handlers' cuts
SubSecure(s) == /\ \A i \in 1..5 : ~HasQ(s, BadSubstrings[i])
                /\ ~HasChar(s, NUL)
\* the whole filter: fix 860656c also refuses a trailing "/." (it names the directory itself: "/d/." used to list /d
\* under a selector whose children are all refused).  Not needed for containment, and not closed under the virtual
\* split ("/.?x" is accepted, its real part "/." is the root directory itself).
IsSecure(s) == SubSecure(s) /\ ~EndsWithQ(s, Q("/."))

\* the property's own list of "tries to climb out" (C01 statement) - deliberately a separate
\* definition: the code's filter is IsSecure, the property's notion is Hostile
qDD == Q("..")
qDS == Q("./")
qSS == Q("//")
qDB == Q(".\\")
qBB == Q("\\\\")
Hostile(s) == HasQ(s, qDD) \/ HasQ(s, qDS) \/ HasQ(s, qSS) \/ HasQ(s, qDB) \/ HasQ(s, qBB) \/ HasChar(s, NUL)
\* selector class used in reports and known-finding matchers: NUL first, then the first
\* forbidden substring in list order, else "clean"
SelClass(s) ==
    IF HasChar(s, NUL) THEN "nul"
    ELSE LET hits == {i \in 1..5 : HasQ(s, BadSubstrings[i])}
         IN IF hits = {} THEN "clean" ELSE BadNames[CHOOSE i \in hits : \A j \in hits : i <= j]

\* handlers/url.py: re.search("^(/|)URL:.+://", selector)
qURL == Q("URL:")
qCSS == Q("://")
UrlShaped(s) ==
    LET t == IF Len(s) > 0 /\ s[1] = "/" THEN Tail(s) ELSE s
    IN StartsWithQ(t, qURL) /\ \E i \in 6..(Len(t) - 2) : SubSeq(t, i, i + 2) = qCSS
UrlSecure(s) == ~HasChar(s, NUL)        \* also LF TAB CR and the double quote: not in the alphabets

---------------------------------------------------------------------------------
(* Paths *)
\* ASSUMPTION NoTransformAfterFilter (handlers/base.py VFS_Real.getfspath): the path handed to the
\* operating system is LITERALLY root + selector - nothing rewrites the selector between the filter
\* and the system call.  PostFilter is that (absent) step; Fold is what a normalising step would do.
\* The containment theorem is about FsPath, i.e. it holds only under this assumption: MC_C01 counts
\* the enumerated selectors for which IsSecure(d) holds and RootQ \o Fold(d) leaves the root
\* (FoldWouldEscape) - the assumption is load-bearing for each of them.  The binding checks the
\* assumption on the real code: every path in an audit event must be LiteralPath (design level).
PostFilter(sel) == sel
RECURSIVE Fold(_)
Fold(s) == IF Len(s) = 0 THEN <<>>
           ELSE (CASE s[1] = LkDot -> <<".">> [] s[1] = LkOverDot -> <<".">> [] s[1] = LkSlash -> <<"/">>
                   [] s[1] = LkBack -> <<"\\">> [] s[1] = LkTwoDot -> <<".", ".">> [] OTHER -> <<s[1]>>) \o Fold(Tail(s))
FsPath(sel) == LET p == RootQ \o PostFilter(sel) IN IF p[Len(p)] = "/" THEN SubSeq(p, 1, Len(p) - 1) ELSE p

NoStat == [k |-> "none", f |-> "none", out |-> FALSE, err |-> "ENOENT", at |-> <<>>]
\* vfs.stat(selector) on the real tree.  A NUL makes os.stat raise ValueError without a system call.
StatSel(sel) == IF HasChar(sel, NUL) THEN [NoStat EXCEPT !.err = "EINVAL"] ELSE StatP(FsPath(sel))

VSplit(s) ==
    LET q == FindChar(s, "?")
        i == IF q # 0 THEN q ELSE FindChar(s, "|")
    IN IF i = 0 THEN [has |-> FALSE, real |-> s, args |-> <<>>]
       ELSE [has |-> TRUE, real |-> SubSeq(s, 1, i - 1), args |-> SubSeq(s, i + 1, Len(s))]

\* os.path.split(p)[0]
SplitHead(p) ==
    LET h == SubSeq(p, 1, LastChar(p, "/"))
    IN IF RStripSlash(h) # <<>> THEN RStripSlash(h) ELSE h
\* the names ZIPHandler.canhandlerequest tests, in order
ZipStop == {<<>>, <<"/">>, <<".">>, <<".", "/">>}
RECURSIVE ZipHeads(_)
ZipHeads(b) == IF b \in ZipStop \/ LastChar(b, "/") = 0 THEN <<b>> ELSE <<b>> \o ZipHeads(SplitHead(b))

Digits == {"0", "1", "2", "3", "4", "5", "6", "7", "8", "9"}
MsgArg(args, flag) ==
    /\ StartsWithQ(args, flag)
    /\ LET n == SubSeq(args, Len(flag) + 1, Len(args))
       IN Len(n) > 0 /\ (\A i \in 1..Len(n) : n[i] \in Digits) /\ (\E i \in 1..Len(n) : n[i] # "0")
qMaildirMsg == Q("/MAILDIR-MESSAGE/")
qMboxMsg    == Q("/MBOX-MESSAGE/")
qGophermap  == Q("/gophermap")
qDotGophermap == Q(".gophermap")
qNew  == Q("/new")
qCur  == Q("/cur")
qZip  == Q(".zip")
qTal  == Q(".tal")
qHtml == Q(".html")
qHtm  == Q(".htm")
qPyg  == Q(".pyg")
SidecarExts == {Q(".abstract"), Q(".keywords"), Q(".ask"), Q(".3d")}

---------------------------------------------------------------------------------
(* The archive /z.zip: VFSZip answers from its in-memory index *)
ZipBase == Q("/z.zip")
\* VFSZip._getfspathfinal strips the archive name and one slash at either end; the index lookup
\* (os.path.split + per-component walk) ignores empty components ("md//new" finds md/new)
RECURSIVE JoinSlash(_)
JoinSlash(names) == IF Len(names) = 0 THEN <<>>
                    ELSE IF Len(names) = 1 THEN names[1]
                    ELSE names[1] \o <<"/">> \o JoinSlash(Tail(names))
Member(sel) == JoinSlash(SelectSeq(SplitQ(SubSeq(sel, Len(ZipBase) + 1, Len(sel)), "/"), LAMBDA n : n # <<>>))
\* VFSZip.stat reports the fixed mode 0100644 for every regular member ("ZipModeFixed")
ZipStat(sel) ==
    LET m == Member(sel) IN
    IF m \in DOMAIN ZipMembers
    THEN [k |-> ZipMembers[m].k, f |-> IF ZipMembers[m].f = "exec" THEN "plain" ELSE ZipMembers[m].f,
          out |-> FALSE, err |-> "ok", at |-> m]
    ELSE NoStat
\* names VFSZip.listdir returns for the member directory m
ZipChildren(m) ==
    LET pre == IF m = <<>> THEN <<>> ELSE m \o <<"/">>
    IN {SubSeq(x, Len(pre) + 1, Len(x)) :
          x \in {x \in DOMAIN ZipMembers : /\ x # m /\ x # <<>> /\ StartsWithQ(x, pre)
                                           /\ ~HasChar(SubSeq(x, Len(pre) + 1, Len(x)), "/")}}

VStat(vfs, sel) == IF vfs = "real" THEN StatSel(sel) ELSE ZipStat(sel)
RealOnlyGuard(vfs) == vfs = "real" \/ ZipCountsAsReal

\* first name of the walk-up that ends in ".zip" and is a regular file that is an archive
ZipBaseOf(vfs, hs) ==
    LET ok == {i \in 1..Len(hs) : EndsWithQ(hs[i], qZip) /\ VStat(vfs, hs[i]).f = "zip"}
    IN IF ok = {} THEN <<>> ELSE hs[CHOOSE i \in ok : \A j \in ok : i <= j]

---------------------------------------------------------------------------------
(* Dispatch.  Result: h = class the server log shows, route = how it got there, resp =       *)
(* response class ("ok", "notfound", "ioerror" = an OSError answered in the protocol's error *)
(* syntax, "noreply" = an exception no protocol catches, "any" = depends on the harness      *)
(* socket or the working directory), lsel = selector shown in the log, tainted = a CONSUMED  *)
(* stat/open/list consulted something outside the root, rel = an archive-internal relative   *)
(* path reached the operating system.                                                        *)
Outcome(h, route, resp, lsel, tainted, rel) ==
    [h |-> h, route |-> route, resp |-> resp, lsel |-> lsel, tainted |-> tainted, rel |-> rel]

Remove(list, x) == SelectSeq(list, LAMBDA y : y # x)
Range(f) == {f[i] : i \in DOMAIN f}

\* what MaildirMessageHandler / MBoxMessageHandler answer on the real tree for message 1
\* mailbox.mbox / mailbox.Maildir take os.path.abspath of the path they are given: for a selector that
\* passed the filter that only drops a trailing "/." ("/m.mbox/." opens /m.mbox)
RECURSIVE DropDotTail(_)
DropDotTail(p) == IF Len(p) >= 2 /\ p[Len(p)] = "." /\ p[Len(p) - 1] = "/" THEN DropDotTail(SubSeq(p, 1, Len(p) - 2))
                  ELSE IF Len(p) >= 1 /\ p[Len(p)] = "/" THEN DropDotTail(SubSeq(p, 1, Len(p) - 1))
                  ELSE p
MailboxStat(vfs, real) == IF vfs = "real" /\ ~HasChar(real, NUL) THEN StatP(DropDotTail(FsPath(real))) ELSE NoStat
\* (a mailbox that does not exist / has no such message is FileNotFound since the fix for C03)
MaildirMsgResp(s) == IF s.k = "none" THEN "notfound"                \* NoSuchMailboxError
                     ELSE IF s.f = "maildir" THEN "ok" ELSE "ioerror"
MboxMsgResp(s)    == IF s.k = "none" THEN "notfound"
                     ELSE IF s.k = "dir" THEN "ioerror"             \* open(.., "rb+") on a directory
                     ELSE IF s.f = "mbox" THEN "ok" ELSE "notfound" \* StopIteration: no such message

RECURSIVE Dispatch(_, _, _, _)
Dispatch(d, list, vfs, all) ==
    LET sec  == IsSecure(d)
        nul  == HasChar(d, NUL)
        v    == VSplit(d)
        s0   == VStat(vfs, d)                                  \* StatBeforeFilter
        sv   == IF v.has THEN VStat(vfs, v.real) ELSE s0       \* Virtual.__init__ re-stat
        gm   == VStat(vfs, d \o qGophermap)
        mdn  == VStat(vfs, v.real \o qNew)
        mdc  == VStat(vfs, v.real \o qCur)
        side == IF vfs = "real"
                THEN \E e \in SidecarExts : StatP(FsPath(d) \o (IF s0.k = "dir" THEN <<"/">> ELSE <<>>) \o e).out
                ELSE FALSE
        hs   == ZipHeads(d)
        zip  == "ZIPHandler" \in Range(list)
        zb   == IF zip THEN ZipBaseOf(vfs, hs) ELSE <<>>
        zt   == zip /\ \E i \in 1..Len(hs) : VStat(vfs, hs[i]).out
        \* "NestedZipProbesCwd": on an archive's index the walk-up finds a MEMBER named *.zip and asks
        \* zipfile.is_zipfile(VFSZip.getfspath(member)) - an archive-internal relative path, opened in
        \* the working directory; what happens next depends on what lies there
        nz   == zip /\ vfs = "zip" /\ NestedZipProbesCwd
                /\ \E i \in 1..Len(hs) : EndsWithQ(hs[i], qZip) /\ VStat(vfs, hs[i]).k = "file"
        Acc(h) ==
          CASE h = "HTMLURLHandler"        -> UrlShaped(d) /\ UrlSecure(d)
            [] h = "BuckGophermapHandler"  -> sec /\ ((s0.k = "dir" /\ gm.k = "file") \/ (s0.k = "file" /\ EndsWithQ(d, qDotGophermap)))
            [] h = "MaildirFolderHandler"  -> sec /\ RealOnlyGuard(vfs) /\ v.args = <<>> /\ sv.k = "dir" /\ mdn.k = "dir" /\ mdc.k = "dir"
            [] h = "MaildirMessageHandler" -> sec /\ vfs = "real" /\ MsgArg(v.args, qMaildirMsg)
            [] h = "UMNDirHandler"         -> sec /\ s0.k = "dir"
            [] h = "DirHandler"            -> sec /\ s0.k = "dir"
            [] h = "TALFileHandler"        -> sec /\ s0.k = "file" /\ EndsWithQ(d, qTal)
            [] h = "HTMLFileTitleHandler"  -> sec /\ s0.k = "file" /\ (EndsWithQ(d, qHtml) \/ EndsWithQ(d, qHtm))
            [] h = "MBoxMessageHandler"    -> sec /\ vfs = "real" /\ MsgArg(v.args, qMboxMsg)
            [] h = "MBoxFolderHandler"     -> sec /\ RealOnlyGuard(vfs) /\ v.args = <<>> /\ sv.k = "file" /\ sv.f = "mbox"
            [] h = "PYGHandler"            -> sec /\ RealOnlyGuard(vfs) /\ sv.k = "file" /\ sv.f = "exec" /\ EndsWithQ(v.real, qPyg)
            [] h = "ExecHandler"           -> sec /\ RealOnlyGuard(vfs) /\ sv.k = "file" /\ sv.f = "exec"
            \* (on an archive's index ZIPHandler either probes the working directory - nz - or, once repaired,
            \*  declines: archives are opened by path, which only the real tree can supply)
            [] h = "ZIPHandler"            -> sec /\ ((vfs = "real" /\ zb # <<>>) \/ nz)
            [] h = "CompressedFileHandler" -> FALSE               \* no decompressor matches a name of the tree
            [] h = "FileHandler"           -> sec /\ s0.k = "file"
            [] h = "URLTypeRewriter"       -> sec /\ Len(d) >= 3 /\ d[1] = "/" /\ d[3] = "/"
            [] OTHER                       -> FALSE
        hits == {i \in 1..Len(list) : Acc(list[i])}
        \* taint of everything a handler may have consumed once the filter let the selector through
        used == sec /\ (s0.out \/ sv.out \/ gm.out \/ mdn.out \/ mdc.out \/ side \/ zt)
    IN
    IF nul /\ NulRaises /\ vfs = "real"
    THEN Outcome("none", "ValueError", "noreply", <<>>, FALSE, FALSE)      \* escapes getHandler: no reply at all
    ELSE IF hits = {} THEN Outcome("none", "none", "notfound", d, used, FALSE)
    ELSE LET h == list[CHOOSE i \in hits : \A j \in hits : i <= j] IN
         CASE h = "URLTypeRewriter" ->
                  LET o == Dispatch(SubSeq(d, 3, Len(d)), Remove(all, h), "real", all)
                  IN [o EXCEPT !.route = "rewrite/" \o o.route, !.tainted = o.tainted \/ used,
                               !.lsel = IF o.h = "none" THEN o.lsel ELSE d]
           [] h = "ZIPHandler" /\ nz ->
                  Outcome(h, "ZIPHandler(nested)", "any", d, used, TRUE)
           [] h = "ZIPHandler" /\ ~nz ->
                  LET o == Dispatch(d, all, "zip", all)
                  IN [o EXCEPT !.h = "ZIPHandler", !.route = "zip/" \o o.route, !.tainted = o.tainted \/ used]
           [] h = "HTMLURLHandler" -> Outcome(h, h, "ok", d, FALSE, FALSE)
           [] h = "MaildirMessageHandler" ->
                  Outcome(h, h, IF vfs = "real" THEN MaildirMsgResp(MailboxStat(vfs, v.real)) ELSE "any", d, used, vfs # "real")
           [] h = "MBoxMessageHandler" ->
                  Outcome(h, h, IF vfs = "real" THEN MboxMsgResp(MailboxStat(vfs, v.real)) ELSE "any", d, used, vfs # "real")
           [] h \in {"MaildirFolderHandler", "MBoxFolderHandler", "PYGHandler"} ->
                  Outcome(h, h, IF vfs = "real" THEN "ok" ELSE "any", d, used, vfs # "real")
           [] h = "ExecHandler" -> Outcome(h, h, "any", d, used, vfs # "real")
           \* (a directory listing leaves out a child whose selector the filter rejects - "/k/." makes
           \*  "/k/./g" - since the fix for C12; the listing itself is answered)
           \* Listing a directory of an archive resolves every member through the handler chain: a member
           \* named *.zip makes ZIPHandler probe the working directory (NestedZipProbesCwd) for the listing too
           [] h \in {"UMNDirHandler", "DirHandler"} /\ vfs = "zip" /\ zip /\ NestedZipProbesCwd
                /\ (\E n \in ZipChildren(s0.at) : EndsWithQ(n, qZip)
                                                  /\ ZipStat(d \o <<"/">> \o n).k = "file") ->
                  Outcome(h, h \o "(nested child)", "any", d, used, TRUE)
           [] OTHER -> Outcome(h, h, "ok", d, used, FALSE)

HandlerList(hl) == IF hl = "full" THEN FullList ELSE DefaultList
Serve(d, hl) == Dispatch(d, HandlerList(hl), "real", HandlerList(hl))
\* response class per frame (today the same for every frame; Gopher+ "!" never calls prepare()/write(),
\* which matters only for handlers whose failures are lazy - none in this model)
FrameResp(fr, o) == o.resp

---------------------------------------------------------------------------------
(* The design argument, clause by clause (evaluated by TLC for every enumerated selector)   *)

\* every selector a handler sees starts with "/"
NormalFormC(d) == Len(d) > 0 /\ d[1] = "/"
\* THEOREM (bounded): the filter plus literal concatenation implies containment under POSIX resolution
ContainmentC(d) == (SubSecure(d) /\ NormalFormC(d)) => Contained(FsPath(d))
\* the filter is closed under the cuts the handlers make: virtual split, ZIP walk-up, type rewriting
PrefixClosedC(d) ==
    IsSecure(d) => /\ SubSecure(VSplit(d).real)
                   /\ LET hs == ZipHeads(d) IN \A i \in 1..Len(hs) : SubSecure(hs[i])
                   /\ (Len(d) >= 3 => SubSecure(SubSeq(d, 3, Len(d))))
\* ... so that nothing a handler consumes depends on the world outside the root
UntaintedC(o) == ~o.tainted
\* the pre-filter stats are never consumed: an insecure selector reaches no handler but the URL page
FilterGatesC(d, o) == ~IsSecure(d) => o.h \in {"none", "HTMLURLHandler"}
\* hostile selectors are answered as not-found (property clause, model level)
ClimbIsNotFoundC(d, o) == (Hostile(d) /\ ~UrlShaped(d)) => o.resp = "notfound"
\* no archive-internal relative path is handed to the operating system
NoCwdRelativeC(o) == ~o.rel
\* WORLD STATES WITH CACHE ARTEFACTS (harness gamma: planted in the root before the request, identical
\* in both worlds).  The index cache of an archive b lives next to it under the selector
\* dirname(b) + "/.cache.pygopherd.zip3." + basename(b); which files exist depends on the dbm flavour of
\* the interpreter that wrote it (single file, .db, .pag + .dir, .dat + .dir + .bak), it may be fresher or
\* older than the archive, valid or garbage; a directory may hold a .cache.pygopherd.dir left by another
\* run.  ASSUMPTION CacheByFsPath (ZIP.py init_cache/save_cache, dir.py loadcache/savecache): whatever
\* variant is probed, it is probed at FsPath(cache selector) - root-prefixed like every other path - never
\* at the selector-style name itself (an absolute path outside the root) nor relative to the cwd.
PreStates == {"none", "zsingle_fresh", "zsingle_stale", "zdb", "zpag", "zdumb_garbage", "zdumb_valid",
              "dircache_garbage", "dircache_valid"}
ZipCacheVariants == {<<>>, Q(".db"), Q(".pag"), Q(".dir"), Q(".dat"), Q(".bak")}
ZipCacheSel(b) == LET i == LastChar(b, "/") IN SubSeq(b, 1, i) \o Q(".cache.pygopherd.zip3.") \o SubSeq(b, i + 1, Len(b))
CachePathsC(d, hl) ==
    LET zb == IF "ZIPHandler" \in Range(HandlerList(hl)) /\ IsSecure(d) THEN ZipBaseOf("real", ZipHeads(d)) ELSE <<>>
    IN zb = <<>> \/ \A v \in ZipCacheVariants : Contained(FsPath(ZipCacheSel(zb)) \o v)

\* NoTransformAfterFilter as a clause of the model, and the witness that it is needed
LiteralPathC(d) == PostFilter(d) = d
FoldWouldEscape(d) == IsSecure(d) /\ NormalFormC(d) /\ ~Contained(RootQ \o Fold(d))

\* Design-level check of the same assumption on the REAL code: p = a path that an audit event
\* showed being handed to the OS, with the root prefix removed.  It must be a piece of the decoded
\* selector d taken literally, followed by a tail made of names the handlers or the tree supply.
TreeNames == {c[Len(c)] : c \in {c \in TreePaths : Len(c) > 0}}
HandlerNames == {Q("gophermap"), Q("new"), Q("cur"), Q("tmp"), Q(".cache.pygopherd.dir"), Q(".cap"),
                 Q(".cache.pygopherd.zip3.z.zip")}
DbmExts == {Q(".db"), Q(".dat"), Q(".dir"), Q(".bak"), Q(".pag")}
TrustedNames == TreeNames \cup HandlerNames
IsTrustedComp(c) ==
    \/ c = <<>> \/ c \in TrustedNames
    \/ \E e \in SidecarExts \cup DbmExts : EndsWithQ(c, e) /\ (Len(c) = Len(e) \/ SubSeq(c, 1, Len(c) - Len(e)) \in TrustedNames)
TrustedTail(t) ==
    \/ t = <<>> \/ t \in SidecarExts
    \/ (t[1] = "/" /\ LET cs == SplitQ(Tail(t), "/") IN \A i \in 1..Len(cs) : IsTrustedComp(cs[i]))
LiteralPath(d, p) ==
    \E k \in 0..Len(p) : TrustedTail(SubSeq(p, k + 1, Len(p))) /\ (k = 0 \/ HasQ(d, SubSeq(p, 1, k)))
=============================================================================
