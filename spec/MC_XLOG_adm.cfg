SPECIFICATION SpecAdm
CONSTANTS
  Defects <- K_Defects
  InjText <- K_InjText
INVARIANT A_NoneIsSilent
INVARIANT A_RightSink
INVARIANT A_SyslogOpened
INVARIANT A_RecordFlushed
INVARIANT A_SyslogPriority
INVARIANT A_OneRecordOneLine
INVARIANT A_SyslogOnePerCall
INVARIANT A_MimeFailureAborts
INVARIANT A_DetachForksOnce
INVARIANT A_ParentExitsZero
INVARIANT A_DaemonServes
INVARIANT A_FaultAborts
INVARIANT A_PidfileHoldsServingPid
INVARIANT A_PidfileBeforeDrop
INVARIANT A_Verdict
INVARIANT A_RunAgrees
CHECK_DEADLOCK FALSE
