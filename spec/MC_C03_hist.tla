----------------------------- MODULE MC_C03_hist -----------------------------
(* MC_C03_hist (SPECIFICATION HistSpec): self-composition for HistoryFree  [C03].            *)
(* A behaviour serves the target request r0 alone on the pristine tree, remembers the       *)
(* reply, puts the pristine tree back, serves a history of read-only requests (artefacts    *)
(* accumulate in fs: directory caches, __pycache__), then serves r0 again; the two replies  *)
(* must agree (timestamps are not modelled at all).  Every final state is also one replay   *)
(* case (r0, history) for the real server (binding B2).                                     *)
EXTENDS MC_C03

VARIABLES phase, r0, hq, hdone, alone
hvars == <<vars, phase, r0, hq, hdone, alone>>

RepReq(i, hl) == Req(Reps[i].f, Reps[i].s, Reps[i].a, hl)
Summary == [proto |-> proto, frames |-> FramesOf(Fam(proto), out),
            cls |-> [i \in 1..Len(log) |-> log[i].cls], esc |-> esc]
NoSummary == [proto |-> "none", frames |-> <<>>, cls |-> <<>>, esc |-> "none"]

Hists == UNION {[1..n -> 1..Len(Reps)] : n \in 0..MaxHist}

HistInit ==
    /\ \E hl \in HLs, i \in 1..Len(Reps) : r0 = i /\ InitConn(RepReq(i, hl), TreeOf(hl))
    /\ hq \in Hists /\ hdone = <<>> /\ phase = "alone" /\ alone = NoSummary

HistNext ==
    \/ (~Closed /\ Step /\ UNCHANGED <<phase, r0, hq, hdone, alone>>)
    \/ /\ Closed /\ phase = "alone"
       /\ alone' = Summary
       /\ IF hq = <<>>
          THEN StartConn(RepReq(r0, rq.hl), TreeOf(rq.hl)) /\ phase' = "final" /\ UNCHANGED <<hq, hdone>>
          ELSE StartConn(RepReq(hq[1], rq.hl), TreeOf(rq.hl)) /\ phase' = "hist"
               /\ hq' = Tail(hq) /\ hdone' = Append(hdone, hq[1])
       /\ UNCHANGED r0
    \/ /\ Closed /\ phase = "hist"
       /\ IF hq = <<>>
          THEN StartConn(RepReq(r0, rq.hl), fs) /\ phase' = "final" /\ UNCHANGED <<hq, hdone>>
          ELSE StartConn(RepReq(hq[1], rq.hl), fs) /\ hq' = Tail(hq) /\ hdone' = Append(hdone, hq[1]) /\ UNCHANGED phase
       /\ UNCHANGED <<r0, alone>>
HistSpec == HistInit /\ [][HistNext]_hvars

HistoryFree == (Closed /\ phase = "final") => (Excused \/ Summary = alone)
\* reachability witness for the vacuity check (must be VIOLATED): some history leaves an artefact
W_NoArtefact == DOMAIN fs = DOMAIN Tree0[rq.hl]
=============================================================================
