----------------------------- MODULE MC_C03_hist -----------------------------
(* MC_C03_hist (SPECIFICATION HistSpec): self-composition for HistoryFree  [C03].            *)
(* A behaviour serves the target request r0 alone on the pristine tree, remembers the       *)
(* reply, puts the pristine tree back, serves a history of read-only requests (artefacts    *)
(* accumulate in fs: directory caches, __pycache__), then serves r0 again; the two replies  *)
(* must agree (timestamps are not modelled at all).  Every final state is also one replay   *)
(* case (r0, history) for the real server (binding B2).                                     *)
EXTENDS MC_C03

VARIABLES phase, r0, hdone, alone
hvars == <<vars, phase, r0, hdone, alone>>

RepReq(i, hl) == Req(Reps[i].f, Reps[i].s, Reps[i].a, hl)
Summary == [proto |-> proto, frames |-> FramesOf(Fam(proto), out),
            cls |-> [i \in 1..Len(log) |-> log[i].cls], esc |-> esc]
NoSummary == [proto |-> "none", frames |-> <<>>, cls |-> <<>>, esc |-> "none"]

HistInit ==
    /\ \E hl \in HLs, i \in 1..Len(Reps) : r0 = i /\ InitConn(RepReq(i, hl), TreeOf(hl))
    /\ hdone = <<>> /\ phase = "alone" /\ alone = NoSummary

\* after a connection has closed: serve one more request of the history (any representative, while
\* the bound allows), or serve the target request again
ServeMore(f) ==
    /\ Len(hdone) < MaxHist
    /\ \E i \in 1..Len(Reps) : StartConn(RepReq(i, rq.hl), f) /\ hdone' = Append(hdone, i)
    /\ phase' = "hist"
ServeFinal(f) == StartConn(RepReq(r0, rq.hl), f) /\ phase' = "final" /\ UNCHANGED hdone

HistNext ==
    \/ (~Closed /\ Step /\ UNCHANGED <<phase, r0, hdone, alone>>)
    \/ /\ Closed /\ phase = "alone"                     \* remember the reply, put the pristine tree back
       /\ alone' = Summary
       /\ (ServeMore(TreeOf(rq.hl)) \/ ServeFinal(TreeOf(rq.hl)))
       /\ UNCHANGED r0
    \/ /\ Closed /\ phase = "hist"                      \* artefacts stay
       /\ (ServeMore(fs) \/ ServeFinal(fs))
       /\ UNCHANGED <<r0, alone>>
HistSpec == HistInit /\ [][HistNext]_hvars

HistoryFree == (Closed /\ phase = "final") => (Excused \/ Summary = alone)
\* reachability witness for the vacuity check (must be VIOLATED): some history leaves an artefact
W_NoArtefact == DOMAIN fs = DOMAIN Tree0[rq.hl]
=============================================================================
