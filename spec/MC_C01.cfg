SPECIFICATION Spec
CONSTANTS
  Mode = "chars"
  MaxLen = 3
  Frames = {"G", "H", "SP"}
  Lists = {"default"}
  ExtraTokens = {}
  Pres = {"none"}
INVARIANT DesignHolds
CHECK_DEADLOCK FALSE
