SPECIFICATION Spec
CONSTANTS
  Mode = "chars"
  MaxLen = 3
  Frames = {"G", "H", "SP"}
  Lists = {"default"}
  ExtraTokens = {}
INVARIANT DesignHolds
CHECK_DEADLOCK FALSE
