--------------------------------- MODULE Web ---------------------------------
(* URL-based front ends beyond the listed properties (growth check XWEB) - design model.    *)
(*                                                                                          *)
(* Transcribed, structured like the code (one operator per method, one state-machine step   *)
(* per rendered row), on top of WebText (percent quoting, Target/Follow as in Links of C05):        *)
(*   1 http.py   IconGroup/IconRoute (the built-in /PYGOPHERD-HTTPPROTO-ICONS/<name> route), *)
(*               IconFor (getimgtag + [protocols.http.HTTPProtocol] iconmapping), HttpRow    *)
(*   2 wap.py    WapClaims/WapSel (waptop prefix), WapStart/WapRow (getrenderstr: the two    *)
(*               counters accesskeyidx / postfieldidx), the WML 1.1 deck skeleton            *)
(*   3 gemini.py GemRoute (handle/handle_input: prompt 10, redirect 30, bad request 59),     *)
(*               GemMeta (adjust_mimetype), GemRow (renderobjinfo), GemTail (renderdirend)   *)
(*   4 url.py    UrlCan/UrlSecure/UrlTarget (HTMLURLHandler), RwCan + WebChain              *)
(*               (URLTypeRewriter at the end of the handler list, over a small fixed tree)   *)
(*                                                                                          *)
(* PROPERTIES (what a user / administrator relies on) and where they are promised:          *)
(*  icons                                                                                   *)
(*   IconServed       every icon a listing row references (IMG SRC) is answered 200 with an   *)
(*                    image content type and a body; HEAD: same headers, no body (RFC 1945   *)
(*                    8.2).  [http.py getimgtag + the icon route are one feature]            *)
(*   IconBytes        the body is the embedded public-domain icon of that name (the route's  *)
(*                    own "Last-Modified: Fri, 14 Dec 2001" says the data never changes):     *)
(*                    digests pinned in IconDigest                                           *)
(*   IconDims         the GIF's logical screen is what the IMG tag announces (WIDTH="20"     *)
(*                    HEIGHT="22")                                                           *)
(*   RowIcon          a row of item type T shows iconmapping[T] (conf/pygopherd.conf         *)
(*                    [protocols.http.HTTPProtocol] iconmapping), any other type generic.gif *)
(*   MappedIconsExist every icon named by the shipped iconmapping exists in the table (B1)   *)
(*   UnknownIcon      a name that is not in the table is an ordinary selector: 404 page when *)
(*                    there is no such file (http.py: the route only returns for known names)*)
(*  WAP  (doc/pygopherd.sgml "Conforming to: WAP/WML as defined by the WAP Forum";           *)
(*        conf [protocols.wap.WAPProtocol] waptop comment)                                   *)
(*   WmlWellFormed    every text/vnd.wap.wml body is well-formed XML with the WML 1.1        *)
(*                    doctype (public id -//WAPFORUM//DTD WML 1.1//EN), root wml, >= 1 card  *)
(*   WmlNesting       elements nest as the WML 1.1 DTD allows (WmlAllowed, transcribed)      *)
(*   AccessKeys       wap.py `accesskeys = "1234567890#*"` (the twelve keys of a phone pad):  *)
(*                    the k-th LINK row (k <= 12) carries the k-th key as accesskey and as   *)
(*                    visible label; later link rows, info rows and search rows carry none   *)
(*                    and info/search rows do not use one up; keys in a deck are distinct    *)
(*   SearchCard       a type-7 row is an <input> plus a <go method="get"> to the item with   *)
(*                    one postfield searchrequest = $(that input); input names are distinct  *)
(*   WapPrefix        "accessing http://sitename.com/wap will bring up your site in WAP      *)
(*                    mode": waptop, waptop/ (and waptop?query) are the root menu, waptop/x  *)
(*                    is selector /x, every local link of a deck starts with waptop (the     *)
(*                    user stays in WAP mode), URL:/remote links are left alone              *)
(*   WapTitle         the card title and heading show the menu's name ("Gopher" for the root)*)
(*   WapErrorCard     a missing selector is answered with a WML card titled "404 Error"      *)
(*  Gemini (specification cited by gemini.py; section 3: <STATUS><SPACE><META><CR><LF>,     *)
(*          META <= 1024 bytes, body only after 2x; 10 INPUT, 20 SUCCESS meta = MIME type,   *)
(*          30 REDIRECT meta = URL, 51 NOT FOUND, 59 BAD REQUEST; 5.4.2 link lines)          *)
(*   GemHeader        one status line of that shape; nothing follows a non-2x status          *)
(*   GemMetaLimit     META <= 1024 bytes for a request that itself respects the 1024 limit    *)
(*   GemPrompt        handle_input docstring: a search item is linked with the query prefix;  *)
(*                    requested without a query it answers exactly "10 <prompt>" CRLF and     *)
(*                    the handler is not run                                                 *)
(*   GemSearchArrives "After input has been submitted, we redirect back to the original       *)
(*                    selector": with a query the answer is 30 <selector>?<query>, and       *)
(*                    following it hands the percent-decoded input to the handler            *)
(*   GemSuccessMime   20 carries the entry's MIME type (menus text/gemini, none text/plain)  *)
(*   GemNotFound / GemBadRequest   51 / 59                                                   *)
(*   GemLinkLines     a menu row is "=> <reference> <name>" (reference without blanks:       *)
(*                    percent-quoted), an info row is its text; type-7 rows carry the prefix *)
(*   GemFooter        conf [protocols.gemini.GeminiProtocol] footer: appended when set        *)
(*  url.py  (doc/standards/url.txt section 5; doc/pygopherd.sgml url.HTMLURLHandler,         *)
(*           url.URLTypeRewriter; conf comments listing the handlers)                        *)
(*   UrlRedirectPage  a selector URL:<scheme>://... is answered by an HTML document (type h, *)
(*                    text/html) with a refresh of <= 10 s to that URL and a link to it, no   *)
(*                    IMG / SCRIPT / FRAME, no other outside reference                        *)
(*   UrlOnlyUrls      "URL:" without scheme://, or with TAB CR LF NUL or a double quote, is   *)
(*                    not answered by that handler                                           *)
(*   RewriteSame      with url.URLTypeRewriter configured, /X/path ("an extra type           *)
(*                    character") is served as the same object as /path                      *)
(*   RewriteOnce      only ONE leading character is removed, once; /X and /XY/path are not    *)
(*                    rewritten; an existing /X/path is served as itself                     *)
(*   RewriteOff       the shipped (default) handler list does not contain the rewriter        *)
(* Named deviations that are modelled as coded, NOT idealised away:                         *)
(*   WapStatus200     wap.py filenotfound answers "HTTP/1.0 200 Not Found" (error card       *)
(*                    delivered with status 200)                                             *)
(*   TrailingSlashLost a URL: selector loses trailing slashes (slashnormalize applies to      *)
(*                    every selector: "does not end with one")                               *)
(*   IconLf           the icon route's "$" also matches before a final line feed (%0A)       *)
(*   BarePrefixLoop   /GEMINI-QUERY?x (never rendered by a menu) redirects to "?x"           *)
EXTENDS WebText

CONSTANTS
    IconNames,      \* B1: keys of pygopherd.protocols.http.icons
    IconPairs,      \* B1: [protocols.http.HTTPProtocol] iconmapping as a set of <<type, name>>
    GemFooterText,  \* [protocols.gemini.GeminiProtocol] footer of the run, "(none)" when the option is absent
    TreeFiles, TreeDirs     \* the fixed content tree of the url / rewrite / status families (selectors)

(* ===================================================================== 1. http.py icons *)
IconPrefix == "/PYGOPHERD-HTTPPROTO-ICONS/"
DefaultIcon == "generic.gif"
IconWidth == 20
IconHeight == 22
IconLastModified == "Fri, 14 Dec 2001 21:19:47 GMT"
\* first 12 hex digits of the SHA-1 of the eight icons as shipped (Kevin Hughes' public-domain set of 1995)
IconDigest(n) ==
    CASE n = "binary.gif"  -> "399c2bc3d5ec"
      [] n = "binhex.gif"  -> "bbdda6a1bba2"
      [] n = "folder.gif"  -> "768de3abb08a"
      [] n = "image3.gif"  -> "99a6e2db30b3"
      [] n = "sound1.gif"  -> "d2d3450b3994"
      [] n = "text.gif"    -> "08ee70b4f29d"
      [] n = "generic.gif" -> "bf7caa8da5c8"
      [] n = "blank.gif"   -> "ebbcfdc6acc9"
      [] OTHER -> "(unpinned)"

\* http.py handle: selector = slashnormalize(unquote(path.split("?")[0]))
HttpSel(path) == SlashNorm(PctUnquote(Split(path, "?")[1]))
HttpQuery(path) == LET i == Find(path, "?") IN IF i = 0 THEN "" ELSE From(path, i + 1)

\* re.match("/PYGOPHERD-HTTPPROTO-ICONS/(.+)$", selector): "." does not match LF, "$" matches at the
\* end or before a FINAL LF (named deviation IconLf); "" = no match
IconGroup(sel) ==
    IF ~StartsWith(sel, IconPrefix) THEN ""
    ELSE LET r == From(sel, Len(IconPrefix) + 1)
             nl == Find(r, cLF)
         IN IF nl = 0 THEN r
            ELSE IF nl = Len(r) /\ nl > 1 THEN DropLast(r)
            ELSE ""
\* "if iconname in icons:" - otherwise the request FALLS THROUGH to the handler chain
IconRoute(path) == LET g == IconGroup(HttpSel(path)) IN IF g \in IconNames THEN g ELSE ""

\* getimgtag
IconFor(type) == LET ps == {p \in IconPairs : p[1] = type} IN
                 IF ps = {} THEN DefaultIcon ELSE (CHOOSE p \in ps : TRUE)[2]
MappedIconsExist == DefaultIcon \in IconNames /\ \A p \in IconPairs : p[2] \in IconNames

RowKind(e) == IF e.type = "i" THEN "info" ELSE IF e.type = "7" THEN "search" ELSE "link"
\* http.py getrenderstr: what a lexed table row shows (attribute values HTML-decoded by the lexer)
HttpRow(e) == [kind |-> RowKind(e), name |-> e.name,
               href |-> IF e.type = "i" THEN "" ELSE Target("H", e).href,      \* A HREF, resp. FORM ACTION for type 7
               icon |-> IconPrefix \o IconFor(e.type), w |-> IconWidth, h |-> IconHeight]

(* ============================================================================ 2. wap.py *)
AccessKeys == "1234567890#*"               \* wap.py accesskeys, as documented there (pinned, see AccessKeysAsDocumented)
WmlPublicId == "-//WAPFORUM//DTD WML 1.1//EN"
WmlSystemId == "http://www.wapforum.org/DTD/wml_1.1.xml"
WmlType == "text/vnd.wap.wml"

\* wap.py canhandlerequest (after the HTTP shape test): below waptop
PyAt(s, i) == IF i <= Len(s) THEN Ch(s, i) ELSE ""           \* Python s[i-1:i] (never raises)
WapClaims(path) == StartsWith(path, WapTop) /\ PyAt(path, Len(WapTop) + 1) \in {"", "/", "?"}
WapRest(path) == From(path, Len(WapTop) + 1)           \* self.requestparts[1][len(waptop):]
WapSel(path) == HttpSel(WapRest(path))
WapSearch(path) == HttpSearch(HttpQuery(WapRest(path)))
\* what handle() extracts from a request path: selector and search string
HttpParse(path) == [sel |-> HttpSel(path), search |-> HttpSearch(HttpQuery(path))]

\* renderdirstart: both counters start at 0 for every deck
WapStart == [ak |-> 0, pf |-> 0, out |-> <<>>]
\* getrenderstr: one row.  ak = accesskeyidx (advances only when a key was handed out), pf = postfieldidx
\* (advances for EVERY row, so that the input of a search row is named after its row position)
WapRow(st, e) ==
    LET islink == e.type \notin {"i", "7"}
        key == IF islink /\ st.ak < Len(AccessKeys) THEN Ch(AccessKeys, st.ak + 1) ELSE ""
        sr  == "sr" \o ToString(st.pf)
        row == [kind |-> RowKind(e), name |-> e.name, key |-> key, label |-> key,
                href |-> IF e.type = "i" THEN "" ELSE Target("W", e).href,
                input |-> IF e.type = "7" THEN sr ELSE "",
                pname |-> IF e.type = "7" THEN "searchrequest" ELSE "",
                pvalue |-> IF e.type = "7" THEN "$(" \o sr \o ")" ELSE "",
                method |-> IF e.type = "7" THEN "get" ELSE ""]
    IN [ak |-> IF key # "" THEN st.ak + 1 ELSE st.ak, pf |-> st.pf + 1, out |-> Append(st.out, row)]
RECURSIVE WapRows(_, _, _)
WapRows(st, es, i) == IF i > Len(es) THEN st ELSE WapRows(WapRow(st, es[i]), es, i + 1)
WapDeckRows(es) == WapRows(WapStart, es, 1).out

\* clauses over a sequence of (model or observed) WAP rows
LinkIdx(rows) == {i \in 1..Len(rows) : rows[i].kind = "link"}
NthLink(rows, i) == Cardinality({j \in LinkIdx(rows) : j <= i})          \* 1-based rank of link row i
AccessKeysOk(rows) ==
    \A i \in 1..Len(rows) :
        /\ rows[i].label = rows[i].key
        /\ IF rows[i].kind = "link" /\ NthLink(rows, i) <= Len(AccessKeys)
           THEN rows[i].key = Ch(AccessKeys, NthLink(rows, i))
           ELSE rows[i].key = ""
KeysDistinct(rows) == \A i, j \in 1..Len(rows) : (i # j /\ rows[i].key # "") => rows[i].key # rows[j].key
SearchCardOk(rows) ==
    /\ \A i \in 1..Len(rows) :
          IF rows[i].kind = "search"
          THEN rows[i].input # "" /\ rows[i].method = "get" /\ rows[i].pname = "searchrequest"
               /\ rows[i].pvalue = "$(" \o rows[i].input \o ")" /\ rows[i].href # ""
          ELSE rows[i].input = "" /\ rows[i].pname = ""
    /\ \A i, j \in 1..Len(rows) : (i # j /\ rows[i].input # "") => rows[i].input # rows[j].input
\* local references stay below waptop; absolute ones (URL: selectors, other servers) are not touched
WapPrefixOk(rows) == \A i \in 1..Len(rows) :
    rows[i].href = "" \/ HasScheme(rows[i].href) \/ StartsWith(rows[i].href, WapTop \o "/")

\* WML 1.1 DTD, the part the decks use: children an element may have ("#text" = character data)
WmlAllowed(parent, child) ==
    CASE parent = "wml"    -> child \in {"head", "template", "card"}
      [] parent = "card"   -> child \in {"onevent", "timer", "do", "p"}
      [] parent = "p"      -> child \in {"#text", "em", "strong", "b", "i", "u", "big", "small", "br", "img", "anchor", "a",
                                         "table", "input", "select", "fieldset", "do"}
      [] parent = "b"      -> child \in {"#text", "em", "strong", "b", "i", "u", "big", "small", "br", "img", "anchor", "a", "table"}
      [] parent = "a"      -> child \in {"#text", "br", "img"}
      [] parent = "anchor" -> child \in {"#text", "br", "img", "go", "prev", "refresh"}
      [] parent = "go"     -> child \in {"postfield", "setvar"}
      [] OTHER -> FALSE                                   \* br, input, postfield are EMPTY
\* a lexed deck d = [wf, pubid, sysid, root, cards (sequence of [id, title, newcontext]), nest (sequence of
\* <<parent, child>> pairs met), heading]
WmlWellFormedOk(d) == d.wf /\ d.pubid = WmlPublicId /\ d.root = "wml" /\ Len(d.cards) >= 1
WmlNestingOk(d) == \A i \in 1..Len(d.nest) : WmlAllowed(d.nest[i][1], d.nest[i][2])
\* renderdirstart: title = the menu's own name, "Gopher" when it has none (the root)
WapTitleOf(name) == IF name = "" THEN "Gopher" ELSE name

(* ========================================================================= 3. gemini.py *)
GemPromptText == "Enter input"
\* urllib.parse.urlparse raises ValueError for a bracket without its partner in the authority
GemAuthority(url) == LET r == From(url, Len("gemini://") + 1) IN SubSeq(r, 1, CutAt(r, {"/", "?", "#"}) - 1)
GemMalformed(url) == LET a == GemAuthority(url) IN (Find(a, "[") > 0) # (Find(a, "]") > 0)
\* handle + handle_input
GemRoute(line) ==
    LET url == Strip(line) IN
    IF GemMalformed(url) THEN [kind |-> "bad", sel |-> "", search |-> "", loc |-> ""]
    ELSE LET u == GemSplit(url) IN
         IF u.path = QueryPrefix \/ StartsWith(u.path, QueryPrefix \o "/")
         THEN IF u.query = "" THEN [kind |-> "prompt", sel |-> "", search |-> "", loc |-> ""]
              ELSE [kind |-> "redirect", sel |-> "", search |-> "",
                    loc |-> From(u.path, Len(QueryPrefix) + 1) \o "?" \o u.query]
         ELSE [kind |-> "serve", sel |-> SlashNorm(PctUnquote(u.path)), search |-> PctUnquote(u.query), loc |-> ""]
\* adjust_mimetype (mime "" = None; Gopher+ names the menu type application/gopher+-menu)
IsMenuMime(m) == m \in {"application/gopher-menu", "application/gopher+-menu"}
GemMeta(mime) == IF mime = "" THEN "text/plain" ELSE IF IsMenuMime(mime) THEN "text/gemini" ELSE mime
\* renderobjinfo: a lexed line [kind, url, name]
GemRow(e) == IF e.type = "i" THEN [kind |-> "text", url |-> "", name |-> e.name]
             ELSE [kind |-> "link", url |-> Target("M", e).href, name |-> e.name]
\* a text/gemini line as a client reads it (spec 5.4.2): "=>" [ws] URL [ws name]
GemLex(s) ==
    IF ~StartsWith(s, "=>") THEN [kind |-> "text", url |-> "", name |-> s]
    ELSE LET r == LStripSet(From(s, 3), {" ", cTAB})
             c == CutAt(r, {" ", cTAB})
         IN [kind |-> "link", url |-> SubSeq(r, 1, c - 1), name |-> LStripSet(From(r, c), {" ", cTAB})]
\* renderdirend: "\n<footer>\n" when the option exists
GemTail == IF GemFooterText = "(none)" THEN <<>> ELSE <<GemLex(""), GemLex(GemFooterText)>>
GemMenu(es) == [i \in 1..Len(es) |-> GemRow(es[i])] \o GemTail
GemLinksOk(lines) == \A i \in 1..Len(lines) : lines[i].kind = "link" => (lines[i].url # "" /\ Find(lines[i].url, " ") = 0)

(* ============================================================================ 4. url.py *)
\* HTMLURLHandler.canhandlerequest: re.search("^(/|)URL:.+://", selector)
UrlCan(sel) == IsUrlSel(sel) /\ LET u == UrlOf(sel) IN \E i \in 2..(Len(u) - 2) : SubSeq(u, i, i + 2) = "://"
\* HTMLURLHandler.isrequestsecure ("it is valid to have .., //, etc in the URLs"); NUL bytes are C03's subject
UrlSecure(sel) == \A x \in {cLF, cTAB, "\"", cCR} : Find(sel, x) = 0
UrlTarget(sel) == UrlOf(sel)                             \* write(): selector[4:] resp. [5:]
UrlRefreshMax == 10                                      \* url.txt: "a refresh of a duration of 10 seconds or less"
UrlForbiddenTags == {"IMG", "SCRIPT", "FRAME", "FRAMESET", "IFRAME", "OBJECT", "EMBED", "APPLET", "LINK"}
\* named deviation TrailingSlashLost: what is left of a URL after slashnormalize
SlashLess(u) == RStripSet(u, {"/"})

\* URLTypeRewriter.canhandlerequest
RwCan(sel) == Len(sel) >= 3 /\ Ch(sel, 1) = "/" /\ Ch(sel, 3) = "/"
\* BaseHandler.isrequestsecure
WebSecure(sel) == \A x \in {"./", "..", "//", ".\\", "\\\\"} : Find(sel, x) = 0

WebMiss == [ok |-> FALSE, obj |-> "none", id |-> "", by |-> "none"]
WebHit(obj, id, by) == [ok |-> TRUE, obj |-> obj, id |-> id, by |-> by]
\* HandlerMultiplexer.getHandler over the fixed tree (names without special extensions): first handler that
\* accepts.  hl = "default" (as shipped) or "full" (the commented list ending in url.URLTypeRewriter); the
\* rewriter asks the list WITHOUT itself for selector[2:] (rw = that inner call)
RECURSIVE WebChain(_, _, _)
WebChain(sel, hl, rw) ==
    IF UrlCan(sel) /\ UrlSecure(sel) THEN WebHit("url", UrlTarget(sel), "HTMLURLHandler")
    ELSE IF ~WebSecure(sel) THEN WebMiss
    ELSE IF sel \in TreeDirs THEN WebHit("menu", sel, "UMNDirHandler")
    ELSE IF sel \in TreeFiles THEN WebHit("doc", sel, "FileHandler")
    ELSE IF hl = "full" /\ ~rw /\ RwCan(sel) THEN WebChain(From(sel, 3), hl, TRUE)
    ELSE WebMiss
WebServe(sel, hl) == WebChain(sel, hl, FALSE)

\* the request by which a client of front end p asks for selector sel directly (percent-quoted path)
WebRef(p, sel) == LET q == PctQuote(sel)
                      q1 == IF StartsWith(q, "/") THEN q ELSE "/" \o q
                  IN IF p = "W" THEN WapTop \o q1 ELSE q1
=============================================================================
