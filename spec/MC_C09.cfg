SPECIFICATION Spec
CONSTANTS
  Quirks = {"FileMapBase", "NonGopherPort70"}
  Tier = "quick"
INVARIANT AsDocumented
CHECK_DEADLOCK FALSE
