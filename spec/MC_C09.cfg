SPECIFICATION Spec
CONSTANTS
  Quirks = {}
  Tier = "quick"
INVARIANT AsDocumented
CHECK_DEADLOCK FALSE
