-------------------------------- MODULE Links --------------------------------
(* Link closure (C05) - the design model.                                                    *)
(*                                                                                          *)
(* For every protocol view p this module transcribes, structured like the implementation:   *)
(*   Target(p, e)      what renderobjinfo of p writes for a directory entry e               *)
(*                     (rfc1436.py/gopherp.py cTAB fields; http.py, wap.py, gemini.py,       *)
(*                      spartan.py percent-quoted references, WAP prefix, /GEMINI-QUERY)    *)
(*   Follow(p, t, b)   the request a client of p sends to follow target t found in the      *)
(*                     listing whose own reference was b (the protocol's request syntax)    *)
(*   Claim(rq)         ProtocolMultiplexer.getProtocol: first class of ProtoOrder whose     *)
(*                     canhandlerequest() accepts the request                               *)
(*   Parse(rq)         what that class extracts in handle(): split, unquote, slash-normalise,*)
(*                     WAP prefix strip, Gemini query prefix, search string                 *)
(*   Serve(c, sel, hl) the handler chain (HandlerMultiplexer + Virtual split) over a small  *)
(*                     abstract content tree c                                              *)
(* and states the property as Closure / RoundTrip / QuoteLemma.  Deviations of the code     *)
(* from the ideal are modelled as they are and NAMED (Why): a request captured by another   *)
(* protocol class ("CapturedBy_<class>"), the Gemini query prefix ("QueryPrefixCapture"),   *)
(* the built-in HTTP icon route ("IconRouteCapture"),                                       *)
(* `URL:`-named files rendered as external references ("UrlNameAsReference").               *)
(*                                                                                          *)
(* Text is abstract: one TLA+ character per byte CLASS.  "^" stands for a byte >= 0x80      *)
(* that is not valid UTF-8 (Python: a lone surrogate), "`" for U+FFFD (what errors=replace  *)
(* produces).  gamma/alpha in harness/c05_lib.py map them to/from concrete bytes.           *)
EXTENDS Naturals, Sequences, FiniteSets, TLC, Text

CONSTANTS
    ProtoOrder,     \* B1: protocols.ProtocolMultiplexer.protocols, as a sequence of class names
    WapTop,         \* B1: protocols.wap.WAPProtocol.waptop
    QueryPrefix,    \* B1: GeminiProtocol.query_prefix
    ServerName,     \* server.server_name
    ServerPort,     \* server.server_port (advertised port)
    HiCode,         \* percent code of the representative chosen for "^" ("FF", "E9", ...)
    BlockBytes,     \* bytes of the block classes "{" and "}" (gamma writes that many)
    DeepDepth,      \* levels of the deep tree kind
    Fixes           \* which of the proposed repairs the code under test has: subset of {"wap", "gemini", "spartan", "mapfile"}

cTAB  == "\t"
cCR   == "\r"
cLF   == "\n"
cCRLF == "\r\n"
HI   == "^"
\* LENGTH classes: one abstract character stands for a block of BlockBytes bytes.  "{" = a run of non-ASCII
\* (valid UTF-8) characters, every byte of which a URL-based protocol percent-codes into three; "}" = a run of
\* ASCII letters.  With them names of ~250 bytes, selectors up to PATH_MAX and request lines of 1 .. 12+ KiB are
\* ordinary short strings for TLC; Bytes() gives the concrete length.
BLK  == "{"
ABLK == "}"
REPL == "`"
cWS   == PyWS                                    \* what Python's str.strip() removes (Text!PyWS)

------------------------------------------------------------------------------
(* Percent quoting: urllib.parse.quote(s, safe="/") / unquote(s, errors="surrogateescape") *)

SafeChars == {"a","b","c","d","e","f","g","h","i","j","k","l","m","n","o","p","q","r","s","t","u","v","w","x","y","z",
              "A","B","C","D","E","F","G","H","I","J","K","L","M","N","O","P","Q","R","S","T","U","V","W","X","Y","Z",
              "0","1","2","3","4","5","6","7","8","9","_",".","-","~","/", ABLK}

\* written as CASE expressions (TLC re-evaluates function-valued definitions on every use: measured 70 states/s)
Coded == {" ", "!", "\"", "#", "$", "%", "&", "'", "(", ")", "*", "+", ",", ":", ";", "<", "=", ">", "?", "@", "[", "\\", "]", BLK, "|", "\f", "\t", "\n", "\r", HI, REPL}
CodeOf(c) ==
    CASE c = " " -> "20"
      [] c = "!" -> "21"
      [] c = "\"" -> "22"
      [] c = "#" -> "23"
      [] c = "$" -> "24"
      [] c = "%" -> "25"
      [] c = "&" -> "26"
      [] c = "'" -> "27"
      [] c = "(" -> "28"
      [] c = ")" -> "29"
      [] c = "*" -> "2A"
      [] c = "+" -> "2B"
      [] c = "," -> "2C"
      [] c = ":" -> "3A"
      [] c = ";" -> "3B"
      [] c = "<" -> "3C"
      [] c = "=" -> "3D"
      [] c = ">" -> "3E"
      [] c = "?" -> "3F"
      [] c = "@" -> "40"
      [] c = "[" -> "5B"
      [] c = "\\" -> "5C"
      [] c = "]" -> "5D"
      [] c = BLK -> "{{"                 \* the percent-coded block (3 * BlockBytes characters on the wire)
      [] c = "|" -> "7C"
      [] c = "\t" -> "09"
      [] c = "\f" -> "0C"
      [] c = "\n" -> "0A"
      [] c = "\r" -> "0D"
      [] c = HI -> HiCode
      [] c = REPL -> "EF%BF%BD"

HexLower(h) == LET l(c) == CASE c = "A" -> "a" [] c = "B" -> "b" [] c = "C" -> "c" [] c = "D" -> "d" [] c = "E" -> "e"
                               [] c = "F" -> "f" [] OTHER -> c
               IN l(Ch(h, 1)) \o l(Ch(h, 2))

\* decoding: every code above in both letter cases plus the codes of a few safe characters; other pairs stay literal
Decodable(h) == h \in {"20", "21", "22", "23", "24", "25", "26", "27", "28", "29", "2A", "2a", "2B", "2b", "2C", "2c", "3A", "3a", "3B", "3b", "3C", "3c", "3D", "3d", "3E", "3e", "3F", "3f", "40", "5B", "5b", "5C", "5c", "5D", "5d", "7C", "7c", "09", "0A", "0a", "0D", "0d", "41", "61", "62", "2F", "2f", "2E", "2e", "2D", "2d", "5F", "5f", "7E", "7e", "30", "31", "{{", "0C", "0c"} \/ h = HiCode \/ h = HexLower(HiCode)
DecodeOf(h) ==
    CASE h = "20" -> " "
      [] h = "21" -> "!"
      [] h = "22" -> "\""
      [] h = "23" -> "#"
      [] h = "24" -> "$"
      [] h = "25" -> "%"
      [] h = "26" -> "&"
      [] h = "27" -> "'"
      [] h = "28" -> "("
      [] h = "29" -> ")"
      [] h = "2A" -> "*"
      [] h = "2a" -> "*"
      [] h = "2B" -> "+"
      [] h = "2b" -> "+"
      [] h = "2C" -> ","
      [] h = "2c" -> ","
      [] h = "3A" -> ":"
      [] h = "3a" -> ":"
      [] h = "3B" -> ";"
      [] h = "3b" -> ";"
      [] h = "3C" -> "<"
      [] h = "3c" -> "<"
      [] h = "3D" -> "="
      [] h = "3d" -> "="
      [] h = "3E" -> ">"
      [] h = "3e" -> ">"
      [] h = "3F" -> "?"
      [] h = "3f" -> "?"
      [] h = "40" -> "@"
      [] h = "5B" -> "["
      [] h = "5b" -> "["
      [] h = "5C" -> "\\"
      [] h = "5c" -> "\\"
      [] h = "5D" -> "]"
      [] h = "5d" -> "]"
      [] h = "{{" -> BLK
      [] h = "7C" -> "|"
      [] h = "7c" -> "|"
      [] h = "09" -> "\t"
      [] h = "0C" -> "\f"
      [] h = "0c" -> "\f"
      [] h = "0A" -> "\n"
      [] h = "0a" -> "\n"
      [] h = "0D" -> "\r"
      [] h = "0d" -> "\r"
      [] h = "41" -> "A"
      [] h = "61" -> "a"
      [] h = "62" -> "b"
      [] h = "2F" -> "/"
      [] h = "2f" -> "/"
      [] h = "2E" -> "."
      [] h = "2e" -> "."
      [] h = "2D" -> "-"
      [] h = "2d" -> "-"
      [] h = "5F" -> "_"
      [] h = "5f" -> "_"
      [] h = "7E" -> "~"
      [] h = "7e" -> "~"
      [] h = "30" -> "0"
      [] h = "31" -> "1"
      [] OTHER -> HI

RECURSIVE PctQuote(_)
PctQuote(s) == IF s = "" THEN ""
            ELSE LET c == Ch(s, 1) IN
                 (IF c \in SafeChars THEN c
                  ELSE IF c \in Coded THEN "%" \o CodeOf(c)
                  ELSE "%3F") \o PctQuote(Tail1(s))           \* characters outside the abstract alphabet never reach PctQuote

RECURSIVE PctUnquote(_)
PctUnquote(s) == IF s = "" THEN ""
              ELSE IF StartsWith(s, "%EF%BF%BD") THEN REPL \o PctUnquote(SubSeq(s, 10, Len(s)))
              ELSE IF Ch(s, 1) = "%" /\ Len(s) >= 3 /\ Decodable(SubSeq(s, 2, 3))
                   THEN DecodeOf(SubSeq(s, 2, 3)) \o PctUnquote(SubSeq(s, 4, Len(s)))
                   ELSE Ch(s, 1) \o PctUnquote(Tail1(s))

\* errors="replace" flavour: an undecodable byte becomes U+FFFD (what parse_qs did before fix d7962e4)
UnquoteReplace(s) == ReplaceAll(PctUnquote(s), HI, REPL)
\* application/x-www-form-urlencoded value decoding (parse_qs(.., errors="surrogateescape")): "+" is a space, then unquote
FormDecode(s) == PctUnquote(ReplaceAll(s, "+", " "))
\* what a form-submitting client sends (quote_plus): every reserved byte percent-coded, space as "+"
FormEncode(s) == ReplaceAll(ReplaceAll(PctQuote(s), "/", "%2F"), "%20", "+")
\* query component as a Gemini client sends it: percent-coded, space as %20; "+" is a sub-delimiter that RFC 3986 allows
\* literally in a query and that stands for itself there (only form encoding reads it as a blank), so this client leaves it
QueryEncode(s) == ReplaceAll(ReplaceAll(PctQuote(s), "/", "%2F"), "%2B", "+")

QuoteLemma(s) == PctUnquote(PctQuote(s)) = s

\* concrete length in bytes of abstract text (block classes expanded; U+FFFD is three bytes)
Bytes(s) ==            \* counted, not recursed over (request lines with header blocks are long: TLC's stack)
    LET nq == Cardinality({i \in 1..(Len(s) - 2) : SubSeq(s, i, i + 2) = "%{{"})        \* percent-coded blocks
        nb == Cardinality({i \in 1..Len(s) : Ch(s, i) \in {BLK, ABLK}})                \* block characters (2 per coded block)
        nr == Cardinality({i \in 1..Len(s) : Ch(s, i) = REPL})
    IN (Len(s) - nb - nq - nr) + 3 * nr + (nb - 2 * nq) * BlockBytes + nq * 3 * BlockBytes

------------------------------------------------------------------------------
(* Selector normalisation: protocols/base.py slashnormalize                                *)
SlashNorm(s) ==
    LET a == RStripSet(s, {"/"})      \* selector.rstrip("/") since fix 5eb47a4 (one slash only before)
    IN IF Len(a) = 0 \/ Ch(a, 1) # "/" THEN "/" \o a ELSE a

------------------------------------------------------------------------------
(* Protocol views.  G Gopher, GP Gopher+ "+", GD Gopher+ "$", SG/SGP/SGD the same over TLS, *)
(* H HTTP, HS HTTPS, W WAP, M Gemini, S Spartan.                                            *)
GopherViews == {"G", "GP", "GD", "SG", "SGP", "SGD"}
UrlViews    == {"H", "HS", "W", "M", "S"}
AllViews    == GopherViews \cup UrlViews
TlsViews    == {"SG", "SGP", "SGD", "HS", "M"}
OwnClass(p) == CASE p = "G" -> "GopherProtocol" [] p \in {"GP", "GD"} -> "GopherPlusProtocol"
                 [] p = "SG" -> "SecureGopherProtocol" [] p \in {"SGP", "SGD"} -> "SecureGopherPlusProtocol"
                 [] p = "H" -> "HTTPProtocol" [] p = "HS" -> "HTTPSProtocol" [] p = "W" -> "WAPProtocol"
                 [] p = "M" -> "GeminiProtocol" [] p = "S" -> "SpartanProtocol"
PlusField(p) == IF p \in {"GP", "SGP"} THEN "+" ELSE IF p \in {"GD", "SGD"} THEN "$" ELSE ""

\* an entry of a listing: type "i" = informational; host "" / port 0 = not set
NoTarget == [form |-> "none", mark |-> "info", sel |-> "", host |-> "", port |-> 0, href |-> ""]

IsUrlSel(sel) == StartsWith(sel, "URL:") \/ StartsWith(sel, "/URL:")         \* re.match("(/|)URL:", sel)
UrlOf(sel) == IF StartsWith(sel, "/") THEN SubSeq(sel, 6, Len(sel)) ELSE SubSeq(sel, 5, Len(sel))
\* HTMLURLHandler / geturl test: ^(/|)URL:.+://
IsRealUrlSel(sel) == IsUrlSel(sel) /\ LET u == UrlOf(sel) IN Find(u, "://") > 1

GopherURL(e, defhost, defport) ==          \* gopherentry.geturl
    IF IsRealUrlSel(e.sel) THEN UrlOf(e.sel)
    ELSE "gopher://" \o (IF e.host = "" THEN defhost ELSE e.host) \o ":"
         \o ToString(IF e.port = 0 THEN defport ELSE e.port) \o "/" \o PctQuote(e.type \o e.sel)

Target(p, e) ==
    IF e.type = "i" THEN NoTarget
    ELSE IF p \in GopherViews THEN
        [form |-> "tab", mark |-> IF e.type = "7" THEN "search" ELSE "link", sel |-> e.sel,
         host |-> IF e.host = "" THEN ServerName ELSE e.host,
         port |-> IF e.port = 0 THEN ServerPort ELSE e.port, href |-> ""]
    ELSE LET q    == PctQuote(e.sel)
             loc  == CASE p \in {"H", "HS", "W"} -> (IF q = "" THEN "/" ELSE q)      \* "/" since fix 0472d31 (was "")
                       [] p = "M" -> (IF e.type = "7" THEN QueryPrefix ELSE "") \o (IF q = "" THEN "/" ELSE q)
                       [] p = "S" -> (IF q = "" THEN "/" ELSE q)
             url0 == IF IsUrlSel(e.sel) THEN UrlOf(e.sel)
                     ELSE IF e.host = "" /\ e.port = 0 THEN loc
                     ELSE GopherURL(e, ServerName, ServerPort)       \* this server's port (70 before fix e38974e)
             url  == IF p = "W" /\ StartsWith(url0, "/") THEN WapTop \o url0 ELSE url0
         IN [form |-> "url", mark |-> IF e.type = "7" /\ p # "M" THEN "search" ELSE "link",   \* Gemini marks nothing
             sel |-> "", host |-> "", port |-> 0, href |-> url]

\* does a reference start with a URI scheme (something ":" before any "/", "?" or "#")?
HasScheme(h) == LET i == Find(h, ":") IN
                i > 1 /\ \A j \in 1..(i - 1) : Ch(h, j) \notin {"/", "?", "#"}

IsLocal(p, t) ==
    CASE t.form = "tab" -> t.host = ServerName /\ t.port = ServerPort /\ ~IsUrlSel(t.sel)
      [] t.form = "url" -> t.href # "" /\ ~HasScheme(t.href)
      [] OTHER -> FALSE

\* RFC 3986 reference resolution, as far as listings need it: path-absolute or relative to the listing
DirPart(b) == LET ps == {i \in 1..Len(b) : Ch(b, i) = "/"} IN
              IF ps = {} THEN "/" ELSE SubSeq(b, 1, CHOOSE i \in ps : \A j \in ps : j <= i)
RefPath(base, href) == IF StartsWith(href, "/") THEN href ELSE DirPart(base) \o href

\* a request: first line (with cCRLF), what follows it (header block / body), transport
Rq(line, rest, tls) == [line |-> line, rest |-> rest, tls |-> tls]

\* the request a client of p sends for target t (found in the listing referenced by `base`);
\* q = search string typed by the user for a search item ("" otherwise)
Follow(p, t, base, q) ==
    LET tls == p \in TlsViews IN
    CASE p \in GopherViews ->
            Rq(t.sel \o (IF q # "" THEN cTAB \o q ELSE "") \o (IF PlusField(p) # "" THEN cTAB \o PlusField(p) ELSE "") \o cCRLF,
               "", tls)
      [] p \in {"H", "HS", "W"} ->
            Rq("GET " \o RefPath(base, t.href) \o (IF q # "" THEN "?searchrequest=" \o FormEncode(q) ELSE "")
               \o " HTTP/1.0" \o cCRLF, cCRLF, tls)
      [] p = "M" ->
            Rq("gemini://" \o ServerName \o RefPath(base, t.href) \o (IF q # "" THEN "?" \o QueryEncode(q) ELSE "") \o cCRLF,
               "", tls)
      [] p = "S" ->
            Rq(ServerName \o " " \o RefPath(base, t.href) \o " " \o ToString(Bytes(q)) \o cCRLF, q, tls)      \* content-length in bytes

\* what a real browser / WAP gateway adds to the request line: the HTTP-family views are exercised both bare
\* and with this header block (http.py reads the headers; C06 must hold for what real clients send)
BrowserHeaders == "Host: localhost" \o cCRLF \o "Accept: text/html,application/xhtml+xml,*/*;q=0.8" \o cCRLF
                  \o "Accept-Encoding: gzip, deflate" \o cCRLF \o "User-Agent: Mozilla/5.0 (verif)" \o cCRLF
WithHeaders(rq, hdr) == IF hdr THEN [rq EXCEPT !.rest = BrowserHeaders \o rq.rest] ELSE rq

ReqBytes(rq) == Bytes(rq.line) + Bytes(rq.rest)          \* what the client puts on the wire

\* the reference by which a client of p asks for the root menu
RootRef(p) == IF p \in GopherViews THEN "" ELSE IF p = "W" THEN WapTop \o "/" ELSE "/"
RootTarget(p) == IF p \in GopherViews
                 THEN [form |-> "tab", mark |-> "link", sel |-> "", host |-> ServerName, port |-> ServerPort, href |-> ""]
                 ELSE [form |-> "url", mark |-> "link", sel |-> "", host |-> "", port |-> 0, href |-> RootRef(p)]
\* the reference under which a followed target is known afterwards (base for the links of its listing)
RefOf(p, t, base) == IF t.form = "tab" THEN t.sel ELSE RefPath(base, t.href)

------------------------------------------------------------------------------
(* Request parsing: ProtocolMultiplexer.getProtocol and the handle() of each class          *)

Fields(line) == LET fs == Split(line, cTAB) IN [i \in 1..Len(fs) |-> Strip(fs[i])]      \* base.py __init__
SpParts(line) == LET ps == Split(line, " ") IN [i \in 1..Len(ps) |-> Strip(ps[i])]     \* http.py canhandlerequest

HttpShape(line) == LET ps == SpParts(line) IN
                   Len(ps) = 3 /\ ps[1] \in {"GET", "HEAD"} /\ StartsWith(ps[3], "HTTP/")
IsAscii(s) == \A i \in 1..Len(s) : Ch(s, i) \notin {HI, REPL}
SpartanShape(line) == LET ps == Split(Strip(line), " ") IN
                      Len(ps) = 3 /\ (\A i \in 1..3 : ps[i] # "") /\ IsDigits(ps[3])
GPlusString(line) == LET f == Fields(line) IN IF Len(f) = 2 THEN f[2] ELSE IF Len(f) = 3 THEN f[3] ELSE "none"
GPlusShape(line) == LET f == Fields(line) g == GPlusString(line) IN
                    Len(f) \in {2, 3} /\ g # "" /\ (Ch(g, 1) \in {"+", "$"} \/ g = "!")
GPlusCrash(line) == Len(Fields(line)) \in {2, 3} /\ GPlusString(line) = ""            \* gopherpstring[0] on ""

\* pinned code: a path that merely STARTS with the prefix is claimed ("/wapiti", "/GEMINI-QUERYx"); the proposed
\* repair claims the prefix only as a whole path segment
PrefixClaims(path, prefix, fix) ==
    StartsWith(path, prefix)
    /\ (fix \in Fixes => Len(path) = Len(prefix) \/ Ch(path, Len(prefix) + 1) \in {"/", "?"})

\* header-based WAP detection needs Accept + x-wap-profile headers; requests here carry none
Claims(cls, rq) ==
    CASE cls = "WAPProtocol"    -> ~rq.tls /\ HttpShape(rq.line) /\ PrefixClaims(SpParts(rq.line)[2], WapTop, "wap")
      [] cls = "GeminiProtocol" -> rq.tls /\ StartsWith(rq.line, "gemini://")
      [] cls = "HTTPProtocol"   -> ~rq.tls /\ HttpShape(rq.line)
      [] cls = "HTTPSProtocol"  -> rq.tls /\ HttpShape(rq.line)
      [] cls = "SpartanProtocol" -> ~rq.tls /\ IsAscii(rq.line) /\ SpartanShape(rq.line)
                                    /\ ("spartan" \in Fixes => (~StartsWith(Strip(rq.line), "/") /\ ~Contains(rq.line, "\t")))
      [] cls = "GopherPlusProtocol" -> ~rq.tls /\ GPlusShape(rq.line)
      [] cls = "SecureGopherPlusProtocol" -> rq.tls /\ GPlusShape(rq.line)
      [] cls = "GopherProtocol" -> ~rq.tls
      [] cls = "SecureGopherProtocol" -> rq.tls
      [] OTHER -> FALSE

\* an empty Gopher+ field ("selector TAB CRLF") is not a Gopher+ request (since fix 6a019e8; before, the
\* indexing gopherpstring[0] raised IndexError inside getProtocol): no class raises during detection
Crashes(cls, rq) == FALSE

RECURSIVE ClaimFrom(_, _)
ClaimFrom(i, rq) == IF i > Len(ProtoOrder) THEN "none"
                    ELSE IF Crashes(ProtoOrder[i], rq) THEN "crash"
                    ELSE IF Claims(ProtoOrder[i], rq) THEN ProtoOrder[i]
                    ELSE ClaimFrom(i + 1, rq)
Claim(rq) == ClaimFrom(1, rq)

\* urllib.parse.urlparse of "gemini://authority/path?query#fragment" (as far as needed)
CutAt(s, cs) == LET ps == {i \in 1..Len(s) : Ch(s, i) \in cs} IN
                IF ps = {} THEN Len(s) + 1 ELSE CHOOSE i \in ps : \A j \in ps : i <= j
GemSplit(url) ==
    LET r    == SubSeq(url, Len("gemini://") + 1, Len(url))
        a    == CutAt(r, {"/", "?", "#"})
        r2   == SubSeq(r, a, Len(r))
        nf   == SubSeq(r2, 1, CutAt(r2, {"#"}) - 1)
        qpos == CutAt(nf, {"?"})
    IN [path |-> SubSeq(nf, 1, qpos - 1), query |-> SubSeq(nf, qpos + 1, Len(nf))]

\* searchrequest from an HTTP query string (urllib.parse.parse_qs: blank values dropped, first value wins)
RECURSIVE FirstSearch(_)
FirstSearch(pairs) ==
    IF Len(pairs) = 0 THEN ""
    ELSE LET kv == pairs[1]
             i  == Find(kv, "=")
         IN IF i > 0 /\ FormDecode(SubSeq(kv, 1, i - 1)) = "searchrequest" /\ i < Len(kv)
            THEN FormDecode(SubSeq(kv, i + 1, Len(kv)))
            ELSE FirstSearch(Tail(pairs))
HttpSearch(qs) == FirstSearch(Split(qs, "&"))

Icons == {"binary.gif", "binhex.gif", "folder.gif", "image3.gif", "sound1.gif", "text.gif", "generic.gif", "blank.gif"}

NoParse(cls) == [cls |-> cls, kind |-> "none", sel |-> "", search |-> "", plus |-> "", redirect |-> ""]

\* what the claiming class does with the request.  kind: "serve" (selector handed to the handler chain),
\* "prompt" (Gemini 10), "redirect" (Gemini 30), "icon" (HTTP built-in icon), "none"
Parse(rq) ==
    LET cls == Claim(rq) IN
    CASE cls \in {"GopherProtocol", "SecureGopherProtocol"} ->
            LET f == Fields(rq.line) IN
            [NoParse(cls) EXCEPT !.kind = "serve", !.sel = SlashNorm(f[1]),
                                 !.search = IF Len(f) > 1 THEN f[2] ELSE ""]
      [] cls \in {"GopherPlusProtocol", "SecureGopherPlusProtocol"} ->
            LET f == Fields(rq.line) IN
            [NoParse(cls) EXCEPT !.kind = "serve", !.sel = SlashNorm(f[1]),
                                 !.search = IF Len(f) = 3 THEN f[2] ELSE "", !.plus = GPlusString(rq.line)]
      [] cls \in {"HTTPProtocol", "HTTPSProtocol", "WAPProtocol"} ->
            LET p0  == SpParts(rq.line)[2]
                pth == IF cls = "WAPProtocol" THEN SubSeq(p0, Len(WapTop) + 1, Len(p0)) ELSE p0
                sp  == Split(pth, "?")
                sel == SlashNorm(PctUnquote(sp[1]))
            IN IF StartsWith(sel, "/PYGOPHERD-HTTPPROTO-ICONS/") /\ SubSeq(sel, 28, Len(sel)) \in Icons
               THEN [NoParse(cls) EXCEPT !.kind = "icon", !.sel = sel]
               ELSE [NoParse(cls) EXCEPT !.kind = "serve", !.sel = sel,
                                         !.search = IF Len(sp) >= 2 THEN HttpSearch(sp[2]) ELSE ""]
      [] cls = "GeminiProtocol" ->
            LET u == GemSplit(Strip(rq.line)) IN
            IF PrefixClaims(u.path, QueryPrefix, "gemini")
            THEN IF u.query = "" THEN [NoParse(cls) EXCEPT !.kind = "prompt"]
                 ELSE [NoParse(cls) EXCEPT !.kind = "redirect",
                         !.redirect = SubSeq(u.path, Len(QueryPrefix) + 1, Len(u.path)) \o "?" \o u.query]
            ELSE [NoParse(cls) EXCEPT !.kind = "serve", !.sel = SlashNorm(PctUnquote(u.path)), !.search = PctUnquote(u.query)]
      [] cls = "SpartanProtocol" ->
            LET ps == Split(Strip(rq.line), " ") IN
            [NoParse(cls) EXCEPT !.kind = "serve", !.sel = SlashNorm(PctUnquote(ps[2])),
                                 !.search = IF ps[3] \in {"0", "00"} THEN "" ELSE rq.rest]
      [] OTHER -> NoParse(cls)

\* The design argument for one link: the request built from the rendered target comes back to the
\* same class and yields the entry's selector (after the normalisation every protocol applies).
RoundTrip(p, e, base) ==
    LET t == Target(p, e) r == Parse(Follow(p, t, base, "")) IN
    r.cls = OwnClass(p) /\ r.kind = "serve" /\ r.sel = SlashNorm(e.sel)

\* names for the ways a followed link can miss its object (clause suffixes; also used by TraceC05)
Why(p, rq) ==
    LET r == Parse(rq) IN
    IF r.cls # OwnClass(p) THEN "CapturedBy_" \o r.cls
    ELSE IF r.kind \in {"prompt", "redirect"} THEN "QueryPrefixCapture"
    ELSE IF r.kind = "icon" THEN "IconRouteCapture"      \* http.py answers /PYGOPHERD-HTTPPROTO-ICONS/<icon> itself
    ELSE "none"

------------------------------------------------------------------------------
(* Content trees.  A case c = [k, n, ik, m]: one subject entry of kind k and name n at the  *)
(* top level (a zip is stored as n.zip), for container kinds one inner entry (kind ik, name *)
(* m), next to fixed anchors.  hl = handler list ("default" as shipped, "full").            *)

Anchors == {"/zz"}                      \* ordinary file that is always there
NMsgs == 1                              \* messages per mailbox

\* kind "mapfile": a named gophermap FILE n.gophermap (served as a menu by BuckGophermapHandler) with a relative,
\* a description-only and an absolute line; as subject it sits in the root and points at /zz, as inner entry of a
\* directory (file c.m.gophermap) it points at its sibling file c.m, so that the names a map links to range over the
\* whole inner alphabet (line-boundary characters such as a lone CR included)
FsName(c) == IF c.k = "zip" THEN c.n \o ".zip" ELSE IF c.k = "mapfile" THEN c.n \o ".gophermap" ELSE c.n
Subj(c) == "/" \o FsName(c)
InnerName(c) == IF c.ik = "mapfile" THEN c.m \o ".gophermap" ELSE c.m
InnerSel(c) == Subj(c) \o "/" \o InnerName(c)
MsgSel(c, flag) == Subj(c) \o "|" \o flag \o "1"
\* kind "deep": DeepDepth nested directories, each named c.n (block names: ~2 * BlockBytes bytes), a file "leaf" at
\* the bottom.  Level i has a selector of about i * Bytes(c.n) bytes raw and three times that as a URL path, so one
\* crawl sends request lines that straddle every power-of-two-ish limit a reader could have up to PATH_MAX * 3.
RECURSIVE DeepPath(_, _)
DeepPath(c, i) == IF i = 0 THEN "" ELSE DeepPath(c, i - 1) \o "/" \o c.n
DeepLevel(c, s) == LET ls == {i \in 1..DeepDepth : DeepPath(c, i) = s} IN IF ls = {} THEN 0 ELSE CHOOSE i \in ls : TRUE

HasSiteMap(c) == c.k \in {"dir", "mapdir"}
SiteMapSel == "/zm.gophermap"
Stat(c, sel) ==          \* "dir" / "file" / "none": VFS_Real.stat(root + selector minus one trailing slash)
    LET s == IF Len(sel) > 0 /\ Last1(sel) = "/" THEN SubSeq(sel, 1, Len(sel) - 1) ELSE sel IN
    IF s = "" THEN "dir"
    ELSE IF c.k = "deep" THEN (IF DeepLevel(c, s) > 0 THEN "dir"
                               ELSE IF s = DeepPath(c, DeepDepth) \o "/leaf" \/ s \in Anchors THEN "file" ELSE "none")
    ELSE IF s = Subj(c) THEN (IF c.k \in {"dir", "mapdir", "maildir"} THEN "dir" ELSE "file")
    ELSE IF c.k \in {"dir", "mapdir"} /\ s = InnerSel(c) THEN (IF c.ik = "mapfile" THEN "file" ELSE c.ik)
    ELSE IF c.k = "dir" /\ c.ik = "mapfile" /\ s = Subj(c) \o "/" \o c.m THEN "file"       \* the file the inner map links to
    ELSE IF HasSiteMap(c) /\ s = SiteMapSel THEN "file"
    ELSE IF c.k \in {"dir", "mapdir"} /\ c.ik = "dir" /\ s = InnerSel(c) \o "/leaf" THEN "file"
    ELSE IF c.k = "mapdir" /\ s = Subj(c) \o "/gophermap" THEN "file"
    ELSE IF c.k = "maildir" /\ s \in {Subj(c) \o "/new", Subj(c) \o "/cur", Subj(c) \o "/tmp"} THEN "dir"
    ELSE IF c.k = "maildir" /\ s = Subj(c) \o "/new/msg1" THEN "file"
    ELSE IF s \in Anchors THEN "file"
    ELSE "none"

Secure(sel) == /\ Find(sel, "./") = 0 /\ Find(sel, "..") = 0 /\ Find(sel, "//") = 0
               /\ Find(sel, ".\\") = 0 /\ Find(sel, "\\\\") = 0

\* handlers/virtual.py: split at the first "?" if there is one, else at the first "|"
VSplit(sel) ==
    LET i == IF Find(sel, "?") > 0 THEN Find(sel, "?") ELSE Find(sel, "|") IN
    IF i = 0 THEN [real |-> sel, args |-> "", split |-> FALSE]
    ELSE [real |-> SubSeq(sel, 1, i - 1), args |-> SubSeq(sel, i + 1, Len(sel)), split |-> TRUE]

\* message number of args matching ^<flag>(\d+)$ with a value >= 1, else 0 (numbers up to 9 suffice here)
MsgNum(args, flag) ==
    IF StartsWith(args, flag) /\ IsDigits(SubSeq(args, Len(flag) + 1, Len(args)))
    THEN LET d == SubSeq(args, Len(flag) + 1, Len(args))
             v == ("0" :> 0) @@ ("1" :> 1) @@ ("2" :> 2) @@ ("3" :> 3) @@ ("4" :> 4) @@ ("5" :> 5) @@ ("6" :> 6)
                  @@ ("7" :> 7) @@ ("8" :> 8) @@ ("9" :> 9)
         IN IF Len(d) = 1 THEN v[d] ELSE 10
    ELSE 0

IsMboxFile(c, s) == c.k = "mbox" /\ s = Subj(c)
IsMaildir(c, s) == c.k = "maildir" /\ s = Subj(c)

Ok(obj, by) == [ok |-> TRUE, obj |-> obj, by |-> by]
NotFound == [ok |-> FALSE, obj |-> "notfound", by |-> "none"]
Crash == [ok |-> FALSE, obj |-> "crash", by |-> "none"]

\* inside an archive (handlers/ZIP.py): the member tree of subject c is its single inner entry
ZipServe(c, sel) ==
    LET inner == SubSeq(sel, Len(Subj(c)) + 1, Len(sel)) IN      \* "" or "/member..."
    IF inner \in {"", "/"} THEN Ok("menu", "ZIPHandler")
    ELSE IF inner = "/" \o c.m THEN (IF c.ik = "dir" THEN Ok("menu", "ZIPHandler") ELSE Ok("doc", "ZIPHandler"))
    ELSE IF c.ik = "dir" /\ inner = "/" \o c.m \o "/leaf" THEN Ok("doc", "ZIPHandler")
    ELSE NotFound

RECURSIVE Serve(_, _, _)
Serve(c, sel, hl) ==
    IF IsRealUrlSel(sel) /\ (\A x \in {cLF, cTAB, "\"", cCR} : Find(sel, x) = 0) THEN Ok("doc", "HTMLURLHandler")
    ELSE IF ~Secure(sel) THEN NotFound
    ELSE
    LET st   == Stat(c, sel)
        v    == VSplit(sel)
        strl == IF v.split THEN Stat(c, v.real) ELSE st
    IN
    IF (st = "dir" /\ Stat(c, sel \o "/gophermap") = "file") \/ (st = "file" /\ EndsWith(sel, ".gophermap"))
        THEN Ok("menu", "BuckGophermapHandler")
    ELSE IF v.args = "" /\ strl = "dir" /\ IsMaildir(c, v.real) THEN Ok("menu", "MaildirFolderHandler")
    ELSE IF MsgNum(v.args, "/MAILDIR-MESSAGE/") > 0
        THEN (IF IsMaildir(c, v.real) /\ MsgNum(v.args, "/MAILDIR-MESSAGE/") <= NMsgs
              THEN Ok("doc", "MaildirMessageHandler") ELSE Crash)
    ELSE IF st = "dir" THEN Ok("menu", "UMNDirHandler")
    ELSE IF MsgNum(v.args, "/MBOX-MESSAGE/") > 0
        THEN (IF IsMboxFile(c, v.real) /\ MsgNum(v.args, "/MBOX-MESSAGE/") <= NMsgs
              THEN Ok("doc", "MBoxMessageHandler") ELSE Crash)
    ELSE IF v.args = "" /\ strl = "file" /\ IsMboxFile(c, v.real) THEN Ok("menu", "MBoxFolderHandler")
    ELSE IF hl \in {"full", "norewrite"} /\ c.k = "zip" /\ (sel = Subj(c) \/ StartsWith(sel, Subj(c) \o "/")) THEN ZipServe(c, sel)
    ELSE IF st = "file" THEN Ok("doc", "FileHandler")
    ELSE IF hl = "full" /\ Len(sel) >= 3 /\ Ch(sel, 1) = "/" /\ Ch(sel, 3) = "/"
        THEN Serve(c, SubSeq(sel, 3, Len(sel)), "norewrite")                       \* url.URLTypeRewriter
    ELSE NotFound

\* the model's listings (order irrelevant for closure): entries as the shared directory walk builds them
Entry(type, name, sel) == [type |-> type, name |-> name, sel |-> sel, host |-> "", port |-> 0]
\* a *.gophermap FILE is listed with the type and MIME type of a plain text file (gophermap.py getentry:
\* populatefromvfs) although it is served as a menu - named deviation MapFileAsDocument
IsMapFile(c, sel, hl) == Stat(c, sel) = "file" /\ Serve(c, sel, hl).by = "BuckGophermapHandler"
TypeOf(c, sel, hl) == LET r == Serve(c, sel, hl) IN
                      IF IsMapFile(c, sel, hl) /\ "mapfile" \notin Fixes THEN "0"
                      ELSE IF r.ok /\ r.obj = "menu" THEN "1" ELSE "0"
\* the lines of the map files gamma writes: relative selector, description only (selector = display string), absolute
MapLines(base, target) ==             \* gophermap.py: a selector starting with "URL:" is not made relative
    LET rel == IF StartsWith(target, "URL:") THEN target ELSE base \o "/" \o target IN
    {Entry("0", "relative", rel), Entry("0", target, rel), Entry("0", "absolute", "/zz")}

\* site map: every directory tree also has a named map file in the root that links (absolute selectors) straight to
\* the children and grandchildren, so each deep object is advertised by a listing whose own reachability does not
\* depend on the object's parent.  A gophermap field cannot carry leading/trailing blanks, TAB or LF.
\* and the map is authored text: it only names objects the selector filter accepts (cf. MapOk in MC_C05)
SiteOk(x) == Strip(x) = x /\ Find(x, cTAB) = 0 /\ Find(x, cLF) = 0 /\ Secure(x)
SiteTargets(c) == {x \in {InnerSel(c)} \cup (IF c.ik = "dir" THEN {InnerSel(c) \o "/leaf"} ELSE {})
                              \cup (IF c.ik = "mapfile" THEN {Subj(c) \o "/" \o c.m} ELSE {}) : SiteOk(x)}
MaildirParts(c) == {Subj(c) \o "/new", Subj(c) \o "/cur", Subj(c) \o "/tmp"}
Dirs(c, hl) == {"/"} \cup (IF HasSiteMap(c) THEN {SiteMapSel} ELSE {}) \cup (IF Serve(c, Subj(c), hl).obj = "menu" THEN {Subj(c)} ELSE {})
                     \cup (IF c.k \in {"dir", "mapdir", "zip"} /\ c.ik \in {"dir", "mapfile"}
                              /\ Serve(c, InnerSel(c), hl).obj = "menu" THEN {InnerSel(c)} ELSE {})
                     \cup (IF c.k = "maildir" /\ Serve(c, Subj(c), hl).by = "UMNDirHandler" THEN MaildirParts(c) ELSE {})
                     \cup (IF c.k = "deep" THEN {DeepPath(c, i) : i \in 1..DeepDepth} ELSE {})

ListingAll(c, d, hl) ==
    IF d = "/" THEN {Entry(TypeOf(c, Subj(c), hl), FsName(c), Subj(c))} \cup {Entry("0", "zz", a) : a \in Anchors}
                    \cup (IF HasSiteMap(c) THEN {Entry(TypeOf(c, SiteMapSel, hl), "zm.gophermap", SiteMapSel)} ELSE {})
    ELSE IF HasSiteMap(c) /\ d = SiteMapSel THEN {Entry(TypeOf(c, x, hl), "x", x) : x \in SiteTargets(c)}
    ELSE IF c.k = "deep" THEN (IF DeepLevel(c, d) = DeepDepth THEN {Entry("0", "leaf", d \o "/leaf")}
                               ELSE {Entry("1", c.n, d \o "/" \o c.n)})
    ELSE IF d = Subj(c) THEN
        LET by == Serve(c, d, hl).by IN
        CASE by = "MaildirFolderHandler" -> {Entry("0", "subject", MsgSel(c, "/MAILDIR-MESSAGE/"))}
          [] by = "MBoxFolderHandler" -> {Entry("0", "subject", MsgSel(c, "/MBOX-MESSAGE/"))}
          [] by = "BuckGophermapHandler" ->     \* gophermap.py: a selector starting with "URL:" is not made relative
                IF c.k = "mapfile" THEN MapLines("", "zz") ELSE
                {Entry(TypeOf(c, InnerSel(c), hl), c.m, IF StartsWith(c.m, "URL:") THEN c.m ELSE InnerSel(c))}
          [] by = "ZIPHandler" -> {Entry(TypeOf(c, InnerSel(c), hl), c.m, InnerSel(c))}
          [] by = "UMNDirHandler" ->
                IF c.k = "maildir" THEN {Entry("1", SubSeq(x, Len(Subj(c)) + 2, Len(x)), x) : x \in MaildirParts(c)}
                ELSE {Entry(TypeOf(c, InnerSel(c), hl), InnerName(c), InnerSel(c))}
                     \cup (IF c.ik = "mapfile" THEN {Entry("0", c.m, Subj(c) \o "/" \o c.m)} ELSE {})
          [] OTHER -> {}
    ELSE IF c.k = "maildir" THEN (IF d = Subj(c) \o "/new" THEN {Entry("0", "msg1", d \o "/msg1")} ELSE {})
    ELSE IF c.ik = "mapfile" THEN MapLines(Subj(c), c.m)
    ELSE {Entry("0", "leaf", d \o "/leaf")}

\* the listing of d is produced by whichever handler serves d (Serve(..).by), exactly as for a request.
\* A directory walk leaves out a child that the handler chain refuses (name rejected by the selector filter;
\* dir.py prep_entries since fix 6c16d15 - before, such a child took the whole listing down); a gophermap
\* lists its lines as written.
Listing(c, d, hl) == LET all == ListingAll(c, d, hl) IN
                     IF d # "/" /\ Serve(c, d, hl).by = "BuckGophermapHandler" THEN all ELSE {e \in all : Secure(e.sel)}

\* (before fix 6c16d15 a directory whose walk met a refused child answered not-found as a whole)
ListingFails(c, d, hl) == FALSE

\* what a listing advertises about an entry's kind, per protocol (only some protocols say)
Advertised(p, e) == IF p \in GopherViews \cup {"H", "HS"} THEN (IF e.type = "1" THEN "menu" ELSE "doc") ELSE "any"

\* references under which a client of p knows directory d (root, or reached through its link)
BaseRef(p, c, d, hl) ==
    IF d = "/" THEN RootRef(p)
    ELSE IF c.k = "deep" THEN RefOf(p, Target(p, Entry("1", c.n, d)), RootRef(p))      \* references are path-absolute
    ELSE IF HasSiteMap(c) /\ d = SiteMapSel THEN RefOf(p, Target(p, Entry("1", "zm.gophermap", d)), RootRef(p))
    ELSE IF d = Subj(c) THEN RefOf(p, Target(p, Entry("1", FsName(c), Subj(c))), RootRef(p))
    ELSE RefOf(p, Target(p, Entry("1", c.m, InnerSel(c))),
               RefOf(p, Target(p, Entry("1", FsName(c), Subj(c))), RootRef(p)))

\* verdict of the model for one link e of directory d seen through p
LinkVerdict(p, c, hl, d, e) ==
    LET t  == Target(p, e)
        rq == Follow(p, t, BaseRef(p, c, d, hl), "")
        r  == Parse(rq)
        sv == Serve(c, r.sel, hl)
        v  == IF ~IsLocal(p, t) THEN "ok"
              ELSE IF Why(p, rq) # "none" THEN Why(p, rq)
              ELSE IF ~sv.ok THEN "NotServed"
              ELSE IF Advertised(p, e) # "any" /\ sv.obj # Advertised(p, e)
                   THEN (IF IsMapFile(c, r.sel, hl) THEN "MapFileAsDocument" ELSE "WrongKind")
              ELSE IF r.sel # SlashNorm(e.sel) THEN "OtherObject"
              ELSE "ok"
    IN \* a file whose NAME starts with "URL:" is rendered by the URL-based renderers as the reference that
       \* follows the prefix (http.py/gemini.py/spartan.py renderobjinfo: re.match("(/|)URL:", selector))
       IF v # "ok" /\ p \in UrlViews /\ IsUrlSel(e.sel) THEN "UrlNameAsReference" ELSE v

\* failing links of case c seen through p: <<directory, selector, why>>
Failing(p, c, hl) ==
    LET all == UNION {{<<d, e.sel, LinkVerdict(p, c, hl, d, e)>> : e \in Listing(c, d, hl)}
                      : d \in {x \in Dirs(c, hl) : ~ListingFails(c, x, hl)}}
    IN {f \in all : f[3] # "ok"}

\* names a protocol cannot express are outside the property (Gopher family: no cTAB/cCR/cLF, no trailing blank)
Expressible(p, n) == p \in GopherViews => (n # "" /\ Last1(n) \notin cWS /\ \A x \in {cTAB, cCR, cLF} : Find(n, x) = 0)
CaseExpressible(p, c) == Expressible(p, c.n) /\ (c.k \in {"dir", "mapdir", "zip"} => Expressible(p, c.m))

\* deviations of the pinned code that are recorded as findings (known_findings.json); everything else must hold
\* (CapturedBy_SpartanProtocol - a Gopher selector of the shape "host path length" - is repaired by c3ed498)
KnownWhy == {"CapturedBy_WAPProtocol", "QueryPrefixCapture", "UrlNameAsReference",
             "IconRouteCapture", "MapFileAsDocument"}
Closure(p, c, hl) == CaseExpressible(p, c) => \A f \in Failing(p, c, hl) : f[3] \in KnownWhy
ClosureStrict(p, c, hl) == CaseExpressible(p, c) => Failing(p, c, hl) = {}
=============================================================================
