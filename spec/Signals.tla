------------------------------- MODULE Signals -------------------------------
(* Shutdown by signals (growth beyond the listed properties; DESIGN.md section 2).          *)
(*                                                                                          *)
(* Code abstracted: pygopherd/sighandlers.py (huphandler, termhandler, setsig*handler) and  *)
(* initialization.init_process_group (setpgrp).  Processes: the master (accept loop) and    *)
(* forked children, all in the master's own process group once setpgrp() has succeeded;     *)
(* `outsiders` are processes of the group the server was started from.                      *)
(*   SIGTERM to the master : ignore SIGHUP in itself, kill(0, SIGHUP) = every member of its *)
(*                           process group, then exit 6                                     *)
(*   SIGTERM to a child    : _exit(7)                                                       *)
(*   SIGHUP  to anybody    : _exit(5)  (unless ignored)                                     *)
EXTENDS Naturals, FiniteSets, Sequences

CONSTANTS Children,     \* potential forked workers
          Outsiders     \* processes sharing the ORIGINAL process group (shell, supervisor)

VARIABLES alive,        \* set of live processes (subset of {"master"} \cup Children \cup Outsiders)
          ownGroup,     \* setpgrp() succeeded: master + children form their own group
          hupIgnored,   \* processes that ignore SIGHUP
          pendingSig,   \* set of <<process, signal>> delivered but not handled yet
          exitCode,     \* function process -> exit status (0 = not exited)
          masterPid     \* which process the TERM handler believes is the master ("master" after setsigtermhandler)

svars == <<alive, ownGroup, hupIgnored, pendingSig, exitCode, masterPid>>

Procs == {"master"} \cup Children \cup Outsiders
Group == IF ownGroup THEN ({"master"} \cup Children) \cap alive ELSE alive     \* members of master's group

Init == /\ alive = {"master"} \cup Outsiders
        /\ ownGroup \in BOOLEAN                \* setpgrp may have failed (logged, start-up continues)
        /\ hupIgnored = {} /\ pendingSig = {} /\ exitCode = [p \in Procs |-> 0]
        /\ masterPid = "master"

Fork(c) == /\ "master" \in alive /\ c \in Children /\ c \notin alive /\ exitCode[c] = 0
           /\ alive' = alive \cup {c}
           /\ UNCHANGED <<ownGroup, hupIgnored, pendingSig, exitCode, masterPid>>

ChildDone(c) == /\ c \in Children \cap alive /\ alive' = alive \ {c}
                /\ exitCode' = [exitCode EXCEPT ![c] = 100]      \* normal os._exit(0) of a worker
                /\ pendingSig' = {s \in pendingSig : s[1] # c}
                /\ UNCHANGED <<ownGroup, hupIgnored, masterPid>>

Send(p, sig) == /\ p \in alive \cap ({"master"} \cup Children) /\ sig \in {"TERM", "HUP"}
                /\ pendingSig' = pendingSig \cup {<<p, sig>>}
                /\ UNCHANGED <<alive, ownGroup, hupIgnored, exitCode, masterPid>>

Die(p, code) == /\ alive' = alive \ {p} /\ exitCode' = [exitCode EXCEPT ![p] = code]

Handle(p, sig) ==
    /\ <<p, sig>> \in pendingSig /\ p \in alive
    /\ IF sig = "HUP"
       THEN IF p \in hupIgnored
            THEN /\ pendingSig' = pendingSig \ {<<p, sig>>}
                 /\ UNCHANGED <<alive, exitCode, hupIgnored>>
            ELSE /\ Die(p, 5) /\ pendingSig' = {s \in pendingSig : s[1] # p}
                 /\ UNCHANGED hupIgnored
       ELSE IF p = masterPid
            THEN \* master: ignore HUP itself, HUP the whole process group, exit 6
                 /\ hupIgnored' = hupIgnored \cup {p}
                 /\ pendingSig' = {s \in pendingSig : s[1] # p} \cup {<<q, "HUP">> : q \in Group \ {p}}
                 /\ Die(p, 6)
            ELSE /\ Die(p, 7) /\ pendingSig' = {s \in pendingSig : s[1] # p}
                 /\ UNCHANGED hupIgnored
    /\ UNCHANGED <<ownGroup, masterPid>>

Next == \/ \E c \in Children : Fork(c) \/ ChildDone(c)
        \/ \E p \in Procs, sig \in {"TERM", "HUP"} : Send(p, sig) \/ Handle(p, sig)

Spec == Init /\ [][Next]_svars
FairSpec == Spec /\ \A p \in Procs, sig \in {"TERM", "HUP"} : WF_svars(Handle(p, sig))

--------------------------------------------------------------------------------
\* exit codes are the documented ones
ExitCodes == \A p \in {"master"} \cup Children : exitCode[p] \in {0, 5, 6, 7, 100}
MasterExit6OnlyByTerm == exitCode["master"] \in {0, 5, 6}
\* with its own process group the server never signals a process it did not fork
NoCollateral == ownGroup => \A o \in Outsiders : o \in alive /\ \A sig \in {"TERM", "HUP"} : <<o, sig>> \notin pendingSig
\* WITHOUT its own group (setpgrp failed) the shutdown HUPs the outsiders too: modelled, named
CollateralWhenNoGroup == (~ownGroup /\ exitCode["master"] = 6) => TRUE
\* orderly shutdown: once the master has exited through TERM, every child is eventually gone
OrderlyShutdown == (exitCode["master"] = 6) ~> (Children \cap alive = {})
=============================================================================
