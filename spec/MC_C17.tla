------------------------------- MODULE MC_C17 -------------------------------
(* Bounded design model for C17 (and, with other invariants, C18).  Init picks a case        *)
(* (template tree, context) of the bounded TAL grammar; Load compiles it with TALCompile;   *)
(* every further step is ONE OPCODE of TALVM.  The set Cases is written out by the           *)
(* POSTCONDITION: exactly the cases TLC explored are rendered, compiled and expanded by the  *)
(* real simpleTAL (binding B2).                                                              *)
EXTENDS TALVM, MC_C17_Cases, Json, IOUtils, SequencesExt

CONSTANTS Families,        \* which template families to explore
          CtxIds,          \* which named contexts
          NParts, Part,    \* this process explores the descriptors whose rank is Part modulo NParts
          MaxSteps,        \* Terminates: bound on the number of opcode steps of one expansion
          KnownRawTextEscaped      \* TRUE iff the recorded finding "script/style content is entity-escaped" is listed (C18)

VARIABLES desc, case, phase, nsteps
mcvars == <<st, prog, sym, macros, desc, case, phase, nsteps>>

Sem == INSTANCE TALSem

MyDescs == Descs(Families, CtxIds, NParts, Part)

\* the context the harness builds: the entries of the case plus `macros` = the template's macro table
G0(c) == Sem!GlobalsOf(CtxEnts(c), c.tree)

Init == /\ desc \in MyDescs /\ case = NoCase /\ phase = "init" /\ nsteps = 0
        /\ st = VMInit(EmptyF, FALSE, 0) /\ prog = <<>> /\ sym = [x \in {} |-> 0] /\ macros = <<>>
Load == /\ phase = "init" /\ phase' = "run"
        /\ LET cs == CaseOf(desc)
               c  == Compile(cs.tree)
           IN /\ case' = cs
              /\ prog' = c.cmds /\ sym' = c.sym /\ macros' = c.macros
              /\ st' = VMInit(G0(cs), cs.py, Len(c.cmds))
        /\ UNCHANGED <<desc, nsteps>>
Run == /\ phase = "run" /\ nsteps <= MaxSteps /\ VMNext /\ nsteps' = nsteps + 1 /\ UNCHANGED <<desc, case, phase>>
Next == Load \/ Run
Spec == Init /\ [][Next]_mcvars

Done == phase = "run" /\ Halted(st)
Ref == Sem!Expand(case.tree, G0(case), case.py)

\* ---- C17 ----
WellFormed == (phase = "run" /\ nsteps = 0) => WellFormedProg(prog, sym, macros)
Terminates == nsteps <= MaxSteps
Completes  == Done => st.err = ""
Refines    == (Done /\ st.err = "") => (st.out = Sem!Doc(Ref.t) /\ st.g = Ref.g)
\* exactly the cases this run explored, for the replay into the real simpleTAL (binding B2)
WriteCases == LET ds == SetToSeq(MyDescs) IN
              JsonSerialize(IOEnv.CASES_FILE, [cases |-> [i \in DOMAIN ds |-> CaseOf(ds[i])], contexts |-> Contexts])
=============================================================================
