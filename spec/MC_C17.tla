------------------------------- MODULE MC_C17 -------------------------------
(* Bounded design model for C17 (and, with other invariants, C18).  Init picks a case        *)
(* (template tree, context) of the bounded TAL grammar; Load compiles it with TALCompile;   *)
(* every further step is ONE OPCODE of TALVM.  The set Cases is written out by the           *)
(* POSTCONDITION: exactly the cases TLC explored are rendered, compiled and expanded by the  *)
(* real simpleTAL (binding B2).                                                              *)
EXTENDS TALVM, MC_C17_Cases, Json, IOUtils, SequencesExt

CONSTANTS Families,        \* which template families to explore
          CtxIds,          \* which named contexts
          EscLen,          \* length bound of the metacharacter values (family esc)
          MaxSteps,        \* Terminates: bound on the number of opcode steps of one expansion
          KnownRepeatOverMapping   \* TRUE iff the recorded finding "tal:repeat over a non-empty mapping" is listed

VARIABLES case, phase, nsteps
mcvars == <<st, prog, sym, macros, case, phase, nsteps>>

Sem == INSTANCE TALSem

CasesOf(f) == CASE f = "expr"   -> Fam("expr", ExprTrees, CtxIds)
                [] f = "one0"   -> Fam("one", OneTrees({<<>>}), CtxIds)
                [] f = "one1"   -> Fam("one", OneTrees({<<Define1a>>}), CtxIds)
                [] f = "one2"   -> Fam("one", OneTrees({<<Define1b>>}), CtxIds)
                [] f = "void"   -> Fam("void", VoidTrees, CtxIds)
                [] f = "nestq0" -> Fam("nest", NestTreesQuick({<<>>}), CtxIds)
                [] f = "nestq1" -> Fam("nest", NestTreesQuick({<<PDefineA>>}), CtxIds)
                [] f = "nestq2" -> Fam("nest", NestTreesQuick({<<PDefineB>>}), CtxIds)
                [] f = "nest0"  -> Fam("nest", NestTreesFull({<<>>}), CtxIds)
                [] f = "nest1"  -> Fam("nest", NestTreesFull({<<PDefineA>>}), CtxIds)
                [] f = "nest2"  -> Fam("nest", NestTreesFull({<<PDefineB>>}), CtxIds)
                [] f = "deep"   -> Fam("deep", DeepTrees, CtxIds)
                [] f = "metal0" -> Fam("metal", MetalTrees({TRUE}) \cup MetalExtra, CtxIds)
                [] f = "metal1" -> Fam("metal", MetalTrees({FALSE}), CtxIds)
                [] f = "esc"    -> EscCases(EscLen)
                [] f = "py"     -> PyCases
                [] f = "doc"    -> DocCases(IF Quick THEN DocTreesSmall ELSE DocTreesSmall \cup DocTreesLarge)
Cases == UNION {CasesOf(f) : f \in Families}

\* the context the harness builds: the entries of the case plus `macros` = the template's macro table
G0(c) == Sem!GlobalsOf(CtxEnts(c), c.tree)

Init == /\ case \in Cases /\ phase = "init" /\ nsteps = 0
        /\ st = VMInit(EmptyF, FALSE, 0) /\ prog = <<>> /\ sym = [x \in {} |-> 0] /\ macros = <<>>
Load == /\ phase = "init" /\ phase' = "run"
        /\ LET c == Compile(case.tree) IN
           /\ prog' = c.cmds /\ sym' = c.sym /\ macros' = c.macros
           /\ st' = VMInit(G0(case), case.py, Len(c.cmds))
        /\ UNCHANGED <<case, nsteps>>
Run == /\ phase = "run" /\ nsteps <= MaxSteps /\ VMNext /\ nsteps' = nsteps + 1 /\ UNCHANGED <<case, phase>>
Next == Load \/ Run
Spec == Init /\ [][Next]_mcvars

Done == phase = "run" /\ Halted(st)
Ref == Sem!Expand(case.tree, G0(case), case.py)

\* ---- C17 ----
WellFormed == (phase = "run" /\ nsteps = 0) => WellFormedProg(prog, sym, macros)
Terminates == nsteps <= MaxSteps
Completes  == Done => (st.err = "" \/ (KnownRepeatOverMapping /\ st.err = "KeyError"))
Refines    == (Done /\ st.err = "") => (st.out = Sem!Doc(Ref.t) /\ st.g = Ref.g)
WriteCases == JsonSerialize(IOEnv.CASES_FILE, [cases |-> SetToSeq(Cases), contexts |-> Contexts])
=============================================================================
