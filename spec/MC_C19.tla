------------------------------- MODULE MC_C19 -------------------------------
(* Bounded design model for C19: the start-up program AS CODED (after the fix that adds    *)
(* the chdir), for every combination of the options and with every call failing in turn.   *)
(* TLC enumerates all (configuration, fault point) pairs; each initial state is also one   *)
(* replay case for the real initialize() (binding B2).                                     *)
EXTENDS Startup, TLC

VARIABLES pc, fault, step      \* program counter, name of the call that fails ("none" = no fault), last step

mcvars == <<vars, pc, fault, step>>

\* calls that can fail (everything but the in-memory config write)
Fallible(c) == {i \in 1..Len(Prog(c)) : Prog(c)[i] # "cfgroot"}

\* (faults are crossed with the plain start directory and readable options only: the fault-free runs carry the rest)
Init == /\ \E c \in Configs, u \in Starters, sd \in StartDirs : InitFull(c, u, sd)
        /\ pc = 1 /\ step = "none"
        /\ fault \in {"none"} \cup {Prog(cfg)[i] : i \in Fallible(cfg)}
        /\ (fault # "none" => (cwd = "elsewhere" /\ ~cfg.garbled))

Do(name, ok) ==
    CASE name = "loadtls"   -> LoadTLS(ok)
      [] name = "bind"      -> Bind(ok)
      [] name = "lookupuser"  -> LookupUser(ok)
      [] name = "lookupgroup" -> LookupGroup(ok)
      [] name = "chroot"    -> Chroot(ok, TRUE)
      [] name = "chdir"     -> Chdir(ok, TRUE)
      [] name = "cfgroot"   -> SetCfgRoot("slash")
      [] name = "setgroups" -> SetGroups(ok, TRUE)
      [] name = "setgid"    -> SetGid(ok, TRUE)
      [] name = "setuid"    -> SetUid(ok, TRUE)

Step ==
    /\ phase = "starting" /\ ~failed /\ pc <= Len(Prog(cfg))
    /\ Do(Prog(cfg)[pc], Prog(cfg)[pc] # fault)
    /\ step' = Prog(cfg)[pc]
    /\ pc' = pc + 1 /\ UNCHANGED fault

Finish ==
    /\ phase = "starting"
    /\ IF failed \/ (cfg.garbled /\ pc > Len(Prog(cfg))) THEN Abort ELSE (pc > Len(Prog(cfg)) /\ Serve)
    /\ step' = "none" /\ UNCHANGED <<pc, fault>>

Next == Step \/ Finish
Spec == Init /\ [][Next]_mcvars

\* step clauses as an action property: judged in the state BEFORE the privileged step
\* (only for steps that succeed: a refused or failing call changes nothing and aborts start-up)
StepTaken == Prog(cfg)[pc] # fault /\ OsPermits(Prog(cfg)[pc])
StepsInOrder == [][(Step /\ StepTaken) => StepClauses(Prog(cfg)[pc]) = "ok"]_mcvars
StatesOk == StateClauses = "ok"
\* non-vacuity witnesses (expected to be VIOLATED when checked: see MC_C19_reach.cfg)
NeverServesChrootedAndDropped == ~(phase = "serving" /\ cfg.chroot /\ cfg.uid /\ cfg.gid /\ cfg.tls)
NeverAborts == phase # "aborted"
=============================================================================
