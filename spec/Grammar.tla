------------------------------- MODULE Grammar -------------------------------
(* Response grammars of DESIGN.md Appendix E.5 over abstract frames  [C03].               *)
(*                                                                                          *)
(* A response is a sequence of FRAMES, all of the same record shape                        *)
(*     [k |-> kind, s |-> text, n |-> number]                                              *)
(*   k = "line"   one line of the response head, s = its text WITHOUT the terminating CRLF  *)
(*                (a bare CR or LF that is not part of a CRLF stays inside s), n = Len(s)   *)
(*   k = "blank"  the empty line that ends an HTTP header block (s = "", n = 0)            *)
(*   k = "body"   everything after the head: n = number of bytes (s = "")                  *)
(*   k = "raw"    a byte stream that is not line-structured (plain Gopher document), n bytes *)
(*   k = "menu"   a block of n well-formed menu lines whose text is not known (produced by  *)
(*                the design model only, never by the lexer)                               *)
(*   k = "junk"   bytes the lexer could not classify (e.g. a head without terminator):      *)
(*                rejected by every grammar                                                 *)
(* The lexers (alpha, harness/c03_lib.py) only cut the byte stream: at the first CRLF for   *)
(* Gopher+/Gemini/Spartan, at every CRLF up to the first empty line for HTTP/WAP, at every  *)
(* CRLF for a plain-Gopher stream in which every line contains a TAB.  Everything that      *)
(* decides whether the response is well-formed is below.                                    *)
EXTENDS Naturals, Sequences
LOCAL T == INSTANCE Text

Frame(k, s, n) == [k |-> k, s |-> s, n |-> n]
Line(s)  == Frame("line", s, Len(s))
Body(n)  == Frame("body", "", n)
Raw(n)   == Frame("raw", "", n)
Blank    == Frame("blank", "", 0)
Menu(n)  == Frame("menu", "", n)
Junk(n)  == Frame("junk", "", n)

CR == "\r"
LF == "\n"
TAB == "\t"
NoCRLF(s) == ~T!Contains(s, CR) /\ ~T!Contains(s, LF)
HasTab(s) == T!Contains(s, TAB)

(* protocol families: the grammar to apply for a detected protocol class *)
Family(p) ==
    CASE p \in {"GopherProtocol", "SecureGopherProtocol"} -> "G"
      [] p \in {"GopherPlusProtocol", "SecureGopherPlusProtocol", "URLGopherPlus"} -> "GP"
      [] p \in {"HTTPProtocol", "HTTPSProtocol"} -> "H"
      [] p = "WAPProtocol" -> "W"
      [] p = "GeminiProtocol" -> "GEM"
      [] p = "SpartanProtocol" -> "S"
      [] OTHER -> "none"

--------------------------------------------------------------------------------
(* Gopher: type name TAB selector TAB host TAB port [TAB +]   (fields free of TAB, CR, LF) *)
MenuLine(s) ==
    LET f == T!Split(s, TAB) IN
    /\ Len(f) \in {4, 5}
    /\ Len(f[1]) >= 1                       \* the type character (the name may be empty)
    /\ NoCRLF(s)
    /\ T!IsDigits(f[4])
    /\ (Len(f) = 5 => f[5] = "+")
ErrorLine(s) == MenuLine(s) /\ T!Ch(s, 1) = "3"

AllLines(fr) == \A i \in 1..Len(fr) : fr[i].k = "line"
IsMenu(fr)   == Len(fr) >= 1 /\ \A i \in 1..Len(fr) :
                    \/ (fr[i].k = "line" /\ MenuLine(fr[i].s))
                    \/ (fr[i].k = "menu")
IsGopherError(fr) == Len(fr) = 1 /\ fr[1].k = "line" /\ ErrorLine(fr[1].s)
IsRawDoc(fr) == Len(fr) = 1 /\ fr[1].k = "raw" /\ fr[1].n >= 1

WellG(fr) == IsMenu(fr) \/ IsRawDoc(fr)        \* an error line is a one-line menu of type 3

--------------------------------------------------------------------------------
(* Gopher+: first line +N | +-1 | +-2 | --N, CRLF; +N is followed by exactly N bytes       *)
GPKind(s) ==
    IF Len(s) >= 2 /\ T!Ch(s, 1) = "+" /\ T!IsDigits(T!Tail1(s)) /\ Len(s) <= 10 THEN "sized"
    ELSE IF s \in {"+-1", "+-2"} THEN "unsized"
    ELSE IF Len(s) >= 3 /\ SubSeq(s, 1, 2) = "--" /\ T!IsDigits(SubSeq(s, 3, Len(s))) THEN "error"
    ELSE "bad"

RECURSIVE DecOf(_)
DecOf(s) == IF Len(s) = 0 THEN 0
            ELSE 10 * DecOf(SubSeq(s, 1, Len(s) - 1)) +
                 (CHOOSE d \in 0..9 : T!Ch("0123456789", d + 1) = T!Last1(s))

GPShape(fr) == Len(fr) = 2 /\ fr[1].k = "line" /\ fr[2].k \in {"body", "menu"}
IsGPError(fr) == GPShape(fr) /\ GPKind(fr[1].s) = "error"
WellGP(fr) ==
    /\ GPShape(fr)
    /\ LET kd == GPKind(fr[1].s) IN
       CASE kd = "sized"   -> fr[2].k = "body" /\ fr[2].n = DecOf(T!Tail1(fr[1].s))
         [] kd = "unsized" -> TRUE
         [] kd = "error"   -> fr[2].k = "body" /\ fr[2].n >= 1          \* the error text
         [] OTHER          -> FALSE

--------------------------------------------------------------------------------
(* HTTP: HTTP/1.0 SP ddd SP text CRLF, header lines Name: value CRLF, empty line, body     *)
StatusLineH(s) ==
    /\ Len(s) >= 14
    /\ SubSeq(s, 1, 9) = "HTTP/1.0 "
    /\ T!IsDigits(SubSeq(s, 10, 12))
    /\ T!Ch(s, 13) = " "
    /\ NoCRLF(s)
HeaderLine(s) ==
    LET i == T!Find(s, ":") IN
    /\ i >= 2
    /\ ~T!Contains(SubSeq(s, 1, i - 1), " ")
    /\ NoCRLF(s)
HShape(fr) ==
    /\ Len(fr) >= 3
    /\ fr[1].k = "line"
    /\ \A i \in 2..(Len(fr) - 2) : fr[i].k = "line"
    /\ fr[Len(fr) - 1].k = "blank"
    /\ fr[Len(fr)].k \in {"body", "menu"}
HCode(fr) == SubSeq(fr[1].s, 10, 12)
WellH(fr, method) ==
    /\ HShape(fr)
    /\ StatusLineH(fr[1].s)
    /\ \A i \in 2..(Len(fr) - 2) : HeaderLine(fr[i].s)
    /\ (method = "HEAD" => (fr[Len(fr)].k = "body" /\ fr[Len(fr)].n = 0))

--------------------------------------------------------------------------------
(* Gemini: dd SP meta CRLF, meta <= 1024 bytes free of CR/LF, body only after 2d           *)
(* Spartan: d SP meta CRLF, body only after 2                                              *)
StatusShape(fr) == Len(fr) = 2 /\ fr[1].k = "line" /\ fr[2].k \in {"body", "menu"}
HasBody(fr) == fr[2].k = "menu" \/ fr[2].n > 0
GemStatus(s) ==
    /\ Len(s) >= 3 /\ T!IsDigits(SubSeq(s, 1, 2)) /\ T!Ch(s, 3) = " "
    /\ Len(s) - 3 <= 1024
    /\ NoCRLF(s)
WellGEM(fr) ==
    /\ StatusShape(fr) /\ GemStatus(fr[1].s)
    /\ (HasBody(fr) => T!Ch(fr[1].s, 1) = "2")
SpStatus(s) ==
    /\ Len(s) >= 2 /\ T!IsDigits(T!Ch(s, 1)) /\ T!Ch(s, 2) = " "
    /\ NoCRLF(s)
WellS(fr) ==
    /\ StatusShape(fr) /\ SpStatus(fr[1].s)
    /\ (HasBody(fr) => T!Ch(fr[1].s, 1) = "2")

--------------------------------------------------------------------------------
NoJunk(fr) == \A i \in 1..Len(fr) : fr[i].k # "junk"

(* exactly one response, well-formed for the detected protocol class p *)
WellFormed(p, method, fr) ==
    /\ Len(fr) >= 1 /\ NoJunk(fr)
    /\ LET fam == Family(p) IN
       CASE fam = "G"   -> WellG(fr)
         [] fam = "GP"  -> WellGP(fr)
         [] fam \in {"H", "W"} -> WellH(fr, method)
         [] fam = "GEM" -> WellGEM(fr)
         [] fam = "S"   -> WellS(fr)
         [] OTHER       -> FALSE                  \* no protocol was detected: nothing is valid

(* which clause of the grammar fails first (for reports): "ok" or a name *)
WhyNot(p, method, fr) ==
    IF Len(fr) = 0 THEN "NoResponse"
    ELSE IF ~NoJunk(fr) THEN "Unparsed"
    ELSE IF Family(p) = "none" THEN "NoProtocol"
    ELSE IF WellFormed(p, method, fr) THEN "ok"
    ELSE IF Family(p) \in {"GEM", "S"} /\ StatusShape(fr) /\ HasBody(fr)
            /\ Len(fr[1].s) >= 1 /\ T!Ch(fr[1].s, 1) # "2" THEN "ErrorHasBody"
    ELSE IF Family(p) \in {"H", "W"} /\ HShape(fr) /\ StatusLineH(fr[1].s) /\ method = "HEAD"
            /\ fr[Len(fr)].n > 0 THEN "HeadHasBody"
    ELSE "Malformed"

(* the response is the protocol's error form (design level: response kinds) *)
IsErrorReply(p, fr) ==
    LET fam == Family(p) IN
    CASE fam = "G"   -> IsGopherError(fr)
      [] fam = "GP"  -> IsGPError(fr)
      [] fam \in {"H", "W"} -> HShape(fr) /\ Len(fr[1].s) >= 12 /\
                                 (HCode(fr) # "200" \/ T!Contains(fr[1].s, "Not Found"))
      [] fam = "GEM" -> StatusShape(fr) /\ Len(fr[1].s) >= 1 /\ T!Ch(fr[1].s, 1) \in {"4", "5"}
      [] fam = "S"   -> StatusShape(fr) /\ Len(fr[1].s) >= 1 /\ T!Ch(fr[1].s, 1) \in {"4", "5"}
      [] OTHER       -> FALSE
=============================================================================
