SPECIFICATION Spec
CONSTANTS
  EaExts <- B1_EaExts
  MimeOf <- B1_MimeOf
  DefaultMime <- B1_DefaultMime
  MaxLines = 2
  Tokens <- C15_Tokens
  Kinds = {"file", "dir", "zipfile", "zipdir", "mapfile", "mapdir"}
  ContentKinds = {"file", "dir", "zipfile", "zipdir"}
  MsgSizes = {10, 3000}
  ContentIdx = {1, 4}
  Exts = {"txt", "q1", "gif", "html"}
  Sizes = {0, 1, 1023, 1024, 1025, 5000}
INVARIANT M_GammaFaithful
INVARIANT M_OneBlockPerSidecar
INVARIANT M_ContentPrefixed
INVARIANT M_SidecarExact
INVARIANT M_LastBlankLineLost
INVARIANT M_Cap20K
INVARIANT M_BigShape
INVARIANT M_LinkKeepsSidecars
INVARIANT M_ViewsTruthful
INVARIANT M_NoSizeNoClaim
INVARIANT M_LenOrMarker
INVARIANT M_InfoFirst
CHECK_DEADLOCK FALSE
