---------------------------- MODULE MC_C07_data ----------------------------
(* Constants imported from the tree under test (binding B1).  THIS FILE IS A DEFAULT: at    *)
(* check time harness/c12_dirlib.py regenerates it from $VERIF_REPO/conf/pygopherd.conf     *)
(* (ignorepatt of [handlers.dir.DirHandler], the documented buck-only pattern of the        *)
(* comment above it, the shipped handler list) and hands it to TLC next to the specs.       *)
(* Generated text, do not edit by hand.                                                     *)

DataIgnorePatterns == [
  shipped |-> <<
    [lit |-> "/.cap", any |-> {2}, end |-> TRUE],
    [lit |-> "/lost+found", any |-> {}, end |-> TRUE],
    [lit |-> "/lib", any |-> {}, end |-> TRUE],
    [lit |-> "/bin", any |-> {}, end |-> TRUE],
    [lit |-> "/etc", any |-> {}, end |-> TRUE],
    [lit |-> "/dev", any |-> {}, end |-> TRUE],
    [lit |-> "~", any |-> {}, end |-> TRUE],
    [lit |-> "/.cache", any |-> {}, end |-> FALSE],
    [lit |-> "/.forward", any |-> {}, end |-> TRUE],
    [lit |-> "/.message", any |-> {}, end |-> TRUE],
    [lit |-> "/.hushlogin", any |-> {}, end |-> TRUE],
    [lit |-> "/.kermrc", any |-> {}, end |-> TRUE],
    [lit |-> "/.notar", any |-> {}, end |-> TRUE],
    [lit |-> "/.where", any |-> {}, end |-> TRUE],
    [lit |-> "/veronica.ctl", any |-> {10}, end |-> TRUE],
    [lit |-> "/robots.txt", any |-> {8}, end |-> TRUE],
    [lit |-> "/nohup.out", any |-> {7}, end |-> TRUE],
    [lit |-> "/gophermap", any |-> {}, end |-> TRUE],
    [lit |-> ".abstract", any |-> {}, end |-> TRUE],
    [lit |-> ".keyboards", any |-> {}, end |-> TRUE],
    [lit |-> ".ask", any |-> {}, end |-> FALSE],
    [lit |-> ".3d", any |-> {}, end |-> TRUE],
    [lit |-> "~", any |-> {}, end |-> TRUE]
  >>,
  buck |-> <<
    [lit |-> "~", any |-> {}, end |-> TRUE],
    [lit |-> "/.", any |-> {}, end |-> FALSE],
    [lit |-> "/gophermap", any |-> {}, end |-> TRUE]
  >>
]

DataLists == [
  default |-> [handler |-> "umn", mbox |-> TRUE, html |-> TRUE],
  dir |-> [handler |-> "dir", mbox |-> FALSE, html |-> FALSE]
]

DataProbes == {
  [name |-> "lib", kind |-> "file"], [name |-> "libx", kind |-> "file"], [name |-> "xlib", kind |-> "file"],
  [name |-> "robots.txt", kind |-> "file"], [name |-> "robots-txt", kind |-> "file"], [name |-> "xrobots.txt", kind |-> "file"]
}
=============================================================================
