-------------------------------- MODULE Wire --------------------------------
(* Request-line grammar and protocol autodetection of pygopherd (property C02).            *)
(*                                                                                          *)
(* Two independent descriptions of "which protocol answers a connection":                  *)
(*   Shape(p, x)   the DOCUMENTED request shape of protocol p (the oracle of the property;  *)
(*                 every definition cites the document it transcribes), and                *)
(*   Claims(p, ..) a TRANSCRIPTION of p.canhandlerequest() in pygopherd/protocols/*.py,     *)
(*                 structured like the code, including its side effects on the connection  *)
(*                 (WAP's header slurp moves the read position and fills a per-connection  *)
(*                 header cache) and its crash value (index into an empty Gopher+ field).  *)
(* Detect(list, ..) transcribes ProtocolMultiplexer.getProtocol: first claimant wins,      *)
(* implicit None, an exception raised by a test escapes (server.py selects the protocol    *)
(* OUTSIDE its try block).                                                                  *)
(*                                                                                          *)
(* A case x is a record [line, pad, tls, hdrs]:                                                  *)
(*   line  the first request line exactly as readline() returns it (terminator included),   *)
(*         decoded with surrogate-escape, as a TLA+ string over ASCII where three           *)
(*         characters stand for CLASSES of code points (gamma picks representatives):       *)
(*           HI "#"  a byte >= 0x80 that is not valid UTF-8 (arrives as a lone surrogate):  *)
(*                   not ASCII, not white space;                                            *)
(*           NB "_"  Unicode white space arriving as valid UTF-8 (U+00A0, U+0085, U+2003,   *)
(*                   U+3000 ...): not ASCII, but removed by Python's str.strip();           *)
(*           FS "^"  ASCII control white space other than TAB CR LF (0x0B 0x0C 0x1C-0x1F):  *)
(*                   ASCII, removed by str.strip(), never a field separator.                *)
(*           PAD "@" a run of x.pad filler letters (x.pad from length classes straddling    *)
(*                   1 KiB, 4 KiB, 5 KiB, 64 KiB and beyond): for every shape it is just     *)
(*                   part of a selector / path - NO documented shape depends on the length   *)
(*                   of the line, and the code reads the whole line (ReadLine below).        *)
(*   pad   length of the PAD run (0 when the line has none)                                  *)
(*   tls   TRUE iff the connection object is an ssl.SSLSocket (base.py check_tls)           *)
(*   hdrs  the lines that follow the first line on the stream, as a sequence of KINDS:      *)
(*           "AW" Accept header listing text/vnd.wap.wml     "AO" Accept header without it  *)
(*           "AG" Accept header listing WML FIRST (or only) with no blank between the colon  *)
(*                and the value ("Accept:text/vnd.wap.wml,...", valid HTTP: RFC 1945 4.2)     *)
(*           (the spellings of AW - WML first / only / middle / last in the list, blank or   *)
(*            not after the colon, comma / comma-blank / blank separators, parameters,       *)
(*            header-name case, CRLF or LF - are chosen by gamma, per occurrence)            *)
(*           "XP" x-wap-profile header                       "XU" x-up-devcap-max-pdu header *)
(*           "NC" a non-blank line without a colon           "BL" a blank line              *)
(*         (end of sequence = end of stream)                                                *)
EXTENDS Naturals, Sequences, FiniteSets

TX == INSTANCE Text          \* shared string helpers, namespaced (TraceBase's SequencesExt also defines Contains)
ASSUME TX!Split("a\tb", "\t") = <<"a", "b">>      \* (kept bound to Text: the helpers below are single-pass re-statements)

CONSTANTS WapTop,                 \* [protocols.wap.WAPProtocol] waptop, read from conf/pygopherd.conf (binding B1)
          GluedAcceptUnrecognised,\* TRUE = the code's regular expression needs a blank or comma BEFORE the WML type (as coded)
          EmptyPlusFieldRaises    \* FALSE = repaired code (current /repo); TRUE = the snapshot's IndexError is modelled

HI == "#"
NB == "_"
FS == "^"
PAD == "@"
UD == "="      \* a Unicode decimal digit arriving as valid UTF-8 (U+0663, U+FF13 ...): not ASCII, str.isdigit() and int() accept it
US == "~"      \* the ASCII underscore itself ("_" is taken by NB): an ordinary character; int("1_0") accepts it, no documented number does
\* Python 3 str.strip() with no argument removes code points with str.isspace(): TAB LF VT FF CR
\* FS GS RS US SP, U+0085, U+00A0, U+1680, U+2000-200A, U+2028/9, U+202F, U+205F, U+3000.
WireWS == {" ", "\t", "\n", "\r", FS, NB}
NonAscii == {HI, NB, UD}
Chr(s, i) == SubSeq(s, i, i)
After(s, i) == SubSeq(s, i + 1, Len(s))                  \* text after position i
PyPrefix(s, n) == SubSeq(s, 1, IF n < Len(s) THEN n ELSE Len(s))   \* Python s[0:n] (never raises)
PySlice(s, i, j) == SubSeq(s, i + 1, IF j < Len(s) THEN j ELSE Len(s))   \* Python s[i:j], 0 <= i <= j (never raises)
\* single-pass helpers (the generic ones of Text are quadratic; these lines are evaluated millions of times)
RECURSIVE LeftEdge(_, _)
LeftEdge(s, i) == IF i <= Len(s) /\ Chr(s, i) \in WireWS THEN LeftEdge(s, i + 1) ELSE i
RECURSIVE RightEdge(_, _)
RightEdge(s, j) == IF j >= 1 /\ Chr(s, j) \in WireWS THEN RightEdge(s, j - 1) ELSE j
WStrip(s) == SubSeq(s, LeftEdge(s, 1), RightEdge(s, Len(s)))          \* str.strip()
RECURSIVE PosFrom(_, _, _)
PosFrom(s, c, i) == IF i > Len(s) THEN 0 ELSE IF Chr(s, i) = c THEN i ELSE PosFrom(s, c, i + 1)    \* first c at or after i
RECURSIVE LastPosFrom(_, _, _)
LastPosFrom(s, c, i) == IF i < 1 THEN 0 ELSE IF Chr(s, i) = c THEN i ELSE LastPosFrom(s, c, i - 1)
LastPos(s, c) == LastPosFrom(s, c, Len(s))
RECURSIVE CountFrom(_, _, _)
CountFrom(s, c, i) == LET j == PosFrom(s, c, i) IN IF j = 0 THEN 0 ELSE 1 + CountFrom(s, c, j + 1)
CountCh(s, c) == CountFrom(s, c, 1)
RECURSIVE AllIn(_, _, _)
AllIn(s, S, i) == i > Len(s) \/ (Chr(s, i) \in S /\ AllIn(s, S, i + 1))
IsAsciiLine(s) == \A i \in 1..Len(s) : Chr(s, i) \notin NonAscii
IsDigitString(s) == Len(s) > 0 /\ AllIn(s, {"0", "1", "2", "3", "4", "5", "6", "7", "8", "9"}, 1)        \* ASCII str.isdigit()
RECURSIVE SplitFrom(_, _, _)
SplitFrom(s, c, i) == LET j == PosFrom(s, c, i) IN                  \* str.split(c): at least one part
    IF j = 0 THEN <<SubSeq(s, i, Len(s))>> ELSE <<SubSeq(s, i, j - 1)>> \o SplitFrom(s, c, j + 1)
SplitCh(s, c) == SplitFrom(s, c, 1)

MapStrip(seq) == [i \in 1..Len(seq) |-> WStrip(seq[i])]
\* protocols/base.py:44  requestparts = [arg.strip() for arg in request.split("\t")]
Fields(line) == MapStrip(SplitCh(line, "\t"))
\* protocols/http.py:18  requestparts = [arg.strip() for arg in self.request.split(" ")]
SpParts(line) == MapStrip(SplitCh(line, " "))
\* protocols/base.py:60-68 slashnormalize (used by C01/C03 builders; kept here with Fields)
RECURSIVE RStripSlash(_)
RStripSlash(sel) == IF Len(sel) > 0 /\ Chr(sel, Len(sel)) = "/" THEN RStripSlash(SubSeq(sel, 1, Len(sel) - 1)) ELSE sel
SlashNormalize(sel) ==
    LET a == RStripSlash(sel)         \* selector.rstrip("/") since fix 5eb47a4 (one slash only before)
    IN IF Len(a) = 0 \/ Chr(a, 1) # "/" THEN "/" \o a ELSE a

(* ------------------------------------------------------------------------------------ *)
(* Protocols (class names of pygopherd/protocols/*.py)                                   *)
(* ------------------------------------------------------------------------------------ *)
Universe == <<"WAPProtocol", "GeminiProtocol", "HTTPProtocol", "HTTPSProtocol", "SpartanProtocol",
              "GopherPlusProtocol", "SecureGopherPlusProtocol", "GopherProtocol", "SecureGopherProtocol",
              "EnhancedGopherProtocol", "URLGopherPlus">>
Protocols == {Universe[i] : i \in 1..Len(Universe)}
\* TLS protocols, by documentation - CHANGELOG.md (v3.0.0b2, "Several protocols which take advantage of the new TLS
\* connections"): rfc1436.SecureGopherProtocol (gopher + TLS), gopherp.SecureGopherPlusProtocol (gopher plus + TLS),
\* http.HTTPSProtocol (http + TLS), gemini.GeminiProtocol; conf/pygopherd.conf: "the gemini protocol *requires* the
\* TLS section".  Everything else is a plaintext protocol.
SecureProtocols == {"GeminiProtocol", "HTTPSProtocol", "SecureGopherPlusProtocol", "SecureGopherProtocol"}
Secure(p) == p \in SecureProtocols

(* ------------------------------------------------------------------------------------ *)
(* Headers following an HTTP request line                                                *)
(* ------------------------------------------------------------------------------------ *)
\* White space in the header block is read as in the request line: ASCII blanks, the FS controls and Unicode blanks that arrive
\* as VALID UTF-8 (class NB) - they end the block as a blank line, are stripped around a line and separate Accept items.
\* Bytes >= 0x80 that are NOT valid UTF-8 (class HI: a lone 0x85, 0xA0, 0xFF ...) are ordinary non-blank characters:
\*   "HB" a line consisting only of such bytes: not blank, no colon - ignored, the block goes on
\*   "HX" a line that looks like an Accept / WAP profile header but whose NAME carries such a byte: some other header - ignored
\* and such a byte directly before the WML type does not make it a list item of its own (a spelling of "AO").
HdrKinds == {"AW", "AG", "AO", "XP", "XU", "NC", "HB", "HX", "BL"}
NoHdr == [accept |-> "none", xwap |-> FALSE, xup |-> FALSE]      \* the httpheaders dict, abstracted
\* what a header line MEANS (documentation level): AG lists WML just as AW does
PutHdr(d, k) == CASE k \in {"AW", "AG"} -> [d EXCEPT !.accept = "wml"]   \* dict assignment: the last Accept wins
                  [] k = "AO" -> [d EXCEPT !.accept = "other"]
                  [] k = "XP" -> [d EXCEPT !.xwap = TRUE]
                  [] k = "XU" -> [d EXCEPT !.xup = TRUE]
                  [] OTHER    -> d                                \* "NC", "HB", "HX": not a recognised header, ignored
\* what the code makes of it (wap.py:45 re.search("[, ]text/vnd.wap.wml", value), value = everything after the
\* colon, unstripped).  NAMED DEVIATION GluedAcceptUnrecognised: without a blank after the colon a WML type at the
\* start of the value has nothing in front of it, so the Accept header counts as one that does not list WML.
PutHdrCoded(d, k) == IF k = "AG" /\ GluedAcceptUnrecognised THEN [d EXCEPT !.accept = "other"] ELSE PutHdr(d, k)
\* what the client sent as its header block: the lines up to the first blank line / end of stream
RECURSIVE HeaderBlock(_, _, _)
HeaderBlock(hdrs, i, d) == IF i > Len(hdrs) \/ hdrs[i] = "BL" THEN d ELSE HeaderBlock(hdrs, i + 1, PutHdr(d, hdrs[i]))
RECURSIVE HeaderBlockCoded(_, _, _)
HeaderBlockCoded(hdrs, i, d) == IF i > Len(hdrs) \/ hdrs[i] = "BL" THEN d ELSE HeaderBlockCoded(hdrs, i + 1, PutHdrCoded(d, hdrs[i]))
\* "PyGopherd can autodetect WAP from some phones" (conf/pygopherd.conf [protocols.wap.WAPProtocol]); the
\* recognised browsers are those of wap.py:36-55: Accept lists the WML type (anywhere in the list, however the header
\* is spaced) and a WAP profile / UP.Browser header is present.
WapBrowser(d) == d.accept = "wml" /\ (d.xwap \/ d.xup)

(* ------------------------------------------------------------------------------------ *)
(* Documented request shapes (the property's oracle)                                     *)
(* ------------------------------------------------------------------------------------ *)
\* RFC 1945 section 5.1: Request-Line = Method SP Request-URI SP HTTP-Version CRLF, fields separated by exactly
\* one SP; Method = GET | HEAD (the two pygopherd serves, http.py handle); HTTP-Version = "HTTP/" ....
\* Pinned reading where the RFC is stricter than a server has to be ("be liberal in what you accept"): white
\* space around a field is ignored, the URI field may be empty (= root), anything may follow "HTTP/".
SpFirst(line)  == PosFrom(line, " ", 1)
SpSecond(line) == PosFrom(line, " ", SpFirst(line) + 1)
HttpMethod(line)  == WStrip(SubSeq(line, 1, SpFirst(line) - 1))
HttpPath(line)    == WStrip(SubSeq(line, SpFirst(line) + 1, SpSecond(line) - 1))
HttpVersion(line) == WStrip(After(line, SpSecond(line)))
ShapeHTTP(line) == /\ CountCh(line, " ") = 2
                   /\ HttpMethod(line) \in {"GET", "HEAD"}
                   /\ TX!StartsWith(HttpVersion(line), "HTTP/")
\* conf/pygopherd.conf: "waptop is the URL to access with WAP devices ... accessing http://sitename.com/wap will
\* bring up your site in WAP mode.  PyGopherd can autodetect WAP from some phones".  The WAP front end lives BELOW
\* the prefix: the prefix itself, a path continuing with "/", or the prefix followed by a query ("?") - a name that
\* merely begins with the same letters (/wapx, /wap.txt) is an ordinary path (wap.py: "If it is below waptop,
\* *guaranteed* to be wap"; /repo commit 7016e2c).
BelowPrefix(path, top) == path = top \/ TX!StartsWith(path, top \o "/") \/ TX!StartsWith(path, top \o "?")
ShapeWAP(line, hdrs) == ShapeHTTP(line) /\ (BelowPrefix(HttpPath(line), WapTop) \/ WapBrowser(HeaderBlock(hdrs, 1, NoHdr)))
\* Gemini specification section 2: the request is "<URL><CR><LF>", an absolute URL with scheme gemini;
\* gemini.py: "every request starting with gemini:// is meant for this server".
ShapeGemini(line) == TX!StartsWith(line, "gemini://")
\* Spartan specification (gemini://spartan.mozz.us/specification.gmi, cited by spartan.py): request line =
\* "host SP path SP content-length CRLF", ASCII; spartan.py: "Three non-empty parts, with the third part being an
\* integer >= 0".
ShapeSpartan(line) ==
    LET s == WStrip(line) IN
    /\ IsAsciiLine(line)
    /\ CountCh(s, " ") = 2
    /\ SpSecond(s) # SpFirst(s) + 1             \* no empty middle part (the ends are non-empty after strip)
    /\ IsDigitString(After(s, LastPos(s, " ")))
    /\ ~TX!StartsWith(s, "/")                    \* a host name never starts with a slash (a Gopher selector does)
    /\ ~TX!Contains(line, "\t")                  \* nor does a Spartan request line hold a TAB (a Gopher search does)
\* doc/standards/Gopher+.txt 2.3/2.5/2.6 and appendix: "selector TAB +[representation]", "selector TAB !",
\* "selector TAB $", and for searches "selector TAB words TAB +..."; gopherp.py docstring: "more than one
\* parameter in the request list; the [last] parameter is ! or starts with + or $" (at most three parameters).
\* (Gopher+.txt also allows "!" followed by block names; pygopherd documents "is !" - see notes/C02.md.)
ShapeGopherPlus(line) ==
    LET g == WStrip(After(line, LastPos(line, "\t"))) IN
    /\ CountCh(line, "\t") \in {1, 2}
    /\ (g = "!" \/ TX!StartsWith(g, "+") \/ TX!StartsWith(g, "$"))
\* RFC 1436 section 2 / appendix: "Selector_string [TAB search] CRLF", any selector; rfc1436.py: "Will handle
\* every query".
ShapeGopher(line) == TRUE

Shape(p, x) ==
    CASE p = "WAPProtocol" -> ShapeWAP(x.line, x.hdrs)
      [] p \in {"HTTPProtocol", "HTTPSProtocol"} -> ShapeHTTP(x.line)
      [] p = "GeminiProtocol" -> ShapeGemini(x.line)
      [] p = "SpartanProtocol" -> ShapeSpartan(x.line)
      [] p \in {"GopherPlusProtocol", "SecureGopherPlusProtocol", "URLGopherPlus"} -> ShapeGopherPlus(x.line)
      [] p \in {"GopherProtocol", "SecureGopherProtocol", "EnhancedGopherProtocol"} -> ShapeGopher(x.line)
Matches(p, x) == Shape(p, x) /\ (Secure(p) <=> x.tls)
\* the same with the header block read as the code reads it (differs from Matches only under GluedAcceptUnrecognised;
\* used to keep the model-side weakening for that recorded deviation exact)
MatchesCoded(p, x) == IF p = "WAPProtocol"
                      THEN ShapeHTTP(x.line) /\ ~x.tls /\ (BelowPrefix(HttpPath(x.line), WapTop) \/ WapBrowser(HeaderBlockCoded(x.hdrs, 1, NoHdr)))
                      ELSE Matches(p, x)
\* "the line is claimed by the first protocol in the configured order whose documented request shape it matches"
FirstMatch(list, x) ==
    LET ms == {i \in 1..Len(list) : Matches(list[i], x)}
    IN IF ms = {} THEN "None" ELSE list[CHOOSE i \in ms : \A j \in ms : i <= j]

(* ------------------------------------------------------------------------------------ *)
(* Transcription of the code: connection state and canhandlerequest()                    *)
(* ------------------------------------------------------------------------------------ *)
\* What every protocol object computes from the request in its constructor / test, computed ONCE per case
\* (TLC does not memoise): base.py:44 requestlist, http.py:18 requestparts, spartan.py:31 parts, :26 encode.
\* server.py:121  request = self.rfile.readline().decode(errors="surrogateescape"): readline() WITHOUT a size
\* argument returns the whole first line whatever its length (x.pad), terminator included; nothing is cut,
\* stripped or re-encoded before protocol selection.
ReadLine(x) == x.line
Parse(x) == [line |-> ReadLine(x), tls |-> x.tls, hdrs |-> x.hdrs,
             f     |-> Fields(ReadLine(x)),                  \* self.requestlist
             sp    |-> SpParts(ReadLine(x)),                 \* HTTPProtocol.requestparts
             parts |-> SplitCh(WStrip(ReadLine(x)), " "),    \* Spartan: request.strip().split(" ")
             ascii |-> IsAsciiLine(ReadLine(x))]
\* connection state touched by detection: pos = lines of hdrs already read from rfile; cached = the request
\* handler has pygopherd_http_slurped (http.py:26); hdr = its value
FreshConn == [pos |-> 0, cached |-> FALSE, hdr |-> NoHdr]
RECURSIVE SlurpFrom(_, _, _)
\* http.py:31-41: read lines until end of stream or a blank line (which is consumed)
SlurpFrom(hdrs, i, d) == IF i > Len(hdrs) THEN [hdr |-> d, pos |-> Len(hdrs)]
                         ELSE IF hdrs[i] = "BL" THEN [hdr |-> d, pos |-> i]
                         ELSE SlurpFrom(hdrs, i + 1, PutHdrCoded(d, hdrs[i]))
HeaderSlurp(hdrs, conn) ==
    IF conn.cached THEN conn                                       \* "Already slurped."
    ELSE LET s == SlurpFrom(hdrs, conn.pos + 1, NoHdr) IN [pos |-> s.pos, cached |-> TRUE, hdr |-> s.hdr]

Res(r, conn) == [r |-> r, conn |-> conn]          \* r \in {"yes", "no", "crash"}
YesNo(b) == IF b THEN "yes" ELSE "no"

\* http.py:14-23
HttpTest(px) == Len(px.sp) = 3 /\ (px.sp[1] = "GET" \/ px.sp[1] = "HEAD") /\ PyPrefix(px.sp[3], 5) = "HTTP/"
ClaimsHTTP(secure, px) == IF secure # px.tls THEN "no" ELSE YesNo(HttpTest(px))
\* wap.py:23-57 (a subclass of HTTPProtocol with secure = False)
ClaimsWAP(px, conn) ==
    IF ClaimsHTTP(FALSE, px) # "yes" THEN Res("no", conn)
    ELSE IF /\ PyPrefix(px.sp[2], Len(WapTop)) = WapTop                        \* path.startswith(waptop) and
            /\ PySlice(px.sp[2], Len(WapTop), Len(WapTop) + 1) \in {"", "/", "?"} \* path[len(waptop):len(waptop)+1] in ("", "/", "?")
         THEN Res("yes", conn)
    ELSE LET c == HeaderSlurp(px.hdrs, conn) IN
         IF c.hdr.accept = "none" THEN Res("no", c)
         ELSE IF c.hdr.accept # "wml" THEN Res("no", c)             \* re.search("[, ]text/vnd.wap.wml", ...)
         ELSE Res(YesNo(c.hdr.xwap \/ c.hdr.xup), c)
\* gemini.py:19-23
ClaimsGemini(px) == YesNo(px.tls /\ PyPrefix(px.line, 9) = "gemini://")
\* spartan.py:20-32
ClaimsSpartan(px) ==
    IF px.tls THEN "no"
    ELSE IF ~px.ascii THEN "no"                                     \* request.encode("ascii") raises
    ELSE YesNo(Len(px.parts) = 3 /\ (\A i \in 1..3 : px.parts[i] # "") /\ IsDigitString(px.parts[3])
               /\ ~TX!StartsWith(px.parts[1], "/")                 \* not parts[0].startswith("/")  [c3ed498]
               /\ ~TX!Contains(px.line, "\t"))                    \* "\t" not in self.request  [7876341]
\* gopherp.py:15-36.  NAMED DEVIATION EmptyPlusFieldRaises (switched OFF since /repo commit 6a019e8): the pinned
\* snapshot evaluated gopherpstring[0] on an empty string (request "sel<TAB><CR><LF>") and raised IndexError; the
\* repaired code (startswith) answers "no".  The switch is kept so that the defect can be modelled again if it is
\* ever recorded as a known finding instead (harness/c02.py sets it from the findings list; default FALSE).
ClaimsGopherPlus(secure, px) ==
    IF secure # px.tls THEN "no"
    ELSE IF Len(px.f) < 2 THEN "no"
    ELSE IF Len(px.f) > 3 THEN "no"                                 \* "Too many params."
    ELSE LET g == px.f[Len(px.f)] IN
         IF g = "" THEN (IF EmptyPlusFieldRaises THEN "crash" ELSE "no")
         ELSE YesNo(Chr(g, 1) = "+" \/ g = "!" \/ Chr(g, 1) = "$")
\* rfc1436.py:7-13
ClaimsGopher(secure, px) == YesNo(secure = px.tls)

Claims(p, px, conn) ==
    CASE p = "WAPProtocol" -> ClaimsWAP(px, conn)
      [] p = "HTTPProtocol" -> Res(ClaimsHTTP(FALSE, px), conn)
      [] p = "HTTPSProtocol" -> Res(ClaimsHTTP(TRUE, px), conn)
      [] p = "GeminiProtocol" -> Res(ClaimsGemini(px), conn)
      [] p = "SpartanProtocol" -> Res(ClaimsSpartan(px), conn)
      [] p \in {"GopherPlusProtocol", "URLGopherPlus"} -> Res(ClaimsGopherPlus(FALSE, px), conn)
      [] p = "SecureGopherPlusProtocol" -> Res(ClaimsGopherPlus(TRUE, px), conn)
      [] p \in {"GopherProtocol", "EnhancedGopherProtocol"} -> Res(ClaimsGopher(FALSE, px), conn)
      [] p = "SecureGopherProtocol" -> Res(ClaimsGopher(TRUE, px), conn)

\* ProtocolMultiplexer.py:8-15: the first protocol whose test accepts wins; falling off the loop returns None;
\* an exception raised by a test propagates out of getProtocol (and out of GopherRequestHandler.handle).
RECURSIVE DetectFrom(_, _, _, _)
DetectFrom(list, i, px, conn) ==
    IF i > Len(list) THEN [p |-> "None", conn |-> conn]
    ELSE LET c == Claims(list[i], px, conn) IN
         IF c.r = "crash" THEN [p |-> "crash", conn |-> c.conn]
         ELSE IF c.r = "yes" THEN [p |-> list[i], conn |-> c.conn]
         ELSE DetectFrom(list, i + 1, px, c.conn)
Detect(list, px) == DetectFrom(list, 1, px, FreshConn)

(* ------------------------------------------------------------------------------------ *)
(* The property, clause by clause (operators over one case; used by MC_C02_lines and     *)
(* TraceC02).  m is the table [p |-> Matches(p, x)] computed once per case.              *)
(* ------------------------------------------------------------------------------------ *)
IsProtocol(r) == r \in Protocols
MatchTable(S, x) == [p \in S |-> Matches(p, x)]
MatchTableCoded(S, x) == [p \in S |-> MatchesCoded(p, x)]
RECURSIVE FirstTrue(_, _, _)
FirstTrue(list, i, m) == IF i > Len(list) THEN "None" ELSE IF m[list[i]] THEN list[i] ELSE FirstTrue(list, i + 1, m)
\* every protocol's test accepts exactly its documented shape on connections of its own kind, and never crashes
ClaimsMatchShapeAt(p, m, r) == r = YesNo(m[p])
\* with the shipped list every line is claimed by some protocol
TotalAt(got) == IsProtocol(got)
\* plaintext protocols never answer TLS connections and TLS protocols never answer plaintext ones
TlsStrictAt(tls, got) == IsProtocol(got) => (Secure(got) <=> tls)
\* the answer is the first protocol in the configured order whose documented shape matches (= FirstMatch(list, x))
OrderedAt(list, m, got) == got = FirstTrue(list, 1, m)
\* ... and, judged on the tests' own answers r[p] (implementation against itself): first claimant in list order
RECURSIVE FirstClaimant(_, _, _)
FirstClaimant(list, i, r) == IF i > Len(list) THEN "None"
                             ELSE IF r[list[i]] = "crash" THEN "crash"
                             ELSE IF r[list[i]] = "yes" THEN list[i]
                             ELSE FirstClaimant(list, i + 1, r)
\* detection depends on the line, the TLS-ness and the client's headers only - not on what earlier tests on the
\* same connection did to the read position / header cache
DirtyConns(S, px) == {FreshConn} \cup {Claims(p, px, FreshConn).conn : p \in S}
DeterministicAt(list, px, dirty, fresh) == \A c \in dirty : DetectFrom(list, 1, px, c).p = fresh
=============================================================================
