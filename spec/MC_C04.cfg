SPECIFICATION Spec
CONSTANTS
  B = 3
  Schedules = "full"
  Kinds = {"x", "bin", "text", "edge"}
  Fams = {"G", "Gs", "GP", "GPs", "H", "Hs", "W", "GEM", "SP"}
  Lists = {"default", "full", "altenc"}
  DecSizeStored = FALSE
  LineCap = "none"
  LongOn = TRUE
  HistOn = TRUE
  Known = {}
INVARIANT Loop
INVARIANT BodyExact
INVARIANT LenTruthful
INVARIANT HeadIsGetHeaders
INVARIANT TypeTruthful
INVARIANT Delivered
INVARIANT HistoryFree
CHECK_DEADLOCK FALSE
