------------------------------- MODULE MC_C06 -------------------------------
(* Bounded model for C06.  Two families of cases, both enumerated by TLC and both replayed  *)
(* on the real server (binding B2: the dump of this model supplies the link entries that    *)
(* are written into a .Links file and the search strings that are typed):                   *)
(*   "entry"   one directory entry e (local names over the byte-class alphabet, host/port   *)
(*             variants incl. Host=+ with a Port, foreign host, URL: selectors) rendered    *)
(*             for protocol view p and for plain Gopher: Canon of both renderings agree     *)
(*             (EntriesAgree; no deviation is tolerated any more)                           *)
(*   "search"  a search string s typed into a search item (selector with reserved           *)
(*             characters or Virtual "?args") through p's own mechanism                     *)
(*             reaches the handler as s (SearchesArrive), except for PlusFlagAmbiguity      *)
(*   "tree"    a content tree c (the kinds of MC_C05 over LocalNames): every entry of every  *)
(*             listing of the tree agrees between p and plain Gopher (TreesAgree); these    *)
(*             are the trees whose directories are fetched through all protocol views       *)
(* ServerPort is a constant: the harness runs the model once per advertised port.           *)
EXTENDS Views, LinksConst

CONSTANTS
    LocalNames,     \* names (strings) of local entries: selector "/" \o name
    RemoteSels,     \* selectors of entries that carry a host and/or port
    Hosts,          \* "" = not set (Host=+), else a host name
    Ports,          \* 0 = not set, else a port number
    UrlSels,        \* URL: selectors
    SearchTokens, MaxSearch,    \* search strings: up to MaxSearch tokens ...
    SearchShapes,   \* ... plus whole strings: multi-word strings with digits-only words and other strings that give the
                    \* plain Gopher line the look of another protocol's request grammar; long strings (block classes)
    DeepNames6,     \* names of the deep tree kind (selector-length dimension)
    SearchSels,     \* selectors of search items (type 7): reserved characters, Virtual "?args"; a selector WITHOUT a
                    \* leading slash is one authored in a link file with this server's own host and port (only then the
                    \* slash is not added): a local item for the Gopher family, a gopher:// URL for the URL views
    Views6,
    Kinds6, Inner6, HLs6        \* content trees: subject kind x LocalNames, inner names, handler lists

VARIABLES mode, e, s, c, hl, p, res
vars == <<mode, e, s, c, hl, p, res>>

E(type, sel, host, port) == [type |-> type, name |-> "x", sel |-> sel, host |-> host, port |-> port]
Types == {"0", "1", "7"}
Entries ==
    {E(ty, "/" \o n, "", 0) : ty \in Types, n \in LocalNames}
    \cup {E("1", x, "", 0) : x \in {"", "/"}}
    \cup {x \in {E(ty, y, h, q) : ty \in Types, y \in RemoteSels, h \in Hosts, q \in Ports} : ~(x.host = "" /\ x.port = 0)}
    \cup {E("h", u, "", 0) : u \in UrlSels}
    \cup {E("i", "fake", "(NULL)", 0)}
Searches == {x \in StringsUpTo(SearchTokens, MaxSearch) \cup SearchShapes : SearchInScope(x)}
Dummy == E("i", "fake", "(NULL)", 0)

SearchItem(x) == IF StartsWith(x, "/") THEN E("7", x, "", 0) ELSE E("7", x, ServerName, ServerPort)
NoCase == [k |-> "file", n |-> "a", ik |-> "none", m |-> "in"]
Cases6 == {[k |-> k, n |-> n, ik |-> "none", m |-> "in"] : k \in Kinds6 \cap {"file", "mbox", "maildir"}, n \in LocalNames}
          \cup {x \in {[k |-> k, n |-> n, ik |-> ik, m |-> m] : k \in Kinds6 \cap {"dir", "zip", "mapdir"}, n \in {"a", "a b", "^"},
                                                              ik \in {"file", "dir"}, m \in Inner6}
                  : x.k = "mapdir" => Strip(x.m) = x.m}
          \cup {[k |-> "dir", n |-> n, ik |-> "file", m |-> "in"] : n \in LocalNames}
          \cup {[k |-> "deep", n |-> n, ik |-> "none", m |-> "in"] : n \in DeepNames6}
TreeVerdict(pp, cc, hh) ==
    LET bad == {x \in UNION {Listing(cc, d, hh) : d \in {y \in Dirs(cc, hh) : ~ListingFails(cc, y, hh)}} : ~EntryAgrees(pp, x)}
    IN IF bad = {} THEN "ok" ELSE "TreeDiffers"

Init == /\ p \in Views6 /\ res = "new"
        /\ \/ mode = "entry" /\ e \in Entries /\ s = "" /\ c = NoCase /\ hl = "default"
           \/ mode = "search" /\ e \in {SearchItem(x) : x \in SearchSels} /\ s \in Searches /\ c = NoCase /\ hl = "default"
           \/ mode = "tree" /\ e = Dummy /\ s = "" /\ c \in Cases6 /\ hl \in HLs6
Compute ==
    /\ res = "new"
    /\ res' = IF mode = "tree" THEN TreeVerdict(p, c, hl)
              ELSE IF mode = "entry"
              THEN (IF EntryAgrees(p, e) THEN "ok" ELSE "EntryDiffers")
              ELSE (IF ~IsLocal(p, Target(p, e)) THEN "ok"               \* no search form for p: nothing to type into
                    ELSE IF SearchReaches(p, Target(p, e), RootRef(p), s) = s THEN "ok"
                    ELSE IF PlusFlagAmbiguity(p, s) THEN "PlusFlagAmbiguity"
                    ELSE IF SearchCapturedBy(p, Target(p, e), RootRef(p), s) # "none"
                         THEN "SearchCapturedBy_" \o SearchCapturedBy(p, Target(p, e), RootRef(p), s)
                    ELSE "SearchDiffers")
    /\ UNCHANGED <<mode, e, s, c, hl, p>>
Spec == Init /\ [][Compute]_vars

EntriesAgree == res # "EntryDiffers"
SearchesArrive == res # "SearchDiffers"
TreesAgree == res # "TreeDiffers"
\* expected to be violated while the findings are open (witnesses that the deviations are reachable)
NoNamedDeviation == res \notin {"PlusFlagAmbiguity"}
\* no search request is claimed by another protocol class (the Gopher+ flag ambiguity aside, which is named separately);
\* the Spartan shape is repaired for good by c3ed498 (leading slash) and 7876341 (a Spartan line holds no TAB)
OnlyKnownCaptures == ~StartsWith(res, "SearchCapturedBy_")
=============================================================================
