-------------------------------- MODULE UMN --------------------------------
(* UMN-style link files, .cap overrides, sidecar abstracts and the UMN menu order (C08).     *)
(*                                                                                          *)
(* Two readings of the same directory `dir` (a record: selector, files present, extstrip    *)
(* mode, the lines of one link file, the lines of one .cap file, sidecar abstracts):        *)
(*                                                                                          *)
(*   ImplListing(dir)  pygopherd/handlers/UMN.py transcribed AS CODED (getLinkItem as a     *)
(*                     step function over the stripped lines of a block, processLinkFile,   *)
(*                     prep_entriesappend (.cap), MergeLinkFiles with object identity,      *)
(*                     mergeentries, entrycmp + stable sort, rfc1436 rendering).  Where the *)
(*                     code deviates from the manual the deviation is a NAMED quirk that is *)
(*                     in force iff its name is in the constant Quirks (so that a fix: in   *)
(*                     the tree is followed by deleting one name).                          *)
(*   RefListing(dir)   the reading of doc/pygopherd.txt pinned in DESIGN.md Appendix E.1.   *)
(*                     Where E.1 is silent the field is a wildcard ([s |-> FALSE]).         *)
(*                                                                                          *)
(* A link file is a sequence of TEXT LINES (TLA+ strings), exactly the lines written to     *)
(* disk by the harness; "" is a blank line.  Both readings parse the text.                  *)
EXTENDS Naturals, Integers, Sequences, FiniteSets, Text

CONSTANT Quirks
\* the coded deviations this module knows (each is an IF in the transcription below)
AllQuirks == {"DashOnlyInCap",      \* MergeLinkFiles hides on Type=X only; prep_entriesappend on X or -
              "CommentEndsBlock",   \* a # line after Path= (always, in a .cap file) ends the block
              "NumAlwaysMerged",    \* LinkEntry.num starts as 0, not None: every merge overwrites Numb
              "DoubleHideCrash"}    \* list.remove of an entry already removed raises ValueError

(* ------------------------------ optional values ------------------------------ *)
NoS == [s |-> FALSE, v |-> ""]
SomeS(x) == [s |-> TRUE, v |-> x]
NoI == [s |-> FALSE, v |-> 0]
SomeI(n) == [s |-> TRUE, v |-> n]
NoA == [s |-> FALSE, v |-> <<>>]
SomeA(q) == [s |-> TRUE, v |-> q]

Range(q) == {q[i] : i \in 1..Len(q)}
Base(dir) == IF dir.sel = "/" THEN "" ELSE dir.sel          \* selectorbase ("avoid dup slashes")

(* ------------------- the file universe: generated ("default") values ------------------- *)
\* What DirHandler/GopherEntry.populatefromfs generate for the names the models use, with
\* the shipped mime.types / mapping / encoding tables (no decompressors configured).
FileInfo(f) ==
    CASE f = "a.txt"    -> [kind |-> "file", type |-> "0", base |-> "a", enc |-> FALSE]
      [] f = "b"        -> [kind |-> "dir",  type |-> "1", base |-> "b", enc |-> FALSE]
      [] f = "c.txt.gz" -> [kind |-> "file", type |-> "9", base |-> "c", enc |-> TRUE]
      [] f = "m.txt"    -> [kind |-> "file", type |-> "0", base |-> "m", enc |-> FALSE]
      [] OTHER          -> [kind |-> "file", type |-> "0", base |-> f,   enc |-> FALSE]

\* [handlers.UMN.UMNDirHandler] extstrip, applied to FileHandler entries only
DisplayName(f, mode) ==
    LET fi == FileInfo(f) IN
    IF fi.kind # "file" \/ mode = "none" THEN f
    ELSE IF mode = "full" \/ ~fi.enc THEN fi.base
    ELSE f

(* --------------------------- side-car files and their probes --------------------------- *)
\* GopherEntry.handleeaext opens  <file><ext>  (for a directory  <dir>/<ext>)  for every extension of
\* [GopherEntry] eaexts; only ".abstract" shows in a menu.  dir.side lists what is THERE:
\*   [f, ext, kind, text]   f = a listed name, or "." for the directory being listed itself
\*   kind "text"  a regular, readable side-car file with the lines `text`
\*        "dir"   a DIRECTORY of that name (open() fails with EISDIR)
\*        an errno name ("EACCES", "EIO", "EISDIR", "ENAMETOOLONG", ...): a regular file whose open() fails so
\* A probe can also fail without any record: the name of a file plus the extension is longer than
\* NAME_MAX (ENAMETOOLONG).  Outcomes: "found" | "absent" (ENOENT) | "fails" (any other error).
EaExts == {".abstract", ".keywords", ".ask", ".3d"}
NameMax == 255
SideOf(dir, f, ext) == {x \in Range(dir.side) : x.f = f /\ x.ext = ext}
Probe(dir, f, ext) ==
    IF SideOf(dir, f, ext) # {}
    THEN (IF \A x \in SideOf(dir, f, ext) : x.kind = "text" THEN "found" ELSE "fails")
    ELSE IF FileInfo(f).kind = "file" /\ Len(f) + Len(ext) > NameMax THEN "fails"
    ELSE "absent"
FailingProbes(dir, f) == {ext \in EaExts : Probe(dir, f, ext) = "fails"}
HasSide(dir, f) == Probe(dir, f, ".abstract") = "found"
SideLines(dir, f) == (CHOOSE x \in SideOf(dir, f, ".abstract") : TRUE).text
\* the manual does not say what an existing but unreadable side-car means for the abstract
AbstractUnreadable(dir, f) == \E x \in SideOf(dir, f, ".abstract") : x.kind \notin {"text", "dir"}

(* ======================================================================================= *)
(*                            I M P L E M E N T A T I O N                                  *)
(* ======================================================================================= *)
\* LinkEntry.__init__ / GopherEntry.__init__
NewEntry(sel) ==
    [sel |-> sel, type |-> NoS, name |-> NoS, host |-> NoS, port |-> NoS,
     num |-> IF "NumAlwaysMerged" \in Quirks THEN SomeI(0) ELSE NoI,
     abs |-> NoS, merge |-> FALSE, abspath |-> FALSE]

\* state of one getLinkItem call: the entry being filled, done["path"], the index of the next line
\* to read, and where the loop stands ("run"; "break" = left the loop; "stop" = end of file;
\* "crash" = an exception escaped)
NewItem(dir, capsel, i) ==
    [e |-> NewEntry(IF capsel.s THEN capsel.v ELSE dir.sel), done |-> capsel.s,
     status |-> "run", pos |-> i, base |-> Base(dir)]

\* the while-loop of the Abstract= branch; pos = index of the next unread line
RECURSIVE AbsRun(_, _, _, _)
AbsRun(lines, pos, cur, acc) ==
    IF Len(cur) > 0 /\ Last1(cur) = "\\"
    THEN AbsRun(lines, pos + 1, IF pos <= Len(lines) THEN Strip(lines[pos]) ELSE "", acc \o DropLast(cur) \o "\n")
    ELSE [text |-> acc \o cur, pos |-> pos]

\* ONE iteration of the `while 1:` loop of getLinkItem: reads line st.pos (the Abstract= branch reads
\* its continuation lines too).  This is the transition relation of the block parser; MC_C08_block
\* explores it step by step, GLI below runs it to the end of the block.
GLIStep(lines, st) ==
    LET i == st.pos
        next == [st EXCEPT !.pos = i + 1]
    IN
    IF i > Len(lines) THEN [st EXCEPT !.status = "stop"]                       \* readline() = "" at EOF
    ELSE LET line == Strip(lines[i]) IN
    IF Len(line) = 0 THEN [next EXCEPT !.status = "break"]                     \* empty: break
    ELSE IF Ch(line, 1) = "#"
    THEN (IF st.done /\ "CommentEndsBlock" \in Quirks THEN [next EXCEPT !.status = "break"] ELSE next)
    ELSE IF StartsWith(line, "Type=")
    THEN (IF Len(line) < 6 THEN [next EXCEPT !.status = "crash"]              \* line[5]: IndexError
          ELSE [next EXCEPT !.e.type = SomeS(Ch(line, 6))])
    ELSE IF StartsWith(line, "Name=")
    THEN [next EXCEPT !.e.name = SomeS(From(line, 6))]
    ELSE IF StartsWith(line, "Path=")
    THEN (LET raw == From(line, 6)
              pathname == IF Len(raw) > 0 /\ Last1(raw) = "/" THEN DropLast(raw) ELSE raw
          IN IF Len(line) >= 7 /\ SubSeq(line, 6, 7) \in {"./", "~/"}
             THEN [next EXCEPT !.e.sel = st.base \o "/" \o From(pathname, 3), !.e.merge = TRUE, !.done = TRUE]
             ELSE IF Len(pathname) > 0 /\ Ch(pathname, 1) # "/" /\ ~StartsWith(pathname, "URL:")
             THEN [next EXCEPT !.e.sel = pathname, !.e.abspath = TRUE, !.done = TRUE]
             ELSE [next EXCEPT !.e.sel = pathname, !.done = TRUE])
    ELSE IF StartsWith(line, "Host=")
    THEN (IF From(line, 6) # "+" THEN [next EXCEPT !.e.host = SomeS(From(line, 6))] ELSE next)
    ELSE IF StartsWith(line, "Port=")
    THEN (IF From(line, 6) = "+" THEN next
          ELSE IF ~IsInt(From(line, 6)) THEN [next EXCEPT !.status = "crash"]  \* int(): ValueError
          ELSE [next EXCEPT !.e.port = SomeS(From(line, 6))])
    ELSE IF StartsWith(line, "Numb=")
    THEN (IF IsInt(From(line, 6)) THEN [next EXCEPT !.e.num = SomeI(ParseInt(From(line, 6)))] ELSE next)
    ELSE IF StartsWith(line, "Abstract=")
    THEN (LET r == AbsRun(lines, i + 1, From(line, 10), "") IN
          IF r.text # "" THEN [st EXCEPT !.pos = r.pos, !.e.abs = SomeS(r.text)] ELSE [st EXCEPT !.pos = r.pos])
    ELSE IF StartsWith(line, "Admin=") \/ StartsWith(line, "URL=") \/ StartsWith(line, "TTL=")
    THEN next
    ELSE [next EXCEPT !.status = "break"]                                      \* anything else: break

\* getLinkItem: iterate to the end of the block
RECURSIVE GLI(_, _)
GLI(lines, st) == IF st.status = "run" THEN GLI(lines, GLIStep(lines, st)) ELSE st

\* the tail of getLinkItem: relative paths without host and port are made absolute
Finished(st) ==
    IF st.e.abspath /\ ~st.e.host.s /\ ~st.e.port.s
    THEN [st.e EXCEPT !.sel = NormAbs(st.base \o "/" \o st.e.sel)]
    ELSE st.e

\* processLinkFile: getLinkItem until "stop"
RECURSIVE PLF(_, _, _, _, _)
PLF(dir, lines, i, capsel, acc) ==
    LET r == GLI(lines, NewItem(dir, capsel, i))
        acc2 == IF r.done /\ r.status # "crash" THEN Append(acc, Finished(r)) ELSE acc
    IN IF r.status = "crash" THEN [crash |-> TRUE, es |-> acc2]
       ELSE IF r.status = "stop" THEN [crash |-> FALSE, es |-> acc2]
       ELSE PLF(dir, lines, r.pos, capsel, acc2)

LinkEntries(dir) == IF dir.lf.has THEN PLF(dir, dir.lf.lines, 1, NoS, <<>>) ELSE [crash |-> FALSE, es |-> <<>>]

\* mergeentries(old, new)
Merge(old, new) ==
    [old EXCEPT !.sel = new.sel,
                !.type = IF new.type.s THEN new.type ELSE @,
                !.name = IF new.name.s THEN new.name ELSE @,
                !.host = IF new.host.s THEN new.host ELSE @,
                !.port = IF new.port.s THEN new.port ELSE @,
                !.num  = IF new.num.s  THEN new.num  ELSE @,
                !.abs  = IF new.abs.s  THEN new.abs  ELSE @]

\* what the handler chain generates for file f, with the name set by prep_entriesappend (extstrip)
GenEntry(dir, f) ==
    [NewEntry(Base(dir) \o "/" \o f) EXCEPT
        !.type = SomeS(FileInfo(f).type), !.name = SomeS(DisplayName(f, dir.mode)), !.num = SomeI(0),
        \* handleeaext: `except IOError: pass` - a probe that finds nothing OR FAILS (FailingProbes) leaves the
        \* attribute unset; it never costs the entry (prep_entries would drop a child whose getentry() raises)
        !.abs = IF HasSide(dir, f) THEN SomeS(Join(SideLines(dir, f), "\n")) ELSE NoS]

\* prep_entries + prep_entriesappend over the sorted names: list of entries (hidden ones skipped)
RECURSIVE PrepEntries(_, _, _)
PrepEntries(dir, k, acc) ==
    IF k > Len(dir.files) THEN [crash |-> FALSE, es |-> acc]
    ELSE LET f == dir.files[k]
             g == GenEntry(dir, f)
         IN IF dir.cap.has /\ dir.cap.f = f
            THEN (LET ci == PLF(dir, dir.cap.lines, 1, SomeS(g.sel), <<>>) IN
                  IF ci.crash THEN [crash |-> TRUE, es |-> acc]
                  ELSE IF Len(ci.es) >= 1
                  THEN (IF ci.es[1].type.s /\ ci.es[1].type.v \in {"X", "-"}
                        THEN PrepEntries(dir, k + 1, acc)
                        ELSE PrepEntries(dir, k + 1, Append(acc, Merge(g, ci.es[1]))))
                  ELSE PrepEntries(dir, k + 1, Append(acc, g)))
            ELSE PrepEntries(dir, k + 1, Append(acc, g))

HideTypes == IF "DashOnlyInCap" \in Quirks THEN {"X"} ELSE {"X", "-"}

\* MergeLinkFiles.  objs: all entry objects (the first n0 are the directory's own, the dictionary
\* maps their selectors to them and is never updated); order: ids in self.fileentries.
RECURSIVE MLF(_, _, _, _, _)
MLF(links, k, objs, order, n0) ==
    IF k > Len(links) THEN [crash |-> FALSE, objs |-> objs, order |-> order]
    ELSE LET le == links[k]
             dictids == {i \in 1..n0 : objs[i].sel = le.sel}    \* fileentriesdict[le.selector] (merges keep selectors)
         IN IF ~le.merge
            THEN MLF(links, k + 1, Append(objs, le), Append(order, Len(objs) + 1), n0)
            ELSE IF dictids # {}
            THEN (LET id == CHOOSE i \in dictids : \A j \in dictids : j <= i IN      \* later entries overwrite the key
                  IF le.type.s /\ le.type.v \in HideTypes
                  THEN (IF id \in Range(order)
                        THEN MLF(links, k + 1, objs, SelectSeq(order, LAMBDA x : x # id), n0)
                        ELSE IF "DoubleHideCrash" \in Quirks THEN [crash |-> TRUE, objs |-> objs, order |-> order]
                        ELSE MLF(links, k + 1, objs, order, n0))
                  ELSE MLF(links, k + 1, [objs EXCEPT ![id] = Merge(@, le)], order, n0))
            ELSE MLF(links, k + 1, Append(objs, le), Append(order, Len(objs) + 1), n0)

\* entrycmp
NumOf(e) == IF e.num.s THEN e.num.v ELSE 0
Sgn(a) == IF a = 0 THEN 0 ELSE IF a < 0 THEN 0 - 1 ELSE 1
EntryCmp(e1, e2) ==
    IF ~e1.name.s THEN 1
    ELSE IF ~e2.name.s THEN 0 - 1
    ELSE LET a == NumOf(e1)  b == NumOf(e2) IN
         IF a = b THEN StrCmp(e1.name.v, e2.name.v)
         ELSE IF Sgn(a) = Sgn(b) THEN (IF a < b THEN 0 - 1 ELSE 1)
         ELSE IF a > b THEN 0 - 1 ELSE 1

\* UMN menu order of the manual (used by the reference reading below): positive numbers ascending,
\* then unnumbered by title, then negative ascending
Group(n) == IF n > 0 THEN 1 ELSE IF n = 0 THEN 2 ELSE 3
RefCmp(r1, r2) ==
    IF Group(r1.num) # Group(r2.num) THEN (IF Group(r1.num) < Group(r2.num) THEN 0 - 1 ELSE 1)
    ELSE IF r1.num # r2.num THEN (IF r1.num < r2.num THEN 0 - 1 ELSE 1)
    ELSE StrCmp(r1.name, r2.name)
CmpBy(which, x, y) == IF which = "impl" THEN EntryCmp(x, y) ELSE RefCmp(x, y)

\* list.sort(key=cmp_to_key(cmp)): stable; insertion after the last element that is not greater
RECURSIVE InsertBy(_, _, _)
InsertBy(sorted, x, which) ==
    IF Len(sorted) = 0 THEN <<x>>
    ELSE IF CmpBy(which, sorted[Len(sorted)], x) <= 0 THEN Append(sorted, x)
    ELSE Append(InsertBy(SubSeq(sorted, 1, Len(sorted) - 1), x, which), sorted[Len(sorted)])
RECURSIVE SortBy(_, _, _)
SortBy(q, acc, which) == IF Len(q) = 0 THEN acc ELSE SortBy(Tail(q), InsertBy(acc, q[1], which), which)

\* str.splitlines() of an abstract
AbsLines(s) == LET p == Split(s, "\n") IN IF s = "" THEN <<>> ELSE IF p[Len(p)] = "" THEN SubSeq(p, 1, Len(p) - 1) ELSE p

\* rfc1436.renderobjinfo + renderabstract (abstract_entries = always); an entry whose name is None is shown
\* under its selector (fix b667ec7; before: TypeError, the menu stopped there)
Rendered(dir, e) ==
    [type |-> IF e.type.s THEN e.type.v ELSE "0", name |-> IF e.name.s THEN e.name.v ELSE e.sel, sel |-> e.sel,
     host |-> IF e.host.s THEN e.host.v ELSE dir.srv.host,
     port |-> IF e.port.s THEN e.port.v ELSE dir.srv.port,
     abs  |-> IF e.abs.s THEN AbsLines(e.abs.v) ELSE <<>>]
RECURSIVE RenderAll(_, _, _)
RenderAll(dir, es, acc) ==
    IF Len(es) = 0 THEN [ok |-> TRUE, out |-> acc]
    ELSE RenderAll(dir, Tail(es), Append(acc, Rendered(dir, es[1])))

\* UMNDirHandler.prepare + writedir
ImplListing(dir) ==
    LET le == LinkEntries(dir) IN                      \* link files are read during prep_initfiles
    IF le.crash THEN [ok |-> FALSE, out |-> <<>>]
    ELSE LET pe == PrepEntries(dir, 1, <<>>) IN
    IF pe.crash THEN [ok |-> FALSE, out |-> <<>>]
    ELSE LET m == MLF(le.es, 1, pe.es, [i \in 1..Len(pe.es) |-> i], Len(pe.es)) IN
    IF m.crash THEN [ok |-> FALSE, out |-> <<>>]
    ELSE RenderAll(dir, SortBy([i \in 1..Len(m.order) |-> m.objs[m.order[i]]], <<>>, "impl"), <<>>)

(* ======================================================================================= *)
(*                    R E F E R E N C E   (DESIGN.md Appendix E.1)                          *)
(* ======================================================================================= *)
EmptyBlock == [name |-> NoS, type |-> NoS, path |-> NoS, host |-> NoS, port |-> NoS, numb |-> NoI, abs |-> NoA,
               any |-> FALSE]

\* an Abstract= value whose last character is a backslash continues on the next line
RECURSIVE RefAbs(_, _, _, _)
RefAbs(lines, pos, cur, acc) ==
    IF Len(cur) > 0 /\ Last1(cur) = "\\" /\ pos <= Len(lines)
    THEN RefAbs(lines, pos + 1, Strip(lines[pos]), Append(acc, DropLast(cur)))
    ELSE [v |-> Append(acc, IF Len(cur) > 0 /\ Last1(cur) = "\\" THEN DropLast(cur) ELSE cur), pos |-> pos]

\* blocks = maximal runs of field lines; blank lines separate; # lines are comments; unknown fields ignored
RECURSIVE RefScan(_, _, _, _)
RefScan(lines, i, cur, blocks) ==
    LET close == IF cur.any THEN Append(blocks, cur) ELSE blocks IN
    IF i > Len(lines) THEN close
    ELSE LET line == Strip(lines[i]) IN
    IF line = "" THEN RefScan(lines, i + 1, EmptyBlock, close)
    ELSE IF Ch(line, 1) = "#" THEN RefScan(lines, i + 1, cur, blocks)
    ELSE IF StartsWith(line, "Abstract=")
    THEN (LET r == RefAbs(lines, i + 1, From(line, 10), <<>>) IN
          RefScan(lines, r.pos, [cur EXCEPT !.abs = SomeA(r.v), !.any = TRUE], blocks))
    ELSE LET c == [cur EXCEPT !.any = TRUE]
             v == From(line, 6)
         IN RefScan(lines, i + 1,
                IF StartsWith(line, "Name=") THEN [c EXCEPT !.name = SomeS(v)]
                ELSE IF StartsWith(line, "Type=") THEN [c EXCEPT !.type = SomeS(IF Len(v) = 0 THEN "" ELSE Ch(v, 1))]
                ELSE IF StartsWith(line, "Path=") THEN [c EXCEPT !.path = SomeS(IF Len(v) > 0 /\ Last1(v) = "/" THEN DropLast(v) ELSE v)]
                ELSE IF StartsWith(line, "Host=") THEN [c EXCEPT !.host = SomeS(v)]
                ELSE IF StartsWith(line, "Port=") THEN [c EXCEPT !.port = SomeS(v)]
                ELSE IF StartsWith(line, "Numb=") /\ IsInt(v) THEN [c EXCEPT !.numb = SomeI(ParseInt(v))]
                ELSE c, blocks)

RefBlocks(lines) == RefScan(lines, 1, EmptyBlock, <<>>)

IsDotSlash(p) == StartsWith(p, "./") \/ StartsWith(p, "~/")
IsRelative(p) == Len(p) > 0 /\ Ch(p, 1) # "/" /\ ~StartsWith(p, "URL:")
IsHide(b) == b.type.s /\ b.type.v \in {"X", "-"}
Plusish(o) == ~o.s \/ o.v = "+"                     \* absent or "+": this server

LinkBlocks(dir) == IF dir.lf.has THEN SelectSeq(RefBlocks(dir.lf.lines), LAMBDA b : b.path.s) ELSE <<>>
\* a .cap file is one block whose path is implied by its name (an empty file is the empty block)
CapBlock(dir) == LET bs == RefBlocks(dir.cap.lines) IN IF Len(bs) = 0 THEN EmptyBlock ELSE bs[1]
TargetOf(b) == IF b.path.s /\ IsDotSlash(b.path.v) THEN From(b.path.v, 3) ELSE ""     \* file named by ./x
Listed(dir, x) == x \in Range(dir.files)
Overrides(dir, b) == b.path.s /\ IsDotSlash(b.path.v) /\ Listed(dir, TargetOf(b))

\* the reference entry generated for file f
RefGen(dir, f) ==
    [src |-> "gen", f |-> f, type |-> SomeS(FileInfo(f).type), name |-> DisplayName(f, dir.mode),
     sel |-> SomeS(Base(dir) \o "/" \o f), host |-> dir.srv.host, port |-> dir.srv.port, num |-> 0,
     abs |-> IF HasSide(dir, f) THEN SideLines(dir, f) ELSE <<>>,
     abssrc |-> IF HasSide(dir, f) THEN "side" ELSE IF AbstractUnreadable(dir, f) THEN "silent" ELSE "none",
     plus |-> FALSE, hidden |-> FALSE, named |-> FALSE, over |-> FALSE]

\* only the fields the block sets replace those of the entry
RefOverride(dir, r, b) ==
    [r EXCEPT !.hidden = @ \/ IsHide(b),
              !.type = IF b.type.s THEN b.type ELSE @,
              !.name = IF b.name.s THEN b.name.v ELSE @,
              !.named = @ \/ b.name.s,
              !.host = IF b.host.s THEN (IF b.host.v = "+" THEN dir.srv.host ELSE b.host.v) ELSE @,
              !.port = IF b.port.s THEN (IF b.port.v = "+" THEN dir.srv.port ELSE b.port.v) ELSE @,
              !.num  = IF b.numb.s THEN b.numb.v ELSE @,
              !.abs  = IF b.abs.s THEN b.abs.v ELSE @,
              !.abssrc = IF b.abs.s THEN "field" ELSE @,
              !.plus = @ \/ (b.host.s /\ b.host.v = "+") \/ (b.port.s /\ b.port.v = "+"),
              !.over = TRUE]

\* a block that adds an entry: exactly the fields given
RefAdd(dir, b) ==
    LET p == b.path.v IN
    [src |-> "add", f |-> "", type |-> b.type, name |-> b.name.v,
     sel |-> IF IsDotSlash(p) THEN SomeS(Base(dir) \o "/" \o From(p, 3))
             ELSE IF ~IsRelative(p) THEN SomeS(p)
             ELSE IF ~b.host.s /\ ~b.port.s THEN SomeS(Base(dir) \o "/" \o p)       \* relative to the directory
             \* "+" means this server EXACTLY like an absent field: the same resolution of a relative path
             ELSE IF Plusish(b.host) /\ Plusish(b.port) THEN SomeS(Base(dir) \o "/" \o p)
             ELSE SomeS(p),                                                         \* some (other) server named: as given
     host |-> IF Plusish(b.host) THEN dir.srv.host ELSE b.host.v,
     port |-> IF Plusish(b.port) THEN dir.srv.port ELSE b.port.v,
     num |-> IF b.numb.s THEN b.numb.v ELSE 0,
     abs |-> IF b.abs.s THEN b.abs.v ELSE <<>>, abssrc |-> IF b.abs.s THEN "field" ELSE "none",
     plus |-> (b.host.s /\ b.host.v = "+") \/ (b.port.s /\ b.port.v = "+"), hidden |-> FALSE,
     named |-> b.name.s, over |-> FALSE]

RECURSIVE RefApply(_, _, _, _)
RefApply(dir, bs, k, rs) ==
    IF k > Len(bs) THEN rs
    ELSE LET b == bs[k] IN
         IF Overrides(dir, b)
         THEN RefApply(dir, bs, k + 1, [i \in 1..Len(rs) |->
                  IF rs[i].src = "gen" /\ rs[i].f = TargetOf(b) THEN RefOverride(dir, rs[i], b) ELSE rs[i]])
         ELSE RefApply(dir, bs, k + 1, Append(rs, RefAdd(dir, b)))

RefAll(dir) ==          \* every entry, hidden ones included, unsorted
    LET gens == [k \in 1..Len(dir.files) |->
                    LET g == RefGen(dir, dir.files[k]) IN
                    IF dir.cap.has /\ dir.cap.f = dir.files[k] THEN RefOverride(dir, g, CapBlock(dir)) ELSE g]
    IN RefApply(dir, LinkBlocks(dir), 1, gens)

RefListing(dir) == SortBy(SelectSeq(RefAll(dir), LAMBDA r : ~r.hidden), <<>>, "ref")
RefHidden(dir) == {r.sel.v : r \in {x \in Range(RefAll(dir)) : x.hidden}}

(* ------------------------------ antecedents ------------------------------ *)
\* override sources of file f in application order: the .cap block first, then ./ blocks in file order
Sources(dir, f) ==
    (IF dir.cap.has /\ dir.cap.f = f THEN <<CapBlock(dir)>> ELSE <<>>)
    \o SelectSeq(LinkBlocks(dir), LAMBDA b : Overrides(dir, b) /\ TargetOf(b) = f)

FieldConflict(b1, b2) ==
    \/ (b1.name.s /\ b2.name.s /\ b1.name.v # b2.name.v)
    \/ (b1.type.s /\ b2.type.s /\ b1.type.v # b2.type.v)
    \/ (b1.host.s /\ b2.host.s /\ b1.host.v # b2.host.v)
    \/ (b1.port.s /\ b2.port.s /\ b1.port.v # b2.port.v)
    \/ (b1.numb.s /\ b2.numb.s /\ b1.numb.v # b2.numb.v)
    \/ (b1.abs.s /\ b2.abs.s /\ b1.abs.v # b2.abs.v)

\* the manual orders neither entries that tie on number and title nor conflicting overrides
NoTies(dir) ==
    LET R == RefListing(dir)
        lb == LinkBlocks(dir)
    IN /\ \A i, j \in 1..Len(R) : i < j => ~(R[i].num = R[j].num /\ R[i].name = R[j].name)
       /\ \A f \in Range(dir.files) :
            LET S == Sources(dir, f) IN
            /\ \A i, j \in 1..Len(S) : i < j => ~FieldConflict(S[i], S[j])
            \* hidden by its .cap file and also named by a link block: "listed" is ambiguous
            /\ ~(dir.cap.has /\ dir.cap.f = f /\ IsHide(CapBlock(dir)) /\ Len(S) > 1)
       \* two blocks naming the same unlisted ./x: is x listed after the first?
       /\ \A i, j \in 1..Len(lb) : (i < j /\ IsDotSlash(lb[i].path.v) /\ ~Overrides(dir, lb[i]))
                                      => ~(IsDotSlash(lb[j].path.v) /\ From(lb[i].path.v, 3) = From(lb[j].path.v, 3))

\* "well-formed link files" (the quantifier): what neither the property nor the manual gives a meaning
WellFormedBlock(b) ==
    /\ b.type.s => b.type.v # ""
    /\ b.port.s => (b.port.v = "+" \/ IsDigits(b.port.v))
    /\ b.abs.s => (b.abs.v # <<>> /\ \A i \in 1..Len(b.abs.v) : b.abs.v[i] # "")
    /\ b.name.s => b.name.v # ""
    /\ b.path.s => b.path.v # ""
WellFormed(dir) ==
    /\ \A b \in Range(LinkBlocks(dir)) :
          /\ WellFormedBlock(b)
          /\ ~Overrides(dir, b) => (b.name.s /\ ~(IsDotSlash(b.path.v) /\ IsHide(b)))   \* a link needs a title
    /\ dir.cap.has => /\ Len(RefBlocks(dir.cap.lines)) <= 1
                      /\ ~CapBlock(dir).path.s /\ WellFormedBlock(CapBlock(dir))
                      /\ Listed(dir, dir.cap.f)
    /\ \A i \in 1..Len(dir.lf.lines) : LET t == Strip(dir.lf.lines[i]) IN
          t = "" \/ Ch(t, 1) = "#" \/ \E k \in {"Name=", "Type=", "Path=", "Host=", "Port=", "Numb=", "Abstract=", "Admin="} :
                                          StartsWith(t, k)
          \/ (i > 1 /\ Last1(Strip(dir.lf.lines[i - 1])) = "\\")

(* --------------- input classes on which a coded deviation can show (for triage) --------------- *)
\* computed from the INPUT only.  A comment matters when a field line of the same block follows it
\* after the path is known.
RECURSIVE CommentSplits(_, _, _)
CommentSplits(lines, i, st) ==      \* st: "nopath" | "path" | "cut" (comment seen after the path)
    IF i > Len(lines) THEN FALSE
    ELSE LET t == Strip(lines[i]) IN
         IF t = "" THEN CommentSplits(lines, i + 1, "nopath")
         ELSE IF Ch(t, 1) = "#" THEN CommentSplits(lines, i + 1, IF st = "nopath" THEN st ELSE "cut")
         ELSE IF st = "cut" THEN TRUE
         ELSE CommentSplits(lines, i + 1, IF StartsWith(t, "Path=") THEN "path" ELSE st)
RECURSIVE CapCommentSplits(_, _, _)
CapCommentSplits(lines, i, cut) ==
    IF i > Len(lines) THEN FALSE
    ELSE LET t == Strip(lines[i]) IN
         IF t = "" THEN FALSE
         ELSE IF Ch(t, 1) = "#" THEN CapCommentSplits(lines, i + 1, TRUE)
         ELSE IF cut THEN TRUE ELSE CapCommentSplits(lines, i + 1, cut)

DevClass(dir) ==
    LET lb == LinkBlocks(dir) IN
    IF (dir.lf.has /\ CommentSplits(dir.lf.lines, 1, "nopath")) \/ (dir.cap.has /\ CapCommentSplits(dir.cap.lines, 1, FALSE))
    THEN "comment-after-path"
    ELSE IF \E b \in Range(lb) : Overrides(dir, b) /\ b.type.s /\ b.type.v = "-"
    THEN "dash-in-link-block"
    ELSE IF \E f \in Range(dir.files) : LET S == Sources(dir, f) IN
              \E i, j \in 1..Len(S) : i < j /\ IsHide(S[i]) /\ IsHide(S[j]) /\ ~(dir.cap.has /\ dir.cap.f = f /\ i = 1)
    THEN "double-hide"
    ELSE IF \E f \in Range(dir.files) : LET S == Sources(dir, f) IN
              \E i, j \in 1..Len(S) : i < j /\ S[i].numb.s /\ S[i].numb.v # 0 /\ ~S[j].numb.s
    THEN "numb-then-later-override"
    ELSE "none"
QuirkOfClass(c) == CASE c = "comment-after-path" -> "CommentEndsBlock"
                     [] c = "dash-in-link-block" -> "DashOnlyInCap"
                     [] c = "double-hide" -> "DoubleHideCrash"
                     [] c = "numb-then-later-override" -> "NumAlwaysMerged"
                     [] OTHER -> "none"

(* ======================================================================================= *)
(*                       T H E   P R O P E R T Y   (clauses)                                *)
(* ======================================================================================= *)
\* an observed (or modelled) menu entry o agrees with reference entry r; wildcards are silent
MatchFields(o, r) ==
    /\ (r.type.s => o.type = r.type.v)
    /\ o.name = r.name
    /\ (r.sel.s => o.sel = r.sel.v)
    /\ o.host = r.host /\ o.port = r.port
MatchButServer(o, r) == (r.type.s => o.type = r.type.v) /\ o.name = r.name /\ (r.sel.s => o.sel = r.sel.v)
MatchButName(o, r) == (r.type.s => o.type = r.type.v) /\ (r.sel.s => o.sel = r.sel.v) /\ o.host = r.host /\ o.port = r.port
Count(q, P(_)) == Cardinality({i \in 1..Len(q) : P(q[i])})

\* O: [ok, out] as lexed from the Gopher menu (or as modelled); R: RefListing; H: hidden selectors
HidesOnXorDash(O, R, H) ==
    \A s \in H : Count(O.out, LAMBDA o : o.sel = s) <= Count(R, LAMBDA r : r.sel.s /\ r.sel.v = s)
\* an entry written with Host=+ / Port=+ is listed exactly as if the field were absent: this server's name and
\* port AND the selector an absent field would give
MatchTitle(o, r) == (r.type.s => o.type = r.type.v) /\ o.name = r.name
PlusMeansThisServer(O, R) ==
    \A r \in Range(R) : (r.plus /\ \E o \in Range(O.out) : MatchTitle(o, r)) => \E o \in Range(O.out) : MatchFields(o, r)
\* ... and what it points at can be fetched from this server when it is there.  fetch[i]: what alpha got
\* when it requested the selector of menu line i from this server ("ok" | "notfound" | "noreply" | "n/a")
OnDisk(dir) == {Base(dir) \o "/" \o dir.files[i] : i \in 1..Len(dir.files)}
               \cup {Base(dir) \o "/" \o dir.files[i] \o "/inner.txt" : i \in {k \in 1..Len(dir.files) : FileInfo(dir.files[k]).kind = "dir"}}
PlusIsFetchable(fetch, R, dir) ==
    \A i \in 1..Len(R) : (R[i].plus /\ R[i].host = dir.srv.host /\ R[i].port = dir.srv.port      \* points at this server
                            /\ R[i].sel.s /\ R[i].sel.v \in OnDisk(dir)) => fetch[i] = "ok"
AddsWhenNotDotSlash(O, R) ==
    /\ \A r \in Range(R) : r.src = "add" => \E o \in Range(O.out) : MatchFields(o, r)
    /\ Len(O.out) = Len(R)
ExtStripName(O, R) ==
    \A r \in Range(R) : (r.src = "gen" /\ ~r.named /\ \E o \in Range(O.out) : MatchButName(o, r))
                            => \E o \in Range(O.out) : MatchFields(o, r)
OverridesOnlySetFields(O, R) ==
    \A r \in Range(R) : r.src = "gen" => \E o \in Range(O.out) : MatchFields(o, r)
Order(O, R) == \A i \in 1..Len(R) : MatchFields(O.out[i], R[i])
SidecarBecomesAbstract(O, R) == \A i \in 1..Len(R) : R[i].abssrc \in {"side", "none"} => O.out[i].abs = R[i].abs
\* every file of the directory that no block hides is in the menu (under its selector) - whatever
\* happens while its side-cars are probed, and together with its overrides (the clauses below)
StaysListed(O, R) == \A r \in Range(R) : r.src = "gen" => \E o \in Range(O.out) : o.sel = r.sel.v
AbstractField(O, R) == \A i \in 1..Len(R) : R[i].abssrc = "field" => O.out[i].abs = R[i].abs

\* name of the first clause that fails, "ok" if none
Judge(O, R, H) ==
    IF ~O.ok THEN "Answered"
    ELSE IF ~HidesOnXorDash(O, R, H) THEN "HidesOnXorDash"
    ELSE IF ~StaysListed(O, R) THEN "StaysListed"
    ELSE IF ~PlusMeansThisServer(O, R) THEN "PlusMeansThisServer"
    ELSE IF ~AddsWhenNotDotSlash(O, R) THEN "AddsWhenNotDotSlash"
    ELSE IF ~ExtStripName(O, R) THEN "ExtStripName"
    ELSE IF ~OverridesOnlySetFields(O, R) THEN "OverridesOnlySetFields"
    ELSE IF ~Order(O, R) THEN "Order"
    ELSE IF ~SidecarBecomesAbstract(O, R) THEN "SidecarBecomesAbstract"
    ELSE IF ~AbstractField(O, R) THEN "OverridesOnlySetFields"
    ELSE "ok"

InScope(dir) == WellFormed(dir) /\ NoTies(dir)
\* the design (as coded) against the manual: everything in scope that is not a recorded deviation class
AsDocumentedOn(dir) ==
    (InScope(dir) /\ QuirkOfClass(DevClass(dir)) \notin Quirks)
        => Judge(ImplListing(dir), RefListing(dir), RefHidden(dir)) = "ok"
=============================================================================
