SPECIFICATION SpecReq
CONSTANTS
  Defects <- K_Defects
  InjText <- K_InjText
INVARIANT I_NoneIsSilent
INVARIANT I_RightSink
INVARIANT I_RecordFlushed
INVARIANT I_SyslogPriority
INVARIANT I_SyslogTextEncodable
INVARIANT I_LoggingContained
INVARIANT I_OneRecordOneLine
INVARIANT I_SyslogOnePerCall
INVARIANT I_AccessRecordOnce
INVARIANT I_AccessRecordNamesRequest
INVARIANT I_FailureRecorded
INVARIANT I_NoSpuriousException
INVARIANT I_AccessBeforeException
INVARIANT I_SyslogOpened
INVARIANT I_Terminates
INVARIANT R_RunAgrees
CHECK_DEADLOCK FALSE
