--------------------------- MODULE MC_C01_consts ---------------------------
(* Facts about the working tree that Handlers.tla depends on (binding B1).  This file holds *)
(* the values of /repo after the fixes deb1f92, 0db1dbc and 922a2d5 (all three deviations   *)
(* were TRUE on the pinned tree 573431b); harness/c01.py REGENERATES it at every run from the tree  *)
(* under test: the two handler lists from conf/pygopherd.conf (shipped default; the         *)
(* commented "full featureset" list + ZIP), and two behavioural probes of the code:         *)
(*   NulRaises        HandlerMultiplexer.getHandler lets the ValueError of os.stat on a     *)
(*                    path with a NUL escape (it swallows OSError only)                     *)
(*   ZipCountsAsReal  the isinstance(self.vfs, VFS_Real) guard of the real-file-only        *)
(*                    handlers accepts a VFSZip                                             *)
(*   NestedZipProbesCwd  ZIPHandler, re-run on the index of an archive, tests a member named  *)
(*                    *.zip with zipfile.is_zipfile(<archive-internal RELATIVE path>), i.e.  *)
(*                    it opens <working directory>/<member path>                            *)
NestedZipProbesCwd == FALSE
NulRaises == FALSE
ZipCountsAsReal == FALSE
DefaultList == <<"HTMLURLHandler", "BuckGophermapHandler", "MaildirFolderHandler", "MaildirMessageHandler",
                 "UMNDirHandler", "HTMLFileTitleHandler", "MBoxMessageHandler", "MBoxFolderHandler", "FileHandler">>
FullList == <<"HTMLURLHandler", "BuckGophermapHandler", "MaildirFolderHandler", "MaildirMessageHandler",
              "UMNDirHandler", "TALFileHandler", "HTMLFileTitleHandler", "MBoxMessageHandler", "MBoxFolderHandler",
              "PYGHandler", "ExecHandler", "ZIPHandler", "CompressedFileHandler", "FileHandler", "URLTypeRewriter">>
=============================================================================
