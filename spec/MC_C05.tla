------------------------------- MODULE MC_C05 -------------------------------
(* Bounded model for C05.  TLC enumerates content trees (cases) x protocol views x handler  *)
(* lists, computes in one action what the design model predicts for every link of every     *)
(* listing of the tree (Links!Failing) and checks                                           *)
(*   QuoteOK        PctUnquote(PctQuote(s)) = s for every name of the tree and every selector     *)
(*   ClosureKnown   every local link is served with the advertised kind and comes back to   *)
(*                  the same object (RoundTrip), except for the NAMED deviations KnownWhy    *)
(*   NoCrash        no request built from a listing makes protocol detection raise          *)
(* The dump of this model (variable c) is the list of trees the harness materialises and    *)
(* crawls on the real server (binding B2).                                                  *)
EXTENDS Links, LinksConst

CONSTANTS
    Tokens,        \* name tokens (strings): class characters and reserved tokens
    MaxTok,        \* subject names: up to MaxTok tokens ...
    Shapes,        \* ... plus these whole names (request shapes, reserved prefixes)
    InnerTokens,   \* inner names (one token or shape)
    DeepNames,     \* names (block classes) of the deep tree kind: DeepDepth nested directories of that name
    Kinds2,        \* leaf kinds enumerated over all names up to MaxTok tokens (the others: one token / shape)
    Views,         \* protocol views to check
    HLs            \* handler lists

VARIABLES c, p, hl, res
vars == <<c, p, hl, res>>

ValidName(n) == /\ n # "" /\ n \notin {".", ".."} /\ Ch(n, 1) # "." /\ Find(n, "/") = 0
                /\ Last1(n) # "~"
Names  == {n \in StringsUpTo(Tokens, MaxTok) \cup Shapes : ValidName(n)}
Names1 == {n \in Tokens \cup Shapes : ValidName(n)}
Inner  == {n \in InnerTokens : ValidName(n)}
\* a gophermap line cannot carry leading/trailing blanks of a selector (every field is stripped)
\* and what it lists is the author's text, not a name the server generated: names the selector filter refuses stay out
MapOk(m) == Strip(m) = m /\ Secure("/" \o m)

Leaf(k, n)          == [k |-> k, n |-> n, ik |-> "none", m |-> "in"]
Cont(k, n, ik, m)   == [k |-> k, n |-> n, ik |-> ik, m |-> m]
NamesOf(k) == IF k \in Kinds2 THEN Names ELSE Names1
Cases == {Leaf(k, n) : k \in {"file", "mbox"}, n \in Names1} \cup {Leaf(k, n) : k \in {"file", "mbox"} \cap Kinds2, n \in Names}
         \cup {Cont("dir", n, "file", "in") : n \in NamesOf("dir")}
         \cup {Leaf("maildir", n) : n \in Names1}
         \cup {Leaf("mapfile", n) : n \in Names1}                                  \* named map file in the root ...
         \cup {Cont("dir", n, "mapfile", "in") : n \in Names1}                      \* ... and one level down
         \cup {Cont("dir", "a", "mapfile", m) : m \in {x \in Inner : MapOk(x)}}
         \cup {Cont(k, n, ik, m) : k \in {"dir", "zip"}, n \in Names1, ik \in {"file", "dir"}, m \in Inner}
         \cup {Cont("mapdir", n, ik, m) : n \in Names1, ik \in {"file", "dir"}, m \in {x \in Inner : MapOk(x)}}
         \cup {Leaf("deep", n) : n \in DeepNames}                                   \* the selector-LENGTH dimension

\* concrete request-line lengths (bytes) of all links of a deep tree as a client of pp sends them
DeepLens(pp, cc, hh) ==
    {ReqBytes(Follow(pp, Target(pp, e), BaseRef(pp, cc, d, hh), "")) : <<d, e>> \in
        UNION {{<<d, e>> : e \in Listing(cc, d, hh)} : d \in Dirs(cc, hh)}}

Init == c \in Cases /\ p \in Views /\ hl \in HLs /\ res = [done |-> FALSE, scope |-> FALSE, fail |-> {}, lens |-> {}]
Compute == /\ ~res.done
           /\ res' = [done |-> TRUE, scope |-> CaseExpressible(p, c),       \* out of scope: names p cannot express
                    fail |-> IF CaseExpressible(p, c) THEN Failing(p, c, hl) ELSE {},
                    lens |-> IF c.k = "deep" THEN DeepLens(p, c, hl) ELSE {}]
           /\ UNCHANGED <<c, p, hl>>
Spec == Init /\ [][Compute]_vars

QuoteOK == QuoteLemma(c.n) /\ QuoteLemma(c.m) /\ QuoteLemma(Subj(c) \o "|/MBOX-MESSAGE/1")
ClosureKnown == \A f \in res.fail : f[3] \in KnownWhy
ClosureStrictInv == res.fail = {}                     \* expected to be violated while findings are open
\* the length dimension is really there: through every URL-based view the links of a deep tree of percent-coded
\* names need request lines below and above 1 KiB, 4 KiB and 5 KiB and beyond 11 KiB; through the Gopher family
\* (raw bytes, bounded by PATH_MAX) below and above 1 KiB and beyond 3.5 KiB
Straddled(ls, t) == (\E a \in ls : a < t) /\ (\E b \in ls : b > t)
LengthsCovered == (res.done /\ c.k = "deep" /\ Find(c.n, BLK) > 0) =>
                     IF p \in UrlViews THEN (\A t \in {1024, 4096, 5120} : Straddled(res.lens, t)) /\ (\E b \in res.lens : b > 11000)
                     ELSE Straddled(res.lens, 1024) /\ (\E b \in res.lens : b > 3500)
NoCrash == \A f \in res.fail : f[3] # "CapturedBy_crash"
=============================================================================
