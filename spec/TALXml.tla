------------------------------- MODULE TALXml -------------------------------
(* XML templates of the bundled simpleTAL (growth check XTALX): XMLTemplateCompiler +          *)
(* XMLTemplate.expand on top of the modules of C17 (TALES, TALCompile, TALVM; the reference      *)
(* semantics TALSem is instantiated by the MC / trace modules).                                 *)
(*                                                                                              *)
(* What differs from the HTML path (structured like the code):                                  *)
(*   XCompile   startElement/endElement/characters/processingInstruction: no element is "void";   *)
(*              an element written <a/> (no children: SINGLETON_XML_REGEX on the parser's         *)
(*              xml_string) carries singletonTag: a plain one is output "<a />" with no end tag,  *)
(*              one with TAL commands compiles to STARTTAG f1=1 / ENDTAG_ENDSCOPE f2=1 and the     *)
(*              interpreter writes "<a />" only if no content was substituted; character data is   *)
(*              re-escaped with html.escape(quote=False); empty character data adds no command.    *)
(*   prefixes   tal:/metal: commands are found through the prefix bound by xmlns:<p>="<TAL|METAL    *)
(*              uri>" (default tal/metal without declaration); the declarations are removed from   *)
(*              the output.  Rendering a tree with a prefix binding is gamma; the model states that  *)
(*              the result does not depend on it (same tree => same program => same document).      *)
(*   XDecl / preamble of XMLTemplate.expand: '<?xml version="1.0"?>' + newline unless               *)
(*              suppressXMLDeclaration, with encoding="<lower-cased name>" iff the output encoding   *)
(*              is not utf-8; then the docType argument + newline; then the body.                    *)
(* Named deviations (not idealised away):                                                           *)
(*   NoLexicalHandler  without PyXML the compiler never sees comments or the DOCTYPE of the           *)
(*              template: both are dropped (XMLTemplate.doctype stays None) - outside the grammar.    *)
(*   SingletonRegex    <a k=""/> or single-quoted attribute values are not recognised as singletons    *)
(*              (output <a k=""></a>: the same XML document) - gamma never writes those.              *)
(* Properties (sources: comments of simpleTAL.py - "expanding both XML and HTML templates",           *)
(* XMLTemplate.expand docstring "write to the outputFile, using the encoding ... the expanded          *)
(* version of this template", the TAL 1.4 / METAL 1.0 semantics of Appendix E.4, XML 1.0 for the        *)
(* declaration): Compiles, WellFormedProg, Terminates, Completes, Refines (document = TALSem up to       *)
(* <a/> = <a></a>), XmlDeclaration, Doctype, Encodes, WellFormedOut.                                     *)
EXTENDS TALVM

XSingle(nd) == nd.kids = <<>>

RECURSIVE XCNode(_, _, _), XCKids(_, _, _, _)
XCKids(cs, kids, i, um) == IF i > Len(kids) THEN cs ELSE XCKids(XCNode(cs, kids[i], um), kids, i + 1, um)
XCNode(cs, nd, um) ==
    IF nd.k = "text" THEN (IF nd.text = "" THEN cs ELSE AddCmd(cs, Out(EscText(nd.text))))     \* characters()
    ELSE IF nd.k = "raw" THEN AddCmd(cs, Out(nd.text))                                         \* processingInstruction()
    ELSE LET sg == XSingle(nd) IN
    IF Len(nd.tal) = 0
    THEN LET s1 == AddCmd(cs, Out(TagText(nd.tag, nd.atts, sg)))
             s2 == XCKids(s1, nd.kids, 1, um)
         IN IF sg THEN s2 ELSE AddCmd(s2, Out("</" \o nd.tag \o ">"))
    ELSE LET symN  == cs.next + 1
             start == Len(cs.cmds)
             r     == ElemCmds([cs EXCEPT !.next = symN], nd, Ordered(nd.tal), 1, symN, TRUE, um)
             stag  == [NoCmd EXCEPT !.op = TAL_STARTTAG, !.tag = nd.tag, !.f1 = B2N(sg)]
             s1    == IF r.first
                      THEN AddCmd(AddCmd(r.st, [NoCmd EXCEPT !.op = TAL_START_SCOPE, !.oa = nd.atts, !.ca = nd.atts]), stag)
                      ELSE AddCmd(r.st, stag)
             um1   == IF HasCmd(nd, "usemacro") THEN start + 1 ELSE um
             s2    == XCKids(s1, nd.kids, 1, um1)
         IN AddCmd([s2 EXCEPT !.sym = (symN :> Len(s2.cmds)) @@ @],
                   [NoCmd EXCEPT !.op = TAL_ENDTAG_ENDSCOPE, !.tag = nd.tag, !.f1 = 0, !.f2 = B2N(sg)])

XCompile(nodes) == LET cs == XCKids(CInit, nodes, 1, 0 - 1) IN [cmds |-> cs.cmds, sym |-> cs.sym, macros |-> cs.macros]

\* ---- XMLTemplate.expand: what is written before the body ------------------------------------------
LowerEnc(enc) == CASE enc = "UTF-8" -> "utf-8" [] enc = "ASCII" -> "ascii" [] enc = "ISO-8859-1" -> "iso-8859-1" [] OTHER -> enc
XDecl(enc, sup) == IF sup THEN ""
                   ELSE IF LowerEnc(enc) = "utf-8" THEN "<?xml version=\"1.0\"?>"
                   ELSE "<?xml version=\"1.0\" encoding=\"" \o LowerEnc(enc) \o "\"?>"
Preamble(enc, sup, dt) == (IF sup THEN "" ELSE XDecl(enc, sup) \o "\n") \o (IF dt = "" THEN "" ELSE dt \o "\n")

\* ---- <a /> and <a></a> are the same document: compare with end tags and the singleton mark removed ----
RECURSIVE StripEnds(_)
StripEnds(s) == LET i == TX!Find(s, "</") IN
                IF i = 0 THEN s
                ELSE LET rest == TX!From(s, i)
                         j == TX!Find(rest, ">")
                     IN SubSeq(s, 1, i - 1) \o StripEnds(TX!From(rest, j + 1))
Canon(s) == StripEnds(TX!ReplaceAll(s, " />", ">"))
=============================================================================
