SPECIFICATION Spec
CONSTANTS
  ProtoOrder <- K_ProtoOrder
  WapTop = "/wap"
  QueryPrefix = "/GEMINI-QUERY"
  ServerName = "localhost"
  ServerPort = 70
  HiCode = "FF"
  Fixes = {"wap", "gemini", "mapfile", "spartan"}
  Tokens <- K_Tokens
  MaxTok = 2
  Shapes <- K_Shapes
  InnerTokens <- K_InnerTokens
  Kinds2 <- K_Kinds2
  Views <- K_Views
  HLs <- K_HLs
INVARIANT QuoteOK
INVARIANT ClosureKnown
INVARIANT NoCrash
INVARIANT LengthsCovered
CHECK_DEADLOCK FALSE
