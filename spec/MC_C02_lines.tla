---------------------------- MODULE MC_C02_lines ----------------------------
(* Bounded design model for C02 (request lines): TLC enumerates cases                       *)
(*   (first line, TLS?, header block)                                                        *)
(* from three families chosen from the code's case analysis, evaluates the TRANSCRIPTION of *)
(* every canhandlerequest() and of getProtocol() for every protocol list of C_Lists, and     *)
(* checks it against the documented shapes, clause by clause.  Every initial state is also   *)
(* one replay case for the real ProtocolMultiplexer.getProtocol (binding B2): the harness    *)
(* reads the cases from the state dump.                                                      *)
(*   family A  all token sequences up to C_NA over C_TokensA (flat, unstructured)            *)
(*   family B  method SEP path SEP version TERM x header blocks (HTTP / WAP / Spartan shapes) *)
(*   family C  selector TAB field ... (Gopher / Gopher+ shapes, empty and blank fields)      *)
(*   family L  long lines: shapes decided by the END of the line x length classes (x.pad)     *)
EXTENDS Wire, MC_C02_consts, TLC

VARIABLES x,        \* the case [line, pad, tls, hdrs]
          fam,      \* family the case was drawn from
          phase,    \* "in" (enumerated) -> "done" (evaluated)
          res       \* evaluation: al[p] = Claims(p) alone, det[l] = Detect(C_Lists[l]), m[p] = documented shape matches,
                    \* pos = header lines consumed by detection with the shipped list, dt = determinism
mvars == <<x, fam, phase, res>>

RECURSIVE CatN(_, _, _)
CatN(t, i, n) == IF i > n THEN "" ELSE t[i] \o CatN(t, i + 1, n)

Case(l, t, h) == [line |-> l, pad |-> 0, tls |-> t, hdrs |-> h]

FamA == /\ fam = "A"
        /\ \E k \in 0..C_NA : \E t \in [1..k -> C_TokensA] : \E term \in C_TermsA, tl \in BOOLEAN, h \in C_HdrsA :
               (h # <<>> => term # "") /\ x = Case(CatN(t, 1, k) \o term, tl, h)
FamB == /\ fam = "B"
        /\ \E b \in 1..Len(C_FamB) : LET B == C_FamB[b] IN
           \E m \in B.M, s1 \in B.S, p \in B.P, s2 \in B.S, v \in B.V, term \in B.T, tl \in BOOLEAN :
           \E k \in 0..B.HN : \E h \in [1..k -> B.HK] :
               x = Case(m \o s1 \o p \o s2 \o v \o term, tl, h)
FamC == /\ fam = "C"
        /\ \E sel \in C_CSel, k \in 1..C_CN : \E f \in [1..k -> C_CFields] :
           \E term \in C_TermsC, tl \in BOOLEAN, h \in C_HdrsC :
               (h # <<>> => term # "") /\ x = Case(sel \o CatN([i \in 1..k |-> "\t" \o f[i]], 1, k) \o term, tl, h)

\* family L: LONG lines - templates whose claim depends on the END of the line, with one PAD run of k filler letters
\* inside the selector / path (k from the length classes C_Pads); TLC sees the PAD as one character, gamma writes k bytes
FamL == /\ fam = "L"
        /\ \E tpl \in C_LongLines, term \in C_TermsL, tl \in BOOLEAN, k \in C_Pads, h \in C_HdrsL :
               (h # <<>> => term # "") /\ x = [line |-> tpl \o term, pad |-> k, tls |-> tl, hdrs |-> h]
ASSUME \A tpl \in C_LongLines : CountCh(tpl, PAD) = 1
ASSUME \A tok \in C_TokensA : CountCh(tok, PAD) = 0

NoRes == [al |-> <<>>, det |-> <<>>, m |-> <<>>, mc |-> <<>>, pos |-> 0, dt |-> TRUE]
Init == phase = "in" /\ res = NoRes /\ (FamA \/ FamB \/ FamC \/ FamL)

Listed == {C_Listed[i] : i \in 1..Len(C_Listed)}
ASSUME UNION {{C_Lists[l][i] : i \in 1..Len(C_Lists[l])} : l \in 1..Len(C_Lists)} \subseteq Listed
ASSUME Listed \subseteq Protocols /\ C_Lists[1] = C_Shipped
NL == Len(C_Lists)

\* One evaluation per case.  (\E v \in {e} binds v to the VALUE of e: TLC re-evaluates LET definitions at every use,
\* which made this model four times slower.)
\*   px   BaseGopherProtocol.__init__ / the split each test performs
\*   tst  every test alone on a fresh connection; getProtocol for every list (with the connection state it leaves)
\*   res  the observable part + documented shapes + getProtocol again from every connection state an earlier
\*        test can leave behind
Compute == /\ phase = "in" /\ phase' = "done"
           /\ \E px \in {Parse(x)} :
              \E tst \in {[al  |-> [p \in Listed |-> Claims(p, px, FreshConn)],
                           det |-> [l \in 1..NL |-> Detect(C_Lists[l], px)]]} :
                res' = [al  |-> [p \in Listed |-> tst.al[p].r],
                        det |-> [l \in 1..NL |-> tst.det[l].p],
                        m   |-> MatchTable(Listed, x),
                        mc  |-> IF GluedAcceptUnrecognised THEN MatchTableCoded(Listed, x) ELSE <<>>,
                        pos |-> tst.det[1].conn.pos,
                        dt  |-> \A l \in 1..NL :
                                   DeterministicAt(C_Lists[l], px, {tst.al[p].conn : p \in Listed} \ {FreshConn}, tst.det[l].p)]
           /\ UNCHANGED <<x, fam>>
Next == Compute
Spec == Init /\ [][Next]_mvars

(* ---- the property on the transcription ------------------------------------------------ *)
\* Exactly the recorded defect (only when the model follows the unrepaired code, EmptyPlusFieldRaises): a Gopher+
\* class asked on a connection of its own kind about a line with 2 or 3 TAB fields whose last field is blank.
EmptyPlusField(line) == LET f == Fields(line) IN Len(f) \in {2, 3} /\ f[Len(f)] = ""
Known == EmptyPlusFieldRaises /\ EmptyPlusField(x.line)
PlusFamily == {"GopherPlusProtocol", "SecureGopherPlusProtocol", "URLGopherPlus"}
KnownAt(p) == Known /\ p \in PlusFamily /\ (Secure(p) <=> x.tls)
KnownCrash(got) == Known /\ got = "crash"           \* in this model "crash" has no other source
Done == phase = "done"

\* second recorded deviation (GluedAcceptUnrecognised): the answers may follow the header block as the code reads it
GluedClaim(p, r) == GluedAcceptUnrecognised /\ p = "WAPProtocol" /\ ClaimsMatchShapeAt(p, res.mc, r)
GluedOrder(l)    == GluedAcceptUnrecognised /\ OrderedAt(C_Lists[l], res.mc, res.det[l])

ClaimsMatchShape == Done => \A p \in Listed : KnownAt(p) \/ ClaimsMatchShapeAt(p, res.m, res.al[p]) \/ GluedClaim(p, res.al[p])
Total            == Done => KnownCrash(res.det[1]) \/ TotalAt(res.det[1])
TlsStrict        == Done => \A l \in 1..NL : TlsStrictAt(x.tls, res.det[l])
Ordered          == Done => \A l \in 1..NL :
                        /\ KnownCrash(res.det[l]) \/ OrderedAt(C_Lists[l], res.m, res.det[l]) \/ GluedOrder(l)
                        /\ res.det[l] = FirstClaimant(C_Lists[l], 1, res.al)
Deterministic    == Done => res.dt
\* the recorded defect is what the model says it is (keeps the weakening exact)
KnownIsCrash     == Done => \A p \in Listed : KnownAt(p) => res.al[p] = "crash"
=============================================================================
