----------------------------- MODULE GopherPlus -----------------------------
(* Gopher+ item information as pygopherd builds it                         [C15, C13]      *)
(*                                                                                          *)
(* Code abstracted: protocols/gopherp.py  handle / getsupportedblocknames / getallblocks /  *)
(* getblock / getinfoblock / getadminblock / getviewsblock, protocols/rfc1436.py            *)
(* renderobjinfo, gopherentry.py populatefromfs / handleeaext / setea.                      *)
(*                                                                                          *)
(* An item is abstracted to  [kind, ext, size, sc]  (sc = one record per configured         *)
(* extended-attribute extension: present?, the file's lines, final newline?).  The module   *)
(* gives (1) the pipeline a sidecar file goes through AS CODED,                              *)
(*     text --text-mode readlines(20480)--> physical lines --rstrip--> join "\n" (setea)    *)
(*          --str.splitlines() (getblock)--> block lines, each prefixed by one space,       *)
(* (2) the block list of an item as coded, (3) the reference reading of the property        *)
(* (DESIGN.md Appendix E.3) as clause operators used by MC_C15 and by TraceC15.             *)
(*                                                                                          *)
(* Deviations of the code from the property, modelled and named (never idealised away):     *)
(*   LastBlankLineLost  setea joins with "\n" and getblock uses splitlines(): when the last  *)
(*                      line of a sidecar is empty after right-stripping, that line is      *)
(*                      not in the block (a sidecar that is one blank line has NO lines)    *)
(*   SplitlinesExtra    splitlines() also splits at FF / VT / FS / GS / RS / NEL / LS / PS, *)
(*                      file iteration does not (only non-printable characters: outside     *)
(*                      the property's quantifier, reported as design knowledge)            *)
(*   Cap20K             readlines(20480) stops after the line that reaches 20480 characters *)
(*   BangIgnoresListing `!` builds the entry from the item's own handler: names given by    *)
(*                      the directory (extension stripping, .cap, link files) are missing   *)
EXTENDS Naturals, Integers, Sequences, FiniteSets, TLC

TX == INSTANCE Text      \* shared string helpers (named instance: immune to later additions)

CONSTANTS EaExts,     \* B1: <<[ext |-> ".abstract", name |-> "ABSTRACT"], ...>> in configured order
          MimeOf(_),  \* B1: extension (without dot) -> MIME type from conf/mime.types, "" if unknown
          DefaultMime \* B1: [GopherEntry] defaultmimetype

--------------------------------------------------------------------------------
(* Text helpers (Python semantics restricted to the characters the models use)              *)

GpWS == {" ", "\t", "\n", "\r", "\f"}            \* str.rstrip() whitespace within the alphabet
RStrip(s) == TX!RStripSet(s, GpWS)
LineBreaks == {"\n", "\r", "\f"}                 \* str.splitlines() boundaries within the alphabet

FirstBreak(s) ==                                  \* position of the first line boundary, 0 if none
    LET ps == {i \in 1..Len(s) : TX!Ch(s, i) \in LineBreaks}
    IN IF ps = {} THEN 0 ELSE CHOOSE i \in ps : \A j \in ps : i <= j

RECURSIVE SplitLines(_)
SplitLines(s) ==                                  \* Python s.splitlines()
    IF s = "" THEN <<>>
    ELSE LET i == FirstBreak(s) IN
         IF i = 0 THEN <<s>>
         ELSE LET w == IF TX!Ch(s, i) = "\r" /\ i < Len(s) /\ TX!Ch(s, i + 1) = "\n" THEN 2 ELSE 1
              IN <<SubSeq(s, 1, i - 1)>> \o SplitLines(SubSeq(s, i + w, Len(s)))

Universal(t) == TX!ReplaceAll(TX!ReplaceAll(t, "\r\n", "\n"), "\r", "\n")   \* text mode, newline=None

PhysLines(t) ==                                   \* lines a text-mode file iteration yields (terminator removed)
    LET u == Universal(t)
        p == TX!Split(u, "\n")
    IN IF u = "" THEN <<>>
       ELSE IF p[Len(p)] = "" THEN SubSeq(p, 1, Len(p) - 1) ELSE p

\* sums and searches by halving: sequences of several hundred lines must not need deep recursion
RECURSIVE SumSeq(_)
SumSeq(s) == IF Len(s) = 0 THEN 0 ELSE IF Len(s) = 1 THEN s[1]
             ELSE LET h == Len(s) \div 2 IN SumSeq(SubSeq(s, 1, h)) + SumSeq(SubSeq(s, h + 1, Len(s)))
RECURSIVE FirstReaching(_, _, _, _)
FirstReaching(lens, hint, lo, hi) ==             \* smallest k in lo..hi with lens[1]+..+lens[k] >= hint
    IF lo = hi THEN lo
    ELSE LET mid == (lo + hi) \div 2 IN
         IF SumSeq(SubSeq(lens, 1, mid)) >= hint THEN FirstReaching(lens, hint, lo, mid)
         ELSE FirstReaching(lens, hint, mid + 1, hi)
\* readlines(hint): whole lines are read until the characters read reach the hint (Cap20K)
CapCount(lens, hint) ==                           \* lens: line lengths including terminators
    IF SumSeq(lens) < hint THEN Len(lens) ELSE FirstReaching(lens, hint, 1, Len(lens))
Hint == 20480

Stored(t) ==                                      \* gopherentry.handleeaext -> setea (files below the cap)
    LET pl == PhysLines(t) IN TX!Join([i \in 1..Len(pl) |-> RStrip(pl[i])], "\n")
CodeLines(t) == SplitLines(Stored(t))             \* gopherp.getblock: getea(NAME).splitlines()

Prefixed(ls) == [i \in 1..Len(ls) |-> " " \o ls[i]]

LineLens(lines) == [i \in 1..Len(lines) |-> Len(lines[i]) + 1]
TotalLen(lines) == SumSeq(LineLens(lines))                         \* characters including terminators
\* Cap20K applies to ZIP members too since fix 9d1e32d (VFSZip.open returns an io.TextIOWrapper, whose readlines() honours
\* the hint like a text file on disk; the codecs.StreamReader it returned before ignored the hint)
Capped(kind, lines) == kind \in {"file", "dir", "gzfile", "mapfile", "mapdir", "zipfile", "zipdir"} /\ TotalLen(lines) >= Hint

--------------------------------------------------------------------------------
(* The abstract sidecar: [p, lines, nl]; gamma writes TextOf(lines, nl) to the file         *)

TextOf(lines, nl) == TX!Join(lines, "\n") \o (IF nl /\ Len(lines) > 0 THEN "\n" ELSE "")
WellFormedContent(lines, nl) == IF nl THEN TRUE ELSE IF Len(lines) = 0 THEN TRUE ELSE lines[Len(lines)] # ""
RefLines(lines) == [i \in 1..Len(lines) |-> RStrip(lines[i])]      \* the property's reading (E.3)
LastBlank(lines) == Len(lines) > 0 /\ RStrip(lines[Len(lines)]) = ""
Printable(lines) == \A i \in 1..Len(lines) : TX!Chars(lines[i]) \cap {"\f", "\r", "\n"} = {}

--------------------------------------------------------------------------------
(* Blocks of an item as coded                                                               *)

\* Item kinds.  Documents: file, zipfile (ZIP member), gzfile (file delivered decompressed by CompressedFileHandler),
\* msg / mdmsg (virtual items: a message of an mbox file / of a Maildir).  Menus: dir, zipdir, mapdir (directory
\* holding a `gophermap`), mapfile (a named *.gophermap FILE, served by BuckGophermapHandler as the menu it renders).
MsgKinds == {"msg", "mdmsg"}
MenuKinds == {"dir", "zipdir", "mapdir", "mapfile"}
DocKinds == {"file", "zipfile", "gzfile"} \cup MsgKinds
\* the entry carries a size only where the bytes on disk ARE the bytes delivered; as coded: virtual items have none, a
\* decompressed file has none, a map file has none (its length on disk is not the length of the menu)
KnownSize(kind) == kind \in {"file", "zipfile"}
IsDirKind(kind) == kind \in MenuKinds
MimesOf(kind, ext) ==                              \* acceptable MIME names of the item (reference)
    IF IsDirKind(kind) THEN {"application/gopher-menu", "application/gopher+-menu"}
    ELSE IF kind \in MsgKinds THEN {"text/plain"}
    ELSE {IF MimeOf(ext) = "" THEN DefaultMime ELSE MimeOf(ext)}       \* gzfile: the type of the decompressed data
CodeMime(kind, ext) ==                             \* as coded (gopherp.renderobjinfo rewrites menus in place)
    IF IsDirKind(kind) THEN "application/gopher+-menu"
    ELSE IF kind \in MsgKinds THEN "text/plain"
    ELSE IF MimeOf(ext) = "" THEN DefaultMime ELSE MimeOf(ext)

SizePart(size) == IF size >= 0 THEN " <" \o ToString(size \div 1024) \o "k>" ELSE ""
ViewsLine(mime, size) == " " \o mime \o ":" \o SizePart(size)          \* getviewsblock
LenHeader(size) == IF size >= 0 THEN "+" \o ToString(size) ELSE "+-2"     \* handle: entry.getsize(-2)

\* lines of a sidecar block as coded; contents reaching the hint are handled at line level (they are printable and
\* do not end in a blank line: MC_C15 M_BigShape), everything else goes through the character-level pipeline
CodeLinesOf(kind, s) ==
    IF TotalLen(s.lines) < Hint THEN CodeLines(TextOf(s.lines, s.nl))
    ELSE IF Capped(kind, s.lines) THEN SubSeq(RefLines(s.lines), 1, CapCount(LineLens(s.lines), Hint))
    ELSE RefLines(s.lines)

SidecarBlocks(kind, sc) ==                         \* one block per present sidecar, configured order
    LET idx == SelectSeq([i \in 1..Len(EaExts) |-> i], LAMBDA i : sc[i].p)
    IN [k \in 1..Len(idx) |->
          [name |-> "+" \o EaExts[idx[k]].name, lines |-> Prefixed(CodeLinesOf(kind, sc[idx[k]]))]]

\* An item may ALSO have an entry in a UMN link file of its directory (.Links / .names block with Path=./name) or a
\* .cap/<name> file, with or without Abstract=.  While the parent is listed (`$`) UMN.mergeentries sets every attribute of
\* the link entry on the item and leaves its other attributes alone; `!` on the item never sees the link entry.
LinkKinds == {"none", "cap", "capabs", "links", "linksabs"}
HasLinkAbs(link) == link \in {"capabs", "linksabs"}
LinkAbstract == "Abstract from the link file"
ItemBlocks(kind, sc, form, link) ==
    LET base == SidecarBlocks(kind, sc)
        ab == [name |-> "+ABSTRACT", lines |-> <<" " \o LinkAbstract>>]
    IN IF ~(HasLinkAbs(link) /\ form = "dollar") THEN base
       ELSE IF \E k \in 1..Len(base) : base[k].name = "+ABSTRACT"
       THEN [k \in 1..Len(base) |-> IF base[k].name = "+ABSTRACT" THEN ab ELSE base[k]]     \* dict key keeps its place
       ELSE Append(base, ab)                                                              \* new key goes last

\* names of the blocks of one item, as coded: +INFO, +ADMIN, +VIEWS, then the attributes
CodeBlockNames(kind, sc, form, link) ==
    <<"+INFO", "+ADMIN", "+VIEWS">> \o [k \in 1..Len(ItemBlocks(kind, sc, form, link)) |-> ItemBlocks(kind, sc, form, link)[k].name]

--------------------------------------------------------------------------------
(* Property clauses over an OBSERVED item  it = [info, blocks]  with                         *)
(* blocks = <<[name, rest, lines]>> (lines raw, including their first character)            *)

Fields(line) == TX!Split(line, "\t")
SelectorOf(menuline) == IF Len(Fields(menuline)) >= 2 THEN Fields(menuline)[2] ELSE ""
BlocksNamed(it, nm) == SelectSeq(it.blocks, LAMBDA b : b.name = nm)

ContentPrefixed(it) == \A i \in 1..Len(it.blocks) : \A j \in 1..Len(it.blocks[i].lines) :
                          TX!StartsWith(it.blocks[i].lines[j], " ")

HasAdmin(it) == \E i \in 1..Len(it.blocks) :
                   /\ it.blocks[i].name = "+ADMIN"
                   /\ \E j \in 1..Len(it.blocks[i].lines) : TX!StartsWith(it.blocks[i].lines[j], " Admin:")

\* " <mime>[ <lang>]:[ <Nk>]".  `size` is the length of what the item delivers (bytes written by gamma, or the
\* length of an independent plain fetch for items whose length only the server knows; -1 = no reference).  A stated
\* size must be size div 1024; it MUST be stated when the entry's size is known by construction (`must`).
LangOk(lang) == lang = "" \/ (TX!StartsWith(lang, " ") /\ ~TX!Contains(lang, ":") /\ ~TX!Contains(lang, "<"))
ViewsLineOk(line, mimes, size, must) ==
    \E m \in mimes :
        /\ TX!StartsWith(line, " " \o m)
        /\ LET rest == SubSeq(line, Len(m) + 2, Len(line))
               tail == ":" \o SizePart(size)
           IN \/ /\ TX!EndsWith(rest, tail)                                     \* the right size (or none to state)
                 /\ LangOk(SubSeq(rest, 1, Len(rest) - Len(tail)))
              \/ /\ ~must /\ TX!EndsWith(rest, ":")                             \* no size stated
                 /\ LangOk(SubSeq(rest, 1, Len(rest) - 1))
              \/ /\ size < 0 /\ TX!Contains(rest, ":")                          \* no reference: silent
ViewsTruthful(it, mimes, size, must) ==
    LET vs == BlocksNamed(it, "+VIEWS")
    IN Len(vs) = 1 /\ Len(vs[1].lines) = 1 /\ ViewsLineOk(vs[1].lines[1], mimes, size, must)

\* absfree: the item's abstract may come from a link file (C08's business): the +ABSTRACT block is then not judged here
SidecarExact(it, sc, absfree) ==
    \A i \in 1..Len(EaExts) :
        LET bs == BlocksNamed(it, "+" \o EaExts[i].name)
        IN IF absfree /\ EaExts[i].name = "ABSTRACT" THEN TRUE
           ELSE IF sc[i].p
           THEN Len(bs) = 1 /\ (Printable(sc[i].lines) => bs[1].lines = Prefixed(RefLines(sc[i].lines)))
           ELSE Len(bs) = 0

\* as coded (design level): exactly the blocks ItemBlocks gives, with the lines the pipeline above produces
SidecarAsCoded(it, kind, sc, form, link) ==
    LET ib == ItemBlocks(kind, sc, form, link) IN
    /\ \A k \in 1..Len(ib) : LET bs == BlocksNamed(it, ib[k].name) IN Len(bs) = 1 /\ bs[1].lines = ib[k].lines
    /\ \A i \in 1..Len(EaExts) : (\A k \in 1..Len(ib) : ib[k].name # "+" \o EaExts[i].name)
                                      => Len(BlocksNamed(it, "+" \o EaExts[i].name)) = 0

IsNat(s) == TX!IsDigits(s)
\* first line of a `+` answer: +N with exactly N bytes following (N the document's length), or a marker
LenOrMarker(first, bodylen, size) ==
    \/ first \in {"+-1", "+-2"}
    \/ /\ TX!StartsWith(first, "+") /\ IsNat(TX!Tail1(first))
       /\ first = "+" \o ToString(bodylen)
       /\ (size >= 0 => bodylen = size)
=============================================================================
