------------------------------- MODULE MC_C14 -------------------------------
(* Bounded design model for C14: N simultaneous connections on one listening socket,       *)
(* threading or forking server (server.py), each worker stepping at the granularity of     *)
(* environment operations.  On top of the cache steps of module Cache it adds               *)
(*   Accept      the accept loop hands a pending connection to a free worker               *)
(*   Sniff       the TLS peek happens INSIDE the worker (never in the accept loop)          *)
(*   LazyCheck / LazySet   first-use initialisation of a shared module-level table as two  *)
(*               steps (check-then-set race is explored; the value is assigned complete)    *)
(*   Close / Reap  a forked child becomes a zombie until the accept loop reaps it           *)
(* Shared state is only the cache file and the lazy tables.                                 *)
EXTENDS Cache, TLC

CONSTANTS MaxClock, MaxHist, Forking, NConn
VARIABLES spc,       \* per worker: "free" | "sniff" | "lazy" | "lazyset" | "run" | "zombie"
          lazy,      \* "unset" | "set"   shared table (threading) - per child when forking
          lazyseen,  \* per worker: what LazyCheck saw
          pending,   \* connections waiting in the listen queue
          served,    \* number of completed responses
          h          \* schedule so far: <<worker, step>> per step (history; hidden by VIEW in exhaustive runs)

svars == <<cvars, spc, lazy, lazyseen, pending, served, h>>

SInit == /\ Init /\ spc = [w \in Workers |-> "free"] /\ lazy = "unset"
         /\ lazyseen = [w \in Workers |-> "set"] /\ pending = NConn /\ served = 0 /\ h = <<>>

Accept(w, p) ==
    /\ pending > 0 /\ spc[w] = "free" /\ pc[w] = "idle"
    /\ spc' = [spc EXCEPT ![w] = "sniff"] /\ pending' = pending - 1
    /\ req' = [req EXCEPT ![w] = p]
    /\ h' = Append(h, <<w, "accept", p>>)
    /\ UNCHANGED <<dir, hist, clock, T, file, pc, mem, started, out, wpos, lazy, lazyseen, served>>

Sniff(w) ==
    /\ spc[w] = "sniff" /\ spc' = [spc EXCEPT ![w] = "lazy"]
    /\ UNCHANGED <<cvars, lazy, lazyseen, pending, served, h>>

\* forking: the child has its own copy of the table, inherited from the parent at fork time
LazyCheck(w) ==
    /\ spc[w] = "lazy"
    /\ lazyseen' = [lazyseen EXCEPT ![w] = IF Forking THEN "unset" ELSE lazy]
    /\ spc' = [spc EXCEPT ![w] = IF (~Forking /\ lazy = "set") THEN "go" ELSE "lazyset"]
    /\ UNCHANGED <<cvars, lazy, pending, served, h>>

LazySet(w) ==
    /\ spc[w] = "lazyset"
    /\ lazy' = (IF Forking THEN lazy ELSE "set")
    /\ spc' = [spc EXCEPT ![w] = "go"]
    /\ UNCHANGED <<cvars, lazyseen, pending, served, h>>

Go(w) == /\ spc[w] = "go" /\ Start(w, req[w]) /\ spc' = [spc EXCEPT ![w] = "run"]
         /\ UNCHANGED <<lazy, lazyseen, pending, served, h>>

Work(w) == /\ spc[w] = "run" /\ pc[w] # "done" /\ WorkerStep(w)
           /\ h' = Append(h, <<w, pc[w], req[w]>>)
           /\ UNCHANGED <<spc, lazy, lazyseen, pending, served>>

Close(w) == /\ spc[w] = "run" /\ Finish(w)
            /\ spc' = [spc EXCEPT ![w] = IF Forking THEN "zombie" ELSE "free"]
            /\ served' = served + 1
            /\ UNCHANGED <<lazy, lazyseen, pending, h>>

Reap(w) == /\ spc[w] = "zombie" /\ spc' = [spc EXCEPT ![w] = "free"]
           /\ UNCHANGED <<cvars, lazy, lazyseen, pending, served, h>>

Time   == Tick(T) /\ h' = Append(h, <<0, "tick", "">>) /\ UNCHANGED <<spc, lazy, lazyseen, pending, served>>

SNext == \/ \E w \in Workers : \E p \in Protos : Accept(w, p)
         \/ \E w \in Workers : Sniff(w) \/ LazyCheck(w) \/ LazySet(w) \/ Go(w) \/ Work(w) \/ Close(w) \/ Reap(w)
         \/ Time

SSpec == SInit /\ [][SNext]_svars

\* liveness is checked on the time-free behaviours (finite state space without a constraint),
\* with weak fairness of the accept loop, of every worker and of reaping
SNextL == \/ \E w \in Workers : \E p \in Protos : Accept(w, p)
          \/ \E w \in Workers : Sniff(w) \/ LazyCheck(w) \/ LazySet(w) \/ Go(w) \/ Work(w) \/ Close(w) \/ Reap(w)
SFair == /\ SInit /\ [][SNextL]_svars
         /\ WF_svars(\E w \in Workers : \E p \in Protos : Accept(w, p))
         /\ \A w \in Workers : /\ WF_svars(Reap(w))
                                /\ WF_svars(Sniff(w) \/ LazyCheck(w) \/ LazySet(w) \/ Go(w) \/ Work(w) \/ Close(w))

Bound == clock <= MaxClock /\ Len(hist) <= MaxHist
NoH == <<cvars, spc, lazy, lazyseen, pending, served>>
AllDone == pending = 0 /\ \A w \in Workers : spc[w] \in {"free", "zombie"}

\* C14: each client receives exactly what it would have received alone (the directory does
\* not change here, so "alone" is the current directory, without another protocol's rewrite)
Isolated == \A w \in Workers : Done(w) => (out[w].d = dir /\ ~out[w].leak)

\* the accept loop is never blocked by a worker: a pending connection and a free worker
\* always enable Accept, whatever the other workers are doing
AcceptLive == (pending > 0 /\ \E w \in Workers : spc[w] = "free" /\ pc[w] = "idle")
                  => ENABLED (\E w \in Workers : Accept(w, "G"))

\* every response is produced: served + in flight + pending = NConn
Conservation == served + pending + Cardinality({w \in Workers : spc[w] \notin {"free", "zombie"}}) = NConn

\* liveness (checked with SFair, no state constraint): finished workers are reaped and all
\* connections are eventually served
Reaped == <>[](\A w \in Workers : spc[w] # "zombie")
AllServed == <>(served = NConn)
=============================================================================
