------------------------------- MODULE MC_C03 -------------------------------
(* Bounded design models for C03 over the connection machine of Server.                     *)
(*                                                                                          *)
(* MC_C03_req (SPECIFICATION ReqSpec): TLC enumerates the request space                    *)
(*     protocol frame  x  selector shape  x  argument shape  x  handler list               *)
(* as request LINES (strings), runs the machine on each and checks OneResponse,             *)
(* NoUnhandled and Bounded in every closed state.  Every closed state is also one replay    *)
(* case for the real server (binding B2: the dump is read by harness/c03.py).               *)
(*                                                                                          *)
(* The history half (HistoryFree) is MC_C03_hist, which extends this module.                *)
EXTENDS Server, TLC, MC_C03_consts

CONSTANTS
    Frames, Sels,          \* names of the frames / literal selector texts enumerated
    ArgFrames, ArgSels, Args,   \* virtual-argument part of the space
    HLs,                   \* handler lists
    Reps,                  \* sequence of representative requests [f, s, a] for histories
    MaxHist                \* history length bound

--------------------------------------------------------------------------------
(* gamma, first half: the request line of a frame around the selector text x               *)
LineOf(f, x) ==
    CASE f = "g"         -> x \o CRLF
      [] f = "g_lf"      -> x \o "\n"
      [] f = "g_eof"     -> x
      [] f = "g_sp"      -> " " \o x \o " " \o CRLF
      [] f = "g_tab"     -> x \o "\t" \o CRLF
      [] f = "g_q"       -> x \o "\tquery" \o CRLF
      [] f = "g_q_tab"   -> x \o "\tquery\t" \o CRLF
      [] f = "g_4f"      -> x \o "\ta\tb\tc" \o CRLF
      [] f = "gp_plus"   -> x \o "\t+" \o CRLF
      [] f = "gp_view"   -> x \o "\t+text/plain" \o CRLF
      [] f = "gp_info"   -> x \o "\t!" \o CRLF
      [] f = "gp_dir"    -> x \o "\t$" \o CRLF
      [] f = "gp_q"      -> x \o "\tquery\t+" \o CRLF
      [] f \in {"h_get", "h_noblank", "h_hdrs", "h_hdrs_noblank", "w_hdr", "th_get"} -> "GET " \o x \o " HTTP/1.0" \o CRLF
      [] f = "h_head"    -> "HEAD " \o x \o " HTTP/1.0" \o CRLF
      [] f = "h_11"      -> "GET " \o x \o " HTTP/1.1" \o CRLF
      [] f = "h_09"      -> "GET " \o x \o CRLF
      [] f = "h_post"    -> "POST " \o x \o " HTTP/1.0" \o CRLF
      [] f = "h_q"       -> "GET " \o x \o "?searchrequest=q HTTP/1.0" \o CRLF
      [] f = "w_get"     -> "GET /wap" \o x \o " HTTP/1.0" \o CRLF
      [] f = "w_head"    -> "HEAD /wap" \o x \o " HTTP/1.0" \o CRLF
      [] f \in {"gem", "gem_plain"} -> "gemini://localhost" \o x \o CRLF
      [] f = "gem_q"     -> "gemini://localhost" \o x \o "?q" \o CRLF
      [] f = "gem_ip6"   -> "gemini://[::1]" \o x \o CRLF
      [] f = "gem_bad1"  -> "gemini://[::1" \o x \o CRLF
      [] f = "gem_bad2"  -> "gemini://[" \o x \o CRLF
      [] f = "gem_bad3"  -> "gemini://::1]" \o x \o CRLF
      [] f = "gem_noauth" -> "gemini://" \o x \o CRLF
      [] f = "gem_query" -> "gemini://localhost/GEMINI-QUERY" \o x \o CRLF
      [] f = "gem_query_q" -> "gemini://localhost/GEMINI-QUERY" \o x \o "?q" \o CRLF
      \* a non-ASCII character class in every numeric / syntactic position of a frame (SUP2, ARD3, NAL: Server.tla)
      [] f = "s_len_nd"    -> "localhost " \o x \o " " \o SUP2 \o CRLF          \* Spartan length: digit that is not decimal
      [] f = "s_len_ud"    -> "localhost " \o x \o " " \o ARD3 \o CRLF          \* Spartan length: non-ASCII decimal digit
      [] f = "s_host_na"   -> "loc" \o NAL \o "lhost " \o x \o " 0" \o CRLF       \* Spartan host not ASCII
      [] f = "gem_port_nd" -> "gemini://localhost:" \o SUP2 \o x \o CRLF          \* Gemini port
      [] f = "h_ver_nd"    -> "GET " \o x \o " HTTP/1." \o SUP2 \o CRLF            \* HTTP version
      [] f = "gp_view_na"  -> x \o "\t+" \o SUP2 \o CRLF                          \* Gopher+ view field
      [] f = "g_q_na"      -> x \o "\t" \o NAL \o ARD3 \o CRLF                   \* search field
      [] f \in {"s", "s_tls"} -> "localhost " \o x \o " 0" \o CRLF
      [] f \in {"s_body", "s_short"} -> "localhost " \o x \o " 5" \o CRLF
      [] f = "s_2sp"     -> "localhost  " \o x \o " 0" \o CRLF
      [] f \in {"tg"}    -> x \o CRLF
      [] f = "tg_tab"    -> x \o "\t" \o CRLF
      [] f = "tgp_plus"  -> x \o "\t+" \o CRLF
TlsOf(f) == f \in {"gem_port_nd", "gem", "gem_q", "gem_ip6", "gem_bad1", "gem_bad2", "gem_bad3", "gem_noauth", "gem_query",
                   "gem_query_q", "tg", "tg_tab", "tgp_plus", "th_get", "s_tls"}
WapOf(f) == f = "w_hdr"
TailOf(f) ==
    CASE f \in {"h_get", "h_head", "h_11", "h_q", "w_get", "w_head", "th_get", "h_ver_nd"} -> "blank"
      [] f = "h_hdrs" -> "hdrs"
      [] f = "h_hdrs_noblank" -> "hdrs_noblank"
      [] f = "w_hdr" -> "wap"
      [] f = "s_body" -> "body5"
      [] f = "s_short" -> "body2of5"
      [] OTHER -> "none"

Req(f, s, a, hl) ==
    [line |-> LineOf(f, s \o a), tls |-> TlsOf(f), wap |-> WapOf(f), hl |-> hl, tail |-> TailOf(f),
     fk |-> 0, fcls |-> "none", nw |-> 0, id |-> f \o " :: " \o s \o a \o " :: " \o hl]


--------------------------------------------------------------------------------
(* MC_C03_req *)
ReqInit ==
    \E hl \in HLs :
       \/ \E f \in Frames, s \in Sels : InitConn(Req(f, s, "", hl), TreeOf(hl))
       \/ \E f \in ArgFrames, s \in ArgSels, a \in Args : InitConn(Req(f, s, a, hl), TreeOf(hl))
ReqSpec == ReqInit /\ [][Step]_vars

Closed == pc = "closed"
OneResponse == Closed => (Excused \/ OneResponseV(ModelView))
NoUnhandled == Closed => (Excused \/ NoUnhandledV(ModelView))
Bounded     == Closed => BoundedV(ModelView, OpsBound)
\* the recorded defects are real in the model too: an excused site does break a clause
\* (GemLongRedirect bites in BYTES: the model's status line holds two-byte stand-in characters and Grammar counts the
\* characters of a line, so the model's own reply stays under the limit that the observed byte stream exceeds)
DefectsBite == (Closed /\ Excused /\ site \notin {"ArtefactFetchable", "PycacheListed", "GemLongRedirect"})
                   => C03Verdict(ModelView, OpsBound) # "ok"
\* every connection terminates: no state other than a closed one is without successor
Terminates == (~Closed) => ENABLED Step

=============================================================================
