SPECIFICATION Spec
CONSTANTS
  StrictType <- K_StrictType
  LooseType <- K_LooseType
  SufOf <- K_SufOf
  EncOf <- K_EncOf
  EncKeys <- K_EncKeys
  Mapping <- K_Mapping
  Patt <- K_Patt
  IgnoreRe <- K_IgnoreRe
  Cfg <- K_Cfg
  Cfgs <- K_Cfgs
  ACfgs <- K_ACfgs
  DoubleCfgs <- K_DoubleCfgs
  TitleFull <- K_TitleFull
  TitleMid <- K_TitleMid
  TitleSmall <- K_TitleSmall
  BodyToks <- K_BodyToks
  Body3Toks <- K_Body3Toks
  HtmlNames <- K_HtmlNames
  FullHtmlNames <- K_FullHtmlNames
  SmallWraps <- K_SmallWraps
  AllExts <- K_AllExts
  AExts <- K_AExts
  RepExts <- K_RepExts
  RepTypeExts <- K_RepTypeExts
  EncVariants <- K_EncVariants
  SecondExts <- K_SecondExts
  TripleFirst <- K_TripleFirst
  TripleEnc <- K_TripleEnc
  DotFileExts <- K_DotFileExts
  Specials <- K_Specials
  DirNames <- K_DirNames
  DottedDirs <- K_DottedDirs
  DeepNames <- K_DeepNames
  AuditMaps <- K_AuditMaps
  ExtraMimes <- K_ExtraMimes
  EncTabs <- K_EncTabs
  EncConfigured <- K_EncConfigured
  ConfTypes <- K_ConfTypes
  MaxBody = 2
INVARIANT FirstMatchWinsInv
INVARIANT ShippedYieldsInv
INVARIANT TableTypedInv
INVARIANT AnnouncedIsDeliveredInv
INVARIANT HtmlOnlyNamesInv
INVARIANT StripOnlyNameInv
INVARIANT TitleCleanInv
INVARIANT TitleShownInv
INVARIANT NoTitleKeepsNameInv
INVARIANT DeviationsNamedInv
INVARIANT RepsCoverRulesInv
INVARIANT TablesAsConfiguredInv
CHECK_DEADLOCK FALSE
