---------------------------- MODULE MC_C17_Cases ----------------------------
(* The bounded TAL grammar of C17/C18: contexts, expression sets and template families.     *)
(* A case is [fam, tree, ctx, py]: tree = sequence of top-level nodes, ctx = name of a       *)
(* context of Contexts, py = allowPythonPath.  The families:                                 *)
(*   expr   one element, one command position, every expression of the TALES set            *)
(*   one    one element with every subset of the six TAL commands                            *)
(*   void   the same on an element without end tag                                           *)
(*   nest   parent x child command subsets, nested repeats, local/global defines             *)
(*   metal  define-macro / use-macro / define-slot / fill-slot                                *)
(*   esc    (C18) values over markup metacharacters in every substitution position          *)
(*   py     (C18) python: expressions in every command position, gate on and off            *)
EXTENDS TALES

CONSTANTS Quick,        \* TRUE: the smaller option sets of the quick tier
          EscLen        \* length bound (in tokens) of the metacharacter values of family esc

SX == INSTANCE SequencesExt
Sq(set) == SX!SetToSeq(set)      \* a set of options as a sequence (TLC's normalised order: deterministic)

\* ---- contexts (sequences of Ent(name, value); gamma turns them into Python objects) ------------
CtxA == <<
    Ent("s", Str("txt")), Ent("lt", Str("a<b")), Ent("e", Str("")), Ent("n", Num(7)), Ent("z", Num(0)),
    Ent("nul", None),
    Ent("lst", SeqV(<<Str("a"), Str("b<"), Str("c")>>)), Ent("one", SeqV(<<Str("x")>>)), Ent("el", SeqV(<<>>)),
    Ent("holes", SeqV(<<Str("a"), None, Str("b")>>)),
    Ent("mp", MapV(<<Ent("k", Str("v")), Ent("n", Num(3)), Ent("sub", MapV(<<Ent("k2", Str("w"))>>)),
                     Ent("l", SeqV(<<Str("m0"), Str("m1")>>))>>)),
    Ent("emp", MapV(<<>>)),
    Ent("recs", SeqV(<<MapV(<<Ent("label", Str("one"))>>), MapV(<<Ent("other", Str("o"))>>), MapV(<<Ent("label", Str("three"))>>)>>)),
    Ent("rows", SeqV(<<SeqV(<<Str("p"), None>>), SeqV(<<None, Str("q")>>)>>)),
    Ent("fn", CallV(Str("called"))), Ent("fnl", CallV(SeqV(<<Str("f0"), Str("f1")>>))), Ent("fnn", CallV(None)),
    Ent("it", IterV(<<Str("i1"), Str("i2")>>)), Ent("eit", IterV(<<>>)) >>
\* the same names bound to other kinds of values (thorough tier)
CtxB == <<
    Ent("s", Num(5)), Ent("lt", Str("<i>&\"'")), Ent("e", SeqV(<<>>)), Ent("n", Str("0")), Ent("z", Str("")),
    Ent("nul", Str("nn")),
    Ent("lst", IterV(<<Str("a"), None, Num(0)>>)), Ent("one", Str("xy")), Ent("el", IterV(<<>>)),
    Ent("holes", SeqV(<<None, None>>)),
    Ent("mp", MapV(<<Ent("k", None), Ent("n", Num(0)), Ent("sub", Str("st")), Ent("l", SeqV(<<>>))>>)),
    Ent("emp", None),
    Ent("recs", SeqV(<<MapV(<<Ent("label", None)>>), MapV(<<Ent("label", Str("<two>"))>>)>>)),
    Ent("rows", SeqV(<<SeqV(<<>>), Str("ab"), SeqV(<<Num(1)>>)>>)),
    Ent("fn", CallV(Num(0))), Ent("fnl", CallV(Str("fs"))), Ent("fnn", CallV(Default)),
    Ent("it", SeqV(<<Str("i1")>>)), Ent("eit", SeqV(<<>>)) >>
Contexts == [A |-> CtxA, B |-> CtxB]

P(p) == Path(p)
S(parts) == StringE(parts)

\* ---- the TALES expression set ------------------------------------------------------------------------
PathSet == {P(p) : p \in {"s", "lt", "e", "n", "z", "nul", "lst", "el", "mp", "emp", "fn", "fnl", "fnn", "it", "zz",
                         "nothing", "default", "mp/k", "mp/n", "mp/sub/k2", "mp/zz", "mp/sub/zz", "zz/k", "lst/0",
                         "lst/2", "lst/3", "lst/x", "s/1", "n/0", "fnl/1", "nul/x", "mp/l/1", "attrs/id", "attrs/zz",
                         "repeat/zz/index"}}
AltSet == {Alt(<<P("zz"), P("s")>>), Alt(<<P("zz"), P("zz2")>>), Alt(<<P("nul"), P("s")>>), Alt(<<P("s"), P("lt")>>),
           Alt(<<P("zz"), P("default")>>), Alt(<<P("zz"), P("nothing")>>), Alt(<<P("mp/zz"), P("mp/k")>>),
           Alt(<<P("zz"), P("zz2"), P("n")>>), Alt(<<P("zz"), S(<<Lit("fb")>>)>>), Alt(<<P("zz"), Not(P("z"))>>),
           Alt(<<P("zz"), Exists(P("s"))>>), Alt(<<P("zz"), NoCall(P("fn"))>>), Alt(<<P("mp/zz"), S(<<Lit("k="), Sub(P("mp/k"))>>)>>)}
PrefixSet == {Exists(P(p)) : p \in {"s", "zz", "nul", "mp/k", "mp/zz", "fn", "lst/5", "e"}}
        \cup {Not(P(p)) : p \in {"s", "e", "z", "n", "zz", "nul", "el", "lst", "emp", "mp", "default", "nothing", "fn", "it", "eit"}}
        \cup {Not(Exists(P("zz"))), Not(Not(P("s"))), Not(Alt(<<P("zz"), P("z")>>))}
        \cup {NoCall(P(p)) : p \in {"s", "fn", "zz", "mp/k"}}
StringSet == {S(<<Lit("hello")>>), S(<<Lit("a "), Var("s"), Lit(" b")>>), S(<<Sub(P("mp/k")), Lit("!")>>),
              S(<<DD, Lit("5")>>), S(<<Var("zz"), Lit(" end")>>), S(<<Sub(Alt(<<P("zz"), P("s")>>))>>),
              S(<<Lit("n="), Var("n")>>), S(<<Sub(P("nul")), Lit("x")>>), S(<<Lit("<"), Var("lt"), Lit(" >")>>),
              S(<<Sub(Not(P("z")))>>), S(<<Var("mp/sub/k2")>>), S(<<>>), S(<<Sub(Exists(P("zz"))), Sub(P("fn"))>>)}
ExprSet == PathSet \cup AltSet \cup PrefixSet \cup StringSet
RepeatVarSet == {P("repeat/x/" \o a) : a \in {"index", "number", "even", "odd", "start", "end", "length", "letter", "roman"}}

\* written order of the commands of an element: reversed when their number is even
RECURSIVE Rev(_)
Rev(q) == IF Len(q) = 0 THEN <<>> ELSE Rev(Tail(q)) \o <<Head(q)>>
Written(tal) == IF Len(tal) % 2 = 0 THEN Rev(tal) ELSE tal
Opt(set) == {<<>>} \cup {<<x>> : x \in set}

BaseAtts == <<At("id", "i"), At("class", "c")>>
Base(tal) == El("p", BaseAtts, Written(tal), <<TextN("T"), El("b", <<>>, <<>>, <<TextN("k")>>)>>)
Wrap(el) == <<TextN("["), el, TextN("]")>>

\* a repeated element with original attributes id, class whose child has TAL commands and the attributes id, title
AttrsBase(tal) == El("p", BaseAtts, Written(tal),
                     <<TextN("T"), El("b", <<At("id", "kid"), At("title", "tt")>>, <<CContent(Alt(<<P("x"), P("attrs/title")>>), FALSE)>>, <<TextN("k")>>)>>)
AttrsTals == {<<CRepeat("x", r)>> \o t :
                 r \in {P("lst"), P("one")},
                 t \in {<<CAttributes(<<Item(FALSE, "class", P(a))>>)>> : a \in {"attrs/id", "attrs/title", "attrs/zz"}}
                      \cup {<<COmit(P("attrs/title"))>>, <<COmit(Not(P("attrs/class")))>>,
                            <<CContent(Alt(<<P("attrs/title"), P("default")>>), FALSE)>>, <<CReplace(Alt(<<P("attrs/title"), P("default")>>), FALSE)>>,
                            <<CCondition(P("attrs/class")), CAttributes(<<Item(FALSE, "title", S(<<Sub(P("attrs/id")), Lit("-"), Sub(P("repeat/x/number"))>>))>>)>>,
                            <<CDefine(<<Item(FALSE, "v", P("attrs/id"))>>), CAttributes(<<Item(FALSE, "class", Alt(<<P("attrs/title"), P("v")>>))>>), COmit(P("attrs/zz"))>>}}

\* ---- family expr -----------------------------------------------------------------------------------------
ExprTrees ==
    {Wrap(Base(<<CContent(e, FALSE)>>)) : e \in ExprSet}
    \cup {Wrap(Base(<<CContent(e, TRUE)>>)) : e \in ExprSet}
    \cup {Wrap(Base(<<CReplace(e, FALSE)>>)) : e \in ExprSet}
    \cup {Wrap(Base(<<CCondition(e)>>)) : e \in ExprSet}
    \cup {Wrap(Base(<<COmit(e)>>)) : e \in ExprSet}
    \cup {Wrap(Base(<<CAttributes(<<Item(FALSE, "class", e), Item(FALSE, "title", e)>>)>>)) : e \in ExprSet}
    \cup {Wrap(Base(<<CDefine(<<Item(FALSE, "v", e), Item(TRUE, "gv", P("v"))>>), CContent(Alt(<<P("v"), P("s")>>), FALSE)>>))
           \o <<El("i", <<>>, <<CContent(Alt(<<P("v"), P("gv"), S(<<Lit("none")>>)>>), FALSE)>>, <<>>)>> : e \in ExprSet}
    \cup {Wrap(Base(<<CRepeat("x", e), CContent(Alt(<<P("x"), S(<<Lit("-")>>)>>), FALSE)>>)) : e \in ExprSet \cup {P("holes"), P("one"), P("recs"), P("rows"), P("eit")}}
    \* (the `length` of an iterator repeat is sys.maxsize: outside E.4 and outside TLC's integers; `length` is asked only of
    \* sources that are sequences or strings in every context)
    \cup {Wrap(Base(<<CRepeat("x", r), CContent(e, FALSE)>>)) : e \in RepeatVarSet \ {P("repeat/x/length")}, r \in {P("lst"), P("one"), P("s"), P("it")}}
    \cup {Wrap(Base(<<CRepeat("x", r), CContent(P("repeat/x/length"), FALSE)>>)) : r \in {P("one"), P("holes"), P("s")}}
    \cup {Wrap(Base(<<CRepeat("x", P("recs")), CContent(e, FALSE)>>)) :
              e \in {Alt(<<P("x/label"), P("default")>>), Alt(<<P("x/label"), S(<<Lit("item "), Sub(P("repeat/x/number"))>>)>>),
                     Alt(<<P("x/label"), P("nothing")>>), P("x/label")}}

    \* per-iteration state: what one iteration set must not be seen by the next (attributes kept by `default`)
    \cup {Wrap(Base(<<CRepeat("x", P("recs")), CAttributes(<<Item(FALSE, "class", Alt(<<P("x/label"), P("default")>>)),
                                                              Item(FALSE, "title", Alt(<<P("x/other"), P("nothing")>>))>>)>> \o ct)) :
              ct \in Opt({CContent(Alt(<<P("x/label"), P("default")>>), FALSE), CReplace(Alt(<<P("x/other"), P("default")>>), FALSE)})}

    \* `attrs` = the ORIGINAL attributes of the element whose command is evaluated - also in the 2nd and later iterations
    \* of a repeat, after a child element with its own TAL commands and its own (different) attributes has been expanded
    \cup {Wrap(AttrsBase(t)) : t \in AttrsTals}

\* ---- family one: every subset of the six commands ---------------------------------------------------------
Define1a == CDefine(<<Item(FALSE, "v", P("lt"))>>)
Define1b == CDefine(<<Item(TRUE, "gv", P("n")), Item(FALSE, "v", Alt(<<P("gv"), P("s")>>))>>)
CondOpts1   == Opt({CCondition(P("s")), CCondition(P("z"))} \cup (IF Quick THEN {} ELSE {CCondition(Not(P("v")))}))
RepeatOpts1 == Opt({CRepeat("x", P(p)) : p \in (IF Quick THEN {"lst", "el", "holes", "it"} ELSE {"lst", "el", "default", "holes", "it", "nul"})})
XorV == Alt(<<P("x"), P("v"), P("s")>>)
ContentExprs1 == {XorV, P("nothing"), P("default")} \cup (IF Quick THEN {} ELSE {S(<<Sub(Alt(<<P("repeat/x/number"), P("zz")>>)), Lit(":"), Sub(XorV)>>)})
ContentOpts1 == Opt({CContent(e, FALSE) : e \in ContentExprs1} \cup {CReplace(e, FALSE) : e \in ContentExprs1})
AttrOpts1   == Opt({CAttributes(<<Item(FALSE, "id", Alt(<<P("x"), P("s")>>)), Item(FALSE, "class", P("nothing"))>>),
                    CAttributes(<<Item(FALSE, "title", S(<<Sub(Alt(<<P("repeat/x/index"), P("z")>>))>>)), Item(FALSE, "id", P("default"))>>),
                    CAttributes(<<Item(FALSE, "class", Alt(<<P("v"), P("lt")>>))>>)} \ (IF Quick THEN {CAttributes(<<Item(FALSE, "class", Alt(<<P("v"), P("lt")>>))>>)} ELSE {}))
OmitOpts1   == Opt({COmit(NoE), COmit(P("z"))} \cup (IF Quick THEN {} ELSE {COmit(Alt(<<P("x"), P("s")>>))}))
Tail1Sib == El("i", <<>>, <<CContent(Alt(<<P("v"), P("gv"), P("x"), S(<<Lit("none")>>)>>), FALSE)>>, <<TextN("o")>>)
OneTree(o) == Wrap(Base(o[1] \o o[2] \o o[3] \o o[4] \o o[5] \o o[6])) \o <<Tail1Sib>>

\* ---- family void: an element without end tag ------------------------------------------------------------------
VoidTrees == {<<TextN("["), El("img", <<At("src", "u"), At("alt", "a<")>>, Written(d \o c \o r \o ct \o a \o o), <<>>), TextN("]")>> :
                d \in Opt({CDefine(<<Item(FALSE, "v", P("lt"))>>)}), c \in Opt({CCondition(P("s")), CCondition(P("z"))}),
                r \in Opt({CRepeat("x", P("lst")), CRepeat("x", P("el"))}),
                ct \in Opt({CReplace(XorV, FALSE), CReplace(P("default"), FALSE), CReplace(P("nothing"), FALSE)}),
                a \in Opt({CAttributes(<<Item(FALSE, "src", Alt(<<P("x"), P("v"), P("nothing")>>)), Item(FALSE, "title", P("lt"))>>)}),
                o \in Opt({COmit(NoE), COmit(P("z"))})}
            \cup {<<El("div", <<>>, <<>>, <<TextN("a"), El("br", <<>>, <<>>, <<>>), TextN("b"),
                       El("hr", <<At("class", "k")>>, <<CCondition(c)>>, <<>>), RawN("<!-- c -->")>>)>> : c \in {P("s"), P("z")}}

\* ---- family nest: parent x child ---------------------------------------------------------------------------------
PDefine  == Opt({CDefine(<<Item(FALSE, "v", P("s"))>>), CDefine(<<Item(TRUE, "gv", P("s"))>>)})
PCond    == Opt({CCondition(P("n"))})      \* (a false condition on the parent is family one's business: it would blank every child combination)
PRepeat  == Opt({CRepeat("r", P("rows")), CRepeat("r", P("lst")), CRepeat("r", P("el"))})
PContent == Opt({CContent(P("default"), FALSE), CContent(P("s"), FALSE)})
PAttr    == Opt({CAttributes(<<Item(FALSE, "id", Alt(<<P("repeat/r/number"), P("s")>>)), Item(FALSE, "title", Alt(<<P("attrs/class"), P("attrs/id")>>))>>)})
POmit    == Opt({COmit(NoE), COmit(P("attrs/class"))})
KDefine  == Opt({CDefine(<<Item(FALSE, "v", P("lt"))>>), CDefine(<<Item(TRUE, "gv", Alt(<<P("r"), P("lt")>>))>>)})
KCond    == Opt({CCondition(Alt(<<P("r"), P("v"), P("gv"), P("zz")>>))})
KRepeat  == Opt({CRepeat("c", P("r")), CRepeat("c", P("lst")), CRepeat("r", P("one"))})
KContent == Opt({CContent(Alt(<<P("c"), P("r"), P("v"), P("gv"), P("s")>>), FALSE),
                 CContent(S(<<Sub(Alt(<<P("repeat/r/index"), P("zz")>>)), Lit("."), Sub(Alt(<<P("repeat/c/index"), P("zz")>>))>>), FALSE)})
KAttr    == Opt({CAttributes(<<Item(FALSE, "title", Alt(<<P("attrs/id"), P("v")>>))>>)})
NestSib  == El("i", <<>>, <<CContent(Alt(<<P("v"), P("gv"), P("r"), P("c"), S(<<Lit("none")>>)>>), FALSE)>>, <<TextN("o")>>)
NestTree(ptal, ktal) ==
    <<El("div", <<At("id", "d")>>, Written(ptal),
         <<TextN("("), El("span", <<At("id", "k"), At("class", "kc")>>, Written(ktal), <<TextN("k")>>), TextN(")")>>), NestSib>>
\* three levels: repeat in repeat in repeat, define shadowing at every level (depth 3)
DeepTrees == {<<El("ul", <<>>, Written(<<CRepeat("a", P("rows"))>> \o d1),
                   <<El("li", <<>>, Written(<<CRepeat("b", ab)>> \o d2),
                        <<El("b", <<>>, <<CRepeat("c", P("one")), CContent(ct, FALSE)>>, <<TextN("z")>>), TextN(";")>>), TextN("|")>>), NestSib>> :
                 d1 \in Opt({CDefine(<<Item(FALSE, "v", P("repeat/a/number"))>>)}),
                 d2 \in Opt({CDefine(<<Item(FALSE, "v", P("b")), Item(TRUE, "gv", P("repeat/b/index"))>>)}),
                 ab \in {P("a"), P("lst")},
                 ct \in {Alt(<<P("b"), P("c")>>), P("v"), S(<<Sub(P("repeat/a/index")), Sub(P("repeat/b/index")), Sub(P("repeat/c/index")), Var("gv")>>)}}

\* nested repeats that REUSE the variable name: after the inner loop (and in later outer iterations) `x` and
\* repeat/x/... describe the outer loop again
SameNameTrees == {<<El("ul", <<>>, <<CRepeat("x", P("rows"))>>,
                      <<El("li", <<>>, <<CRepeat("x", inner), CContent(Alt(<<P("repeat/x/letter"), S(<<Lit("-")>>)>>), FALSE)>>, <<TextN("i")>>),
                        El("b", <<>>, <<CContent(after, FALSE)>>, <<TextN("t")>>), TextN(";")>>), NestSib>> :
                    inner \in {P("x"), P("lst"), P("el"), P("one")},
                    after \in {P("repeat/x/number"), P("repeat/x/end"), Exists(P("repeat/x/number")), Alt(<<P("repeat/x/index"), S(<<Lit("lost")>>)>>),
                               S(<<Sub(P("repeat/x/letter")), Lit("/"), Sub(P("repeat/x/length"))>>)}}

\* ---- family metal ---------------------------------------------------------------------------------------------------
MacroEl(mtal, stal) ==
    El("div", <<At("class", "m")>>, Written(<<CDefMacro("m1")>> \o mtal),
       <<TextN("M"), El("b", <<>>, Written(<<CDefSlot("s1")>> \o stal), <<TextN("d1")>>),
         El("u", <<>>, <<CDefSlot("s2")>>, <<TextN("d2")>>), TextN("!")>>)
Fill1(ftal) == El("i", <<>>, Written(<<CFillSlot("s1")>> \o ftal), <<TextN("F1")>>)
Fill2 == El("em", <<At("id", "f")>>, <<CFillSlot("s2")>>, <<TextN("F2")>>)
UseEl(ue, utal, fills) == El("p", <<At("id", "u")>>, Written(<<CUseMacro(ue)>> \o utal), <<TextN("junk")>> \o fills)
UseNone == {P("nothing"), P("macros/zz")}
UseExprs == {P("macros/m1"), Alt(<<P("macros/zz"), P("macros/m1")>>), P("nothing"), P("default"), P("s"), P("macros/zz")}
MacroTal == Opt({CDefine(<<Item(FALSE, "v", P("lt"))>>), CRepeat("x", P("lst")), CCondition(P("z"))})
SlotTal  == Opt({CContent(Alt(<<P("x"), P("v"), P("s")>>), FALSE), CCondition(P("z"))})
FillTal  == Opt({CContent(Alt(<<P("x"), P("v"), P("n")>>), FALSE)} \cup (IF Quick THEN {} ELSE {CRepeat("y", P("one"))}))
UseTal   == Opt({CContent(P("s"), FALSE), CDefine(<<Item(TRUE, "gv", P("n"))>>), CRepeat("x", P("one"))})
MetalSib == El("i", <<>>, <<CContent(Alt(<<P("v"), P("gv"), P("x"), S(<<Lit("none")>>)>>), FALSE)>>, <<>>)
MetalTree(first, mt, stl, use, fl) ==
    (IF first THEN <<MacroEl(mt, stl), TextN("/")>> ELSE <<>>) \o <<UseEl(use[1], use[2], fl), TextN("/")>>
    \o (IF first THEN <<>> ELSE <<MacroEl(mt, stl)>>) \o <<MetalSib>>
\* E.4 is silent on the other commands of an element whose use-macro evaluates to nothing
UsePairs == {<<ue, ut>> : ue \in UseExprs \ UseNone, ut \in UseTal} \cup {<<ue, <<>>>> : ue \in UseNone}
FillOpts == {<<>>} \cup (IF Quick THEN {} ELSE {<<Fill2>>}) \cup {<<Fill1(ft)>> : ft \in FillTal} \cup {<<Fill1(ft), Fill2>> : ft \in FillTal}
\* two uses of the same macro with different fillers, and a template value as structured content
MetalExtra == {<<MacroEl(<<>>, <<>>), UseEl(P("macros/m1"), <<>>, <<Fill1(<<>>)>>), UseEl(P("macros/m1"), <<>>, <<Fill2>>),
            El("q", <<>>, <<CContent(P("macros/m1"), st)>>, <<TextN("o")>>),
            El("p", <<>>, <<CRepeat("x", P("lst"))>>, <<UseEl(P("macros/m1"), <<>>, <<Fill1(<<CContent(P("x"), FALSE)>>)>>)>>)>> : st \in {TRUE}}

\* ---- family esc (C18): markup metacharacters in every substitution position -------------------------------------------
\* the five characters html.escape knows, an ordinary one, and two tokens that LOOK already escaped (a named and a
\* numeric reference): escaping must not depend on what the data looks like
MetaAlphabet == {"<", ">", "&", "\"", "'", "a", "&lt;", "&#60;"}
MetaValues(n) == TX!StringsUpTo(MetaAlphabet, n) \ {""}
EscCtx(val) == <<Ent("d", Str(val)), Ent("ds", SeqV(<<Str(val), Str("a")>>)), Ent("dm", MapV(<<Ent("k", Str(val))>>))>>
EscShapes == {
    <<El("p", <<At("id", "i")>>, <<CContent(P("d"), FALSE)>>, <<TextN("t")>>)>>,
    <<El("p", <<At("id", "i")>>, <<CReplace(P("d"), FALSE)>>, <<TextN("t")>>), TextN(".")>>,
    <<El("a", <<At("href", "h"), At("id", "i")>>, <<CAttributes(<<Item(FALSE, "href", P("d")), Item(FALSE, "title", P("dm/k"))>>)>>, <<TextN("t")>>)>>,
    <<El("ul", <<>>, <<>>, <<El("li", <<>>, <<CRepeat("x", P("ds")), CContent(P("x"), FALSE), CAttributes(<<Item(FALSE, "class", P("x"))>>)>>, <<>>)>>)>>,
    <<El("p", <<>>, <<CContent(S(<<Lit("<"), Var("d"), Lit(" "), Sub(P("dm/k")), Lit(">")>>), FALSE)>>, <<>>)>>,
    <<El("p", <<>>, <<CDefine(<<Item(FALSE, "v", P("d"))>>), CContent(P("v"), FALSE)>>, <<>>), El("img", <<At("alt", "x")>>, <<CAttributes(<<Item(FALSE, "alt", P("d"))>>)>>, <<>>)>>,
    <<El("p", <<>>, <<CContent(P("d"), TRUE)>>, <<TextN("t")>>)>>,
    <<El("div", <<>>, <<CDefMacro("m1")>>, <<El("b", <<>>, <<CDefSlot("s1")>>, <<TextN("d")>>)>>),
      El("p", <<>>, <<CUseMacro(P("macros/m1"))>>, <<El("i", <<At("id", "f")>>, <<CFillSlot("s1"), CContent(P("d"), FALSE), CAttributes(<<Item(FALSE, "id", P("d"))>>)>>, <<>>)>>)>> }

\* ---- family py (C18): python: in every command position ------------------------------------------------------------------
PyE == Python("canary()")
PyTrees == {Wrap(Base(t)) : t \in {<<CContent(PyE, FALSE)>>, <<CReplace(PyE, FALSE)>>, <<CCondition(PyE)>>, <<COmit(PyE)>>,
                                   <<CAttributes(<<Item(FALSE, "title", PyE)>>)>>, <<CRepeat("x", PyE), CContent(P("x"), FALSE)>>,
                                   <<CDefine(<<Item(FALSE, "v", PyE)>>), CContent(P("v"), FALSE)>>,
                                   <<CContent(Alt(<<P("zz"), PyE>>), FALSE)>>, <<CContent(S(<<Lit("a"), Sub(PyE)>>), FALSE)>>,
                                   <<CContent(Not(PyE), FALSE)>>, <<CCondition(P("z")), CContent(PyE, FALSE)>>}}

\* ---- family doc (C18): TAL-free documents --------------------------------------------------------------------------------
\* a small document grammar: elements, attributes, text with metacharacters, comments, doctype, void elements;
\* `var` selects one of gamma's spellings (quote style, entity / character reference form, letter case,
\* <br> vs <br/>): the parsed document is the same in every spelling
DocTexts == {"a", "a<b", "x & y", "\"q\"'s", "1>0", "&amp;"}
DocAtts  == {<<>>, <<At("id", "i")>>, <<At("title", "a\"b")>>, <<At("href", "x?a=1&b=2"), At("class", "c'd")>>, <<At("alt", "<>")>>}
DocLeaves == {TextN(t) : t \in DocTexts} \cup {RawN("<!-- c -->"), El("br", <<>>, <<>>, <<>>)} \cup {El("img", a, <<>>, <<>>) : a \in DocAtts \ {<<>>}}
DocKids(n) == UNION {[1..k -> DocLeaves] : k \in 0..n}
DocElems(n) == {El(tag, a, <<>>, k) : tag \in {"div", "b"}, a \in DocAtts, k \in DocKids(n)}
DocTreesSmall == {<<e>> : e \in DocElems(1)}
                 \cup {<<RawN("<!DOCTYPE html>"), El("html", <<>>, <<>>, <<El("p", a, <<>>, <<e>>), TextN(t)>>)>> : a \in DocAtts, e \in DocElems(0), t \in DocTexts}
\* raw-text elements: their content is not parsed for references or markup
DocRawText == {<<El("div", <<>>, <<>>, <<El(tag, a, <<>>, <<TextN(t)>>), TextN("a<b")>>)>> :
                  tag \in {"script", "style"}, a \in {<<>>, <<At("id", "i")>>}, t \in {"ok", "if (a<b && c) x()", "a > b"}}
DocTreesLarge == {<<e>> : e \in DocElems(2)} \cup {<<El("p", a, <<>>, <<e, TextN("z")>>)>> : a \in DocAtts, e \in DocElems(1)}
DocVariants == 0..3

\* ---- descriptors ---------------------------------------------------------------------------------------------------------
\* The model checker enumerates DESCRIPTORS [fam, ix, ctx, tree] and builds the case in an action.
\* Product families (one, nest, metal, esc, py) are given by DIMENSIONS (sequences of options) and a builder from one
\* option per dimension: ix = one index per dimension, tree = <<>> until built (big sets of big trees are never
\* built).  Set families (expr, void, deep, metalx, doc) are small sets of trees: the descriptor carries the tree.
DocTrees == DocRawText \cup (IF Quick THEN DocTreesSmall ELSE DocTreesSmall \cup DocTreesLarge)
SetFams == {"expr", "void", "deep", "metalx", "doc"}
TreesOf(f) == CASE f = "expr" -> ExprTrees [] f = "void" -> VoidTrees [] f = "deep" -> DeepTrees \cup SameNameTrees
                [] f = "metalx" -> MetalExtra [] f = "doc" -> DocTrees [] OTHER -> {<<>>}
Dims(f) ==
    CASE f = "one"   -> <<Sq(Opt({Define1a, Define1b})), Sq(CondOpts1), Sq(RepeatOpts1), Sq(ContentOpts1), Sq(AttrOpts1), Sq(OmitOpts1)>>
      [] f = "nest"  -> (IF Quick  \* quick tier: the parent has no condition and no omit-tag, the child no attributes
                         THEN <<Sq(PDefine), Sq({<<>>}), Sq(Opt({CRepeat("r", P("rows")), CRepeat("r", P("lst"))})), Sq(Opt({CContent(P("default"), FALSE)})),
                                Sq(PAttr), Sq({<<>>}), Sq(KDefine), Sq(KCond), Sq(KRepeat), Sq(KContent), Sq({<<>>})>>
                         ELSE <<Sq(PDefine), Sq(PCond), Sq(PRepeat), Sq(PContent), Sq(PAttr), Sq(POmit), Sq(KDefine), Sq(KCond), Sq(KRepeat), Sq(KContent), Sq(KAttr)>>)
      [] f = "metal" -> <<IF Quick THEN <<TRUE>> ELSE <<TRUE, FALSE>>, Sq(MacroTal), Sq(SlotTal), Sq(UsePairs), Sq(FillOpts)>>
      [] f = "esc"   -> <<Sq(EscShapes), Sq(MetaValues(EscLen))>>
      [] f = "py"    -> <<Sq(PyTrees), <<FALSE, TRUE>>>>
      [] f = "doc"   -> <<<<0, 1, 2, 3>>>>
      [] OTHER       -> <<>>

RECURSIVE Prod(_, _)
Prod(dims, i) == IF i > Len(dims) THEN {<<>>} ELSE {<<a>> \o r : a \in 1..Len(dims[i]), r \in Prod(dims, i + 1)}
Indices(f) == Prod(Dims(f), 1)
RECURSIVE Rank(_, _, _)          \* mixed-radix number of an index vector (to split a product family over processes)
Rank(dims, ix, i) == IF i > Len(dims) THEN 0 ELSE (ix[i] - 1) + Len(dims[i]) * Rank(dims, ix, i + 1)

\* the contexts a family is run with: esc brings its own values, py and doc need one context only
CtxFor(f, ctxs) == IF f \in {"esc", "doc"} THEN {"none"} ELSE IF f = "py" THEN {"A"} ELSE ctxs

\* ctx = [id |-> name of a context of Contexts ("none": no named context), ents |-> further globals]
Case(fam, tree, id, ents, py, var) == [fam |-> fam, tree |-> tree, ctx |-> [id |-> id, ents |-> ents], py |-> py, var |-> var]
CaseOf(d) ==
    LET dims == Dims(d.fam)
        o    == [i \in DOMAIN d.ix |-> dims[i][d.ix[i]]]
    IN CASE d.fam = "one"   -> Case("one", OneTree(o), d.ctx, <<>>, FALSE, 0)
         [] d.fam = "nest"  -> Case("nest", NestTree(o[1] \o o[2] \o o[3] \o o[4] \o o[5] \o o[6], o[7] \o o[8] \o o[9] \o o[10] \o o[11]), d.ctx, <<>>, FALSE, 0)
         [] d.fam = "metal" -> Case("metal", MetalTree(o[1], o[2], o[3], o[4], o[5]), d.ctx, <<>>, FALSE, 0)
         [] d.fam = "esc"   -> Case("esc", o[1], "none", EscCtx(o[2]), FALSE, 0)
         [] d.fam = "py"    -> Case("py", o[1], d.ctx, <<>>, o[2], 0)
         [] d.fam = "doc"   -> Case("doc", d.tree, "none", <<>>, FALSE, o[1])
         [] OTHER           -> Case(d.fam, d.tree, d.ctx, <<>>, FALSE, 0)
\* (set families are not split: they belong to part 0)
Descs(fams, ctxs, nparts, part) ==
    UNION {{[fam |-> f, ix |-> ix, ctx |-> c, tree |-> t] :
               ix \in {x \in Indices(f) : IF f \in SetFams THEN part = 0 ELSE Rank(Dims(f), x, 1) % nparts = part},
               c \in CtxFor(f, ctxs), t \in TreesOf(f)} : f \in fams}
NoCase == Case("", <<>>, "none", <<>>, FALSE, 0)
CtxEnts(c) == (IF c.ctx.id \in DOMAIN Contexts THEN Contexts[c.ctx.id] ELSE <<>>) \o c.ctx.ents
=============================================================================
