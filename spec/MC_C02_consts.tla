---------------------------- MODULE MC_C02_consts ----------------------------
(* Constants of the C02 models.  This checked-in copy holds the values of the pinned tree  *)
(* and small bounds so that the models can be run by hand; harness/c02.py REGENERATES this  *)
(* module for every run (binding B1: C_Shipped and C_WapTop are read from                   *)
(* $VERIF_REPO/conf/pygopherd.conf at check time; bounds per tier; C_EmptyPlusFieldRaises   *)
(* from the recorded findings).                                                             *)
C_WapTop == "/wap"
C_EmptyPlusFieldRaises == FALSE
C_GluedAcceptUnrecognised == TRUE      \* as coded on /repo HEAD (recorded finding C02-wap-accept-glued); FALSE once repaired
C_Shipped == <<"WAPProtocol", "GeminiProtocol", "HTTPProtocol", "HTTPSProtocol", "SpartanProtocol",
               "GopherPlusProtocol", "SecureGopherPlusProtocol", "GopherProtocol", "SecureGopherProtocol">>
\* protocol lists the models quantify over; C_Lists[1] is the shipped list
C_Lists == <<C_Shipped,
             <<"SecureGopherProtocol", "GopherProtocol", "SecureGopherPlusProtocol", "GopherPlusProtocol",
               "SpartanProtocol", "HTTPSProtocol", "HTTPProtocol", "GeminiProtocol", "WAPProtocol">>,
             <<"HTTPProtocol", "WAPProtocol", "GopherPlusProtocol">>,
             <<"WAPProtocol", "WAPProtocol", "HTTPProtocol", "HTTPSProtocol">> >>
\* every protocol occurring in some list, in a fixed order (alignment of the recorded "alone" answers)
C_Listed == C_Shipped
\* family A: every token sequence up to C_NA
C_TokensA == {"GET", "HEAD", "HTTP/", "gemini:", "/", "x", "0", " ", "\t", "+", "!", "$", "#", "_", "^", "\r"}
C_NA == 3
C_TermsA == {"\r\n", "\n", ""}
C_HdrsA == {<<>>}
\* family B: method sep path sep version terminator x header blocks; a sequence of parameter bundles
C_FamB == << [M |-> {"GET", "HEAD", "x"}, S |-> {" ", "\t"}, P |-> {"/wap", "/wap/x", "/wapx", "/wap?x", "/x", "x/wap", ""},
              V |-> {"HTTP/1.0", "xHTTP/", "0"}, T |-> {"\r\n", "\n"}, HK |-> {"AW", "AG", "XP"}, HN |-> 2] >>
\* family C: selector followed by 1..C_CN TAB-separated fields
C_CSel == {"", "x"}
C_CFields == {"", "+", "!", "$", "+x", "!x", "x", " "}
C_CN == 2
C_TermsC == {"\r\n"}
C_HdrsC == {<<>>}
\* family L: long lines ("@" = PAD run of k filler letters), k from length classes
C_LongLines == {"GET /@ HTTP/1.0", "GET /wap/@ HTTP/1.0", "@\t+", "x /@ 0", "@"}
C_Pads == {1000, 66000}
C_TermsL == {"\r\n"}
C_HdrsL == {<<>>}
=============================================================================
