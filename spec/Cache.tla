-------------------------------- MODULE Cache --------------------------------
(* The directory cache of pygopherd as a state machine            [C10, C11, C14]          *)
(*                                                                                          *)
(* Code abstracted: pygopherd/handlers/dir.py  DirHandler.prepare / loadcache / getdirlist  *)
(* / savecache, handlers/UMN.py UMNDirHandler.prepare, protocols/base.py writedir,          *)
(* protocols/gopherp.py renderobjinfo (in-place MIME rewrite while rendering).              *)
(*                                                                                          *)
(* State = the served directory (with its history, so that "as it was at most T ago" can be *)
(* stated), a virtual clock in half-second ticks (mtime truncation to whole seconds is      *)
(* visible), the cache file as a sequence of chunks (a writer truncates, then streams), and *)
(* per worker the steps of one listing request at the granularity of environment calls:     *)
(*   Start -> Probe (stat + clock) -> Load | Gen -> SaveOpen -> SaveWrite* -> Render -> Fin *)
(* Deviations of the code from an idealised cache are modelled and named:                   *)
(*   FloorMtime       freshness uses the integer-truncated mtime                            *)
(*   SaveBeforeRender the entry list is pickled before any protocol renders (mutates) it    *)
(*   SaveEvenIfZero   the cache file is written even when the lifetime is 0                 *)
(*   InPlaceWriter    the file is truncated and rewritten in place (no temp + rename)       *)
(*   LoadErrorRegenerates  an unreadable cache is treated as a miss (code after the fix:)   *)
EXTENDS Naturals, Integers, Sequences, FiniteSets

CONSTANTS Names,      \* file names that may exist in the directory (besides the fixed subdir)
          Workers,    \* concurrent requests
          Full,       \* number of chunks of a complete cache file (>= 1)
          Lifetimes   \* candidate lifetimes, in ticks (0 allowed)

VARIABLES dir,     \* Names -> "absent" | "v1" | "v2"   (present with metadata version 1 / 2)
          hist,    \* sequence of [t, d]: change points of dir (hist[1].t = 0)
          clock,   \* ticks (2 ticks = 1 second)
          T,       \* configured lifetime in ticks (cachetime * 2)
          file,    \* [exists, mtime, chunks, zero]: the cache file
          pc, mem, req, started, out, wpos   \* per worker

cvars == <<dir, hist, clock, T, file, pc, mem, req, started, out, wpos>>

Versions == {"absent", "v1", "v2"}
Protos   == {"G", "GP", "GD", "H", "HH"}   \* Gopher, Gopher+ (+ form), Gopher+ ($ form: attribute listing), HTTP GET,
                                           \* HTTP HEAD (prepare() without getdirlist(): nothing saved, nothing rendered)
HeadOnly(p) == p = "HH"

NoFile == [exists |-> FALSE, mtime |-> 0, chunks |-> <<>>, zero |-> FALSE]
NoOut  == [src |-> "none", d |-> [n \in Names |-> "absent"], leak |-> FALSE, at |-> 0]

--------------------------------------------------------------------------------
(* Pure operators *)

Floor2(t) == t - (t % 2)                       \* FloorMtime: stat()[ST_MTIME] is an int
Fresh(now, mtime, life) == now - Floor2(mtime) < life

\* a chunk is [d, k, leak]: k-th chunk of the pickle of listing d (leak: the pickled entries
\* already carried the Gopher+ MIME rewrite).  "hole" chunks come from writes beyond the end.
Complete(f) ==
    /\ f.exists /\ ~f.zero /\ Len(f.chunks) = Full
    /\ \A i \in 1..Full : f.chunks[i].k = i /\ f.chunks[i].d = f.chunks[1].d
                          /\ f.chunks[i].leak = f.chunks[1].leak

\* hist[i] is in force from hist[i].t until hist[i+1].t (closed interval: a value replaced within
\* the same tick still "was" the directory at that tick)
\* "reflects the directory as it was at most `life` ago" for a request served between start and now
ReflectsRecent(h, d, start, now, life) ==
    \E i \in 1..Len(h) : /\ h[i].d = d /\ h[i].t <= now
                          /\ (i = Len(h) \/ h[i + 1].t >= start - life)

\* history entries that no request starting from `now` on can still refer to are forgotten
Prune(h, now, life) ==
    LET keep == {i \in 1..Len(h) : i = Len(h) \/ h[i + 1].t >= now - life}
        lo == CHOOSE i \in keep : \A j \in keep : i <= j
    IN SubSeq(h, lo, Len(h))

WriteAt(chunks, pos, c) ==
    IF pos <= Len(chunks) THEN [chunks EXCEPT ![pos] = c]
    ELSE chunks \o [i \in 1..(pos - Len(chunks) - 1) |-> [d |-> c.d, k |-> 0, leak |-> FALSE]] \o <<c>>

--------------------------------------------------------------------------------
Init ==
    /\ dir \in [Names -> {"absent", "v1"}]
    /\ hist = <<[t |-> 0, d |-> dir]>>
    /\ clock = 0
    /\ T \in Lifetimes
    /\ file = NoFile
    /\ pc = [w \in Workers |-> "idle"]
    /\ mem = [w \in Workers |-> [d |-> dir, leak |-> FALSE]]
    /\ req = [w \in Workers |-> "G"]
    /\ started = [w \in Workers |-> 0]
    /\ out = [w \in Workers |-> NoOut]
    /\ wpos = [w \in Workers |-> 0]

(* ---- environment ---- *)
SetDir(d2) == /\ dir' = d2
              /\ hist' = Append(hist, [t |-> clock, d |-> d2])
              /\ UNCHANGED <<clock, T, file, pc, mem, req, started, out, wpos>>

Create(n)   == dir[n] = "absent" /\ SetDir([dir EXCEPT ![n] = "v1"])
Delete(n)   == dir[n] # "absent" /\ SetDir([dir EXCEPT ![n] = "absent"])
Rename(n,m) == n # m /\ dir[n] # "absent" /\ dir[m] = "absent"
               /\ SetDir([dir EXCEPT ![n] = "absent", ![m] = dir[n]])
EditMeta(n) == dir[n] # "absent" /\ SetDir([dir EXCEPT ![n] = IF dir[n] = "v1" THEN "v2" ELSE "v1"])

Tick(d) == /\ clock' = clock + d
           /\ LET busy == {started[w] : w \in {x \in Workers : pc[x] # "idle"}}
                  lo == CHOOSE m \in busy \cup {clock + d} : \A k \in busy \cup {clock + d} : m <= k
              IN hist' = Prune(hist, lo, T)
           /\ UNCHANGED <<dir, T, file, pc, mem, req, started, out, wpos>>

\* crash of a writer / full disk / manual damage: the file keeps only its first n chunks
Cut(n) == /\ file.exists /\ n < Len(file.chunks)
          /\ file' = [file EXCEPT !.chunks = SubSeq(file.chunks, 1, n)]
          /\ UNCHANGED <<dir, hist, clock, T, pc, mem, req, started, out, wpos>>
Zero   == /\ file.exists /\ ~file.zero /\ file' = [file EXCEPT !.zero = TRUE]
          /\ UNCHANGED <<dir, hist, clock, T, pc, mem, req, started, out, wpos>>

(* ---- one listing request, step by step ---- *)
Start(w, p) ==
    /\ pc[w] = "idle"
    /\ pc' = [pc EXCEPT ![w] = "probe"] /\ req' = [req EXCEPT ![w] = p]
    /\ started' = [started EXCEPT ![w] = clock]
    /\ UNCHANGED <<dir, hist, clock, T, file, mem, out, wpos>>

\* loadcache(): stat the cache file, read the clock, compare
Probe(w) ==
    /\ pc[w] = "probe"
    /\ pc' = [pc EXCEPT ![w] = IF file.exists /\ Fresh(clock, file.mtime, T) THEN "load" ELSE "gen"]
    /\ UNCHANGED <<dir, hist, clock, T, file, mem, req, started, out, wpos>>

\* open + pickle.load: sees whatever is on disk NOW; LoadErrorRegenerates
Load(w) ==
    /\ pc[w] = "load"
    /\ IF Complete(file)
       THEN /\ mem' = [mem EXCEPT ![w] = [d |-> file.chunks[1].d, leak |-> file.chunks[1].leak]]
            \* HEAD: the listing is prepared, only the headers go out: the request is over here (recorded as if rendered)
            /\ out' = [out EXCEPT ![w] = IF HeadOnly(req[w])
                                         THEN [src |-> "cache", d |-> file.chunks[1].d, leak |-> file.chunks[1].leak, at |-> clock]
                                         ELSE [NoOut EXCEPT !.src = "cache"]]
            /\ pc' = [pc EXCEPT ![w] = IF HeadOnly(req[w]) THEN "done" ELSE "render"]
       ELSE /\ pc' = [pc EXCEPT ![w] = "gen"] /\ UNCHANGED <<mem, out>>
    /\ UNCHANGED <<dir, hist, clock, T, file, req, started, wpos>>

\* listdir + build the entries (atomic here; the per-entry loop is module Dir)
Gen(w) ==
    /\ pc[w] = "gen"
    /\ mem' = [mem EXCEPT ![w] = [d |-> dir, leak |-> FALSE]]
    \* HEAD never reaches getdirlist(): the regenerated listing is neither saved nor rendered
    /\ out' = [out EXCEPT ![w] = IF HeadOnly(req[w]) THEN [src |-> "gen", d |-> dir, leak |-> FALSE, at |-> clock]
                                 ELSE [NoOut EXCEPT !.src = "gen"]]
    /\ pc' = [pc EXCEPT ![w] = IF HeadOnly(req[w]) THEN "done" ELSE "save_open"]
    /\ UNCHANGED <<dir, hist, clock, T, file, req, started, wpos>>

\* savecache(): open(..., "wb") truncates in place (InPlaceWriter, SaveEvenIfZero)
SaveOpen(w) ==
    /\ pc[w] = "save_open"
    /\ file' = [exists |-> TRUE, mtime |-> clock, chunks |-> <<>>, zero |-> FALSE]
    /\ wpos' = [wpos EXCEPT ![w] = 0]
    /\ pc' = [pc EXCEPT ![w] = "save_write"]
    /\ UNCHANGED <<dir, hist, clock, T, mem, req, started, out>>

\* each writer has its own file offset (SaveBeforeRender: mem[w].leak is still FALSE here)
SaveWrite(w) ==
    /\ pc[w] = "save_write"
    /\ LET c == [d |-> mem[w].d, k |-> wpos[w] + 1, leak |-> mem[w].leak] IN
       file' = [file EXCEPT !.exists = TRUE, !.mtime = clock,
                            !.chunks = WriteAt(file.chunks, wpos[w] + 1, c)]
    /\ wpos' = [wpos EXCEPT ![w] = wpos[w] + 1]
    /\ pc' = [pc EXCEPT ![w] = IF wpos[w] + 1 = Full THEN "render" ELSE "save_write"]
    /\ UNCHANGED <<dir, hist, clock, T, mem, req, started, out>>

\* writedir(): the protocol renders the in-memory entries; Gopher+ rewrites MIME types in place
Render(w) ==
    /\ pc[w] = "render"
    /\ out' = [out EXCEPT ![w] = [src |-> out[w].src, d |-> mem[w].d, leak |-> mem[w].leak, at |-> clock]]
    /\ mem' = [mem EXCEPT ![w].leak = (mem[w].leak \/ req[w] \in {"GP", "GD"})]
    /\ pc' = [pc EXCEPT ![w] = "done"]
    /\ UNCHANGED <<dir, hist, clock, T, file, req, started, wpos>>

Finish(w) ==
    /\ pc[w] = "done" /\ pc' = [pc EXCEPT ![w] = "idle"]
    /\ UNCHANGED <<dir, hist, clock, T, file, mem, req, started, out, wpos>>

WorkerStep(w) == Probe(w) \/ Load(w) \/ Gen(w) \/ SaveOpen(w) \/ SaveWrite(w) \/ Render(w) \/ Finish(w)

--------------------------------------------------------------------------------
(* Properties (state predicates over a finished request) *)

Done(w) == pc[w] = "done"

\* C10: every listing reflects the directory as it was at most the lifetime ago (lifetime 0: now)
NeverStale == \A w \in Workers : Done(w) => ReflectsRecent(hist, out[w].d, started[w], out[w].at, T)

\* C10: what one protocol did while rendering never shows in what another protocol is served
NoLeak == \A w \in Workers : Done(w) => ~out[w].leak

\* C10: lifetime 0 means the cache is never used
ZeroMeansLive == \A w \in Workers : (Done(w) /\ T = 0) => out[w].src = "gen"

\* C11/C14: a complete answer whatever is on disk (never an error or a partial listing):
\* in this model a request always reaches "done" with some directory value; Load refuses
\* anything but a complete, homogeneous file
OnlyCompleteLoads == \A w \in Workers : (Done(w) /\ out[w].src = "cache") =>
                        \E i \in 1..Len(hist) : hist[i].d = out[w].d

\* action property C10: serving from the cache never refreshes its age
NoRefreshStep == \A w \in Workers : (pc[w] = "load" /\ pc'[w] = "render") => file' = file
=============================================================================
