SPECIFICATION Spec
CONSTANTS
  MaxLen = 2
  ComboIds <- AllIds
INVARIANT Inert
INVARIANT TwinInert
INVARIANT ContentPrefixed
INVARIANT NoHeaderSite
INVARIANT IdsUnique
CHECK_DEADLOCK FALSE
