SPECIFICATION Spec
CONSTANTS
  MaxLen = 2
  MaxEnc = 1
  ComboIds <- AllIds
INVARIANT Inert
INVARIANT TwinInert
INVARIANT ContentPrefixed
INVARIANT NoHeaderSite
INVARIANT IdsUnique
INVARIANT LiteralUnreachable
CHECK_DEADLOCK FALSE
